(** Pointer-level model of the hash table (HashLinksModel.v), part 1: memory
    laws, the representation relation ([seg] / [spells] for one chain, [brel]
    for a bucket, [trel] for a table), frame lemmas, the decoder [l_chain],
    the simulation relation [sim] on results, and the simulation of the
    internal functions of hash.c that move nodes between chains:
    cstl_clean_bucket, __cstl_hash_rehash, cstl_hash_rehash,
    cstl_hash_get_bucket. *)
From Cstl Require Import Prelude AllocModel HashModel HashProofs HashInv HashOps HashLinksModel.
Local Open Scope N_scope.

(** * The trie *)
Lemma cgss {A} p : forall (m : ctrie A) x, cget (cset m p x) p = Some x.
Proof. induction p as [p IH|p IH|]; intros [|l v r] x; cbn; auto. Qed.

Lemma cgso {A} p : forall (m : ctrie A) q x, p <> q -> cget (cset m p x) q = cget m q.
Proof.
  induction p as [p IH|p IH|]; intros [|l v r] [q|q|] x H; cbn; auto; try congruence;
    try (rewrite IH by congruence; auto); destruct q; reflexivity.
Qed.

Lemma rd_wr_same m e v : rd (wr m e v) e = Some v.
Proof. unfold rd, wr, cell_of. now rewrite cgss. Qed.

Lemma rd_wr_other m e v x : e <> x -> rd (wr m e v) x = rd m x.
Proof.
  intros H. unfold rd, wr, cell_of. rewrite cgso; auto.
  intros E. apply SuccNat2Pos.inj in E. auto.
Qed.

Lemma rd_release_same m e : rd (release m e) e = None.
Proof. unfold rd, release, cell_of. now rewrite cgss. Qed.

Lemma rd_release_other m e x : e <> x -> rd (release m e) x = rd m x.
Proof.
  intros H. unfold rd, release, cell_of. rewrite cgso; auto.
  intros E. apply SuccNat2Pos.inj in E. auto.
Qed.

Lemma rd_init e : rd CLeaf e = None.
Proof. reflexivity. Qed.

(** * Chains *)

(** the [next] links lead from the pointer [h] through exactly the nodes [l],
    in this order, to the pointer [t] *)
Fixpoint seg (m : mem) (h : option nat) (l : list nat) (t : option nat) : Prop :=
  match l with
  | [] => h = t
  | e :: r => h = Some e /\ exists nn, rd m e = Some nn /\ seg m nn r t
  end.

(** ... to NULL: the head pointer [h] and the links spell the chain [l] *)
Definition spells (m : mem) (h : option nat) (l : list nat) : Prop := seg m h l None.

(** cells outside [T] are read as before *)
Definition frame (T : list nat) (m m' : mem) : Prop := forall x, ~ In x T -> rd m' x = rd m x.

Lemma frame_refl T m : frame T m m.
Proof. intros x _. reflexivity. Qed.

Lemma frame_trans T m1 m2 m3 : frame T m1 m2 -> frame T m2 m3 -> frame T m1 m3.
Proof. intros H1 H2 x Hx. rewrite H2, H1; auto. Qed.

Lemma frame_mono T T' m m' : incl T T' -> frame T m m' -> frame T' m m'.
Proof. intros Hi H x Hx. apply H. intros Hc. apply Hx. auto. Qed.

Lemma frame_wr T m e v : In e T -> frame T m (wr m e v).
Proof. intros He x Hx. apply rd_wr_other. intros ->. auto. Qed.

Lemma frame_release T m e : In e T -> frame T m (release m e).
Proof. intros He x Hx. apply rd_release_other. intros ->. auto. Qed.

Lemma seg_ext m m' h l t : (forall x, In x l -> rd m' x = rd m x) -> seg m h l t -> seg m' h l t.
Proof.
  revert h. induction l as [|e r IH]; intros h Hx; simpl; auto.
  intros (-> & nn & Hr & Hs). split; auto. exists nn. split.
  - rewrite Hx; auto. now left.
  - apply IH; auto. intros x Hin. apply Hx. now right.
Qed.

Lemma seg_frame T m m' h l t :
  frame T m m' -> (forall x, In x l -> ~ In x T) -> seg m h l t -> seg m' h l t.
Proof. intros F D. apply seg_ext. intros x Hx. apply F. auto. Qed.

Lemma seg_wr m h l t e v : ~ In e l -> seg m h l t -> seg (wr m e v) h l t.
Proof. intros H. apply seg_ext. intros x Hx. apply rd_wr_other. intros ->. auto. Qed.

Lemma seg_release m h l t e : ~ In e l -> seg m h l t -> seg (release m e) h l t.
Proof. intros H. apply seg_ext. intros x Hx. apply rd_release_other. intros ->. auto. Qed.

Lemma seg_app m h l1 l2 t : seg m h (l1 ++ l2) t <-> exists mid, seg m h l1 mid /\ seg m mid l2 t.
Proof.
  revert h. induction l1 as [|e r IH]; intros h; simpl.
  - split; [intros H; eauto|intros (mid & -> & H); auto].
  - split.
    + intros (-> & nn & Hr & Hs). apply IH in Hs. destruct Hs as (mid & H1 & H2).
      exists mid. split; auto. split; auto. eauto.
    + intros (mid & (-> & nn & Hr & H1) & H2). split; auto. exists nn. split; auto.
      apply IH. eauto.
Qed.

(** the head pointer is determined by the list *)
Lemma seg_head m h l t : seg m h l t -> h = match l with [] => t | e :: _ => Some e end.
Proof. destruct l; simpl; intuition. Qed.

Lemma spells_head m h l : spells m h l -> h = hd_error l.
Proof. intros H. apply seg_head in H. destruct l; auto. Qed.

Lemma spells_nil m h : spells m h [] <-> h = None.
Proof. reflexivity. Qed.

Lemma spells_cons m h e r : spells m h (e :: r) <-> h = Some e /\ exists nn, rd m e = Some nn /\ spells m nn r.
Proof. reflexivity. Qed.

(** every node of a chain can be read, and reads its successor in the list *)
Lemma seg_rd m h l t e : seg m h l t -> In e l -> exists nn, rd m e = Some nn.
Proof.
  revert h. induction l as [|x r IH]; intros h H Hin; [destruct Hin|].
  destruct H as (-> & nn & Hr & Hs). destruct Hin as [<-|Hin]; eauto.
Qed.

(** ** the decoder: a spelled chain is what a bounded walk finds, and conversely *)
Lemma l_chain_spells m l : forall fuel h, spells m h l -> (length l <= fuel)%nat -> l_chain fuel m h = Some l.
Proof.
  induction l as [|e r IH]; intros fuel h H Hf.
  - apply spells_nil in H. subst. destruct fuel; reflexivity.
  - destruct H as (-> & nn & Hr & Hs). destruct fuel as [|fu]; [simpl in Hf; lia|].
    simpl. rewrite Hr. rewrite (IH fu nn Hs); auto. simpl in Hf. lia.
Qed.

Lemma l_chain_sound m : forall fuel h l, l_chain fuel m h = Some l -> spells m h l.
Proof.
  induction fuel as [|fu IH]; intros [e|] l H; simpl in H; try discriminate.
  - injection H as <-. reflexivity.
  - destruct (rd m e) as [nn|] eqn:Er; [|discriminate].
    destruct (l_chain fu m nn) as [r|] eqn:Ec; [|discriminate]. injection H as <-.
    split; auto. exists nn. split; auto. apply IH; auto.
  - injection H as <-. reflexivity.
Qed.

(** * Buckets and tables *)
Definition brel (m : mem) (b : bucket) (lb : lbucket) : Prop :=
  lbit lb = bbit b /\ spells m (hd lb) (chain b).

Record trel (m : mem) (t : table) (lt : ltable) : Prop := mkTrel {
  tr_at : l_at lt = at_blk t;
  tr_bcount : l_bcount lt = bcount t;
  tr_cap : l_cap lt = cap t;
  tr_hash : l_hash lt = hash t;
  tr_cst : l_cst lt = cst t;
  tr_rcount : l_rcount lt = rcount t;
  tr_rclean : l_rclean lt = rclean t;
  tr_rhash : l_rhash lt = rhash t;
  tr_size : l_size lt = size t;
  tr_bks : Forall2 (brel m) (bks t) (lbks lt)
}.

(** rewrite the scalar fields of the pointer-level table into those of the
    functional one *)
Ltac trel_rw H :=
  rewrite ?(tr_at _ _ _ H), ?(tr_bcount _ _ _ H), ?(tr_cap _ _ _ H), ?(tr_hash _ _ _ H),
    ?(tr_cst _ _ _ H), ?(tr_rcount _ _ _ H), ?(tr_rclean _ _ _ H), ?(tr_rhash _ _ _ H), ?(tr_size _ _ _ H).

Lemma trel_init m : trel m t_init lt_init.
Proof. split; simpl; auto. Qed.

Lemma trel_skel m t lt : trel m t lt -> skel lt = set_bks t [].
Proof. intros H. unfold skel, set_bks. trel_rw H. reflexivity. Qed.

Lemma lfuel_trel m t lt : trel m t lt -> lfuel lt = S (N.to_nat (size t)).
Proof. intros H. unfold lfuel. now trel_rw H. Qed.

(** ** Forall2 over indexed families *)
Lemma Forall2_len {A B} (R : A -> B -> Prop) l l' : Forall2 R l l' -> length l = length l'.
Proof. induction 1; simpl; auto. Qed.

Lemma NoDup_app_disj {A} (a b : list A) x : NoDup (a ++ b) -> In x a -> In x b -> False.
Proof.
  induction a as [|y a IH]; simpl; intros Nd Ha Hb; [destruct Ha|].
  inversion Nd as [|? ? Hn Nd']; subst. destruct Ha as [<-|Ha]; [|eauto].
  apply Hn. apply in_or_app. now right.
Qed.

Lemma Forall2_nth {A B} (R : A -> B -> Prop) l l' i x :
  Forall2 R l l' -> nth_error l i = Some x -> exists y, nth_error l' i = Some y /\ R x y.
Proof.
  intros H. revert i. induction H as [|a b l l' Hab H IH]; intros [|i] E; simpl in *; try discriminate.
  - injection E as <-. eauto.
  - eauto.
Qed.

Lemma Forall2_nth_none {A B} (R : A -> B -> Prop) l l' i :
  Forall2 R l l' -> nth_error l i = None -> nth_error l' i = None.
Proof.
  intros H E. apply nth_error_None. apply nth_error_None in E.
  now rewrite <- (Forall2_len _ _ _ H).
Qed.

Lemma Forall2_upd {A B} (R : A -> B -> Prop) l l' i x y :
  Forall2 R l l' -> R x y -> Forall2 R (upd l i x) (upd l' i y).
Proof.
  intros H Hxy. revert i. induction H as [|a b l l' Hab H IH]; intros [|i]; simpl; auto.
Qed.

Lemma Forall2_firstn {A B} (R : A -> B -> Prop) l l' n :
  Forall2 R l l' -> Forall2 R (firstn n l) (firstn n l').
Proof.
  intros H. revert n. induction H as [|a b l l' Hab H IH]; intros [|n]; simpl; auto.
Qed.

Lemma Forall2_repeat {A B} (R : A -> B -> Prop) x y n : R x y -> Forall2 R (repeat x n) (repeat y n).
Proof. intros H. induction n; simpl; auto. Qed.

Lemma Forall2_in_l {A B} (R : A -> B -> Prop) l l' x :
  Forall2 R l l' -> In x l -> exists y, In y l' /\ R x y.
Proof.
  intros H. induction H as [|a b l l' Hab H IH]; intros Hin; [destruct Hin|].
  destruct Hin as [<-|Hin]; [exists b; split; auto; now left|].
  destruct (IH Hin) as (y & Hy & Hr). exists y. split; auto. now right.
Qed.

(** ** frames on buckets and tables *)
Lemma brel_frame T m m' b lb :
  frame T m m' -> (forall x, In x (chain b) -> ~ In x T) -> brel m b lb -> brel m' b lb.
Proof. intros F D (E & S). split; auto. eapply seg_frame; eauto. Qed.

Lemma bks_frame T m m' bs lbs :
  frame T m m' -> (forall x, In x (lv bs) -> ~ In x T) -> Forall2 (brel m) bs lbs -> Forall2 (brel m') bs lbs.
Proof.
  intros F D H. induction H as [|b lb bs lbs Hb H IH]; constructor.
  - eapply brel_frame; eauto. intros x Hx. apply D. rewrite lv_cons. apply in_or_app. now left.
  - apply IH. intros x Hx. apply D. rewrite lv_cons. apply in_or_app. now right.
Qed.

Lemma trel_frame T m m' t lt :
  frame T m m' -> (forall x, In x (live t) -> ~ In x T) -> trel m t lt -> trel m' t lt.
Proof.
  intros F D H. destruct H. split; auto. eapply bks_frame; eauto.
Qed.

Lemma bks_wr m e v bs lbs : ~ In e (lv bs) -> Forall2 (brel m) bs lbs -> Forall2 (brel (wr m e v)) bs lbs.
Proof.
  intros Hn. apply (bks_frame [e]); [apply frame_wr; now left|].
  intros x Hx [<-|[]]. auto.
Qed.

Lemma bks_release m e bs lbs : ~ In e (lv bs) -> Forall2 (brel m) bs lbs -> Forall2 (brel (release m e)) bs lbs.
Proof.
  intros Hn. apply (bks_frame [e]); [apply frame_release; now left|].
  intros x Hx [<-|[]]. auto.
Qed.

Lemma trel_release m e t lt : ~ In e (live t) -> trel m t lt -> trel (release m e) t lt.
Proof.
  intros Hn. apply (trel_frame [e]); [apply frame_release; now left|].
  intros x Hx [<-|[]]. auto.
Qed.

(** the elements of one bucket are live *)
Lemma chain_lv bs i b x : nth_error bs i = Some b -> In x (chain b) -> In x (lv bs).
Proof. intros H Hx. apply in_lv. eauto. Qed.

(** * Simulation of results *)

(** the pointer-level computation [lr] does what the functional one [r]
    does: same work log and related values on normal return, abort when it
    aborts.  Nothing is claimed when the functional model faults: from a
    state satisfying the invariant it never does (C03_step_refines). *)
Definition sim {A B} (R : A -> B -> Prop) (r : res A) (lr : res B) : Prop :=
  match r with
  | Ok a w => exists b, lr = Ok b w /\ R a b
  | RAbort => lr = RAbort
  | RFault => True
  end.

Lemma sim_bind {A B A' B'} (R : A -> B -> Prop) (Q : A' -> B' -> Prop) r lr f g :
  sim R r lr -> (forall a b, R a b -> sim Q (f a) (g b)) -> sim Q (bind r f) (bind lr g).
Proof.
  unfold sim, bind. destruct r as [a w| |]; auto.
  - intros (b & -> & Hab) H. specialize (H a b Hab).
    destruct (f a) as [a' w'| |]; auto.
    + destruct H as (b' & -> & Hq). eauto.
    + now rewrite H.
  - intros -> _. reflexivity.
Qed.

(** both sides start with the same computation *)
Lemma sim_bind_same {A A' B'} (Q : A' -> B' -> Prop) (r : res A) f g :
  (forall a, sim Q (f a) (g a)) -> sim Q (bind r f) (bind r g).
Proof.
  intros H. apply sim_bind with (R := eq).
  - unfold sim. destruct r; eauto.
  - intros a b <-. auto.
Qed.

Lemma sim_imp {A B} (R R' : A -> B -> Prop) r lr :
  sim R r lr -> (forall a b, R a b -> R' a b) -> sim R' r lr.
Proof. unfold sim. destruct r; auto. intros (b & E & H) Hi. eauto. Qed.

Lemma sim_ok {A B} (R : A -> B -> Prop) a b w : R a b -> sim R (Ok a w) (Ok b w).
Proof. intros H. exists b. auto. Qed.

(** * Functional facts that need no invariant *)

(** what a table must satisfy for its chains to be walked within [lfuel]
    and for its nodes to be told apart *)
Definition good (t : table) : Prop := NoDup (live t) /\ (length (live t) <= N.to_nat (size t))%nat.

(** same nodes, same size field *)
Definition keepl (t t' : table) : Prop := Permutation (live t') (live t) /\ size t' = size t.

Lemma keepl_refl t : keepl t t.
Proof. split; auto. Qed.

Lemma keepl_trans t u v : keepl t u -> keepl u v -> keepl t v.
Proof. intros (P1 & S1) (P2 & S2). split; [now rewrite P2|congruence]. Qed.

Lemma good_keepl t t' : good t -> keepl t t' -> good t'.
Proof.
  intros (Nd & Sz) (P & S). split.
  - eapply Permutation_NoDup; [symmetry; exact P|auto].
  - rewrite (Permutation_length P), S. auto.
Qed.

Lemma keepl_in t t' x : keepl t t' -> (In x (live t') <-> In x (live t)).
Proof. intros (P & _). split; apply Permutation_in; auto. now symmetry. Qed.

Lemma frame_keepl t t' m m' : keepl t t' -> frame (live t') m m' -> frame (live t) m m'.
Proof. intros K F x Hx. apply F. intros Hc. apply Hx. apply (keepl_in _ _ _ K). auto. Qed.

Lemma chain_length_good t i b :
  good t -> nth_error (bks t) i = Some b -> (length (chain b) <= N.to_nat (size t))%nat.
Proof.
  intros (_ & Sz) Hb. destruct (lv_upd (bks t) i b b Hb) as (l1 & l2 & E & _).
  rewrite live_lv, E, !app_length in Sz. lia.
Qed.

Section Sim.
  Variable hf : fn_id -> N -> N -> option N.
  Variable key : nat -> N.

  Notation bucket_raw := (bucket_raw hf).
  Notation reinsert := (reinsert hf key).
  Notation clean_bucket := (clean_bucket hf key).
  Notation sweep := (sweep hf key).
  Notation rehash_n := (rehash_n hf key).
  Notation rehash := (rehash hf key).
  Notation get_bucket := (get_bucket hf key).

  (** ** the loop of cstl_clean_bucket *)

  Lemma l_reinsert_sim l : forall fuel m cur f cnt bs lbs,
    spells m cur l -> Forall2 (brel m) bs lbs -> NoDup (l ++ lv bs) -> (length l <= fuel)%nat ->
    sim (fun bs' p => Forall2 (brel (fst p)) bs' (snd p) /\ frame l m (fst p) /\
                      Permutation (lv bs') (l ++ lv bs))
        (reinsert l f cnt bs) (l_reinsert hf key fuel m cur f cnt lbs).
  Proof.
    induction l as [|e r IH]; intros fuel m cur f cnt bs lbs Hs Hb Nd Hf.
    - apply spells_nil in Hs. subst cur.
      destruct fuel; cbn [HashModel.reinsert l_reinsert]; apply sim_ok; simpl;
        (split; [auto|split; [apply frame_refl|auto]]).
    - destruct Hs as (-> & nn & Hr & Hs). destruct fuel as [|fu]; [simpl in Hf; lia|].
      cbn [HashModel.reinsert l_reinsert]. rewrite Hr.
      apply sim_bind_same. intros j.
      destruct (nth_error bs j) as [b|] eqn:Ej; [|exact I].
      destruct (Forall2_nth _ _ _ _ _ Hb Ej) as (lb & Elb & Hbit & Hsp). rewrite Elb.
      simpl in Nd. inversion Nd as [|? ? Hne Nd']; subst.
      assert (He_r : ~ In e r) by (intros H; apply Hne; apply in_or_app; now left).
      assert (He_bs : ~ In e (lv bs)) by (intros H; apply Hne; apply in_or_app; now right).
      set (bs1 := upd bs j (mkB (e :: chain b) (bbit b))).
      set (m1 := wr m e (hd lb)).
      assert (P1 : Permutation (lv bs1) (e :: lv bs)) by (apply lv_upd_cons; auto).
      assert (Hb1 : Forall2 (brel m1) bs1 (upd lbs j (mkLB (Some e) (lbit lb)))).
      { apply Forall2_upd; [apply bks_wr; auto|].
        split; [exact Hbit|]. simpl. split; auto. exists (hd lb). split; [apply rd_wr_same|].
        apply seg_wr; auto. intros H. apply He_bs. eapply chain_lv; eauto. }
      assert (Nd1 : NoDup (r ++ lv bs1)).
      { eapply Permutation_NoDup; [|exact Nd].
        rewrite P1. apply Permutation_middle. }
      specialize (IH fu m1 nn f cnt bs1 _ (seg_wr _ _ _ _ _ _ He_r Hs) Hb1 Nd1 ltac:(simpl in Hf; lia)).
      eapply sim_imp; [exact IH|].
      intros bs' [m' lbs'] (H1 & H2 & H3). simpl in *. split; auto. split.
      + eapply frame_trans; [apply (frame_wr (e :: r)); now left|].
        eapply frame_mono; [|exact H2]. intros x Hx. now right.
      + rewrite H3, P1. symmetry. apply Permutation_middle.
  Qed.

  (** ** cstl_clean_bucket *)

  Definition tpost (m : mem) (t : table) (t' : table) (p : mem * ltable) : Prop :=
    trel (fst p) t' (snd p) /\ frame (live t) m (fst p) /\ keepl t t'.

  Lemma l_clean_bucket_sim m t lt i :
    trel m t lt -> good t ->
    sim (tpost m t) (clean_bucket t i) (l_clean_bucket hf key m lt i).
  Proof.
    intros H G. unfold HashModel.clean_bucket, l_clean_bucket.
    destruct (nth_error (bks t) i) as [b|] eqn:Eb; [|exact I].
    destruct (Forall2_nth _ _ _ _ _ (tr_bks _ _ _ H) Eb) as (lb & Elb & Hbit & Hsp). rewrite Elb.
    trel_rw H. rewrite Hbit.
    destruct (Bool.eqb (cst t) (bbit b)).
    { apply sim_ok. split; [exact H|]. split; [apply frame_refl|apply keepl_refl]. }
    set (bs0 := upd (bks t) i (mkB [] (bbit b))).
    assert (P0 : Permutation (chain b ++ lv bs0) (live t)) by (apply lv_upd_detach; auto).
    destruct G as (Nd & Sz).
    assert (Hd0 : forall x, In x (lv bs0) -> ~ In x (chain b)).
    { intros x Hx Hc. assert (Nd0 : NoDup (chain b ++ lv bs0)).
      { eapply Permutation_NoDup; [symmetry; exact P0|exact Nd]. }
      eapply NoDup_app_disj; eauto. }
    assert (Hb0 : Forall2 (brel m) bs0 (upd (lbks lt) i (mkLB None (bbit b)))).
    { apply Forall2_upd; [apply (tr_bks _ _ _ H)|]. split; reflexivity. }
    assert (Nd0 : NoDup (chain b ++ lv bs0)).
    { eapply Permutation_NoDup; [symmetry; exact P0|exact Nd]. }
    assert (Hf : (length (chain b) <= lfuel lt)%nat).
    { rewrite (lfuel_trel _ _ _ H). pose proof (chain_length_good t i b (conj Nd Sz) Eb). lia. }
    eapply sim_bind; [apply (l_reinsert_sim (chain b) _ m (hd lb) _ _ bs0 _ Hsp Hb0 Nd0 Hf)|].
    intros bs [m1 lbs] (H1 & H2 & H3). simpl in H1, H2.
    destruct (nth_error bs i) as [b'|] eqn:Eb'; [|exact I].
    destruct (Forall2_nth _ _ _ _ _ H1 Eb') as (lb' & Elb' & Hbit' & Hsp'). rewrite Elb'.
    apply sim_ok. unfold tpost. simpl.
    assert (Pl : Permutation (lv (upd bs i (mkB (chain b') (cst t)))) (live t)).
    { rewrite (lv_upd_bit bs i b' (cst t) Eb'), H3. exact P0. }
    split; [|split].
    - destruct H. split; simpl; auto.
      apply Forall2_upd; auto. split; auto.
    - eapply frame_mono; [|exact H2]. intros x Hx. rewrite live_lv.
      eapply chain_lv; eauto.
    - split; auto.
  Qed.
  Lemma tpost_refl m t lt : trel m t lt -> tpost m t t (m, lt).
  Proof. intros H. split; [exact H|]. split; [apply frame_refl|apply keepl_refl]. Qed.

  Lemma tpost_trans m t t1 m1 lt1 t' p :
    tpost m t t1 (m1, lt1) -> tpost m1 t1 t' p -> tpost m t t' p.
  Proof.
    intros (H1 & F1 & K1) (H2 & F2 & K2). simpl in *. split; [exact H2|]. split.
    - eapply frame_trans; [exact F1|]. eapply frame_keepl; eauto.
    - eapply keepl_trans; eauto.
  Qed.

  (** ** __cstl_hash_rehash *)

  Lemma trel_set_rclean m t lt c : trel m t lt -> trel m (set_rclean t c) (set_lrclean lt c).
  Proof. intros H. destruct H. split; simpl; auto. Qed.

  Lemma keepl_set_rclean t c : keepl t (set_rclean t c).
  Proof. split; reflexivity. Qed.

  Lemma l_skip_clean_sim fuel : forall m t lt,
    trel m t lt ->
    sim (fun t' lt' => trel m t' lt' /\ keepl t t') (skip_clean fuel t) (l_skip_clean fuel lt).
  Proof.
    induction fuel as [|fu IH]; intros m t lt H; cbn [HashModel.skip_clean l_skip_clean].
    - apply sim_ok. split; [exact H|apply keepl_refl].
    - trel_rw H. destruct (rclean t <? bcount t); [|apply sim_ok; split; [exact H|apply keepl_refl]].
      destruct (nth_error (bks t) (N.to_nat (rclean t))) as [b|] eqn:Eb; [|exact I].
      destruct (Forall2_nth _ _ _ _ _ (tr_bks _ _ _ H) Eb) as (lb & Elb & Hbit & _). rewrite Elb, Hbit.
      destruct (Bool.eqb (bbit b) (cst t)); [|apply sim_ok; split; [exact H|apply keepl_refl]].
      eapply sim_imp; [apply (IH m); apply trel_set_rclean; exact H|].
      intros t' lt' (H' & K'). split; [exact H'|exact K'].
  Qed.

  Lemma l_sweep_sim fuel : forall n m t lt,
    trel m t lt -> good t ->
    sim (tpost m t) (sweep fuel n t) (l_sweep hf key fuel n m lt).
  Proof.
    induction fuel as [|fu IH]; intros n m t lt H G; cbn [HashModel.sweep l_sweep].
    - apply sim_ok. apply tpost_refl; auto.
    - trel_rw H. destruct ((rclean t <? bcount t) && (0 <? n)); [|apply sim_ok; apply tpost_refl; auto].
      eapply sim_bind; [apply l_clean_bucket_sim; eauto|].
      intros t1 [m1 lt1] P1. pose proof P1 as (H1 & F1 & K1). simpl in H1, F1.
      trel_rw H1.
      eapply sim_imp; [apply (IH (n - 1) m1 (set_rclean t1 (rclean t1 + 1))); [apply trel_set_rclean; exact H1|]|].
      + eapply good_keepl; [|apply keepl_set_rclean]. eapply good_keepl; eauto.
      + intros t' p P'. eapply tpost_trans; [exact P1|].
        destruct P' as (H' & F' & K'). split; [exact H'|]. split; [exact F'|].
        eapply keepl_trans; [apply keepl_set_rclean|exact K'].
  Qed.

  Lemma trel_finish m t lt : trel m t lt -> trel m (finish t) (l_finish lt).
  Proof.
    intros H. unfold finish, l_finish. trel_rw H. destruct (bcount t <=? rclean t); auto.
    destruct H. split; simpl; auto.
  Qed.

  Lemma keepl_finish t : keepl t (finish t).
  Proof. unfold finish. destruct (bcount t <=? rclean t); split; reflexivity. Qed.

  Lemma l_rehash_n_sim m t lt n :
    trel m t lt -> good t ->
    sim (tpost m t) (rehash_n t n) (l_rehash_n hf key m lt n).
  Proof.
    intros H G. unfold HashModel.rehash_n, l_rehash_n. trel_rw H.
    eapply sim_bind; [apply (l_skip_clean_sim _ m); exact H|].
    intros t1 lt1 (H1 & K1). trel_rw H1.
    eapply sim_bind; [apply l_sweep_sim; [exact H1|eapply good_keepl; eauto]|].
    intros t2 [m2 lt2] (H2 & F2 & K2). simpl in H2, F2.
    apply sim_ok. split; [apply trel_finish; exact H2|]. simpl. split.
    - eapply frame_keepl; eauto.
    - eapply keepl_trans; [exact K1|]. eapply keepl_trans; [exact K2|apply keepl_finish].
  Qed.

  (** ** cstl_hash_rehash *)
  Lemma l_rehash_sim m t lt :
    trel m t lt -> good t ->
    sim (tpost m t) (rehash t) (l_rehash hf key m lt).
  Proof.
    intros H G. unfold HashModel.rehash, l_rehash. trel_rw H.
    destruct (rhash t); [apply l_rehash_n_sim; auto|apply sim_ok; apply tpost_refl; auto].
  Qed.

  (** ** cstl_hash_get_bucket *)
  Definition gpost (m : mem) (t : table) (p : table * nat) (q : mem * ltable * nat) : Prop :=
    snd q = snd p /\ tpost m t (fst p) (fst q).

  Lemma l_get_bucket_sim m t lt k :
    trel m t lt -> good t ->
    sim (gpost m t) (get_bucket t k) (l_get_bucket hf key m lt k).
  Proof.
    intros H G. unfold HashModel.get_bucket, l_get_bucket. trel_rw H.
    apply sim_bind_same. intros i.
    destruct (rhash t) as [g|]; [|apply sim_ok; split; [reflexivity|apply tpost_refl; auto]].
    apply sim_bind_same. intros j.
    eapply sim_bind; [apply l_clean_bucket_sim; eauto|].
    intros t1 [m1 lt1] P1. pose proof P1 as (H1 & F1 & K1). simpl in H1.
    assert (G1 : good t1) by (eapply good_keepl; eauto).
    eapply sim_bind; [apply l_clean_bucket_sim; eauto|].
    intros t2 [m2 lt2] P2. pose proof P2 as (H2 & F2 & K2). simpl in H2.
    assert (G2 : good t2) by (eapply good_keepl; eauto).
    eapply sim_bind; [apply l_rehash_n_sim; eauto|].
    intros t3 [m3 lt3] P3.
    apply sim_ok. split; [reflexivity|]. simpl.
    eapply tpost_trans; [exact P1|]. eapply tpost_trans; [exact P2|exact P3].
  Qed.
End Sim.
