(** C10 — strings equal a reference string and stay NUL-terminated, for the
    narrow and the wide instantiation of the template (character width =
    element size of the underlying vector; nothing below depends on it being
    1 or 4).  Statements only; proofs are in StrProofs.v.  Everything is about
    the repaired code ([v0 = false]; fixes/F8, F9, F10, F12), for every
    allocator oracle [ok]; the code as found is refuted in FindingsVecStr.v.

    Vocabulary: [sabs v] is the reference string of a string object (its
    cells without the terminator), [ssys_ok] the invariant (the vector
    invariant of C09 plus: no callbacks, the cells are [] or end in NUL),
    [grow_fails ok al v n]: growth to n characters cannot be satisfied — n+1
    is not representable, or the vector refuses n+1 cells because the byte
    count is not representable or the allocation fails. *)
From Cstl Require Import Prelude AllocModel VectorModel VectorProofs StrModel StrProofs.
Local Open Scope N_scope.

Section C10.
  Variable ok : nat -> N -> bool.
  Notation sstep := (StrModel.sstep ok false).

  (** Every operation, from a state satisfying the invariant, with size_t
      arguments: the invariant is re-established and the reference strings
      change exactly as the reference semantics [sspec] says (set, insert,
      append - including append_str_n, which appends exactly n characters of
      its source -, erase, substr, resize, reserve, swap, clear;
      at/at_const/find/compare return what the list-level specifications
      say; data is NULL only for a string without storage and otherwise the
      start of the live block where the reference string followed by NUL is
      read); nothing faults; an abort happens exactly in the situations
      [sabort] lists. *)
  Theorem C10_step_refines s o :
    ssys_ok s -> op_small o ->
    match sstep s o with
    | Done s' out => ssys_ok s' /\ sspec s o s' out
    | Precond => True
    | Abort => sabort ok s o
    | Fault => False
    end.
  Proof. exact (sstep_ok ok s o). Qed.

  (** no script with size_t arguments, however long, faults *)
  Theorem C10_run_never_faults w n ops :
    1 <= w -> Forall op_small ops ->
    match fst (run sstep (str_init w n) ops) with
    | Done s _ => ssys_ok s
    | Fault => False
    | _ => True
    end.
  Proof. intros Hw F. apply srun_safe; auto. apply ssys_ok_init; auto. Qed.

  (** str() is always the reference string followed by NUL, and the
      terminator is a cell of the live block *)
  Theorem C10_nul_terminated s i v :
    ssys_ok s -> nth_error (vecs s) i = Some v ->
    s_view false (heap s) v = Ok (sabs v ++ [NUL]) /\
    N.to_nat (s_size v) = length (sabs v) /\
    (0 < count v -> elems v = sabs v ++ [NUL] /\ count v = s_size v + 1 /\
                    slot (heap s) v (s_size v) = Some (N.to_nat (s_size v))).
  Proof. exact (str_terminated s i v). Qed.

  (** insertion: aborts iff the position is beyond the end or the growth
      cannot be satisfied (decided before anything is written); otherwise
      the characters are inserted at the position *)
  Theorem C10_insert_ch al v pos cnt ch :
    alloc_ok al -> no_bad_free al -> str_ok al v -> pos < W64 -> cnt < W64 ->
    match insert_ch ok false al v pos cnt ch with
    | Ok (al', v') =>
      pos <= s_size v /\ (0 < cnt -> ~ grow_fails ok al v (s_size v + cnt)) /\
      alloc_ok al' /\ no_bad_free al' /\ str_ok al' v' /\ heap_frame al al' (base v) (base v') /\
      esize v' = esize v /\
      sabs v' = firstn (N.to_nat pos) (sabs v) ++ repeat ch (N.to_nat cnt) ++ skipn (N.to_nat pos) (sabs v)
    | Abt => s_size v < pos \/ (0 < cnt /\ grow_fails ok al v (s_size v + cnt))
    | Flt => False
    end.
  Proof. exact (insert_ch_spec ok al v pos cnt ch). Qed.

  Theorem C10_insert_str_n al v pos src len :
    alloc_ok al -> no_bad_free al -> str_ok al v -> pos < W64 -> len < W64 ->
    (N.to_nat len <= length src)%nat ->
    match insert_str_n ok false al v pos src len with
    | Ok (al', v') =>
      pos <= s_size v /\ (0 < len -> ~ grow_fails ok al v (s_size v + len)) /\
      alloc_ok al' /\ no_bad_free al' /\ str_ok al' v' /\ heap_frame al al' (base v) (base v') /\
      esize v' = esize v /\
      sabs v' = firstn (N.to_nat pos) (sabs v) ++ firstn (N.to_nat len) src ++ skipn (N.to_nat pos) (sabs v)
    | Abt => s_size v < pos \/ (0 < len /\ grow_fails ok al v (s_size v + len))
    | Flt => False
    end.
  Proof. exact (insert_str_n_spec ok al v pos src len). Qed.

  (** in particular a count that makes size + count wrap (every value above
      SIZE_MAX - size, up to 2^64 - 1) aborts *)
  Theorem C10_insert_overflow_aborts al v pos cnt ch :
    alloc_ok al -> no_bad_free al -> str_ok al v -> pos <= s_size v -> pos < W64 -> cnt < W64 ->
    SIZE_MAX - s_size v <= cnt -> 0 < cnt ->
    insert_ch ok false al v pos cnt ch = Abt.
  Proof.
    intros A NB So Hp Hp' Hc Hov Hpos.
    pose proof (insert_ch_spec ok al v pos cnt ch A NB So Hp' Hc) as H.
    destruct (insert_ch ok false al v pos cnt ch) as [[al' v']| |]; auto; [|contradiction].
    destruct H as (_ & NF & _). exfalso. apply (NF Hpos). left. lia.
  Qed.

  (** erase: aborts iff the position is not below the size; a count reaching
      past the end — every value up to 2^64 - 1 — is truncated; never
      allocates *)
  Theorem C10_erase al v pos len :
    alloc_ok al -> no_bad_free al -> str_ok al v -> pos < W64 -> len < W64 ->
    match erase ok false al v pos len with
    | Ok (al', v') =>
      pos < s_size v /\ al' = al /\ base v' = base v /\ str_ok al v' /\ esize v' = esize v /\
      sabs v' = firstn (N.to_nat pos) (sabs v)
                ++ skipn (N.to_nat pos + N.to_nat (N.min len (s_size v - pos))) (sabs v)
    | Abt => s_size v <= pos
    | Flt => False
    end.
  Proof. exact (erase_spec ok al v pos len). Qed.

  (** ... so erasing "to the end" with any count >= size - pos leaves the prefix *)
  Theorem C10_erase_to_end al v pos len :
    alloc_ok al -> no_bad_free al -> str_ok al v -> pos < s_size v -> pos < W64 -> len < W64 ->
    s_size v - pos <= len ->
    exists v', erase ok false al v pos len = Ok (al, v') /\ sabs v' = firstn (N.to_nat pos) (sabs v).
  Proof.
    intros A NB So Hp Hp' Hl Hge.
    pose proof (erase_spec ok al v pos len A NB So Hp' Hl) as H.
    destruct (erase ok false al v pos len) as [[al' v']| |]; [|lia|contradiction].
    destruct H as (_ & -> & _ & _ & _ & E). exists v'. split; auto. rewrite E.
    pose proof (str_size al v So). rewrite skipn_all2 by lia. apply app_nil_r.
  Qed.

  (** substr into a different object *)
  Theorem C10_substr al v pos len sub :
    alloc_ok al -> no_bad_free al -> str_ok al v -> str_ok al sub ->
    (forall b, base v = Some b -> base sub <> Some b) -> pos < W64 -> len < W64 ->
    match substr ok false al v pos len sub with
    | Ok (al', sub') =>
      pos < s_size v /\ ~ grow_fails ok al sub (N.min len (s_size v - pos)) /\
      alloc_ok al' /\ no_bad_free al' /\ str_ok al' sub' /\ heap_frame al al' (base sub) (base sub') /\
      esize sub' = esize sub /\
      sabs sub' = firstn (N.to_nat (N.min len (s_size v - pos))) (skipn (N.to_nat pos) (sabs v))
    | Abt => s_size v <= pos \/ grow_fails ok al sub (N.min len (s_size v - pos))
    | Flt => False
    end.
  Proof. exact (substr_spec ok al v pos len sub). Qed.

  (** resize: the first min(n, size) characters, then NULs; aborts iff the
      growth cannot be satisfied — in particular for n = SIZE_MAX *)
  Theorem C10_resize al v n :
    alloc_ok al -> no_bad_free al -> str_ok al v -> n < W64 ->
    match s_resize ok false al v n with
    | Ok (al', v') =>
      alloc_ok al' /\ no_bad_free al' /\ str_ok al' v' /\ heap_frame al al' (base v) (base v') /\
      esize v' = esize v /\ ~ grow_fails ok al v n /\
      sabs v' = firstn (N.to_nat n) (sabs v) ++ repeat NUL (N.to_nat n - length (sabs v)) /\
      count v' = n + 1
    | Abt => grow_fails ok al v n
    | Flt => False
    end.
  Proof. exact (s_resize_spec ok al v n). Qed.

  Theorem C10_resize_size_max_aborts al v :
    alloc_ok al -> no_bad_free al -> str_ok al v -> s_resize ok false al v SIZE_MAX = Abt.
  Proof.
    intros A NB So. pose proof (s_resize_spec ok al v SIZE_MAX A NB So ltac:(reflexivity)) as H.
    destruct (s_resize ok false al v SIZE_MAX) as [[al' v']| |]; auto; [|contradiction].
    destruct H as (_ & _ & _ & _ & _ & NF & _). exfalso. apply NF. left. lia.
  Qed.

  (** a length whose storage size (n + 2 cells: terminator and scratch) is
      not representable in size_t aborts, whatever the allocator would do *)
  Theorem C10_unrepresentable_storage_aborts al v n :
    alloc_ok al -> no_bad_free al -> str_ok al v -> n < W64 -> W64 <= (n + 2) * esize v ->
    s_resize ok false al v n = Abt.
  Proof.
    intros A NB So Hn Hbig. pose proof (s_resize_spec ok al v n A NB So Hn) as H.
    destruct (s_resize ok false al v n) as [[al' v']| |]; auto; [|contradiction].
    destruct H as (_ & _ & _ & _ & _ & NF & _). exfalso. apply NF.
    destruct So as (V & _). pose proof V as (He & _).
    destruct (N.le_gt_cases SIZE_MAX n) as [Q|Q]; [left; auto|right].
    assert (R : representable (n + 1) (esize v) = false).
    { destruct (representable (n + 1) (esize v)) eqn:R; auto.
      apply representable_spec in R; auto. replace (n + 1 + 1) with (n + 2) in R by lia. lia. }
    split; [|left; auto].
    destruct (option_eq_dec_aux (base v) None) as [B|B].
    - destruct V as (_ & _ & _ & Hb). rewrite B in Hb. lia.
    - pose proof (cap_small al v V B) as Hc.
      assert (cap v + 1 <= n + 1 \/ n + 1 < cap v + 1) as [X|X] by lia; [lia|].
      exfalso. assert ((n + 2) * esize v <= (cap v + 1) * esize v) by (apply N.mul_le_mono_r; lia).
      destruct V as (_ & _ & _ & Hb). destruct (base v); [|congruence].
      destruct Hb as (bs & _ & Hs & Hl). pose proof LIMIT_lt_W64. lia.
  Qed.

  (** reserve never changes the string (a refused reservation is a no-op) *)
  Theorem C10_reserve al v n :
    alloc_ok al -> no_bad_free al -> str_ok al v ->
    match s_reserve ok false al v n with
    | Ok (al', v') =>
      alloc_ok al' /\ no_bad_free al' /\ str_ok al' v' /\ heap_frame al al' (base v) (base v') /\
      esize v' = esize v /\ sabs v' = sabs v /\ count v' = count v /\
      (v' = v \/ cap v' = wrap64 (n + 1))
    | Abt => False
    | Flt => False
    end.
  Proof. exact (s_reserve_spec ok al v n). Qed.


  (** the abort conditions are exact (the specifications above are case
      distinctions on mutually exclusive conditions) *)
  Theorem C10_insert_ch_aborts_iff al v pos cnt ch :
    alloc_ok al -> no_bad_free al -> str_ok al v -> pos < W64 -> cnt < W64 ->
    (insert_ch ok false al v pos cnt ch = Abt <->
     s_size v < pos \/ (0 < cnt /\ grow_fails ok al v (s_size v + cnt))).
  Proof.
    intros A NB So Hp Hc. pose proof (insert_ch_spec ok al v pos cnt ch A NB So Hp Hc) as H.
    destruct (insert_ch ok false al v pos cnt ch) as [[al' v']| |]; split; auto; try discriminate; try contradiction.
    destruct H as (H1 & H2 & _). intros [X|(X1 & X2)]; [lia|]. exfalso. apply (H2 X1 X2).
  Qed.

  Theorem C10_erase_aborts_iff al v pos len :
    alloc_ok al -> no_bad_free al -> str_ok al v -> pos < W64 -> len < W64 ->
    (erase ok false al v pos len = Abt <-> s_size v <= pos).
  Proof.
    intros A NB So Hp Hl. pose proof (erase_spec ok al v pos len A NB So Hp Hl) as H.
    destruct (erase ok false al v pos len) as [[al' v']| |]; split; auto; try discriminate; try contradiction.
    destruct H as (H1 & _). lia.
  Qed.

  Theorem C10_resize_aborts_iff al v n :
    alloc_ok al -> no_bad_free al -> str_ok al v -> n < W64 ->
    (s_resize ok false al v n = Abt <-> grow_fails ok al v n).
  Proof.
    intros A NB So Hn. pose proof (s_resize_spec ok al v n A NB So Hn) as H.
    destruct (s_resize ok false al v n) as [[al' v']| |]; split; auto; try discriminate; try contradiction.
    destruct H as (_ & _ & _ & _ & _ & NF & _). intros X. contradiction.
  Qed.

  (** nothing leaks: in a state satisfying the invariant, once every string
      has been cleared no block is live (and no bad free ever happened) *)
  Theorem C10_no_leak s :
    ssys_ok s ->
    no_bad_free (heap s) /\
    match fst (run (VectorModel.step ok false) s (map Clear (seq 0 (length (vecs s))))) with
    | Done s' _ => live (heap s') = []
    | _ => False
    end.
  Proof.
    intros (Sy & _). split; [apply Sy|]. apply clear_all_no_leak; auto.
  Qed.

  (** at: aborts iff the index is not below the size *)
  Theorem C10_at al v i :
    str_ok al v ->
    match s_at al v i with
    | Ok (off, c) => i < s_size v /\ off = i * esize v /\ c = nth (N.to_nat i) (sabs v) POISON
    | Abt => s_size v <= i
    | Flt => False
    end.
  Proof. exact (s_at_spec al v i). Qed.

  (** at_const is at: same abort condition, same pointer, same character *)
  Theorem C10_at_const al v i :
    str_ok al v ->
    s_at_const al v i = s_at al v i /\
    match s_at_const al v i with
    | Ok (off, c) => i < s_size v /\ off = i * esize v /\ c = nth (N.to_nat i) (sabs v) POISON
    | Abt => s_size v <= i
    | Flt => False
    end.
  Proof. intros So. split; [reflexivity|exact (s_at_const_spec al v i So)]. Qed.

  (** append_str_n(s, str, len): exactly [len] characters of the source
      (NULs included: nothing stops at a NUL) are appended; aborts iff
      len > 0 and the growth cannot be satisfied; the source must hold at
      least [len] characters *)
  Theorem C10_append_str_n al v src len :
    alloc_ok al -> no_bad_free al -> str_ok al v -> len < W64 ->
    (N.to_nat len <= length src)%nat ->
    match append_str_n ok false al v src len with
    | Ok (al', v') =>
      (0 < len -> ~ grow_fails ok al v (s_size v + len)) /\
      alloc_ok al' /\ no_bad_free al' /\ str_ok al' v' /\ heap_frame al al' (base v) (base v') /\
      esize v' = esize v /\
      sabs v' = sabs v ++ firstn (N.to_nat len) src
    | Abt => 0 < len /\ grow_fails ok al v (s_size v + len)
    | Flt => False
    end.
  Proof. exact (append_str_n_spec ok al v src len). Qed.

  Theorem C10_append_str_n_aborts_iff al v src len :
    alloc_ok al -> no_bad_free al -> str_ok al v -> len < W64 ->
    (N.to_nat len <= length src)%nat ->
    (append_str_n ok false al v src len = Abt <-> 0 < len /\ grow_fails ok al v (s_size v + len)).
  Proof.
    intros A NB So Hl Hs. pose proof (append_str_n_spec ok al v src len A NB So Hl Hs) as H.
    destruct (append_str_n ok false al v src len) as [[al' v']| |]; split; auto; try discriminate; try contradiction.
    destruct H as (NF & _). intros (X1 & X2). exfalso. apply (NF X1 X2).
  Qed.

  (** append_str_n is insert_str_n at the end (the header's composition) *)
  Theorem C10_append_str_n_is_insert_at_end al v src len :
    append_str_n ok false al v src len = insert_str_n ok false al v (s_size v) src len.
  Proof. reflexivity. Qed.

  (** data: NULL only for a string that never had storage (which is then
      empty); once the string holds its terminator (after any set, resize,
      insertion, ...), data is the start of a live block large enough for
      size + 1 characters, the characters readable there are the reference
      string followed by NUL, and they are the ones str() shows *)
  Theorem C10_data s i v :
    ssys_ok s -> nth_error (vecs s) i = Some v ->
    (s_data v = None -> count v = 0 /\ cap v = 0 /\ sabs v = [] /\ data_obs (heap s) v = [1%Z]) /\
    (0 < count v ->
     exists b bs, s_data v = Some b /\ block_size (heap s) b = Some bs /\ (s_size v + 1) * esize v <= bs /\
       rd_range (heap s) v 0 (s_size v + 1) = Ok (sabs v ++ [NUL]) /\
       s_view false (heap s) v = Ok (sabs v ++ [NUL]) /\
       data_obs (heap s) v = 0%Z :: Z.of_nat b :: 0%Z :: 1%Z :: map Z.of_N (sabs v)).
  Proof. intros So E. exact (s_data_spec (heap s) v (ssys_nth s i v So E)). Qed.

  (** find_ch = strchr: the first occurrence at or after pos with no NUL
      before it, or -1 (the terminator itself is never reported) *)
  Theorem C10_find_ch al v c pos :
    str_ok al v ->
    match find_ch false al v c pos with
    | Ok r =>
      pos < s_size v /\
      ((exists k, r = Z.of_N (pos + N.of_nat k) /\ first_occ c (skipn (N.to_nat pos) (sabs v)) k) \/
       (r = (-1)%Z /\ forall k, ~ first_occ c (skipn (N.to_nat pos) (sabs v)) k))
    | Abt => s_size v <= pos
    | Flt => False
    end.
  Proof. exact (find_ch_spec al v c pos). Qed.

  (** find_str = strstr on the characters before the first NUL *)
  Theorem C10_find_str al v ndl pos :
    str_ok al v ->
    match find_str false al v ndl pos with
    | Ok r =>
      pos < s_size v /\
      exists h, cstr (skipn (N.to_nat pos) (sabs v) ++ [NUL]) = Some h /\
      ((exists k, r = Z.of_N (pos + N.of_nat k) /\ strstr h ndl = Some k) \/
       (r = (-1)%Z /\ strstr h ndl = None))
    | Abt => s_size v <= pos
    | Flt => False
    end.
  Proof. exact (find_str_spec al v ndl pos). Qed.

  (** compare = strcmp on the characters before the first NUL *)
  Theorem C10_compare al a b :
    str_ok al a -> str_ok al b -> compare false al a b = Ok (strcmp (cview a) (cview b)).
  Proof. exact (compare_spec al a b). Qed.
End C10.

(** the list functions standing for libc meet their specifications *)
Theorem C10_strchr_first_occurrence l c k : strchr l c = Some (Some k) -> first_occ c l k.
Proof. exact (strchr_some l c k). Qed.

Theorem C10_strchr_null l c :
  strchr l c = Some None ->
  exists z, (z < length l)%nat /\ nth z l POISON = 0 /\ forall j, (j <= z)%nat -> nth j l POISON <> c.
Proof. exact (strchr_null l c). Qed.

Theorem C10_strstr_first_match h n k :
  strstr h n = Some k ->
  (k <= length h)%nat /\ prefixb n (skipn k h) = true /\
  forall j, (j < k)%nat -> prefixb n (skipn j h) = false.
Proof. exact (strstr_some h n k). Qed.

Theorem C10_strstr_no_match h n :
  strstr h n = None -> forall j, (j <= length h)%nat -> prefixb n (skipn j h) = false.
Proof. exact (strstr_none h n). Qed.

Theorem C10_strcmp_lexicographic a b :
  (strcmp a b = 0%Z <-> a = b) /\ (strcmp a b = (-1)%Z <-> lexlt a b) /\ strcmp b a = (- strcmp a b)%Z.
Proof. split; [apply strcmp_eq|split; [apply strcmp_lt|apply strcmp_antisym]]. Qed.

(** Non-vacuity: a concrete history on wide strings (allocation 2 fails,
    making a reserve a quiet no-op) reaches the expected reference strings. *)
Example C10_example_run :
  let ok := script_oracle [2%nat] None in
  let ops := [SSet 0 [97; 98; 99; 100]; SReserve 0 100; SInsertCh 0 1 2 120; SErase 0 4 SIZE_MAX;
              SSubstr 0 1 SIZE_MAX 1; SAppend 1 0; SResize 0 6; SSwap 0 1] in
  match fst (run (StrModel.sstep ok false) (str_init 4 2) ops) with
  | Done s _ => sabs_sys s = [[120; 120; 98; 97; 120; 120; 98]; [97; 120; 120; 98; 0; 0]]
  | _ => False
  end.
Proof. vm_compute. reflexivity. Qed.

(** Non-vacuity for the later entry points: append_str_n copies exactly n
    characters (here 2 of 3, then a NUL in the middle), at_const reads the
    byte offset and character, data shows block 2 / offset 0 / terminated /
    the characters; a fresh string's data is NULL, and storage that was only
    reserved is reported (block 4) but not read.  Also: a count beyond the
    source that cannot be satisfied aborts before the source is read. *)
Example C10_example_new_api :
  let ok := script_oracle [] None in
  let ops := [SData 1; SSet 0 [97]; SAppendStrN 0 2 [98; 99; 100]; SAppendStrN 0 2 [0; 101]; SAtConst 0 4; SData 0;
              SReserve 1 3; SData 1] in
  match run (StrModel.sstep ok false) (str_init 4 2) ops with
  | (Done s _, out) =>
    sabs_sys s = [[97; 98; 99; 0; 101]; []] /\
    out = [[1]; []; []; []; [16; 101]; [0; 3; 0; 1; 97; 98; 99; 0; 101]; []; [0; 4; 0]]%Z
  | _ => False
  end.
Proof. vm_compute. split; reflexivity. Qed.

Example C10_example_append_str_n_huge_aborts :
  fst (run (StrModel.sstep (script_oracle [] None) false) (str_init 1 1) [SSet 0 [97]; SAppendStrN 0 SIZE_MAX [98]]) = Abort /\
  fst (run (StrModel.sstep (script_oracle [] None) false) (str_init 1 1) [SSet 0 [97]; SAppendStrN 0 2 [98]]) = Precond.
Proof. vm_compute. split; reflexivity. Qed.

Print Assumptions C10_step_refines.
Print Assumptions C10_run_never_faults.
Print Assumptions C10_nul_terminated.
Print Assumptions C10_insert_ch.
Print Assumptions C10_insert_str_n.
Print Assumptions C10_insert_overflow_aborts.
Print Assumptions C10_erase.
Print Assumptions C10_erase_to_end.
Print Assumptions C10_substr.
Print Assumptions C10_resize.
Print Assumptions C10_resize_size_max_aborts.
Print Assumptions C10_unrepresentable_storage_aborts.
Print Assumptions C10_reserve.
Print Assumptions C10_insert_ch_aborts_iff.
Print Assumptions C10_erase_aborts_iff.
Print Assumptions C10_resize_aborts_iff.
Print Assumptions C10_no_leak.
Print Assumptions C10_at.
Print Assumptions C10_at_const.
Print Assumptions C10_append_str_n.
Print Assumptions C10_append_str_n_aborts_iff.
Print Assumptions C10_append_str_n_is_insert_at_end.
Print Assumptions C10_data.
Print Assumptions C10_find_ch.
Print Assumptions C10_find_str.
Print Assumptions C10_compare.
Print Assumptions C10_strchr_first_occurrence.
Print Assumptions C10_strchr_null.
Print Assumptions C10_strstr_first_match.
Print Assumptions C10_strstr_no_match.
Print Assumptions C10_strcmp_lexicographic.
