(** Proofs about DListModel.v, part 6: cstl_dlist_sort (split by walking
    size/2 links, two recursive calls on stack-local list objects, merge
    with [<=], concat of the rest). *)
From Cstl Require Import Prelude DListModel DListProofs DListProofs2 DListProofs3 DListProofs4.

(** * Walking to the middle *)

Lemma firstn_succ_last (l : list addr) k d :
  k < length l -> firstn (S k) l = firstn k l ++ [nth k l d].
Proof.
  revert k; induction l as [|a l IH]; intros k H; simpl in H; [lia|].
  destruct k; simpl; auto. f_equal. apply IH. lia.
Qed.

Lemma ring_step h hd l k :
  ring h hd l -> k < length l ->
  gnx h (last (firstn k l) hd) = Some (last (firstn (S k) l) hd).
Proof.
  intros R L.
  rewrite (firstn_succ_last l k hd L), last_app1.
  assert (l = firstn k l ++ nth k l hd :: skipn (S k) l) as E.
  { rewrite <- (firstn_skipn k l) at 1. f_equal.
    clear R. revert k L. induction l as [|a l IH]; intros k L; simpl in L; [lia|].
    destruct k; simpl; auto. apply IH. lia. }
  rewrite E in R. destruct (ring_gap _ _ _ _ R) as (Nx & _). exact Nx.
Qed.

Lemma N_half n : (N.of_nat n / 2)%N = N.of_nat (n / 2).
Proof.
  change 2%N with (N.of_nat 2). rewrite <- Nat2N.inj_div. reflexivity.
Qed.

Lemma mid_loop_spec hd l l0 : forall fuel h k,
  ring h hd l -> rsz h hd = N.of_nat (length l) -> l0 <> hd ->
  rsz h l0 = N.of_nat k -> k <= length l / 2 -> length l / 2 - k <= fuel ->
  exists h',
    mid_loop fuel h hd l0 (last (firstn k l) hd) = Ok (h', last (firstn (length l / 2) l) hd) /\
    hm h' = hm h /\ rsz h' l0 = N.of_nat (length l / 2) /\ (forall x, x <> l0 -> hs h' x = hs h x).
Proof.
  induction fuel as [|f IH]; intros h k R Z Nl Zk Hk Hf.
  - assert (k = length l / 2) as -> by lia.
    cbn [mid_loop]. rewrite Zk, Z, N_half, N.ltb_irrefl. exists h. auto.
  - cbn [mid_loop]. rewrite Zk, Z, N_half.
    destruct (N.ltb_spec (N.of_nat k) (N.of_nat (length l / 2))) as [Lt|Ge].
    + assert (k < length l / 2) as Lt' by lia.
      assert (length l / 2 <= length l) as Hh by (apply Nat.div_le_upper_bound; lia).
      assert (k < length l) as Lk by lia.
      rewrite (rnx_gnx _ _ _ (ring_step h hd l k R Lk)).
      destruct (IH (wsz h l0 (N.of_nat k + 1)) (S k)) as (h' & E & Hm & Zl & Hs).
      * revert R. apply ring_frame. intros y _. reflexivity.
      * rewrite rsz_wsz_other; auto.
      * exact Nl.
      * rewrite rsz_wsz_same. lia.
      * lia.
      * lia.
      * exists h'. split; auto. split; auto. split; auto.
        intros x Hx. rewrite Hs; auto. apply (rsz_wsz_other h l0 _ x Hx).
    + assert (k = length l / 2) as -> by lia. exists h. auto.
Qed.

(** * Cutting the list into two halves *)

Lemma Forall_one {A} (P : A -> Prop) x : P x -> Forall P [x].
Proof. intros H. constructor; auto. Qed.

Lemma hm_halloc h a x : hm (halloc h a) x = if Nat.eqb x a then Some (mkN wild wild) else hm h x.
Proof. reflexivity. Qed.

Lemma cpairs_split hd a1 la' b1 lb' :
  cpairs hd ((a1 :: la') ++ b1 :: lb') =
  [(hd, a1)] ++ pairs a1 la' ++ [(last la' a1, b1)] ++ pairs b1 lb' ++ [(last lb' b1, hd)].
Proof.
  unfold cpairs. rewrite <- app_assoc. simpl app at 1. rewrite pairs_cons. simpl app at 1. f_equal.
  rewrite pairs_app. f_equal. change ((b1 :: lb') ++ [hd]) with (b1 :: (lb' ++ [hd])).
  rewrite pairs_cons. simpl app. f_equal. rewrite pairs_app. reflexivity.
Qed.

Lemma firstn_half_nonempty (l : list addr) : 2 <= length l ->
  exists a1 la' b1 lb', firstn (length l / 2) l = a1 :: la' /\ skipn (length l / 2) l = b1 :: lb'.
Proof.
  intros H.
  assert (1 <= length l / 2) as H1 by (apply Nat.div_le_lower_bound; lia).
  assert (length l / 2 < length l) as H2 by (apply Nat.div_lt; lia).
  destruct (firstn (length l / 2) l) as [|a1 la'] eqn:E1.
  { apply (f_equal (@length _)) in E1. rewrite firstn_length in E1. cbn [length] in E1. lia. }
  destruct (skipn (length l / 2) l) as [|b1 lb'] eqn:E2.
  { apply (f_equal (@length _)) in E2. rewrite skipn_length in E2. cbn [length] in E2. lia. }
  exists a1, la', b1, lb'. auto.
Qed.

Theorem sort_split_spec h hd l l0 l1 :
  dl h hd l -> 2 <= length l -> l0 <> l1 -> hm h l0 = None -> hm h l1 = None ->
  exists h', sort_split h hd l0 l1 = Ok h' /\
    dl h' l0 (firstn (length l / 2) l) /\ dl h' l1 (skipn (length l / 2) l) /\ dl h' hd [] /\
    (forall x, ~ In x (hd :: l) -> x <> l0 -> x <> l1 -> hm h' x = hm h x) /\
    (forall x, x <> hd -> x <> l0 -> x <> l1 -> hs h' x = hs h x) /\
    (forall x, x <> l0 -> x <> l1 -> (valid h' x <-> valid h x)).
Proof.
  intros (R & Z) L2 N01 F0 F1.
  assert (forall x, In x (hd :: l) -> x <> l0 /\ x <> l1) as Out.
  { intros x I. pose proof (ring_valid _ _ _ _ R I) as V. split; intros ->; apply V; auto. }
  destruct (Out hd (or_introl eq_refl)) as (Hd0 & Hd1).
  unfold sort_split.
  set (h1 := halloc (halloc h l0) l1).
  assert (forall x, x <> l0 -> x <> l1 -> hm h1 x = hm h x) as H1.
  { intros x A B. unfold h1. rewrite !hm_halloc, (proj2 (Nat.eqb_neq x l1)), (proj2 (Nat.eqb_neq x l0)); auto. }
  assert (valid h1 l0) as Vi0.
  { unfold valid, h1. rewrite !hm_halloc, (proj2 (Nat.eqb_neq l0 l1)), Nat.eqb_refl; auto. congruence. }
  assert (valid h1 l1) as Vi1 by (unfold valid, h1; rewrite hm_halloc, Nat.eqb_refl; congruence).
  destruct (init_spec h1 l0 Vi0) as (h2 & E & N2 & P2 & S2 & V2). rewrite E. clear E.
  assert (valid h2 l1) as V21 by (apply V2; auto).
  destruct (init_spec h2 l1 V21) as (h3 & E & N3 & P3 & S3 & V3). rewrite E. clear E.
  apply hs_rsz in S2. destruct S2 as (Z2 & S2). apply hs_rsz in S3. destruct S3 as (Z3 & S3).
  assert (forall x, x <> l0 -> x <> l1 -> hm h3 x = hm h x) as H3.
  { intros x A B. rewrite <- H1; auto. apply fields_eq_hm.
    - rewrite N3, if_neq, N2, if_neq; auto.
    - rewrite P3, if_neq, P2, if_neq; auto. }
  assert (ring h3 hd l) as R3.
  { revert R. apply ring_frame. intros y Hy. apply H3; apply Out; auto. }
  assert (rsz h3 hd = N.of_nat (length l)) as Z3h.
  { unfold rsz in *. rewrite S3, S2; auto. }
  assert (rsz h3 l0 = N.of_nat 0) as Z30 by (unfold rsz in *; rewrite S3; auto).
  rewrite Z3h, Nat2N.id.
  assert (length l / 2 <= length l) as Hhalf by (apply Nat.div_le_upper_bound; lia).
  destruct (mid_loop_spec hd l l0 (length l) h3 0 R3 Z3h (not_eq_sym Hd0) Z30 ltac:(lia) ltac:(lia))
    as (h4 & E & H4 & Z40 & S4).
  change (last (firstn 0 l) hd) with hd in E. rewrite E. clear E.
  destruct (firstn_half_nonempty l L2) as (a1 & la' & b1 & lb' & Ea & Eb).
  set (k := length l / 2) in *.
  assert (l = (a1 :: la') ++ b1 :: lb') as El by (rewrite <- Ea, <- Eb; symmetry; apply firstn_skipn).
  rewrite Ea, Eb. rewrite last_cons.
  set (t := last la' a1). set (bl := last lb' b1).
  assert (ring h4 hd l) as R4.
  { revert R3. apply ring_frame. intros y _. rewrite H4. auto. }
  assert (forall x, gnx h4 x = gnx h3 x) as N4 by (intros x; unfold gnx; rewrite H4; auto).
  assert (forall x, gpv h4 x = gpv h3 x) as P4 by (intros x; unfold gpv; rewrite H4; auto).
  assert (forall x, valid h4 x <-> valid h3 x) as V4 by (intros x; unfold valid; rewrite H4; tauto).
  (* facts about the ring *)
  pose proof (proj1 R4) as ND. rewrite El in ND.
  pose proof (nd5 hd [] a1 la' b1 lb') as Nd. simpl app in Nd, ND.
  assert (NoDup (hd :: a1 :: la' ++ b1 :: lb')) as ND' by exact ND.
  destruct (Nd ND') as (Nab & Na1 & Nb1 & Na2 & Nb2 & Na3 & Nb3 & _ & Dab & _ & _). clear Nd.
  assert (gnx h4 hd = Some a1) as G1.
  { rewrite (ring_head_nx _ _ _ R4), El. reflexivity. }
  assert (gnx h4 t = Some b1) as G2.
  { rewrite El in R4. destruct (ring_gap _ _ _ _ R4) as (G & _). rewrite last_cons in G. exact G. }
  assert (gpv h4 hd = Some bl) as G3.
  { rewrite (ring_head_pv _ _ _ R4), El. f_equal. rewrite last_app_ne by discriminate.
    unfold bl. apply last_cons. }
  assert (In t (a1 :: la')) as It by apply In_last_cons.
  assert (In bl (b1 :: lb')) as Ibl by apply In_last_cons.
  assert (forall x, In x (a1 :: la') -> In x (hd :: l)) as SubA.
  { intros x I. right. rewrite El, in_app_iff. auto. }
  assert (forall x, In x (b1 :: lb') -> In x (hd :: l)) as SubB.
  { intros x I. right. rewrite El, in_app_iff. auto. }
  assert (forall x, In x (hd :: l) -> valid h4 x) as Va4 by (intros x; apply (ring_valid _ _ _ _ R4)).
  assert (forall x, In x (a1 :: la') -> In x (b1 :: lb') -> False) as Dj.
  { intros x I1 I2. apply (NoDup_app_disj (a1 :: la') (b1 :: lb') x); auto. inversion ND; auto. }
  assert (forall x, In x (a1 :: la') -> x <> hd) as NhA.
  { intros x I ->. inversion ND; subst. apply H2. change (a1 :: la' ++ b1 :: lb') with ((a1 :: la') ++ b1 :: lb').
    rewrite in_app_iff; auto. }
  assert (forall x, In x (b1 :: lb') -> x <> hd) as NhB.
  { intros x I ->. inversion ND; subst. apply H2. change (a1 :: la' ++ b1 :: lb') with ((a1 :: la') ++ b1 :: lb').
    rewrite in_app_iff; auto. }
  destruct (Out t (SubA _ It)) as (T0 & T1). destruct (Out bl (SubB _ Ibl)) as (B0 & B1).
  destruct (Out a1 (SubA _ (or_introl eq_refl))) as (A0 & A1).
  destruct (Out b1 (SubB _ (or_introl eq_refl))) as (BB0 & BB1).
  assert (t <> bl) as Tbl by (intros E; apply (Dj t); auto; rewrite E; auto).
  assert (t <> hd) as Thd by (apply NhA; auto).
  assert (bl <> hd) as Blhd by (apply NhB; auto).
  assert (a1 <> hd) as A1hd by (apply NhA; left; auto).
  assert (b1 <> hd) as B1hd by (apply NhB; left; auto).
  assert (a1 <> b1) as A1b1 by (intros E; apply (Dj a1); [left; auto|rewrite E; left; auto]).
  (* the eight link writes *)
  rewrite (rnx_gnx _ _ _ G1).
  assert (valid h4 l0) as W0 by (apply V4, V3, V2; auto).
  do_wnx W0 h5 N5 P5 S5 V5.
  assert (valid h5 l0) as W1 by (apply V5; auto).
  do_wpv W1 h6 N6 P6 S6 V6.
  assert (gnx h6 t = Some b1) as T by (rewrite N6, N5, if_neq; auto). rewrite (rnx_gnx _ _ _ T). clear T.
  assert (valid h6 l1) as W2 by (apply V6, V5, V4, V3; auto).
  do_wnx W2 h7 N7 P7 S7 V7.
  assert (gpv h7 hd = Some bl) as T by (rewrite P7, P6, if_neq, P5; auto). rewrite (rpv_gpv _ _ _ T). clear T.
  assert (valid h7 l1) as W3 by (apply V7; auto).
  do_wpv W3 h8 N8 P8 S8 V8.
  assert (gpv h8 l0 = Some t) as T by (rewrite P8, if_neq, P7, P6, Nat.eqb_refl; auto).
  rewrite (rpv_gpv _ _ _ T). clear T.
  assert (valid h8 t) as W4 by (apply V8, V7, V6, V5, Va4; auto).
  do_wnx W4 h9 N9 P9 S9 V9.
  assert (gnx h9 l0 = Some a1) as T.
  { rewrite N9, if_neq, N8, N7, if_neq, N6, N5, Nat.eqb_refl; auto. }
  rewrite (rnx_gnx _ _ _ T). clear T.
  assert (valid h9 a1) as W5 by (apply V9, V8, V7, V6, V5, Va4, SubA; left; auto).
  do_wpv W5 h10 N10 P10 S10 V10.
  assert (gpv h10 l1 = Some bl) as T.
  { rewrite P10, if_neq, P9, P8, Nat.eqb_refl; auto. }
  rewrite (rpv_gpv _ _ _ T). clear T.
  assert (valid h10 bl) as W6 by (apply V10, V9, V8, V7, V6, V5, Va4; auto).
  do_wnx W6 h11 N11 P11 S11 V11.
  assert (gnx h11 l1 = Some b1) as T.
  { rewrite N11, if_neq, N10, N9, if_neq, N8, N7, Nat.eqb_refl; auto. }
  rewrite (rnx_gnx _ _ _ T). clear T.
  assert (valid h11 b1) as W7 by (apply V11, V10, V9, V8, V7, V6, V5, Va4, SubB; left; auto).
  do_wpv W7 h12 N12 P12 S12 V12.
  set (h13 := wsz h12 l1 (rsz h12 hd - rsz h12 l0)).
  assert (valid h13 hd) as W8.
  { change (valid h12 hd). apply V12, V11, V10, V9, V8, V7, V6, V5, Va4. left; auto. }
  destruct (init_spec h13 hd W8) as (h14 & E & N14 & P14 & S14 & V14). rewrite E. clear E.
  apply hs_rsz in S14. destruct S14 as (Z14 & S14).
  assert (forall v, gnx h14 v = if Nat.eqb v hd then Some hd else if Nat.eqb v bl then Some l1
                                else if Nat.eqb v t then Some l0 else if Nat.eqb v l1 then Some b1
                                else if Nat.eqb v l0 then Some a1 else gnx h3 v) as N'.
  { intros v. rewrite N14. unfold h13. rewrite gnx_wsz, N12, N11, N10, N9, N8, N7, N6, N5, N4. auto. }
  assert (forall v, gpv h14 v = if Nat.eqb v hd then Some hd else if Nat.eqb v b1 then Some l1
                                else if Nat.eqb v a1 then Some l0 else if Nat.eqb v l1 then Some bl
                                else if Nat.eqb v l0 then Some t else gpv h3 v) as P'.
  { intros v. rewrite P14. unfold h13. rewrite gpv_wsz, P12, P11, P10, P9, P8, P7, P6, P5, P4. auto. }
  assert (hs h12 = hs h4) as S12' by congruence.
  exists h14. split; auto.
  (* the three rings *)
  apply ring_pairs in R3. destruct R3 as (_ & F3).
  pose proof (cpairs_fst hd l) as Mf. pose proof (cpairs_snd hd l) as Ms.
  rewrite El in F3, Mf, Ms. rewrite cpairs_split in F3, Mf, Ms. fold t bl in F3, Mf, Ms.
  assert (NoDup (map fst ([(hd, a1)] ++ pairs a1 la' ++ [(t, b1)] ++ pairs b1 lb' ++ [(bl, hd)]))) as NDf.
  { rewrite Mf. exact ND. }
  assert (NoDup (map snd ([(hd, a1)] ++ pairs a1 la' ++ [(t, b1)] ++ pairs b1 lb' ++ [(bl, hd)]))) as NDs.
  { rewrite Ms. apply NoDup_snoc. exact ND. }
  assert (forall v, In v [hd; bl; t; l1; l0] -> v = hd \/ v = bl \/ v = t \/ v = l1 \/ v = l0) as Wn5.
  { intros v I. simpl in I. intuition. }
  assert (~ In l0 (hd :: (a1 :: la') ++ b1 :: lb') /\ ~ In l1 (hd :: (a1 :: la') ++ b1 :: lb')) as (Fr0 & Fr1).
  { rewrite <- El. split; intros I; destruct (Out _ I); congruence. }
  assert (Forall (linkp h14) (pairs a1 la')) as KA.
  { apply (keep_part h3 h14 [(hd, a1)] (pairs a1 la') ([(t, b1)] ++ pairs b1 lb' ++ [(bl, hd)])
             [hd; bl; t; l1; l0] [hd; b1; a1; l1; l0]); auto.
    - rewrite !Forall_app in F3. tauto.
    - wframe N'.
    - wframe P'.
    - rewrite Mf. intros v [<-|[<-|[<-|[<-|[<-|[]]]]]].
      + left. simpl. auto.
      + left. simpl. rewrite !map_app, !in_app_iff. simpl. auto 10.
      + left. simpl. auto.
      + right. exact Fr1.
      + right. exact Fr0.
    - rewrite Ms. intros v [<-|[<-|[<-|[<-|[<-|[]]]]]].
      + left. simpl. rewrite !map_app, !in_app_iff. simpl. auto 10.
      + left. simpl. auto.
      + left. simpl. auto.
      + right. intros I. apply Fr1. apply in_app_iff in I. destruct I as [I|[<-|[]]]; [right; auto|left; auto].
      + right. intros I. apply Fr0. apply in_app_iff in I. destruct I as [I|[<-|[]]]; [right; auto|left; auto]. }
  assert (Forall (linkp h14) (pairs b1 lb')) as KB.
  { apply (keep_part h3 h14 ([(hd, a1)] ++ pairs a1 la' ++ [(t, b1)]) (pairs b1 lb') [(bl, hd)]
             [hd; bl; t; l1; l0] [hd; b1; a1; l1; l0]); rewrite <- ?app_assoc; auto.
    - rewrite !Forall_app in F3. tauto.
    - wframe N'.
    - wframe P'.
    - rewrite Mf. intros v [<-|[<-|[<-|[<-|[<-|[]]]]]].
      + left. simpl. auto.
      + left. simpl. rewrite !map_app, !in_app_iff. simpl. auto 10.
      + left. simpl. rewrite !map_app, !in_app_iff. simpl. auto 10.
      + right. exact Fr1.
      + right. exact Fr0.
    - rewrite Ms. intros v [<-|[<-|[<-|[<-|[<-|[]]]]]].
      + left. simpl. rewrite !map_app, !in_app_iff. simpl. auto 10.
      + left. simpl. rewrite !map_app, !in_app_iff. simpl. auto 10.
      + left. simpl. auto.
      + right. intros I. apply Fr1. apply in_app_iff in I. destruct I as [I|[<-|[]]]; [right; auto|left; auto].
      + right. intros I. apply Fr0. apply in_app_iff in I. destruct I as [I|[<-|[]]]; [right; auto|left; auto]. }
  assert (NoDup ((a1 :: la') ++ b1 :: lb')) as NDab by (inversion ND; auto).
  assert (rsz h14 l0 = N.of_nat k /\ rsz h14 l1 = N.of_nat (length l - k)) as (Z0' & Z1').
  { unfold h13 in *. split.
    - rewrite S14; auto. simpl. rewrite (proj2 (Nat.eqb_neq l0 l1)); auto. rewrite S12'. exact Z40.
    - rewrite S14; auto. simpl. rewrite Nat.eqb_refl. unfold rsz in *. rewrite S12', S4, Z3h, Z40; auto.
      assert (k <= length l) by (apply Nat.div_le_upper_bound; lia). lia. }
  split; [|split; [|split; [|split; [|split]]]].
  - (* l0 holds the first half *)
    split.
    + apply ring_pairs. split.
      { constructor.
        - intros I. apply Fr0. right. rewrite in_app_iff. auto.
        - exact (NoDup_app_l _ _ NDab). }
      rewrite cpairs_cons. fold t.
      apply Forall_app; split; [apply Forall_one|apply Forall_app; split; [exact KA|apply Forall_one]]; split; simpl.
      * rewrite N', (if_neq l0 hd), (if_neq l0 bl), (if_neq l0 t), (if_neq l0 l1), Nat.eqb_refl; auto.
      * rewrite P', (if_neq a1 hd), (if_neq a1 b1), Nat.eqb_refl; auto.
      * rewrite N', (if_neq t hd), (if_neq t bl), Nat.eqb_refl; auto.
      * rewrite P', (if_neq l0 hd), (if_neq l0 b1), (if_neq l0 a1), (if_neq l0 l1), Nat.eqb_refl; auto.
    + rewrite Z0'. f_equal. rewrite <- Ea, firstn_length. clear -Hhalf. lia.
  - (* l1 holds the second half *)
    split.
    + apply ring_pairs. split.
      { constructor.
        - intros I. apply Fr1. right. rewrite in_app_iff. auto.
        - exact (NoDup_app_r _ _ NDab). }
      rewrite cpairs_cons. fold bl.
      apply Forall_app; split; [apply Forall_one|apply Forall_app; split; [exact KB|apply Forall_one]]; split; simpl.
      * rewrite N', (if_neq l1 hd), (if_neq l1 bl), (if_neq l1 t), Nat.eqb_refl; auto.
      * rewrite P', (if_neq b1 hd), Nat.eqb_refl; auto.
      * rewrite N', (if_neq bl hd), Nat.eqb_refl; auto.
      * rewrite P', (if_neq l1 hd), (if_neq l1 b1), (if_neq l1 a1), Nat.eqb_refl; auto.
    + rewrite Z1'. f_equal. rewrite <- Eb, skipn_length. reflexivity.
  - (* l itself is empty again *)
    split; [|exact Z14]. apply ring_nil; [rewrite N'|rewrite P']; rewrite Nat.eqb_refl; auto.
  - intros x Hx X0 X1. rewrite <- H3; auto.
    assert (forall w, In w (hd :: l) -> x <> w) as Ne by (intros w Hw ->; auto).
    assert (x <> hd) by (apply Ne; left; auto).
    assert (x <> bl) by (apply Ne, SubB; auto). assert (x <> t) by (apply Ne, SubA; auto).
    assert (x <> a1) by (apply Ne, SubA; left; auto). assert (x <> b1) by (apply Ne, SubB; left; auto).
    apply fields_eq_hm; [rewrite N'|rewrite P']; rewrite !if_neq; auto.
  - intros x Xh X0 X1. rewrite S14; auto. unfold h13. simpl. rewrite (proj2 (Nat.eqb_neq x l1)); auto.
    rewrite S12', S4, S3, S2; auto.
  - intros x X0 X1. rewrite V14. change (valid h13 x) with (valid h12 x).
    rewrite V12, V11, V10, V9, V8, V7, V6, V5, V4, V3, V2. unfold valid. rewrite H1; tauto.
Qed.

(** * Merging *)

Section Sorting.
  Variable key : addr -> Z.
  Definition kle (a b : addr) : Prop := (key a <= key b)%Z.

  (** the reference merge: ties go to the first list *)
  Fixpoint merge_abs (a : list addr) : list addr -> list addr :=
    fix inner (b : list addr) : list addr :=
      match a, b with
      | [], _ => b
      | _, [] => a
      | x :: a', y :: b' => if (key x <=? key y)%Z then x :: merge_abs a' b else y :: inner b'
      end.

  Lemma merge_abs_nil_l b : merge_abs [] b = b.
  Proof. destruct b; reflexivity. Qed.
  Lemma merge_abs_nil_r a : merge_abs a [] = a.
  Proof. destruct a; reflexivity. Qed.
  Lemma merge_abs_cons x a' y b' :
    merge_abs (x :: a') (y :: b') =
    if (key x <=? key y)%Z then x :: merge_abs a' (y :: b') else y :: merge_abs (x :: a') b'.
  Proof. reflexivity. Qed.

  Lemma merge_abs_perm : forall a b, Permutation (a ++ b) (merge_abs a b).
  Proof.
    induction a as [|x a' IHa]; intros b.
    - rewrite merge_abs_nil_l. reflexivity.
    - induction b as [|y b' IHb].
      + rewrite merge_abs_nil_r, app_nil_r. reflexivity.
      + rewrite merge_abs_cons. destruct (key x <=? key y)%Z.
        * simpl. apply perm_skip. apply IHa.
        * transitivity (y :: (x :: a') ++ b'); [symmetry; apply Permutation_middle|].
          apply perm_skip. exact IHb.
  Qed.

  Lemma kle_trans a b c : kle a b -> kle b c -> kle a c.
  Proof. unfold kle. lia. Qed.

  Lemma Sorted_head_le x l : Sorted kle (x :: l) -> Forall (kle x) l.
  Proof.
    intros S. apply Sorted_StronglySorted in S; [|intros a b c; apply kle_trans].
    inversion S; auto.
  Qed.

  Lemma HdRel_Forall x l : Forall (kle x) l -> HdRel kle x l.
  Proof. intros F. destruct l; constructor. inversion F; auto. Qed.

  Lemma merge_abs_sorted : forall a b, Sorted kle a -> Sorted kle b -> Sorted kle (merge_abs a b).
  Proof.
    induction a as [|x a' IHa]; intros b Sa Sb.
    - rewrite merge_abs_nil_l. auto.
    - induction b as [|y b' IHb].
      + rewrite merge_abs_nil_r. auto.
      + rewrite merge_abs_cons. destruct (Z.leb_spec (key x) (key y)) as [Le|Gt].
        * constructor.
          -- apply IHa; auto. inversion Sa; auto.
          -- apply HdRel_Forall. eapply Permutation_Forall; [apply merge_abs_perm|].
             apply Forall_app. split; [apply Sorted_head_le; auto|].
             constructor; [exact Le|]. apply Sorted_head_le in Sb.
             eapply Forall_impl; [|exact Sb]. intros c Hc. eapply kle_trans; eauto.
        * assert (kle y x) as Lyx by (unfold kle; lia).
          constructor.
          -- apply IHb. inversion Sb; auto.
          -- apply HdRel_Forall. eapply Permutation_Forall; [apply merge_abs_perm|].
             apply Forall_app. split; [|apply Sorted_head_le; auto].
             constructor; [exact Lyx|]. apply Sorted_head_le in Sa.
             eapply Forall_impl; [|exact Sa]. intros c Hc. eapply kle_trans; eauto.
  Qed.
End Sorting.

(** * The merge loop on list objects *)

(** one iteration: the front node of [s] goes to the back of [d] *)
Lemma move_front h d s out x a' :
  dl h d out -> dl h s (x :: a') -> NoDup (d :: out ++ s :: x :: a') ->
  exists h1 h2,
    rnx h s = Ok x /\ erase h s x = Ok h1 /\ rpv h1 d = Ok (last out d) /\
    insert h1 d (last out d) x = Ok h2 /\
    dl h2 d (out ++ [x]) /\ dl h2 s a' /\
    (forall v, ~ In v (d :: out ++ s :: x :: a') -> hm h2 v = hm h v) /\
    (forall v, v <> d -> v <> s -> hs h2 v = hs h v) /\
    (forall v, valid h2 v <-> valid h v).
Proof.
  intros Dd Ds ND.
  assert (forall v, In v (d :: out) -> In v (s :: x :: a') -> False) as Dj by (intros v; eapply two_rings_disj; eauto).
  assert (d <> s) as Nds by (intros ->; apply (Dj s); left; auto).
  destruct (erase_dl h s [] x a' Ds) as (h1 & E1 & Ds1 & U1 & Hx). simpl app in *.
  assert (dl h1 d out) as Dd1.
  { revert Dd. apply dl_frame.
    - intros y Hy. apply (u_hm _ _ _ _ U1). intros I. apply (Dj y); auto.
      destruct I as [<-|I]; [left; auto|right; right; auto].
    - apply (u_hs _ _ _ _ U1); auto. }
  assert (valid h1 x) as Vx.
  { unfold valid. rewrite Hx. apply (ring_valid _ _ _ _ (proj1 Ds)). right; left; auto. }
  assert (~ In x (d :: out ++ [])) as Fx.
  { rewrite app_nil_r. intros I. apply (Dj x); auto. right; left; auto. }
  rewrite <- (app_nil_r out) in Dd1.
  destruct (insert_dl h1 d out [] x Dd1 Vx Fx) as (h2 & E2 & Dd2 & U2).
  exists h1, h2. split; [apply rnx_gnx, (ring_head_nx _ _ _ (proj1 Ds))|]. split; auto.
  split. { rewrite app_nil_r in Dd1. apply rpv_gpv, (ring_head_pv _ _ _ (proj1 Dd1)). }
  split; auto. split; auto. split.
  { revert Ds1. apply dl_frame.
    - intros y Hy. apply (u_hm _ _ _ _ U2). intros I.
      assert (In y (d :: out) \/ y = x) as [I' | ->].
      { destruct I as [<-|I]; [left; left; auto|]. rewrite in_app_iff in I. destruct I as [I|[<-|[]]]; auto.
        left; right; auto. }
      + apply (Dj y); auto. destruct Hy as [<-|Hy]; [left; auto|right; right; auto].
      + pose proof (NoDup_two_rings_r _ _ _ _ ND) as NDs. destruct (NoDup_second _ _ _ NDs) as (Nx & _). auto.
    - apply (u_hs _ _ _ _ U2); auto. }
  split; [|split].
  - intros v Hv. rewrite (u_hm _ _ _ _ U2), (u_hm _ _ _ _ U1); auto.
    + intros I. apply Hv. destruct I as [<-|I]; right; rewrite in_app_iff; right; [left; auto|right; right; auto].
    + intros I. apply Hv. destruct I as [<-|I]; [left; auto|]. rewrite in_app_iff in I.
      destruct I as [I|[<-|[]]]; right; rewrite in_app_iff; [left; auto|right; right; left; auto].
  - intros v H1 H2. rewrite (u_hs _ _ _ _ U2), (u_hs _ _ _ _ U1); auto.
  - intros v. rewrite (u_valid _ _ _ _ U2), (u_valid _ _ _ _ U1). tauto.
Qed.

Definition tri (h : heap) (hd l0 l1 : addr) (out a b : list addr) : Prop :=
  dl h hd out /\ dl h l0 a /\ dl h l1 b /\ NoDup ((hd :: out) ++ (l0 :: a) ++ (l1 :: b)).

Lemma NoDup_drop_mid {A} (a b c : list A) : NoDup (a ++ b ++ c) -> NoDup (a ++ c).
Proof.
  intros H. apply NoDup_app_intro.
  - eapply NoDup_app_l; eauto.
  - apply NoDup_app_r in H. eapply NoDup_app_r; eauto.
  - intros x I1 I2. eapply (NoDup_app_disj a (b ++ c) x); eauto. rewrite in_app_iff; auto.
Qed.

Lemma NoDup3_facts {A} (a b c : list A) :
  NoDup (a ++ b ++ c) ->
  NoDup (a ++ b) /\ NoDup (a ++ c) /\ NoDup (b ++ c) /\
  (forall x, In x a -> In x b -> False) /\ (forall x, In x a -> In x c -> False) /\
  (forall x, In x b -> In x c -> False).
Proof.
  intros H. split; [rewrite app_assoc in H; eapply NoDup_app_l; eauto|].
  split; [eapply NoDup_drop_mid; eauto|]. split; [eapply NoDup_app_r; eauto|].
  split; [|split].
  - intros x I1 I2. eapply (NoDup_app_disj a (b ++ c) x); eauto. rewrite in_app_iff; auto.
  - intros x I1 I2. eapply (NoDup_app_disj a (b ++ c) x); eauto. rewrite in_app_iff; auto.
  - intros x I1 I2. apply NoDup_app_r in H. eapply (NoDup_app_disj b c x); eauto.
Qed.

Section MergeLoop.
  Variable key : addr -> Z.

  Lemma merge_loop_spec hd l0 l1 : forall fuel h out a b,
    tri h hd l0 l1 out a b -> length a + length b <= fuel ->
    exists h' out' a' b',
      merge_loop key fuel h hd l0 l1 = Ok h' /\ tri h' hd l0 l1 out' a' b' /\
      (a' = [] \/ b' = []) /\ out' ++ a' ++ b' = out ++ merge_abs key a b /\
      (forall v, ~ In v ((hd :: out) ++ (l0 :: a) ++ (l1 :: b)) -> hm h' v = hm h v) /\
      (forall v, v <> hd -> v <> l0 -> v <> l1 -> hs h' v = hs h v) /\
      (forall v, valid h' v <-> valid h v).
  Proof.
    assert (forall fuel h out a b, tri h hd l0 l1 out a b -> a = [] \/ b = [] ->
              exists h' out' a' b',
                merge_loop key fuel h hd l0 l1 = Ok h' /\ tri h' hd l0 l1 out' a' b' /\
                (a' = [] \/ b' = []) /\ out' ++ a' ++ b' = out ++ merge_abs key a b /\
                (forall v, ~ In v ((hd :: out) ++ (l0 :: a) ++ (l1 :: b)) -> hm h' v = hm h v) /\
                (forall v, v <> hd -> v <> l0 -> v <> l1 -> hs h' v = hs h v) /\
                (forall v, valid h' v <-> valid h v)) as Done.
    { intros fuel h out a b T Em. exists h, out, a, b.
      assert (merge_loop key fuel h hd l0 l1 = Ok h) as E.
      { destruct T as (_ & D0 & D1 & _).
        destruct fuel; cbn [merge_loop]; destruct Em as [-> | ->].
        - rewrite (dl_zero _ _ D0). reflexivity.
        - rewrite (dl_zero _ _ D1), andb_false_r. reflexivity.
        - rewrite (dl_zero _ _ D0). reflexivity.
        - rewrite (dl_zero _ _ D1), andb_false_r. reflexivity. }
      split; [exact E|]. split; [exact T|]. split; [exact Em|]. split.
      { destruct Em as [-> | ->]; [rewrite merge_abs_nil_l|rewrite merge_abs_nil_r, app_nil_r]; reflexivity. }
      split; [auto|]. split; [auto|]. tauto. }
    induction fuel as [|f IH]; intros h out a b T Hf.
    - apply Done; auto. destruct a; [auto|]. destruct b; [auto|]. simpl in Hf. lia.
    - destruct a as [|x a']; [apply Done; auto|].
      destruct b as [|y b']; [apply Done; auto|].
      destruct T as (Dh & D0 & D1 & ND).
      cbn [merge_loop]. rewrite (dl_pos _ _ _ _ D0), (dl_pos _ _ _ _ D1). cbn [andb].
      rewrite (rnx_gnx _ _ _ (ring_head_nx _ _ _ (proj1 D0))), (rnx_gnx _ _ _ (ring_head_nx _ _ _ (proj1 D1))).
      cbn [hd_or].
      destruct (NoDup3_facts _ _ _ ND) as (N01 & N02 & N12 & J01 & J02 & J12).
      assert (hd <> l0) as H0 by (intros E; apply (J01 hd); [left; auto|rewrite E; left; auto]).
      assert (hd <> l1) as H1 by (intros E; apply (J02 hd); [left; auto|rewrite E; left; auto]).
      assert (l0 <> l1) as H01 by (intros E; apply (J12 l0); [left; auto|rewrite E; left; auto]).
      rewrite merge_abs_cons.
      destruct (Z.leb_spec (key x) (key y)) as [Le|Gt].
      + (* take from the first list *)
        destruct (move_front h hd l0 out x a' Dh D0 N01)
          as (h1 & h2 & E0 & E1 & E2 & E3 & Dh2 & D02 & Fr & Sz & Va).
        rewrite E0, E1, E2, E3.
        assert (dl h2 l1 (y :: b')) as D12.
        { revert D1. apply dl_frame.
          - intros v Hv. apply Fr. intros I.
            change (hd :: out ++ l0 :: x :: a') with ((hd :: out) ++ (l0 :: x :: a')) in I.
            rewrite in_app_iff in I. destruct I as [I|I]; [apply (J02 v)|apply (J12 v)]; auto.
          - apply Sz; auto. }
        destruct (IH h2 (out ++ [x]) a' (y :: b')) as (h' & out' & a'' & b'' & E & T & Em & Eq & Fr' & Sz' & Va').
        { split; auto. split; auto. split; auto.
          eapply Permutation_NoDup; [|exact ND].
          change ((hd :: out) ++ (l0 :: x :: a') ++ l1 :: y :: b') with (hd :: out ++ l0 :: x :: a' ++ l1 :: y :: b').
          change ((hd :: out ++ [x]) ++ (l0 :: a') ++ l1 :: y :: b') with (hd :: (out ++ [x]) ++ l0 :: a' ++ l1 :: y :: b').
          apply perm_skip. rewrite <- app_assoc. apply Permutation_app_head. simpl.
          transitivity (x :: l0 :: a' ++ l1 :: y :: b'); [apply perm_swap|reflexivity]. }
        { simpl in *. lia. }
        exists h', out', a'', b''. split; auto. split; auto. split; auto. split.
        { rewrite Eq, <- app_assoc. reflexivity. }
        split; [|split].
        * intros v Hv. rewrite Fr', Fr; auto.
          -- intros I. apply Hv. rewrite app_assoc, in_app_iff. left. exact I.
          -- intros I. apply Hv. revert I. simpl. rewrite !in_app_iff. simpl. rewrite !in_app_iff. simpl. tauto.
        * intros v A B C. rewrite Sz', Sz; auto.
        * intros v. rewrite Va', Va. tauto.
      + (* take from the second list *)
        replace (key x <=? key y)%Z with false by (symmetry; apply Z.leb_gt; auto).
        destruct (move_front h hd l1 out y b' Dh D1 N02)
          as (h1 & h2 & E0 & E1 & E2 & E3 & Dh2 & D12 & Fr & Sz & Va).
        rewrite E0, E1, E2, E3.
        assert (dl h2 l0 (x :: a')) as D02.
        { revert D0. apply dl_frame.
          - intros v Hv. apply Fr. intros I.
            change (hd :: out ++ l1 :: y :: b') with ((hd :: out) ++ (l1 :: y :: b')) in I.
            rewrite in_app_iff in I. destruct I as [I|I]; [apply (J01 v)|apply (J12 v)]; auto.
          - apply Sz; auto. }
        destruct (IH h2 (out ++ [y]) (x :: a') b') as (h' & out' & a'' & b'' & E & T & Em & Eq & Fr' & Sz' & Va').
        { split; auto. split; auto. split; auto.
          eapply Permutation_NoDup; [|exact ND].
          change ((hd :: out) ++ (l0 :: x :: a') ++ l1 :: y :: b') with (hd :: out ++ (l0 :: x :: a') ++ l1 :: y :: b').
          change ((hd :: out ++ [y]) ++ (l0 :: x :: a') ++ l1 :: b') with (hd :: (out ++ [y]) ++ (l0 :: x :: a') ++ l1 :: b').
          apply perm_skip. rewrite <- app_assoc. apply Permutation_app_head.
          change ([y] ++ (l0 :: x :: a') ++ l1 :: b') with (y :: (l0 :: x :: a') ++ l1 :: b').
          symmetry. transitivity ((l0 :: x :: a') ++ y :: l1 :: b'); [apply Permutation_middle|].
          apply Permutation_app_head. apply perm_swap. }
        { simpl in *. lia. }
        exists h', out', a'', b''. split; auto. split; auto. split; auto. split.
        { rewrite Eq, <- app_assoc. reflexivity. }
        split; [|split].
        * intros v Hv. rewrite Fr', Fr; auto.
          -- intros I. apply Hv. revert I. simpl. rewrite !in_app_iff. simpl. rewrite !in_app_iff. simpl. tauto.
          -- intros I. apply Hv. revert I. simpl. rewrite !in_app_iff. simpl. rewrite !in_app_iff. simpl. tauto.
        * intros v A B C. rewrite Sz', Sz; auto.
        * intros v. rewrite Va', Va. tauto.
  Qed.
End MergeLoop.

(** * Merge, append the rest, leave the scope of the local list objects *)

Section SortMain.
  Variable key : addr -> Z.

  Lemma dl_hfree' h hd l a : ~ In a (hd :: l) -> dl h hd l -> dl (hfree h a) hd l.
  Proof. intros N. apply dl_frame; auto. intros y Hy. apply hm_hfree_other. intros ->; auto. Qed.

  Lemma sort_join_spec h hd l0 l1 a b :
    tri h hd l0 l1 [] a b ->
    exists h', sort_join key h hd l0 l1 = Ok h' /\ dl h' hd (merge_abs key a b) /\
      hm h' l0 = None /\ hm h' l1 = None /\
      (forall v, ~ In v ((hd :: a) ++ b) -> v <> l0 -> v <> l1 -> hm h' v = hm h v) /\
      (forall v, v <> hd -> v <> l0 -> v <> l1 -> hs h' v = hs h v).
  Proof.
    intros T. unfold sort_join.
    pose proof T as (Dh & D0 & D1 & ND).
    destruct (merge_loop_spec key hd l0 l1 (N.to_nat (rsz h l0 + rsz h l1)) h [] a b T)
      as (h1 & out & a' & b' & E & (Dh1 & D01 & D11 & ND1) & Em & Eq & Fr & Sz & Va).
    { rewrite (proj2 D0), (proj2 D1). lia. }
    rewrite E. simpl app in Eq.
    destruct (NoDup3_facts _ _ _ ND1) as (N01 & N02 & N12 & J01 & J02 & J12).
    assert (hd <> l0) as H0 by (intros E'; apply (J01 hd); [left; auto|rewrite E'; left; auto]).
    assert (hd <> l1) as H1 by (intros E'; apply (J02 hd); [left; auto|rewrite E'; left; auto]).
    assert (l0 <> l1) as H01 by (intros E'; apply (J12 l0); [left; auto|rewrite E'; left; auto]).
    assert (forall v, In v ((hd :: a) ++ b) <-> In v (hd :: merge_abs key a b)) as Mem.
    { intros v. simpl. rewrite in_app_iff.
      split; (intros [I|I]; [left; auto|right]).
      - eapply Permutation_in; [apply merge_abs_perm|]. rewrite in_app_iff; auto.
      - eapply Permutation_in in I; [|symmetry; apply merge_abs_perm]. rewrite in_app_iff in I. tauto. }
    assert (forall v, ~ In v ((hd :: a) ++ b) -> v <> l0 -> v <> l1 -> ~ In v ((hd :: []) ++ (l0 :: a) ++ l1 :: b)) as Out0.
    { intros v Hv A B I. apply Hv. revert I. simpl. rewrite !in_app_iff. simpl. intuition congruence. }
    assert (forall v, In v (hd :: out ++ a' ++ b') <-> In v (hd :: merge_abs key a b)) as Mem1.
    { intros v. rewrite <- Eq. tauto. }
    destruct a' as [|x a''].
    - (* first list exhausted: append what is left of the second *)
      rewrite (dl_zero _ _ D01). cbn [N.ltb N.compare]. cbv iota.
      destruct (concat_dl h1 hd l1 out b' Dh1 D11 N02) as (h2 & E2 & Dh2 & D12 & Fr2 & Sz2 & Va2).
      rewrite E2. eexists; split; [reflexivity|]. simpl app in *.
      assert (forall v, In v (l0 :: []) \/ In v (l1 :: []) -> ~ In v (hd :: out ++ b')) as NT.
      { intros v [[<-|[]]|[<-|[]]] I.
        - apply (J01 l0); [|left; auto]. destruct I as [<-|I]; [left; auto|]. rewrite in_app_iff in I.
          destruct I as [I|I]; [right; auto|]. exfalso. apply (J12 l0); [left; auto|right; auto].
        - destruct I as [I|I]; [congruence|]. rewrite in_app_iff in I. destruct I as [I|I].
          + apply (J02 l1); [right; auto|left; auto].
          + pose proof (proj1 (proj1 D11)) as NDb. inversion NDb; auto. }
      split; [|split; [|split; [|split]]].
      + rewrite <- Eq. apply dl_hfree'; [apply NT; right; left; auto|].
        apply dl_hfree'; [apply NT; left; left; auto|]. exact Dh2.
      + rewrite hm_hfree_other; auto. apply hm_hfree_same.
      + apply hm_hfree_same.
      + intros v Hv A B. rewrite !hm_hfree_other; auto. rewrite Fr2, Fr; auto.
        intros I. apply Hv. apply Mem. apply Mem1. simpl.
        change (hd :: out ++ l1 :: b') with ((hd :: out) ++ l1 :: b') in I. rewrite in_app_iff in I.
        destruct I as [[<-|I]|[E'|I]]; [left; auto|right; rewrite in_app_iff; auto|congruence|right; rewrite in_app_iff; auto].
      + intros v A B C. simpl. rewrite Sz2, Sz; auto.
    - (* second list exhausted *)
      destruct Em as [Em|Em]; [discriminate|]. subst b'.
      rewrite (dl_pos _ _ _ _ D01).
      assert (NoDup (hd :: out ++ l0 :: x :: a'')) as N01' by exact N01.
      destruct (concat_dl h1 hd l0 out (x :: a'') Dh1 D01 N01') as (h2 & E2 & Dh2 & D02 & Fr2 & Sz2 & Va2).
      rewrite E2. eexists; split; [reflexivity|]. rewrite app_nil_r in *.
      assert (forall v, In v (l0 :: []) \/ In v (l1 :: []) -> ~ In v (hd :: out ++ x :: a'')) as NT.
      { intros v [[<-|[]]|[<-|[]]] I.
        - destruct I as [I|I]; [congruence|]. rewrite in_app_iff in I. destruct I as [I|I].
          + apply (J01 l0); [right; auto|left; auto].
          + pose proof (proj1 (proj1 D01)) as NDa. inversion NDa; auto.
        - apply (J02 l1); [|left; auto]. destruct I as [<-|I]; [left; auto|]. rewrite in_app_iff in I.
          destruct I as [I|I]; [right; auto|]. exfalso. apply (J12 l1); [right; auto|left; auto]. }
      split; [|split; [|split; [|split]]].
      + rewrite <- Eq. apply dl_hfree'; [apply NT; right; left; auto|].
        apply dl_hfree'; [apply NT; left; left; auto|]. exact Dh2.
      + rewrite hm_hfree_other; auto. apply hm_hfree_same.
      + apply hm_hfree_same.
      + intros v Hv A B. rewrite !hm_hfree_other; auto. rewrite Fr2, Fr; auto.
        intros I. apply Hv. apply Mem. apply Mem1. simpl.
        change (hd :: out ++ l0 :: x :: a'') with ((hd :: out) ++ l0 :: x :: a'') in I. rewrite in_app_iff in I.
        destruct I as [[<-|I]|[E'|I]]; [left; auto|right; rewrite in_app_iff; auto|congruence|right; rewrite in_app_iff; auto].
      + intros v A B C. simpl. rewrite Sz2, Sz; auto.
  Qed.
End SortMain.

(** * cstl_dlist_sort *)

Section SortSpec.
  Variable key : addr -> Z.

  Lemma taddr_inj a b : taddr a = taddr b -> a = b.
  Proof. unfold taddr. lia. Qed.

  Lemma Sorted_short (l : list addr) : length l <= 1 -> Sorted (kle key) l.
  Proof. destruct l as [|x [|y r]]; simpl; intros H; try lia; repeat constructor. Qed.

  Lemma size_gt1 h hd l : dl h hd l -> (1 <? rsz h hd)%N = Nat.ltb 1 (length l).
  Proof.
    intros (_ & Z). rewrite Z. destruct (Nat.ltb_spec 1 (length l)); [apply N.ltb_lt|apply N.ltb_ge]; lia.
  Qed.

  (** the ring is preserved, the result is an ordered permutation, nothing
      outside the list is touched and the stack-local list objects are gone *)
  Theorem sort_spec : forall fuel depth h hd l,
    dl h hd l -> length l <= fuel ->
    (forall k, 2 * depth <= k -> hm h (taddr k) = None) ->
    exists h' l', sort key fuel depth h hd = Ok h' /\ dl h' hd l' /\
      Permutation l l' /\ Sorted (kle key) l' /\
      (forall x, ~ In x (hd :: l) -> hm h' x = hm h x) /\
      (forall x, x <> hd -> (forall k, 2 * depth <= k -> x <> taddr k) -> hs h' x = hs h x).
  Proof.
    induction fuel as [|f IH]; intros depth h hd l D Lf Tm.
    - exists h, l. cbn [sort]. rewrite (size_gt1 _ _ _ D).
      destruct (Nat.ltb_spec 1 (length l)); [lia|].
      split; auto. split; auto. split; auto. split; [apply Sorted_short; auto|]. auto.
    - cbn [sort]. rewrite (size_gt1 _ _ _ D).
      destruct (Nat.ltb_spec 1 (length l)) as [L2|L1].
      2:{ exists h, l. split; auto. split; auto. split; auto. split; [apply Sorted_short; auto|]. auto. }
      set (l0 := taddr (2 * depth)). set (l1 := taddr (2 * depth + 1)).
      assert (l0 <> l1) as N01 by (unfold l0, l1; intros E; apply taddr_inj in E; lia).
      assert (hm h l0 = None) as F0 by (apply Tm; lia).
      assert (hm h l1 = None) as F1 by (apply Tm; lia).
      destruct (sort_split_spec h hd l l0 l1 D L2 N01 F0 F1)
        as (h1 & E1 & D0 & D1 & Dh & Fr1 & Sz1 & Va1).
      rewrite E1.
      set (la := firstn (length l / 2) l) in *. set (lb := skipn (length l / 2) l) in *.
      assert (l = la ++ lb) as El by (symmetry; apply firstn_skipn).
      assert (1 <= length l / 2) as Hk1 by (apply Nat.div_le_lower_bound; lia).
      assert (length l / 2 < length l) as Hk2 by (apply Nat.div_lt; lia).
      assert (length la <= f /\ length lb <= f) as (Lfa & Lfb).
      { unfold la, lb. rewrite firstn_length, skipn_length. lia. }
      assert (forall x, In x (hd :: l) -> valid h x) as Vl by (intros x; apply (ring_valid _ _ _ _ (proj1 D))).
      assert (forall x k, In x (hd :: l) -> 2 * depth <= k -> x <> taddr k) as NotTmp.
      { intros x k I Hk ->. apply (Vl _ I). apply Tm; auto. }
      assert (forall x, In x la -> In x l) as SubA by (intros x I; rewrite El, in_app_iff; auto).
      assert (forall x, In x lb -> In x l) as SubB by (intros x I; rewrite El, in_app_iff; auto).
      assert (forall x, In x la -> In x lb -> False) as Dab.
      { intros x I1 I2. pose proof (proj1 (proj1 D)) as ND. inversion ND as [|? ? Hh Hn].
        rewrite El in Hn. eapply NoDup_app_disj; eauto. }
      assert (forall k, 2 * S depth <= k -> hm h1 (taddr k) = None) as Tm1.
      { intros k Hk. rewrite Fr1; [apply Tm; lia| | |].
        - intros I. apply (NotTmp _ k I); auto. lia.
        - unfold l0. intros E. apply taddr_inj in E. lia.
        - unfold l1. intros E. apply taddr_inj in E. lia. }
      (* sort the first half *)
      destruct (IH (S depth) h1 l0 la D0 Lfa Tm1) as (h2 & la' & E2 & D0' & Pa & Sa & Fr2 & Sz2).
      rewrite E2.
      assert (forall x, In x (l0 :: la) -> In x (l1 :: lb) -> False) as J01.
      { intros x [<-|I1] [E|I2].
        - auto.
        - apply (NotTmp l0 (2 * depth)); [right; auto|lia|reflexivity].
        - subst x. apply (NotTmp l1 (2 * depth + 1)); [right; auto|lia|reflexivity].
        - eauto. }
      assert (forall x, In x (l0 :: la) \/ In x (l1 :: lb) -> x <> hd) as Jh.
      { intros x [[<-|I]|[<-|I]] E.
        - apply (NotTmp hd (2 * depth)); [left; auto|lia|auto].
        - rewrite E in I. pose proof (proj1 (proj1 D)) as ND. inversion ND; auto.
        - apply (NotTmp hd (2 * depth + 1)); [left; auto|lia|auto].
        - rewrite E in I. pose proof (proj1 (proj1 D)) as ND. inversion ND; auto. }
      assert (forall k, 2 * S depth <= k -> hd <> taddr k) as HdT.
      { intros k Hk. apply NotTmp; [left; auto|lia]. }
      assert (dl h2 l1 lb) as D1'.
      { revert D1. apply dl_frame.
        - intros y Hy. apply Fr2. intros I. eapply J01; eauto.
        - apply Sz2; auto. intros k Hk E. unfold l1 in E. apply taddr_inj in E. lia. }
      assert (dl h2 hd []) as Dh'.
      { revert Dh. apply dl_frame.
        - intros y [<-|[]]. apply Fr2. intros I. apply (Jh hd); auto.
        - apply Sz2; auto. intros E. apply (Jh l0); auto. left; left; auto. }
      assert (forall k, 2 * S depth <= k -> hm h2 (taddr k) = None) as Tm2.
      { intros k Hk. rewrite Fr2; auto. intros [E|I].
        - unfold l0 in E. apply taddr_inj in E. lia.
        - apply (NotTmp (taddr k) k); [right; auto|lia|auto]. }
      (* sort the second half *)
      destruct (IH (S depth) h2 l1 lb D1' Lfb Tm2) as (h3 & lb' & E3 & D1'' & Pb & Sb & Fr3 & Sz3).
      rewrite E3.
      assert (forall x, In x la' <-> In x la) as Ma.
      { intros x. split; intros I; [eapply Permutation_in; [symmetry|]|eapply Permutation_in]; eauto. }
      assert (forall x, In x lb' <-> In x lb) as Mb.
      { intros x. split; intros I; [eapply Permutation_in; [symmetry|]|eapply Permutation_in]; eauto. }
      assert (dl h3 l0 la') as D0''.
      { revert D0'. apply dl_frame.
        - intros y Hy. apply Fr3. intros I. apply (J01 y); auto.
          destruct Hy as [<-|Hy]; [left; auto|right; apply Ma; auto].
        - apply Sz3; auto. intros k Hk E. unfold l0 in E. apply taddr_inj in E. lia. }
      assert (dl h3 hd []) as Dh''.
      { revert Dh'. apply dl_frame.
        - intros y [<-|[]]. apply Fr3. intros I. apply (Jh hd); auto.
        - apply Sz3; auto. intros E. apply (Jh l1); auto. right; left; auto. }
      (* merge *)
      assert (tri h3 hd l0 l1 [] la' lb') as T.
      { split; auto. split; auto. split; auto.
        apply NoDup_app_intro; [repeat constructor; auto|apply NoDup_app_intro|].
        - apply (proj1 (proj1 D0'')).
        - apply (proj1 (proj1 D1'')).
        - intros x I1 I2. apply (J01 x).
          + destruct I1 as [<-|I1]; [left; auto|right; apply Ma; auto].
          + destruct I2 as [<-|I2]; [left; auto|right; apply Mb; auto].
        - intros x [<-|[]] I. rewrite in_app_iff in I. apply (Jh hd); auto.
          destruct I as [[<-|I]|[<-|I]]; [left; left; auto|left; right; apply Ma; auto
                                          |right; left; auto|right; right; apply Mb; auto]. }
      destruct (sort_join_spec key h3 hd l0 l1 la' lb' T) as (h4 & E4 & D4 & G0 & G1 & Fr4 & Sz4).
      rewrite E4. exists h4, (merge_abs key la' lb'). split; auto. split; auto.
      split; [|split; [|split]].
      + rewrite El. transitivity (la' ++ lb'); [apply Permutation_app; auto|apply merge_abs_perm].
      + apply merge_abs_sorted; auto.
      + intros x Hx. destruct (Nat.eq_dec x l0) as [->|X0]; [congruence|].
        destruct (Nat.eq_dec x l1) as [->|X1]; [congruence|].
        rewrite Fr4, Fr3, Fr2, Fr1; auto.
        * intros [E|I]; [congruence|]. apply Hx. right; auto.
        * intros [E|I]; [congruence|]. apply Hx. right; auto.
        * intros I. apply Hx. change ((hd :: la') ++ lb') with (hd :: la' ++ lb') in I.
          destruct I as [<-|I]; [left; auto|right]. rewrite in_app_iff in I.
          destruct I as [I|I]; [apply SubA, Ma|apply SubB, Mb]; auto.
      + intros x Xh Xt.
        assert (x <> l0) as X0 by (apply Xt; lia). assert (x <> l1) as X1 by (apply Xt; lia).
        rewrite Sz4, Sz3, Sz2, Sz1; auto; intros k Hk; apply Xt; lia.
  Qed.
End SortSpec.
