(** Pointer-level model of the trees, part 5: cstl_rbtree_fix_deletion and the
    loop of __cstl_rbtree_erase realise [del_cases] / [fix_del] on
    represented trees, including the stack stand-in [_x] (address [XADDR]):
    while the position that is one black short is empty, the parent's child
    slot is NULL, and the stand-in's [p] points at that parent. *)
From Cstl Require Import Prelude TreeModel TreeProofs RBProofs TreeLinksModel TreeLinksProofs
     TreeLinksOps TreeLinksIns TreeLinksErase.
Local Open Scope Z_scope.

(** the pointer [x] of the loop: the root of the subtree, or the stand-in *)
Definition xat (x : tree) (xa : nat) : Prop :=
  match x with E => xa = XADDR | T _ _ e _ => xa = adr e end.

Lemma xat_neq x xa i : xat x xa -> ~ In i (addrs x) -> i <> XADDR -> xa <> i.
Proof.
  destruct x as [|k l e r]; cbn [xat]; intros -> Hi Hz; [congruence|].
  intros <-. apply Hi. rewrite addrs_T. apply in_or_app. right. left. reflexivity.
Qed.

Lemma xat_in x xa i : xat x xa -> In i (addrs x ++ [XADDR]) -> True.
Proof. auto. Qed.

(** x's parent pointer survives writes that leave the stand-in alone and
    keep the subtree represented *)
Lemma xp_keep m m' x xa par :
  xat x xa -> n_p (mget m xa) = par -> rep m' par x -> mget m' XADDR = mget m XADDR ->
  n_p (mget m' xa) = par.
Proof.
  destruct x as [|k l e r]; cbn [xat]; intros -> Hp R F.
  - rewrite F. auto.
  - apply (rep_root_p m' par (T k l e r)); [exact R|reflexivity].
Qed.

Lemma T_as_mk d k l e r : exists a b, T k l e r = mk d k a e b /\ addrs (T k l e r) = addrs (mk d k a e b).
Proof. destruct d; [exists l, r|exists r, l]; split; reflexivity. Qed.

(** * The last part of cstl_rbtree_fix_deletion: w has a red r-child *)
Definition l_fd_fin (m2 : mem) (root2 : option nat) (x w' : nat) (d : dir)
  : option (mem * option nat * option nat) :=
  do xp2 <- n_p (mget m2 x);
  let m3 := setc m2 w' (n_c (mget m2 xp2)) in
  do xp3 <- n_p (mget m3 x);
  let m4 := setc m3 xp3 Black in
  do rw <- sel (opp d) (mget m4 w');
  let m5 := setc m4 rw Black in
  do xp5 <- n_p (mget m5 x);
  do (m6, root6) <- l_rotate m5 root2 xp5 d;
  Some (m6, root6, root6).

Lemma l_fd_fin_sim m root cc d pc x pe kw wa we bk bl be br xa :
  let wb := T bk bl be br in
  let P := mk d pc x pe (mk d kw wa we wb) in
  NoDup (addrs P ++ caddrs cc) -> xat x xa ->
  rep m (ctx_par cc) P -> crep m cc (Some (adr pe)) root ->
  n_p (mget m xa) = Some (adr pe) ->
  let t := mk d pc (mk d Black x pe wa) we (blacken wb) in
  exists m' root',
    l_fd_fin m root xa (adr we) d = Some (m', root', root') /\
    rep m' (ctx_par cc) t /\ crep m' cc (raddr t) root'.
Proof.
  intros wb P Nd Hx R C Xp t. subst P wb.
  apply rep_mk in R. destruct R as (Pp & Pc & Pl & Pr & Rx & RW). rewrite raddr_mk in Pr.
  apply rep_mk in RW. destruct RW as (Wp & Wc & Wl & Wr & Rwa & Rwb).
  pose proof Rwb as Rwb0. cbn [rep] in Rwb. destruct Rwb as (Bp & Bc & Bl & Br & Rbl & Rbr).
  cbn [raddr] in Wr.
  nd_norm.
  assert (Xn : xa <> adr pe /\ xa <> adr we /\ xa <> adr be).
  { splits; eapply xat_neq; eauto; apply adr_nz. }
  destruct Xn as (Xn1 & Xn2 & Xn3).
  set (pa := adr pe) in *. set (w := adr we) in *. set (b := adr be) in *.
  set (m3 := setc m w pc). set (m4 := setc m3 pa Black). set (m5 := setc m4 b Black).
  destruct (l_rotate_rep m5 root cc d Black x pe pc wa we (blacken (T bk bl be br)))
    as (m' & root' & E & R' & C' & F).
  - nd_solve.
  - apply rep_mk. fold pa. unfold m5, m4, m3. mread. rewrite raddr_mk. fold w. splits; auto.
    + eapply rep_frame; [|exact Rx]. intros i Hi. mframe.
    + apply rep_mk. fold w. mread. cbn [blacken raddr]. fold b. splits; auto.
      * eapply rep_frame; [|exact Rwa]. intros i Hi. mframe.
      * cbn [rep]. fold b. mread. splits; auto.
        -- eapply rep_frame; [|exact Rbl]. intros i Hi. mframe.
        -- eapply rep_frame; [|exact Rbr]. intros i Hi. mframe.
  - eapply crep_frame; [|exact C]. intros i Hi. unfold m5, m4, m3. mframe.
  - exists m', root'. splits; auto.
    + unfold l_fd_fin. rewrite Xp. cbn [bind]. rewrite Pc. fold m3.
      replace (n_p (mget m3 xa)) with (Some pa) by (unfold m3; mread; auto). cbn [bind]. fold m4.
      replace (sel (opp d) (mget m4 w)) with (Some b) by (unfold m4, m3; mread; auto). cbn [bind]. fold m5.
      replace (n_p (mget m5 xa)) with (Some pa) by (unfold m5, m4, m3; mread; auto). cbn [bind].
      fold pa in E. rewrite E. reflexivity.
    + unfold t. rewrite raddr_mk. exact C'.
Qed.

(** * The part of cstl_rbtree_fix_deletion after the red-sibling case *)
Definition l_fd_tail (m1 : mem) (root1 : option nat) (x : nat) (w1 : option nat) (d : dir)
  : option (mem * option nat * option nat) :=
  do w <- w1;
  if l_blk m1 (sel d (mget m1 w)) && l_blk m1 (sel (opp d) (mget m1 w)) then
    let m2 := setc m1 w Red in
    Some (m2, root1, n_p (mget m2 x))
  else
    do (m2, root2, w2) <-
       (if l_blk m1 (sel (opp d) (mget m1 w)) then
          do lw <- sel d (mget m1 w);
          let ma := setc m1 lw Black in
          let mb := setc ma w Red in
          do (mc, rc) <- l_rotate mb root1 w (opp d);
          do xpc <- n_p (mget mc x);
          Some (mc, rc, sel (opp d) (mget mc xpc))
        else Some (m1, root1, Some w));
    do w' <- w2;
    l_fd_fin m2 root2 x w' d.

Lemma l_fix_deletion_unfold m root x d :
  l_fix_deletion m root x d =
  do xp <- n_p (mget m x);
  do w <- sel (opp d) (mget m xp);
  do (m1, root1, w1) <-
     (if is_black (n_c (mget m w)) then Some (m, root, Some w)
      else
        let ma := setc m w Black in
        do xpa <- n_p (mget ma x);
        let mb := setc ma xpa Red in
        do xpb <- n_p (mget mb x);
        do (mc, rc) <- l_rotate mb root xpb d;
        do xpc <- n_p (mget mc x);
        Some (mc, rc, sel (opp d) (mget mc xpc)));
  l_fd_tail m1 root1 x w1 d.
Proof. reflexivity. Qed.

Lemma l_fd_tail_sim m root cc d pc x pe W xa :
  let P := mk d pc x pe W in
  NoDup (addrs P ++ caddrs cc) -> xat x xa ->
  rep m (ctx_par cc) P -> crep m cc (Some (adr pe)) root ->
  n_p (mget m xa) = Some (adr pe) ->
  match del_cases d x pc pe W with
  | DFault => True
  | Up x' =>
    exists m', l_fd_tail m root xa (raddr W) d = Some (m', root, Some (adr pe)) /\
               rep m' (ctx_par cc) x' /\ crep m' cc (Some (adr pe)) root /\
               raddr x' = Some (adr pe) /\ col x' = pc
  | Fin t =>
    exists m' root', l_fd_tail m root xa (raddr W) d = Some (m', root', root') /\
                     rep m' (ctx_par cc) t /\ crep m' cc (raddr t) root' /\ t <> E
  end.
Proof.
  intros P Nd Hx R C Xp. subst P. unfold del_cases.
  destruct (unmk d W) as [[[[wc wa] we] wb]|] eqn:Ew; [|exact I].
  apply unmk_mk in Ew. subst W.
  pose proof R as R0.
  apply rep_mk in R. destruct R as (Pp & Pc & Pl & Pr & Rx & RW). rewrite raddr_mk in Pr.
  pose proof RW as RW0.
  apply rep_mk in RW. destruct RW as (Wp & Wc & Wl & Wr & Rwa & Rwb).
  pose proof (Nd : keep _) as Nd0. nd_norm.
  assert (Xn : xa <> adr pe /\ xa <> adr we).
  { splits; eapply xat_neq; eauto; apply adr_nz. }
  destruct Xn as (Xn1 & Xn2).
  rewrite raddr_mk. unfold l_fd_tail. cbn [bind].
  rewrite Wl, Wr, (l_blk_rep _ _ _ Rwa), (l_blk_rep _ _ _ Rwb).
  destruct (negb (is_red wa) && negb (is_red wb)) eqn:Eb.
  - (* both children of w black: colour(w) = R, x = x->p *)
    exists (setc m (adr we) Red). splits.
    + mread. rewrite Xp. reflexivity.
    + apply rep_mk. mread. rewrite raddr_mk. splits; auto.
      * eapply rep_frame; [|exact Rx]. intros i Hi. mframe.
      * apply rep_mk. mread. splits; auto.
        -- eapply rep_frame; [|exact Rwa]. intros i Hi. mframe.
        -- eapply rep_frame; [|exact Rwb]. intros i Hi. mframe.
    + eapply crep_frame; [|exact C]. intros i Hi. mframe.
    + apply raddr_mk.
    + apply col_mk.
  - destruct (is_red wb) eqn:Erb; cbn [negb].
    + (* w's r-child is red *)
      rewrite unmk_mk_id. destruct wb as [|bk bl be br]; [discriminate|]. cbn [isE].
      rewrite rotate_mk. cbn [bind].
      destruct (l_fd_fin_sim m root cc d pc x pe wc wa we bk bl be br xa) as (m' & root' & Efin & R' & C');
        auto.
      exists m', root'. splits; auto. destruct d; discriminate.
    + (* w's r-child is black, its l-child red: rotate about w first *)
      rewrite andb_true_r in Eb. apply negb_false_iff in Eb.
      destruct wa as [|[] al ae ar]; try discriminate.
      destruct (T_as_mk (opp d) Red al ae ar) as (a1 & b1 & Ewa & Ewa').
      rewrite Ewa in *. clear Ewa Ewa' al ar. nd_norm. rewrite raddr_mk in *. cbn [bind].
      assert (Erot : rotate (opp d) (mk d Red (blacken (mk (opp d) Red a1 ae b1)) we wb) =
                     Some (mk (opp d) Black (mk (opp d) Red wb we a1) ae b1)).
      { destruct d; reflexivity. }
      rewrite Erot.
      (* pointer level: colour(l(w)) = B; colour(w) = R; rotate(t, w, r, l) *)
      apply rep_mk in Rwa. destruct Rwa as (Ap & Ac & Al & Ar & Ra1 & Rb1).
      rewrite opp_opp in Ar.
      set (ma := setc m (adr ae) Black). set (mb := setc ma (adr we) Red).
      destruct (l_rotate_rep mb root (mkF (opp d) pc pe x :: cc) (opp d) Red wb we Black a1 ae b1)
        as (mc & rc & Ec & Rc & Cc & Fc).
      { nd_solve. }
      { apply rep_mk. cbn [ctx_par fe]. unfold mb, ma. mread. rewrite raddr_mk. splits; auto.
        - eapply rep_frame; [|exact Rwb]. intros i Hi. mframe.
        - apply rep_mk. mread. splits; auto.
          + eapply rep_frame; [|exact Ra1]. intros i Hi. mframe.
          + eapply rep_frame; [|exact Rb1]. intros i Hi. mframe. }
      { cbn [crep fd fc fe fs]. unfold mb, ma. mread. splits; auto.
        - eapply rep_frame; [|exact Rx]. intros i Hi. mframe.
        - eapply crep_frame; [|exact C]. intros i Hi. mframe. }
      fold ma mb. rewrite Ec. cbn [bind].
      cbn [crep fd fc fe fs] in Cc. rewrite opp_opp in Cc.
      destruct Cc as (Cd & Co & Ccol & Cp & Rxc & Ccc).
      assert (Xpc : n_p (mget mc xa) = Some (adr pe)).
      { apply (xp_keep m mc x xa); auto. rewrite Fc.
        - unfold mb, ma. mframe.
        - intros Hi. apply in_app_or in Hi. destruct Hi as [Hi|Hi];
            [apply (addrs_nz _ Hi)|apply (caddrs_nz _ Hi)]. }
      rewrite Xpc. cbn [bind]. rewrite Cd.
      (* now w = ae with the red r-child (we ...) *)
      assert (Ew' : mk (opp d) Black (mk (opp d) Red wb we a1) ae b1 =
                    mk d Black b1 ae (mk d Red a1 we wb)).
      { rewrite !mk_opp. reflexivity. }
      rewrite Ew' in *. rewrite unmk_mk_id.
      assert (Esh : exists bk bl br, mk d Red a1 we wb = T bk bl we br).
      { destruct d; cbn [mk]; eauto. }
      destruct Esh as (bk & bl & br & Esh). rewrite Esh in *. cbn [isE].
      rewrite rotate_mk. cbn [bind].
      destruct (l_fd_fin_sim mc rc cc d pc x pe Black b1 ae bk bl we br xa) as (m' & root' & Efin & R' & C');
        auto.
      { rewrite <- Esh. nd_solve. }
      { apply rep_mk. rewrite raddr_mk. splits; auto. }
      exists m', root'. splits; auto. destruct d; discriminate.
Qed.

(** * The loop of __cstl_rbtree_erase *)
Lemma plug_nonempty c : forall t, t <> E -> exists k l e r, plug c t = T k l e r.
Proof.
  induction c as [|f c IH]; intros t Ht; cbn [plug].
  - destruct t; [congruence|]. eauto.
  - apply IH. unfold plug1. destruct (fd f); discriminate.
Qed.

Lemma xat_of_raddr x a : raddr x = Some a -> xat x a.
Proof. destruct x; cbn; [discriminate|]. intros [= <-]. reflexivity. Qed.

Lemma NoDup_addrs_plug c t : NoDup (addrs t ++ caddrs c) -> NoDup (addrs (plug c t)).
Proof. apply Permutation_NoDup. symmetry. apply addrs_plug. Qed.

(** x = t->root after the last case: the loop ends, the root is blackened *)
Lemma l_fd_exit_fin m' root' cc t f :
  rep m' (ctx_par cc) t -> crep m' cc (raddr t) root' -> t <> E -> NoDup (addrs t ++ caddrs cc) ->
  exists r, root' = Some r /\ l_del_loop f m' root' r = Some (m', root', r) /\
            rep (setc m' r Black) None (blacken (plug cc t)) /\ root' = raddr (blacken (plug cc t)).
Proof.
  intros R C Ht Nd.
  destruct (proj2 (rep_plug m' cc t root') (conj R C)) as (Rw & Hr).
  apply NoDup_addrs_plug in Nd.
  destruct (plug_nonempty cc t Ht) as (k & l & e & r & Ep). rewrite Ep in *.
  cbn [raddr] in Hr. exists (adr e). splits; auto.
  - assert (Hp : n_p (mget m' (adr e)) = None) by (eapply rep_root_p; eauto; reflexivity).
    destruct f; cbn [l_del_loop]; rewrite Hp; reflexivity.
  - apply (rep_setcol m' None (T k l e r) (adr e) Black); auto.
Qed.

(** the loop ends at x (red, or the root): colour(x) = B *)
Lemma l_final_blacken m c x xa root :
  xat x xa -> rep m (ctx_par c) x -> crep m c (raddr x) root -> NoDup (addrs x ++ caddrs c) ->
  rep (setc m xa Black) None (plug c (blacken x)) /\ root = raddr (plug c (blacken x)).
Proof.
  intros Hx R C Nd. apply rep_plug. rewrite raddr_blacken.
  destruct x as [|k l e r]; cbn [xat] in Hx; subst xa.
  - cbn [blacken rep]. split; auto. eapply crep_frame; [|exact C].
    intros i Hi. apply mget_setc_o. intros <-. apply (caddrs_nz _ Hi).
  - split.
    + apply (rep_setcol m (ctx_par c) (T k l e r) (adr e) Black); auto.
      apply NoDup_app_disj in Nd. tauto.
    + eapply crep_frame; [|exact C]. intros i Hi. nd_norm. mframe.
Qed.

Lemma l_del_loop_sim : forall c x xa m root fuel t',
  (length c <= fuel)%nat -> NoDup (addrs x ++ caddrs c) -> xat x xa ->
  rep m (ctx_par c) x -> crep m c (raddr x) root ->
  n_p (mget m xa) = ctx_par c -> n_c (mget m xa) = col x ->
  fix_del x c = Some t' ->
  exists m' root' x4,
    l_del_loop fuel m root xa = Some (m', root', x4) /\
    rep (setc m' x4 Black) None t' /\ root' = raddr t'.
Proof.
  induction c as [|p up IH]; intros x xa m root fuel t' Hf Nd Hx R C Xp Xc H.
  - cbn [fix_del] in H. injection H as <-. exists m, root, xa. split.
    + cbn [ctx_par] in Xp. destruct fuel; cbn [l_del_loop]; rewrite Xp; reflexivity.
    + apply (l_final_blacken m [] x xa root); auto.
  - cbn [fix_del] in H. cbn [ctx_par] in Xp.
    destruct (is_red x) eqn:Ex.
    { injection H as <-. exists m, root, xa. split.
      - apply is_red_col_t in Ex. rewrite Ex in Xc.
        destruct fuel; cbn [l_del_loop]; rewrite Xp, Xc; reflexivity.
      - apply (l_final_blacken m (p :: up) x xa root); auto. }
    apply is_red_col in Ex. rewrite Ex in Xc.
    destruct fuel as [|f]; [cbn in Hf; lia|].
    destruct p as [pd pc pe W]. cbn [fd fc fe fs] in *.
    match type of H with context [dir_eqb ?dd pd] => destruct (dir_eqb dd pd) eqn:Ed end; [|discriminate].
    apply dir_eqb_eq in Ed. cbn [negb] in H. rewrite Ed in H.
    pose proof C as C0. cbn [crep fd fc fe fs] in C. destruct C as (Pd & Po & Pc & Pp & RW & Cup).
    pose proof (Nd : keep _) as Nd0. nd_norm.
    assert (Dir : (if oeqb (Some xa) (n_l (mget m (adr pe)))
                      || (Nat.eqb xa XADDR && oeqb (n_l (mget m (adr pe))) None)
                   then Lf else Rt) = pd).
    { destruct pd; cbn [sel opp] in Pd, Po.
      - rewrite Pd. destruct x as [|xk xl xe xr]; cbn [xat raddr] in *; subst xa.
        + reflexivity.
        + rewrite oeqb_refl. reflexivity.
      - rewrite Po. destruct x as [|xk xl xe xr]; cbn [xat raddr] in *; subst xa.
        + destruct W; cbn in Ed; [discriminate Ed|]. reflexivity.
        + nd_norm. rewrite oeqb_raddr_false' by notin. reflexivity. }
    destruct (unmk pd W) as [[[[wc wa] we] wb]|] eqn:Ew; [|discriminate].
    apply unmk_mk in Ew. subst W. rewrite raddr_mk in Po.
    pose proof RW as RW0. apply rep_mk in RW. destruct RW as (Wp & Wc & Wl & Wr & Rwa & Rwb).
    nd_norm.
    assert (Xn : xa <> adr pe /\ xa <> adr we).
    { splits; eapply xat_neq; eauto; apply adr_nz. }
    destruct Xn as (Xn1 & Xn2).
    assert (Loop : l_del_loop (S f) m root xa =
                   do (m', root', xo) <- l_fix_deletion m root xa pd;
                   do x' <- xo; l_del_loop f m' root' x').
    { cbn [l_del_loop]. rewrite Xp, Xc. cbn [is_black]. rewrite Dir. reflexivity. }
    rewrite Loop. clear Loop. rewrite l_fix_deletion_unfold, Xp. cbn [bind]. rewrite Po. cbn [bind].
    rewrite Wc. destruct wc.
    + (* red sibling: recolour, rotate about the parent, then the black-sibling cases *)
      cbn [is_black]. cbv zeta. mread. rewrite Xp. cbn [bind]. mread. rewrite Xp. cbn [bind].
      set (ma := setc m (adr we) Black). set (mb := setc ma (adr pe) Red).
      destruct (l_rotate_rep mb root up pd Red x pe Black wa we wb) as (mc & rc & Ec & Rc & Cc & Fc).
      { nd_solve. }
      { apply rep_mk. unfold mb, ma. mread. rewrite raddr_mk. splits; auto.
        - eapply rep_frame; [|exact R]. intros i Hi. mframe.
        - apply rep_mk. mread. splits; auto.
          + eapply rep_frame; [|exact Rwa]. intros i Hi. mframe.
          + eapply rep_frame; [|exact Rwb]. intros i Hi. mframe. }
      { eapply crep_frame; [|exact Cup]. intros i Hi. unfold mb, ma. mframe. }
      rewrite Ec. cbn [bind].
      apply rep_mk in Rc. destruct Rc as (Gp & Gc & Gl & Gr & RP & Rwb').
      rewrite raddr_mk in Gl.
      pose proof RP as RP0. apply rep_mk in RP. destruct RP as (Pp' & Pc' & Pl' & Pr' & Rx' & Rwa').
      assert (Xpc : n_p (mget mc xa) = Some (adr pe)).
      { apply (xp_keep m mc x xa); auto. rewrite Fc.
        - unfold mb, ma. mframe.
        - intros Hi. apply in_app_or in Hi. destruct Hi as [Hi|Hi];
            [apply (addrs_nz _ Hi)|apply (caddrs_nz _ Hi)]. }
      rewrite Xpc. cbn [bind]. rewrite Pr'.
      set (g := mkF pd Black we wb).
      pose proof (l_fd_tail_sim mc rc (g :: up) pd Red x pe wa xa) as HT. cbn zeta in HT.
      assert (HT' := fun A => HT A Hx RP0).
      clear HT.
      assert (Cg : crep mc (g :: up) (Some (adr pe)) rc).
      { cbn [crep g fd fc fe fs]. splits; auto. }
      assert (Ndg : NoDup (addrs (mk pd Red x pe wa) ++ caddrs (g :: up))).
      { unfold g. nd_solve. }
      specialize (HT' Ndg Cg Xpc).
      pose proof (del_cases_inorder pd x Red pe wa) as D.
      destruct (del_cases pd x Red pe wa) as [x'|t|]; [| |discriminate].
      * (* x moves up to its (red) parent: the loop ends *)
        injection H as <-.
        destruct HT' as (m' & Et & R' & C' & Hr' & Hc').
        rewrite Et. cbn [bind].
        assert (Hp' : n_p (mget m' (adr pe)) = Some (adr we)) by (eapply rep_root_p; eauto).
        assert (Hk' : n_c (mget m' (adr pe)) = Red) by (rewrite <- Hc'; eapply rep_root_c; eauto).
        exists m', rc, (adr pe). split.
        -- destruct f; cbn [l_del_loop]; rewrite Hp', Hk'; reflexivity.
        -- apply (l_final_blacken m' (g :: up) x' (adr pe) rc); auto.
           ++ apply xat_of_raddr; auto.
           ++ rewrite Hr'. exact C'.
           ++ unfold addrs at 1. rewrite D. exact Ndg.
      * (* the final rotation: x = root *)
        injection H as <-.
        destruct HT' as (m' & root' & Et & R' & C' & Ht).
        rewrite Et. cbn [bind].
        destruct (l_fd_exit_fin m' root' (g :: up) t f R' C' Ht) as (r & Hr & El & Rf & Hrf).
        { unfold addrs at 1. rewrite D. exact Ndg. }
        rewrite Hr. cbn [bind]. rewrite <- Hr. exists m', root', r. auto.
    + (* black sibling *)
      cbn [is_black bind].
      pose proof (l_fd_tail_sim m root up pd pc x pe (mk pd Black wa we wb) xa) as HT. cbn zeta in HT.
      assert (RP : rep m (ctx_par up) (mk pd pc x pe (mk pd Black wa we wb))).
      { apply rep_mk. rewrite raddr_mk. splits; auto. }
      assert (NdP : NoDup (addrs (mk pd pc x pe (mk pd Black wa we wb)) ++ caddrs up)).
      { nd_solve. }
      specialize (HT NdP Hx RP Cup Xp). rewrite raddr_mk in HT.
      pose proof (del_cases_inorder pd x pc pe (mk pd Black wa we wb)) as D.
      destruct (del_cases pd x pc pe (mk pd Black wa we wb)) as [x'|t|]; [| |discriminate].
      * (* x moves up: next iteration *)
        destruct HT as (m' & Et & R' & C' & Hr' & Hc').
        rewrite Et. cbn [bind].
        apply (IH x' (adr pe) m' root f t'); auto.
        -- cbn [length] in Hf. lia.
        -- unfold addrs at 1. rewrite D. exact NdP.
        -- apply xat_of_raddr; auto.
        -- rewrite Hr'. exact C'.
        -- eapply rep_root_p; eauto.
        -- eapply rep_root_c; eauto.
      * injection H as <-.
        destruct HT as (m' & root' & Et & R' & C' & Ht).
        rewrite Et. cbn [bind].
        destruct (l_fd_exit_fin m' root' up t f R' C' Ht) as (r & Hr & El & Rf & Hrf).
        { unfold addrs at 1. rewrite D. exact NdP. }
        rewrite Hr. cbn [bind]. rewrite <- Hr. exists m', root', r. auto.
Qed.
