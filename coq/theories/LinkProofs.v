(** C18 -- proofs about the link model of LinkSpec.v.

    Main results
    - [facts_ok_link_ok] : the finite boolean check on the facts implies
      [link_ok] for EVERY program (any number of translation units, each any
      list of public headers in any order with any repetition);
    - [link_ok_b_iff]   : the executable verdict decides [link_ok]. *)
From Coq Require Import List String Bool Arith Lia.
From Cstl Require Import LinkSpec.
Import ListNotations.
Open Scope string_scope.
Open Scope list_scope.

(* ------------------------------------------------------------------ *)
(** * Boolean helpers *)

Lemma mem_In n l : mem n l = true <-> In n l.
Proof.
  unfold mem. rewrite existsb_exists. split.
  - intros (x & Hx & E). apply String.eqb_eq in E. subst; auto.
  - intros H. exists n. split; auto. apply String.eqb_refl.
Qed.

Lemma mem_false n l : mem n l = false <-> ~ In n l.
Proof.
  rewrite <- mem_In. destruct (mem n l); intuition congruence.
Qed.

Lemma nodupb_spec l : nodupb l = true <-> NoDup l.
Proof.
  induction l as [|x r IH]; simpl.
  - split; auto using NoDup_nil.
  - rewrite andb_true_iff, negb_true_iff, mem_false, IH. split.
    + intros (A & B). constructor; auto.
    + intros H. inversion H; auto.
Qed.

Lemma sym_eqb_eq a b : sym_eqb a b = true <-> a = b.
Proof.
  destruct a as (n1, b1), b as (n2, b2). unfold sym_eqb. simpl.
  rewrite andb_true_iff, String.eqb_eq, Bool.eqb_true_iff. split.
  - intros (-> & ->). auto.
  - intros [= -> ->]. auto.
Qed.

Lemma memsym_In s l : memsym s l = true <-> In s l.
Proof.
  unfold memsym. rewrite existsb_exists. split.
  - intros (x & Hx & E). apply sym_eqb_eq in E. subst; auto.
  - intros H. exists s. split; auto. apply sym_eqb_eq. auto.
Qed.

Lemma memsym_false s l : memsym s l = false <-> ~ In s l.
Proof.
  rewrite <- memsym_In. destruct (memsym s l); intuition congruence.
Qed.

Lemma linkage_consistent_spec l :
  linkage_consistent l = true <->
  (forall n, In (n, true) l -> ~ In (n, false) l).
Proof.
  unfold linkage_consistent. rewrite forallb_forall. split.
  - intros H n Ht Hf. specialize (H _ Ht). simpl in H.
    rewrite negb_true_iff, memsym_false in H. auto.
  - intros H (n, b) Hin. simpl. rewrite negb_true_iff, memsym_false.
    destruct b; simpl; intros Hin'.
    + apply (H n); auto.
    + apply (H n); auto.
Qed.

(* ------------------------------------------------------------------ *)
(** * Lists *)

Lemma NoDup_app_iff {A} (l1 l2 : list A) :
  NoDup (l1 ++ l2) <->
  NoDup l1 /\ NoDup l2 /\ (forall x, In x l1 -> In x l2 -> False).
Proof.
  induction l1 as [|a l1 IH]; simpl.
  - split.
    + intros H. repeat split; auto using NoDup_nil.
    + intros (_ & H & _). auto.
  - split.
    + intros H. inversion H as [|? ? Hn Hd]; subst.
      apply IH in Hd. destruct Hd as (D1 & D2 & D3).
      repeat split; auto.
      * constructor; auto. intros Hin. apply Hn. apply in_or_app; auto.
      * intros x [->|Hx] Hx2.
        -- apply Hn. apply in_or_app; auto.
        -- eapply D3; eauto.
    + intros (D1 & D2 & D3). inversion D1 as [|? ? Hn Hd]; subst.
      constructor.
      * intros Hin. apply in_app_or in Hin. destruct Hin as [Hin|Hin]; auto.
        apply (D3 a); auto.
      * apply IH. repeat split; auto. intros x Hx Hx2. apply (D3 x); auto.
Qed.

Lemma NoDup_map_NoDup {A B} (g : A -> B) (l : list A) :
  NoDup (map g l) -> NoDup l.
Proof.
  induction l as [|a l IH]; simpl; intros H.
  - constructor.
  - inversion H as [|? ? Hn Hd]; subst. constructor; auto.
    intros Hin. apply Hn. apply in_map. auto.
Qed.

(** A duplicate-free selection of the blocks of a duplicate-free
    concatenation is duplicate-free. *)
Lemma NoDup_flat_map_block {A B} (g : A -> list B) (l : list A) a :
  NoDup (flat_map g l) -> In a l -> NoDup (g a).
Proof.
  induction l as [|c l IH]; simpl; intros H Hin; [tauto|].
  apply NoDup_app_iff in H. destruct H as (D1 & D2 & _).
  destruct Hin as [->|Hin]; auto.
Qed.

Lemma NoDup_flat_map_disjoint {A B} (g : A -> list B) (l : list A) a b x :
  NoDup (flat_map g l) -> In a l -> In b l -> a <> b ->
  In x (g a) -> In x (g b) -> False.
Proof.
  induction l as [|c l IH]; simpl; intros H Ha Hb Hab Hxa Hxb; [tauto|].
  apply NoDup_app_iff in H. destruct H as (D1 & D2 & D3).
  destruct Ha as [->|Ha], Hb as [->|Hb].
  - congruence.
  - apply (D3 x); auto. apply in_flat_map. eauto.
  - apply (D3 x); auto. apply in_flat_map. eauto.
  - eapply IH; eauto.
Qed.

Lemma NoDup_flat_map_sub {A B} (g : A -> list B) (l bs : list A) :
  NoDup (flat_map g l) -> NoDup bs -> incl bs l -> NoDup (flat_map g bs).
Proof.
  intros Hl. induction bs as [|b bs IH]; simpl; intros Hbs Hincl.
  - constructor.
  - inversion Hbs as [|? ? Hn Hd]; subst.
    apply NoDup_app_iff. split; [|split].
    + eapply NoDup_flat_map_block; eauto. apply Hincl. simpl; auto.
    + apply IH; auto. intros y Hy. apply Hincl. simpl; auto.
    + intros x Hx Hx2. apply in_flat_map in Hx2. destruct Hx2 as (b' & Hb' & Hx').
      eapply (NoDup_flat_map_disjoint g l b b' x); eauto.
      * apply Hincl. simpl; auto.
      * apply Hincl. simpl; auto.
      * intros ->. auto.
Qed.

Lemma flat_map_map_fst (bs : list header) :
  map fst (tu_defs bs) = flat_map (fun h => map fst (hdefs h)) bs.
Proof.
  unfold tu_defs. induction bs as [|b bs IH]; simpl; auto.
  rewrite map_app. f_equal. exact IH.
Qed.

(* ------------------------------------------------------------------ *)
(** * find_header *)

Lemma find_header_Some hs n h :
  find_header hs n = Some h -> In h hs /\ hname h = n.
Proof.
  induction hs as [|a hs IH]; simpl; [discriminate|].
  destruct (String.eqb_spec (hname a) n) as [E|E].
  - intros [= <-]. auto.
  - intros H. apply IH in H. tauto.
Qed.

Lemma find_header_In hs n :
  In n (names hs) -> exists h, find_header hs n = Some h.
Proof.
  induction hs as [|a hs IH]; simpl; [tauto|].
  intros [E|Hin].
  - subst. rewrite String.eqb_refl. eauto.
  - destruct (String.eqb (hname a) n); eauto.
Qed.

Lemma find_header_None hs n :
  find_header hs n = None -> ~ In n (names hs).
Proof.
  intros H Hin. apply find_header_In in Hin. destruct Hin as (h & E). congruence.
Qed.

(* ------------------------------------------------------------------ *)
(** * Termination measure of the preprocessing model *)

(** include directives of headers not yet entered *)
Fixpoint cost (hs : list header) (seen : list string) : nat :=
  match hs with
  | [] => 0
  | h :: r => (if mem (hname h) seen then 0 else List.length (hincludes h)) + cost r seen
  end.

Lemma cost_nil hs : cost hs [] = total_includes hs.
Proof. induction hs as [|h r IH]; simpl; auto. Qed.

Lemma mem_cons n m l : mem n (m :: l) = (String.eqb n m || mem n l)%bool.
Proof. reflexivity. Qed.

Lemma cost_head_mono a n seen :
  (if mem (hname a) (n :: seen) then 0 else List.length (hincludes a))
  <= (if mem (hname a) seen then 0 else List.length (hincludes a)).
Proof.
  rewrite mem_cons.
  destruct (String.eqb (hname a) n); simpl; destruct (mem (hname a) seen); lia.
Qed.

Lemma cost_mono hs n seen : cost hs (n :: seen) <= cost hs seen.
Proof.
  induction hs as [|h r IH]; cbn [cost]; auto.
  pose proof (cost_head_mono h n seen). lia.
Qed.

Lemma cost_step hs h seen :
  In h hs -> ~ In (hname h) seen ->
  cost hs (hname h :: seen) + List.length (hincludes h) <= cost hs seen.
Proof.
  induction hs as [|a r IH]; cbn [cost In]; [tauto|].
  intros [->|Hin] Hns.
  - apply mem_false in Hns. rewrite Hns.
    rewrite mem_cons, String.eqb_refl. cbn [orb].
    pose proof (cost_mono r (hname h) seen). lia.
  - specialize (IH Hin Hns).
    pose proof (cost_head_mono a (hname h) seen). lia.
Qed.

(** When every header is guarded and every #include names a listed header,
    preprocessing terminates within the fuel and enters no header twice. *)
Lemma pp_total hs :
  (forall h, In h hs -> hguarded h = true) ->
  (forall h i, In h hs -> In i (hincludes h) -> In i (names hs)) ->
  forall fuel seen stack,
    (forall n, In n stack -> In n (names hs)) ->
    List.length stack + cost hs seen < fuel ->
    exists bs, pp hs fuel seen stack = Some bs /\
               (forall b, In b bs -> In b hs) /\
               NoDup (names bs) /\
               (forall b, In b bs -> ~ In (hname b) seen).
Proof.
  intros Hg Hi. induction fuel as [|fuel IH]; intros seen stack Hst Hm; [lia|].
  destruct stack as [|n rest]; simpl.
  - exists []. repeat split; simpl; auto using NoDup_nil; tauto.
  - destruct (find_header_In hs n) as (h & Hf); [apply Hst; simpl; auto|].
    rewrite Hf. destruct (find_header_Some _ _ _ Hf) as (Hin & Hn).
    rewrite (Hg h Hin). simpl.
    destruct (mem n seen) eqn:Hmem.
    + apply IH.
      * intros m Hm'. apply Hst. simpl; auto.
      * simpl in Hm. lia.
    + apply mem_false in Hmem.
      destruct (IH (n :: seen) (hincludes h ++ rest)) as (bs & Hpp & Hbs & Hnd & Hns).
      * intros m Hm'. apply in_app_or in Hm'. destruct Hm' as [Hm'|Hm'].
        -- eapply Hi; eauto.
        -- apply Hst. simpl; auto.
      * rewrite app_length. simpl in Hm.
        assert (C := cost_step hs h seen Hin). rewrite Hn in C. specialize (C Hmem). lia.
      * rewrite Hpp. simpl. exists (h :: bs). split; auto. split; [|split].
        -- intros b [<-|Hb]; auto.
        -- simpl. constructor; auto. rewrite Hn. intros Hin'.
           apply in_map_iff in Hin'. destruct Hin' as (b & Eb & Hb).
           apply (Hns b Hb). rewrite Eb. simpl; auto.
        -- intros b [<-|Hb].
           ++ rewrite Hn. auto.
           ++ intros Hin'. apply (Hns b Hb). simpl; auto.
Qed.

(* ------------------------------------------------------------------ *)
(** * What [facts_ok] says, as propositions *)

Record facts_good (f : facts) : Prop := {
  fg_names : NoDup (names (headers f));
  fg_guarded : forall h, In h (headers f) -> hguarded h = true;
  fg_alone : forall h, In h (headers f) -> hcompiles_alone h = true;
  fg_closed : forall h i, In h (headers f) -> In i (hincludes h) -> In i (names (headers f));
  fg_static_defs : forall h d, In h (headers f) -> In d (hdefs h) -> snd d = false;
  fg_ext_decl : forall h n, In h (headers f) -> In (n, true) (hdecls h) ->
                            In n (lib_a f) /\ In n (lib_so f);
  fg_static_decl : forall h n, In h (headers f) -> In (n, false) (hdecls h) -> In (n, false) (hdefs h);
  fg_defs_nodup : NoDup (all_def_names (headers f));
  fg_linkage : forall n, In (n, true) (all_syms (headers f)) -> ~ In (n, false) (all_syms (headers f));
  fg_lib_a : NoDup (lib_a f);
  fg_lib_so : NoDup (lib_so f)
}.

Lemma facts_ok_good f : facts_ok f = true -> facts_good f.
Proof.
  unfold facts_ok. rewrite !andb_true_iff.
  intros (((((H1 & H2) & H3) & H4) & H5) & H6).
  rewrite forallb_forall in H2.
  assert (HH : forall h, In h (headers f) ->
    hguarded h = true /\ hcompiles_alone h = true /\
    (forall i, In i (hincludes h) -> In i (names (headers f))) /\
    (forall d, In d (hdefs h) -> snd d = false) /\
    (forall d, In d (hdecls h) ->
       (if snd d then mem (fst d) (lib_a f) && mem (fst d) (lib_so f)
        else memsym d (hdefs h)) = true)).
  { intros h Hh. specialize (H2 h Hh). unfold header_ok in H2.
    rewrite !andb_true_iff in H2. destruct H2 as ((((A & B) & C) & D) & E).
    rewrite forallb_forall in C, D, E. repeat split; auto.
    - intros i Hi. apply mem_In. auto.
    - intros d Hd. specialize (D d Hd). destruct (snd d); simpl in *; congruence. }
  constructor.
  - apply nodupb_spec; auto.
  - intros h Hh. apply HH; auto.
  - intros h Hh. apply HH; auto.
  - intros h i Hh. apply HH; auto.
  - intros h d Hh. apply HH; auto.
  - intros h n Hh Hd. destruct (HH h Hh) as (_ & _ & _ & _ & E).
    specialize (E _ Hd). simpl in E. rewrite andb_true_iff, !mem_In in E. auto.
  - intros h n Hh Hd. destruct (HH h Hh) as (_ & _ & _ & _ & E).
    specialize (E _ Hd). simpl in E. apply memsym_In. auto.
  - apply nodupb_spec; auto.
  - apply linkage_consistent_spec; auto.
  - apply nodupb_spec; auto.
  - apply nodupb_spec; auto.
Qed.

(* ------------------------------------------------------------------ *)
(** * The general lemma *)

Lemma in_tu_syms_all hs bs s :
  (forall b, In b bs -> In b hs) -> In s (tu_syms bs) -> In s (all_syms hs).
Proof.
  intros Hsub Hin. unfold all_syms. apply in_flat_map.
  unfold tu_syms, tu_decls, tu_defs in Hin. apply in_app_or in Hin.
  destruct Hin as [Hin|Hin]; apply in_flat_map in Hin; destruct Hin as (b & Hb & Hs);
    exists b; split; auto; apply in_or_app; auto.
Qed.

Lemma ext_names_static l :
  (forall d, In d l -> snd d = false) -> ext_names l = [].
Proof.
  unfold ext_names. induction l as [|d l IH]; simpl; intros H; auto.
  rewrite (H d) by auto. apply IH. intros; apply H; auto.
Qed.

Section General.
  Variable f : facts.
  Hypothesis G : facts_good f.

  Lemma good_tu_bodies t :
    (forall n, In n t -> In n (names (headers f))) ->
    exists bs, tu_bodies f t = Some bs /\
               (forall b, In b bs -> In b (headers f)) /\ NoDup (names bs).
  Proof.
    intros Hv. unfold tu_bodies.
    destruct (pp_total (headers f) (fg_guarded f G) (fg_closed f G)
                (fuel_for (headers f) t) [] t Hv) as (bs & E & S & N & _).
    - rewrite cost_nil. unfold fuel_for. lia.
    - eauto.
  Qed.

  Lemma good_tu_compiles t :
    (forall n, In n t -> In n (names (headers f))) -> tu_compiles f t.
  Proof.
    intros Hv. destruct (good_tu_bodies t Hv) as (bs & E & S & N).
    exists bs. split; auto. split; auto. split; [|split; [|split]].
    - intros b Hb. apply (fg_alone f G). auto.
    - rewrite flat_map_map_fst.
      apply (NoDup_flat_map_sub _ (headers f)).
      + exact (fg_defs_nodup f G).
      + eapply NoDup_map_NoDup; eauto.
      + exact S.
    - intros n Ht Hf.
      apply (fg_linkage f G n); eapply in_tu_syms_all; eauto.
    - intros n Hd. unfold tu_decls in Hd. apply in_flat_map in Hd.
      destruct Hd as (b & Hb & Hd). unfold tu_defs. apply in_flat_map.
      exists b. split; auto. apply (fg_static_decl f G); auto.
  Qed.

  Lemma good_exports_nil t :
    (forall n, In n t -> In n (names (headers f))) -> obj_exports f t = [].
  Proof.
    intros Hv. destruct (good_tu_bodies t Hv) as (bs & E & S & N).
    unfold obj_exports, bodies_or_nil. rewrite E.
    apply ext_names_static. intros d Hd. unfold tu_defs in Hd.
    apply in_flat_map in Hd. destruct Hd as (b & Hb & Hd).
    eapply (fg_static_defs f G); eauto.
  Qed.

  Lemma good_all_exports_nil p : valid_prog f p -> all_exports f p = [].
  Proof.
    unfold all_exports. induction p as [|t p IH]; simpl; intros Hv; auto.
    rewrite good_exports_nil, IH; auto.
    - intros t' Ht'. apply Hv. simpl; auto.
    - apply Hv. simpl; auto.
  Qed.

  Lemma good_imports t n :
    (forall m, In m t -> In m (names (headers f))) ->
    In n (obj_imports f t) -> In n (lib_a f) /\ In n (lib_so f).
  Proof.
    intros Hv Hin. destruct (good_tu_bodies t Hv) as (bs & E & S & N).
    unfold obj_imports, bodies_or_nil in Hin. rewrite E in Hin.
    unfold ext_names in Hin. apply in_map_iff in Hin.
    destruct Hin as ((m, b) & Em & Hf). simpl in Em. subst m.
    apply filter_In in Hf. destruct Hf as (Hd & Hb). simpl in Hb. subst b.
    unfold tu_decls in Hd. apply in_flat_map in Hd. destruct Hd as (h & Hh & Hd).
    apply (fg_ext_decl f G h n); auto.
  Qed.

  Lemma good_link_ok p : valid_prog f p -> link_ok f p.
  Proof.
    intros Hv.
    assert (A : forall t, In t p -> tu_compiles f t).
    { intros t Ht. apply good_tu_compiles. apply Hv; auto. }
    split; (split; [exact A|]); rewrite (good_all_exports_nil p Hv); simpl; split.
    - exact (fg_lib_a f G).
    - intros t n Ht Hn. apply (good_imports t n (Hv t Ht) Hn).
    - exact (fg_lib_so f G).
    - intros t n Ht Hn. apply (good_imports t n (Hv t Ht) Hn).
  Qed.
End General.

(** The general lemma: proved once, for an unbounded number of translation
    units and every order and repetition of the #include lines. *)
Theorem facts_ok_link_ok f :
  facts_ok f = true -> forall p, valid_prog f p -> link_ok f p.
Proof. intros H p. apply good_link_ok. apply facts_ok_good. exact H. Qed.

(** Under [facts_ok] no client object exports anything and every function
    reachable through a header is provided (used by the corollaries of
    Properties_C18.v). *)
Theorem facts_ok_exports_nil f :
  facts_ok f = true -> forall p, valid_prog f p -> all_exports f p = [].
Proof. intros H p. apply good_all_exports_nil. apply facts_ok_good. exact H. Qed.

Theorem facts_ok_provided f :
  facts_ok f = true ->
  forall h, In h (headers f) ->
    (forall n, In (n, true) (hdecls h) -> In n (lib_a f) /\ In n (lib_so f)) /\
    (forall n, In (n, false) (hdecls h) -> In (n, false) (hdefs h)) /\
    (forall n b, In (n, b) (hdefs h) -> b = false).
Proof.
  intros H h Hh. apply facts_ok_good in H. split; [|split].
  - intros n Hn. eapply fg_ext_decl; eauto.
  - intros n Hn. eapply fg_static_decl; eauto.
  - intros n b Hn. apply (fg_static_defs f H h (n, b)); auto.
Qed.

(* ------------------------------------------------------------------ *)
(** * The executable verdict decides [link_ok] *)

Lemma valid_prog_b_iff f p : valid_prog_b f p = true <-> valid_prog f p.
Proof.
  unfold valid_prog_b, valid_prog. rewrite forallb_forall. split.
  - intros H t Ht n Hn. specialize (H t Ht). rewrite forallb_forall in H.
    apply mem_In. auto.
  - intros H t Ht. rewrite forallb_forall. intros n Hn. apply mem_In. eauto.
Qed.

Lemma tu_compiles_b_iff f t : tu_compiles_b f t = true <-> tu_compiles f t.
Proof.
  unfold tu_compiles_b, tu_compiles. destruct (tu_bodies f t) as [bs|].
  - rewrite !andb_true_iff, !nodupb_spec, linkage_consistent_spec, !forallb_forall. split.
    + intros ((((A & B) & C) & D) & E). exists bs. repeat split; auto.
      intros n Hn. specialize (E _ Hn). simpl in E. apply memsym_In. auto.
    + intros (bs' & [= <-] & A & B & C & D & E). repeat split; auto.
      intros (n, b) Hn. destruct b; simpl; auto. apply memsym_In. auto.
  - split; [discriminate|]. intros (bs & E & _). discriminate.
Qed.

Lemma link_ok_with_b_iff f lib p :
  link_ok_with_b f lib p = true <-> link_ok_with f lib p.
Proof.
  unfold link_ok_with_b, link_ok_with.
  rewrite !andb_true_iff, nodupb_spec, !forallb_forall. split.
  - intros ((A & B) & C). repeat split; auto.
    + intros t Ht. apply tu_compiles_b_iff. auto.
    + intros t n Ht Hn. specialize (C t Ht). rewrite forallb_forall in C.
      apply mem_In. auto.
  - intros (A & B & C). repeat split; auto.
    + intros t Ht. apply tu_compiles_b_iff. auto.
    + intros t Ht. rewrite forallb_forall. intros n Hn. apply mem_In. eauto.
Qed.

Theorem link_ok_b_iff f p : link_ok_b f p = true <-> link_ok f p.
Proof.
  unfold link_ok_b, link_ok. rewrite andb_true_iff, !link_ok_with_b_iff. tauto.
Qed.
