(** Proofs about SortModel.v (C11), part 2: heap sort. *)
From Cstl Require Import Prelude SortModel SortProofs.

Lemma list_eq_nth {A} (l1 l2 : list A) :
  (forall k, nth_error l1 k = nth_error l2 k) -> l1 = l2.
Proof.
  revert l2; induction l1 as [|x r IH]; intros [|y r2] H; auto.
  - specialize (H 0). discriminate.
  - specialize (H 0). discriminate.
  - pose proof (H 0) as H0. simpl in H0. injection H0 as ->. f_equal.
    apply IH. intros k. apply (H (S k)).
Qed.

Lemma skipn_nth_cons {A} (l : list A) n x :
  nth_error l n = Some x -> skipn n l = x :: skipn (S n) l.
Proof.
  revert l; induction n as [|n IH]; intros [|y r] H; simpl in *; try discriminate.
  - injection H as ->. auto.
  - apply IH; auto.
Qed.

Section Heap.
  Context {A : Type}.
  Variable cmp : A -> A -> Z.
  Hypothesis contract : cmp_contract cmp.
  Local Notation le := (le cmp).

  (** element at index c (a child) is <= the element at index k (its parent) *)
  Definition hp (a : list A) (k c : nat) : Prop :=
    forall x y, nth_error a k = Some x -> nth_error a c = Some y -> le y x.

  Definition heap_from (lo : nat) (a : list A) : Prop :=
    forall k, lo <= k -> hp a k (2 * k + 1) /\ hp a k (2 * k + 2).

  (** a heap from [lo] on except that the element at [n] may be too small:
      every other parent dominates its children, and the parent of [n]
      dominates the children of [n] *)
  Definition heap_exc (lo n : nat) (a : list A) : Prop :=
    (forall k, lo <= k -> k <> n -> hp a k (2 * k + 1) /\ hp a k (2 * k + 2)) /\
    (forall q, lo <= q -> (n = 2 * q + 1 \/ n = 2 * q + 2) ->
               hp a q (2 * n + 1) /\ hp a q (2 * n + 2)).

  (** ** pick: the greatest of n and its children *)
  Lemma pick_spec a n xn : nth_error a n = Some xn ->
    exists c l xc, pick cmp a n = Ok (c, l) /\ nth_error a c = Some xc /\
      (c = n \/ c = 2 * n + 1 \/ c = 2 * n + 2) /\
      le xn xc /\
      (forall y, nth_error a (2 * n + 1) = Some y -> le y xc) /\
      (forall y, nth_error a (2 * n + 2) = Some y -> le y xc).
  Proof.
    intros Hn. unfold pick.
    replace (2 * n + 1 + 1) with (2 * n + 2) by lia.
    destruct (Nat.ltb_spec (2 * n + 1) (length a)) as [Ll|Ll].
    - destruct (nth_error_ex a _ Ll) as (xl & Hl).
      rewrite (cmpi_ok cmp _ _ _ _ _ Hl Hn). cbn [bind].
      (* c1 and its value *)
      set (c1 := if (cmp xl xn >? 0)%Z then 2 * n + 1 else n).
      assert (H1 : exists x1, nth_error a c1 = Some x1 /\ le xn x1 /\ le xl x1 /\
                              (c1 = n \/ c1 = 2 * n + 1)).
      { unfold c1. destruct (Z.gtb_spec (cmp xl xn) 0) as [G|G].
        - exists xl. repeat split; auto. apply (gt_le cmp contract); lia. apply (le_refl cmp contract).
        - exists xn. repeat split; auto. apply (le_refl cmp contract). }
      destruct H1 as (x1 & Hc1 & L1 & L2 & Cc1).
      destruct (Nat.ltb_spec (2 * n + 2) (length a)) as [Lr|Lr].
      + destruct (nth_error_ex a _ Lr) as (xr & Hr).
        rewrite (cmpi_ok cmp _ _ _ _ _ Hr Hc1). cbn [bind].
        destruct (Z.gtb_spec (cmp xr x1) 0) as [G|G].
        * assert (le x1 xr) by (apply (gt_le cmp contract); lia).
          eexists _, _, xr. split; [reflexivity|]. split; [auto|]. split; [lia|].
          split; [eapply (le_trans cmp contract); eauto|].
          split; intros y Hy.
          -- rewrite Hl in Hy. injection Hy as <-. eapply (le_trans cmp contract); eauto.
          -- rewrite Hr in Hy. injection Hy as <-. apply (le_refl cmp contract).
        * assert (le xr x1) by (apply (not_gt_le cmp); lia).
          eexists _, _, x1. split; [reflexivity|]. split; [auto|]. split; [lia|].
          split; [auto|].
          split; intros y Hy.
          -- rewrite Hl in Hy. injection Hy as <-. auto.
          -- rewrite Hr in Hy. injection Hy as <-. auto.
      + eexists _, _, x1. split; [reflexivity|]. split; [auto|]. split; [lia|].
        split; [auto|].
        split; intros y Hy.
        * rewrite Hl in Hy. injection Hy as <-. auto.
        * apply nth_error_lt in Hy. lia.
    - destruct (Nat.ltb_spec (2 * n + 2) (length a)) as [Lr|Lr]; [lia|].
      eexists _, _, xn. split; [reflexivity|]. split; [auto|]. split; [lia|].
      split; [apply (le_refl cmp contract)|].
      split; intros y Hy; apply nth_error_lt in Hy; lia.
  Qed.

  (** ** sift-down (cstl_raw_array_hsort_b) *)
  Lemma sift_spec fuel : forall a n lo,
    n < length a -> lo <= n -> heap_exc lo n a -> length a - n <= fuel ->
    exists a' l, sift cmp fuel a n = Ok (a', l) /\
      Permutation a a' /\ length a' = length a /\ heap_from lo a'.
  Proof.
    induction fuel as [|f IH]; intros a n lo Ln Hlo (HE1 & HE2) Hf; [lia|].
    cbn [sift].
    destruct (nth_error_ex a n Ln) as (xn & Hn).
    destruct (pick_spec a n xn Hn) as (c & l1 & xc & E & Hc & Cc & Lnc & Ll & Lr).
    rewrite E. cbn [bind].
    destruct (Nat.eqb_spec n c) as [<-|Nc].
    - exists a, l1. split; [auto|]. split; [auto|]. split; [auto|].
      intros k Hk. destruct (Nat.eq_dec k n) as [->|Nk]; [|apply HE1; auto].
      rewrite Hn in Hc. injection Hc as <-.
      split; intros x y Hx Hy; rewrite Hn in Hx; injection Hx as <-; auto.
    - pose proof (nth_error_lt _ _ _ Hc) as Lc.
      destruct (swap_ok a n c) as (a1 & Es); auto.
      rewrite Es. cbn [bind].
      pose proof (swap_length _ _ _ _ Es) as Len1.
      assert (Nth : forall k, nth_error a1 k =
                    if Nat.eqb k n then Some xc else if Nat.eqb k c then Some xn else nth_error a k).
      { intros k. rewrite (swap_nth _ _ _ _ k Es). rewrite Hn, Hc. auto. }
      assert (Hcn : n < c) by lia.
      destruct (IH a1 c lo) as (a2 & l2 & E2 & P2 & Len2 & H2); try lia.
      + (* heap_exc lo c a1 *)
        split.
        * intros k Hk Nk.
          destruct (Nat.eq_dec k n) as [->|Nkn].
          -- (* the new root of this subtree *)
             split; intros x y Hx Hy; rewrite Nth in Hx, Hy; rewrite Nat.eqb_refl in Hx; injection Hx as <-.
             ++ destruct (Nat.eqb_spec (2 * n + 1) n); [lia|].
                destruct (Nat.eqb_spec (2 * n + 1) c); [injection Hy as <-; auto|auto].
             ++ destruct (Nat.eqb_spec (2 * n + 2) n); [lia|].
                destruct (Nat.eqb_spec (2 * n + 2) c); [injection Hy as <-; auto|auto].
          -- destruct (HE1 k Hk Nkn) as (K1 & K2).
             split; intros x y Hx Hy; rewrite Nth in Hx, Hy.
             ++ destruct (Nat.eqb_spec k n); [lia|]. destruct (Nat.eqb_spec k c); [lia|].
                destruct (Nat.eqb_spec (2 * k + 1) c); [lia|].
                destruct (Nat.eqb_spec (2 * k + 1) n) as [En|En]; [|apply (K1 x y); auto].
                injection Hy as <-.
                destruct (HE2 k Hk) as (G1 & G2); [lia|].
                destruct Cc as [Cc|[Cc|Cc]]; [lia|rewrite Cc in Hc; apply (G1 x xc); auto|rewrite Cc in Hc; apply (G2 x xc); auto].
             ++ destruct (Nat.eqb_spec k n); [lia|]. destruct (Nat.eqb_spec k c); [lia|].
                destruct (Nat.eqb_spec (2 * k + 2) c); [lia|].
                destruct (Nat.eqb_spec (2 * k + 2) n) as [En|En]; [|apply (K2 x y); auto].
                injection Hy as <-.
                destruct (HE2 k Hk) as (G1 & G2); [lia|].
                destruct Cc as [Cc|[Cc|Cc]]; [lia|rewrite Cc in Hc; apply (G1 x xc); auto|rewrite Cc in Hc; apply (G2 x xc); auto].
        * intros q Hq Hpar. assert (q = n) by lia. subst q.
          destruct (HE1 c) as (K1 & K2); [lia|lia|].
          split; intros x y Hx Hy; rewrite Nth in Hx, Hy; rewrite Nat.eqb_refl in Hx; injection Hx as <-.
          -- destruct (Nat.eqb_spec (2 * c + 1) n); [lia|]. destruct (Nat.eqb_spec (2 * c + 1) c); [lia|].
             apply (K1 xc y); auto.
          -- destruct (Nat.eqb_spec (2 * c + 2) n); [lia|]. destruct (Nat.eqb_spec (2 * c + 2) c); [lia|].
             apply (K2 xc y); auto.
      + rewrite E2. cbn [bind]. exists a2, (l1 ++ ESwap n c :: l2).
        split; [auto|]. split; [eapply perm_trans; [eapply swap_perm; eauto|auto]|].
        split; [lia|auto].
  Qed.

  Lemma hsort_b_spec a n lo :
    n < length a -> lo <= n -> heap_exc lo n a ->
    exists a' l, hsort_b cmp a n = Ok (a', l) /\
      Permutation a a' /\ length a' = length a /\ heap_from lo a'.
  Proof. intros. unfold hsort_b. apply sift_spec; auto. lia. Qed.

  (** ** heapify *)
  Lemma heapify_spec k : forall a,
    k <= length a -> heap_from k a ->
    exists a' l, heapify cmp k a = Ok (a', l) /\
      Permutation a a' /\ length a' = length a /\ heap_from 0 a'.
  Proof.
    induction k as [|i IH]; intros a Hk H.
    - exists a, []. split; [auto|]. split; [auto|]. split; auto.
    - cbn [heapify].
      destruct (hsort_b_spec a i i) as (a1 & l1 & E1 & P1 & L1 & H1); auto; try lia.
      { split.
        - intros k Hk' Nk. apply H. lia.
        - intros q Hq Hpar. lia. }
      rewrite E1. cbn [bind].
      destruct (IH a1) as (a2 & l2 & E2 & P2 & L2 & H2); auto; try lia.
      rewrite E2. cbn [bind]. exists a2, (l1 ++ l2).
      split; [auto|]. split; [eapply perm_trans; eauto|]. split; [lia|auto].
  Qed.

  Lemma heap_from_half (a : list A) : heap_from (length a / 2) a.
  Proof.
    intros k Hk. pose proof (Nat.div_mod_eq (length a) 2) as D.
    pose proof (Nat.mod_upper_bound (length a) 2).
    split; intros x y Hx Hy; apply nth_error_lt in Hy; lia.
  Qed.

  (** the root of a heap dominates everything *)
  Lemma heap_root_max a r : heap_from 0 a -> nth_error a 0 = Some r ->
    forall k x, nth_error a k = Some x -> le x r.
  Proof.
    intros H H0 k. induction k as [k IH] using lt_wf_ind. intros x Hx.
    destruct k as [|k'].
    - rewrite H0 in Hx. injection Hx as <-. apply (le_refl cmp contract).
    - set (q := k' / 2).
      pose proof (Nat.div_mod_eq k' 2) as D. pose proof (Nat.mod_upper_bound k' 2) as U.
      assert (Lq : q < length a) by (apply nth_error_lt in Hx; unfold q; lia).
      destruct (nth_error_ex a q Lq) as (xq & Hq).
      destruct (H q) as (K1 & K2); [lia|].
      assert (le x xq).
      { destruct (Nat.eq_dec (k' mod 2) 0) as [M|M].
        - apply (K1 xq x); auto. replace (2 * q + 1) with (S k') by (unfold q; lia). auto.
        - apply (K2 xq x); auto. replace (2 * q + 2) with (S k') by (unfold q; lia). auto. }
      eapply (le_trans cmp contract); eauto. apply (IH q); auto. unfold q; lia.
  Qed.

  (** ** the extraction loop *)
  Lemma extract_spec i : forall a,
    i < length a ->
    heap_from 0 (firstn (S i) a) ->
    StronglySorted le (skipn (S i) a) ->
    (forall x y, In x (firstn (S i) a) -> In y (skipn (S i) a) -> le x y) ->
    exists a' l, extract cmp i a = Ok (a', l) /\ Permutation a a' /\ StronglySorted le a'.
  Proof.
    induction i as [|i IH]; intros a Li H SS C.
    - exists a, []. repeat split; auto.
      rewrite <- (firstn_skipn 1 a). apply (ss_app cmp); auto.
      apply (ss_short cmp). rewrite firstn_length. lia.
    - cbn [extract].
      destruct (swap_ok a 0 (S i)) as (a1 & Es); auto; try lia.
      rewrite Es. cbn [bind].
      pose proof (swap_length _ _ _ _ Es) as Len1.
      destruct (nth_error_ex a 0) as (r & H0); [lia|].
      destruct (nth_error_ex a (S i) Li) as (z & Hz).
      assert (Nth : forall k, nth_error a1 k =
                    if Nat.eqb k 0 then Some z else if Nat.eqb k (S i) then Some r else nth_error a k).
      { intros k. rewrite (swap_nth _ _ _ _ k Es). rewrite H0, Hz. auto. }
      (* elements of the shortened heap come from the old one *)
      assert (Hin : forall x, In x (firstn (S i) a1) -> In x (firstn (S (S i)) a)).
      { intros x I. apply In_nth_error in I. destruct I as (k & I).
        assert (k < S i) by (apply nth_error_lt in I; rewrite firstn_length in I; lia).
        rewrite nth_error_firstn_lt in I by auto. rewrite Nth in I.
        destruct (Nat.eqb_spec k 0).
        - injection I as <-. apply nth_error_In with (S i). rewrite nth_error_firstn_lt; auto.
        - destruct (Nat.eqb_spec k (S i)); [lia|].
          apply nth_error_In with k. rewrite nth_error_firstn_lt; auto. }
      assert (Hr : nth_error (firstn (S (S i)) a) 0 = Some r) by (rewrite nth_error_firstn_lt; auto; lia).
      assert (Hmax : forall x, In x (firstn (S (S i)) a) -> le x r).
      { intros x I. apply In_nth_error in I. destruct I as (k & I).
        eapply (heap_root_max _ r H Hr); eauto. }
      destruct (hsort_b_spec (firstn (S i) a1) 0 0) as (h & l1 & E1 & P1 & L1 & H1); auto.
      { rewrite firstn_length. lia. }
      { split.
        - intros k _ Nk. destruct (H k) as (K1 & K2); [lia|].
          split; intros x y Hx Hy.
          + assert (2 * k + 1 < S i) by (apply nth_error_lt in Hy; rewrite firstn_length in Hy; lia).
            rewrite nth_error_firstn_lt in Hx, Hy by lia. rewrite Nth in Hx, Hy.
            destruct (Nat.eqb_spec k 0); [lia|]. destruct (Nat.eqb_spec k (S i)); [lia|].
            destruct (Nat.eqb_spec (2 * k + 1) 0); [lia|]. destruct (Nat.eqb_spec (2 * k + 1) (S i)); [lia|].
            apply (K1 x y); rewrite nth_error_firstn_lt; auto; lia.
          + assert (2 * k + 2 < S i) by (apply nth_error_lt in Hy; rewrite firstn_length in Hy; lia).
            rewrite nth_error_firstn_lt in Hx, Hy by lia. rewrite Nth in Hx, Hy.
            destruct (Nat.eqb_spec k 0); [lia|]. destruct (Nat.eqb_spec k (S i)); [lia|].
            destruct (Nat.eqb_spec (2 * k + 2) 0); [lia|]. destruct (Nat.eqb_spec (2 * k + 2) (S i)); [lia|].
            apply (K2 x y); rewrite nth_error_firstn_lt; auto; lia.
        - intros q _ Hpar. lia. }
      rewrite E1. cbn [bind].
      rewrite firstn_length in L1. rewrite Len1 in L1.
      assert (Lh : length h = S i) by lia.
      (* the tail: old root, then the old sorted tail *)
      assert (Tl : skipn (S i) a1 = r :: skipn (S (S i)) a).
      { rewrite (skipn_nth_cons a1 (S i) r).
        - f_equal. apply list_eq_nth. intros k. rewrite !nth_error_skipn, Nth.
          destruct (Nat.eqb_spec (S (S i) + k) 0); [lia|].
          destruct (Nat.eqb_spec (S (S i) + k) (S i)); [lia|]. auto.
        - rewrite Nth. simpl. rewrite Nat.eqb_refl. auto. }
      destruct (IH (h ++ skipn (S i) a1)) as (a2 & l2 & E2 & P2 & S2).
      + rewrite app_length. lia.
      + rewrite firstn_app. replace (S i - length h) with 0 by lia.
        rewrite (firstn_all2 h) by lia. rewrite firstn_O, app_nil_r. auto.
      + rewrite skipn_app. replace (S i - length h) with 0 by lia.
        rewrite (skipn_all2 h) by lia. rewrite skipn_O. cbn [app]. rewrite Tl.
        constructor; auto. apply Forall_forall. intros y Hy. apply C; auto.
        apply nth_error_In with 0. auto.
      + rewrite firstn_app, skipn_app. replace (S i - length h) with 0 by lia.
        rewrite (firstn_all2 h), (skipn_all2 h) by lia. rewrite firstn_O, skipn_O, app_nil_r. cbn [app]. rewrite Tl.
        intros x y Hx Hy.
        assert (Ix : In x (firstn (S (S i)) a)).
        { apply Hin. eapply Permutation_in; [apply Permutation_sym; exact P1|auto]. }
        destruct Hy as [<-|Hy]; [apply Hmax; auto|apply C; auto].
      + rewrite E2. cbn [bind]. exists a2, (ESwap 0 (S i) :: l1 ++ l2).
        repeat split; auto.
        eapply perm_trans; [eapply swap_perm; eauto|].
        eapply perm_trans; [|exact P2].
        rewrite <- (firstn_skipn (S i) a1) at 1. apply Permutation_app; auto.
  Qed.

  (** ** cstl_raw_array_hsort: never leaves the array, always returns, result
      is a sorted permutation *)
  Theorem hsort_correct a :
    exists a' l, hsort cmp a = Ok (a', l) /\ Permutation a a' /\ StronglySorted le a'.
  Proof.
    unfold hsort. destruct (Nat.ltb_spec 1 (length a)) as [Hn|Hn].
    - destruct (heapify_spec (length a / 2) a) as (a1 & l1 & E1 & P1 & L1 & H1).
      + pose proof (Nat.div_mod_eq (length a) 2). lia.
      + apply heap_from_half.
      + rewrite E1. cbn [bind].
        destruct (extract_spec (length a - 1) a1) as (a2 & l2 & E2 & P2 & S2).
        * lia.
        * replace (S (length a - 1)) with (length a1) by lia. rewrite firstn_all. auto.
        * rewrite skipn_all2 by lia. constructor.
        * rewrite skipn_all2 by lia. intros x y _ [].
        * rewrite E2. cbn [bind]. exists a2, (l1 ++ l2). repeat split; auto.
          eapply perm_trans; eauto.
    - exists a, []. repeat split; auto. apply (ss_short cmp). lia.
  Qed.
End Heap.
