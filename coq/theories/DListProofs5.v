(** Proofs about DListModel.v, part 5: the scripted system of several list
    objects over one element pool.  Global invariant, refinement of the
    reference sequence semantics by every operation, lifting to all
    reachable states. *)
From Cstl Require Import Prelude DListModel DListProofs DListProofs2 DListProofs3 DListProofs4 DListProofs6.

Definition is_elem (a : addr) : Prop := a mod 3 = 2.

Lemma haddr_mod i : haddr i mod 3 = 1.
Proof. unfold haddr. rewrite Nat.add_comm, Nat.mul_comm, Nat.mod_add; auto. Qed.
Lemma eaddr_mod e : eaddr e mod 3 = 2.
Proof. unfold eaddr. rewrite Nat.add_comm, Nat.mul_comm, Nat.mod_add; auto. Qed.
Lemma taddr_mod k : taddr k mod 3 = 0.
Proof. unfold taddr. replace (3 * k + 3) with (0 + (k + 1) * 3) by lia. rewrite Nat.mod_add; auto. Qed.
Lemma haddr_div i : haddr i / 3 = i.
Proof. unfold haddr. rewrite Nat.add_comm, Nat.mul_comm, Nat.div_add; auto. Qed.
Lemma eaddr_div e : eaddr e / 3 = e.
Proof. unfold eaddr. rewrite Nat.add_comm, Nat.mul_comm, Nat.div_add; auto. Qed.
Lemma haddr_inj i j : haddr i = haddr j -> i = j.
Proof. unfold haddr. lia. Qed.
Lemma eaddr_elem e : is_elem (eaddr e).
Proof. apply eaddr_mod. Qed.
Lemma elem_not_head x i : is_elem x -> x <> haddr i.
Proof. unfold is_elem. intros E ->. rewrite haddr_mod in E. discriminate. Qed.
Lemma elem_not_tmp x k : is_elem x -> x <> taddr k.
Proof. unfold is_elem. intros E ->. rewrite taddr_mod in E. discriminate. Qed.
Lemma head_not_tmp i k : haddr i <> taddr k.
Proof. intros E. pose proof (haddr_mod i) as H. rewrite E, taddr_mod in H. discriminate. Qed.

(** * The global invariant *)

Record wf (h : heap) (n : nat) (ls : list (list addr)) : Prop := mkWf {
  wf_len : length ls = n;
  wf_dl : forall i l, nth_error ls i = Some l -> dl h (haddr i) l;
  wf_disj : forall i j li lj x, i <> j -> nth_error ls i = Some li -> nth_error ls j = Some lj ->
                                In x li -> In x lj -> False;
  wf_elem : forall i l x, nth_error ls i = Some l -> In x l -> is_elem x;
  wf_tmp : forall k, hm h (taddr k) = None }.

(** the sequences held by the list objects, read off the forward links *)
Definition abs (s : sys) : list (list addr) :=
  map (fun i => contents (hp s) (haddr i)) (seq 0 (nl s)).

Definition sys_wf (s : sys) : Prop := wf (hp s) (nl s) (abs s).

Lemma contents_dl h hd l : dl h hd l -> contents h hd = l.
Proof.
  intros (R & Z). unfold contents. apply traverse_fwd; auto. rewrite Z. lia.
Qed.

Lemma nth_error_map_seq {A} (f : nat -> A) n i :
  nth_error (map f (seq 0 n)) i = if Nat.ltb i n then Some (f i) else None.
Proof.
  destruct (Nat.ltb_spec i n) as [L|L].
  - rewrite (map_nth_error f i (seq 0 n) (d := i)); auto.
    rewrite nth_error_nth' with (d := 0) by (rewrite seq_length; auto). rewrite seq_nth; auto.
  - apply nth_error_None. rewrite map_length, seq_length. auto.
Qed.

Lemma nth_error_eq {A} : forall (l l' : list A), (forall i, nth_error l i = nth_error l' i) -> l = l'.
Proof.
  induction l as [|x r IH]; intros [|y r'] H; auto.
  - specialize (H 0). discriminate.
  - specialize (H 0). discriminate.
  - f_equal; [specialize (H 0); simpl in H; congruence|]. apply IH. intros i. apply (H (S i)).
Qed.

Lemma wf_abs h n ls : wf h n ls -> abs (mkS h n) = ls.
Proof.
  intros W. apply nth_error_eq. intros i. unfold abs. simpl. rewrite nth_error_map_seq.
  destruct (Nat.ltb_spec i n) as [L|L].
  - destruct (nth_error ls i) as [l|] eqn:E.
    + rewrite (contents_dl _ _ _ (wf_dl _ _ _ W i l E)); auto.
    + apply nth_error_None in E. rewrite (wf_len _ _ _ W) in E. lia.
  - symmetry. apply nth_error_None. rewrite (wf_len _ _ _ W). auto.
Qed.

Lemma wf_nth h n ls i : wf h n ls -> i < n -> exists l, nth_error ls i = Some l.
Proof.
  intros W L. destruct (nth_error ls i) eqn:E; eauto.
  apply nth_error_None in E. rewrite (wf_len _ _ _ W) in E. lia.
Qed.

Lemma wf_lt h n ls i l : wf h n ls -> nth_error ls i = Some l -> i < n.
Proof.
  intros W E. rewrite <- (wf_len _ _ _ W). apply nth_error_Some. congruence.
Qed.

(** two distinct list objects share nothing *)
Lemma wf_sep h n ls i j li lj :
  wf h n ls -> i <> j -> nth_error ls i = Some li -> nth_error ls j = Some lj ->
  NoDup (haddr i :: li ++ haddr j :: lj).
Proof.
  intros W Nij Ei Ej.
  pose proof (proj1 (proj1 (wf_dl _ _ _ W i li Ei))) as NDi.
  pose proof (proj1 (proj1 (wf_dl _ _ _ W j lj Ej))) as NDj.
  change (haddr i :: li ++ haddr j :: lj) with ((haddr i :: li) ++ (haddr j :: lj)).
  assert (forall x, In x (haddr i :: li) -> In x (haddr j :: lj) -> False) as Dj.
  { intros x [<-|I1] [E|I2].
    - apply haddr_inj in E. auto.
    - apply (elem_not_head (haddr i) i); auto. apply (wf_elem _ _ _ W j lj); auto.
    - subst x. apply (elem_not_head (haddr j) j); auto. apply (wf_elem _ _ _ W i li); auto.
    - apply (wf_disj _ _ _ W i j li lj x); auto. }
  apply NoDup_app_intro; auto.
Qed.

Lemma wf_valid_not_tmp h n ls x k : wf h n ls -> valid h x -> x <> taddr k.
Proof. intros W V ->. apply V. apply (wf_tmp _ _ _ W). Qed.

(** the Precond tests of [step] *)
Lemma memb_spec a l : memb a l = true <-> In a l.
Proof.
  unfold memb. rewrite existsb_exists. split.
  - intros (x & I & E). apply Nat.eqb_eq in E. subst; auto.
  - intros I. exists a. split; auto. apply Nat.eqb_refl.
Qed.

Lemma linked_false h n ls a :
  wf h n ls -> linked (mkS h n) a = false -> forall i l, nth_error ls i = Some l -> ~ In a l.
Proof.
  intros W L i l E I. unfold linked in L. simpl in L.
  assert (existsb (fun i => memb a (contents h (haddr i))) (seq 0 n) = true) as T; [|congruence].
  apply existsb_exists. exists i. split.
  - apply in_seq. pose proof (wf_lt _ _ _ _ _ W E). lia.
  - rewrite (contents_dl _ _ _ (wf_dl _ _ _ W i l E)). apply memb_spec; auto.
Qed.

(** * Re-establishing the invariant after one or two lists changed *)

Lemma nth_error_upd_eq {A} (l : list A) i x y : nth_error l i = Some y -> nth_error (upd l i x) i = Some x.
Proof. intros E. apply nth_error_upd_same. apply nth_error_Some. congruence. Qed.

Lemma wf_upd1 h h' n ls i li li' :
  wf h n ls -> nth_error ls i = Some li ->
  dl h' (haddr i) li' ->
  (forall j lj, j <> i -> nth_error ls j = Some lj -> dl h' (haddr j) lj) ->
  (forall x, In x li' -> In x li \/ (is_elem x /\ forall j lj, nth_error ls j = Some lj -> ~ In x lj)) ->
  (forall k, hm h' (taddr k) = None) ->
  wf h' n (upd ls i li').
Proof.
  intros W Ei Di Dj Sub Tm. split.
  - rewrite upd_length. apply (wf_len _ _ _ W).
  - intros j l E. rewrite nth_error_upd in E. destruct (Nat.eqb_spec i j) as [<-|Nij].
    + destruct (Nat.ltb_spec i (length ls)); [|discriminate]. inversion E; subst; auto.
    + apply Dj; auto.
  - intros a b la lb x Nab Ea Eb Ia Ib. rewrite nth_error_upd in Ea, Eb.
    destruct (Nat.eqb_spec i a) as [<-|Nia]; destruct (Nat.eqb_spec i b) as [<-|Nib]; try congruence.
    + destruct (Nat.ltb_spec i (length ls)); [|discriminate]. inversion Ea; subst.
      destruct (Sub x Ia) as [I|(_ & Fr)].
      * apply (wf_disj _ _ _ W i b li lb x); auto.
      * apply (Fr b lb); auto.
    + destruct (Nat.ltb_spec i (length ls)); [|discriminate]. inversion Eb; subst.
      destruct (Sub x Ib) as [I|(_ & Fr)].
      * apply (wf_disj _ _ _ W a i la li x); auto.
      * apply (Fr a la); auto.
    + apply (wf_disj _ _ _ W a b la lb x); auto.
  - intros j l x E I. rewrite nth_error_upd in E. destruct (Nat.eqb_spec i j) as [<-|Nij].
    + destruct (Nat.ltb_spec i (length ls)); [|discriminate]. inversion E; subst.
      destruct (Sub x I) as [I'|(El & _)]; auto. apply (wf_elem _ _ _ W i li); auto.
    + apply (wf_elem _ _ _ W j l); auto.
  - auto.
Qed.

(** frame for the lists an operation on list [i] (footprint: its head, its
    nodes, and the nodes [ex] that are in no list) does not touch *)
Lemma other_dl h h' n ls i li ex j lj :
  wf h n ls -> nth_error ls i = Some li -> j <> i -> nth_error ls j = Some lj ->
  (forall x, ~ In x (haddr i :: li ++ ex) -> hm h' x = hm h x) ->
  (forall x, In x ex -> is_elem x /\ ~ In x lj) ->
  hs h' (haddr j) = hs h (haddr j) ->
  dl h' (haddr j) lj.
Proof.
  intros W Ei Nji Ej Fr Ex Sz.
  apply (dl_frame h h'); [| |apply (wf_dl _ _ _ W j lj Ej)].
  - intros y Hy. apply Fr. intros [E|I].
    + destruct Hy as [E'|I']; [rewrite <- E in E'; apply haddr_inj in E'; auto|].
      apply (elem_not_head y i); auto. apply (wf_elem _ _ _ W j lj); auto.
    + rewrite in_app_iff in I. destruct I as [I|I].
      * destruct Hy as [<-|I']; [apply (elem_not_head (haddr j) j); auto; apply (wf_elem _ _ _ W i li); auto|].
        apply (wf_disj _ _ _ W i j li lj y); auto.
      * destruct (Ex y I) as (El & Nl). destruct Hy as [<-|I']; auto.
        apply (elem_not_head (haddr j) j); auto.
  - exact Sz.
Qed.

Lemma wf_frame_all h h' n ls :
  wf h n ls ->
  (forall i l x, nth_error ls i = Some l -> In x (haddr i :: l) -> hm h' x = hm h x) ->
  (forall i, hs h' (haddr i) = hs h (haddr i)) ->
  (forall k, hm h' (taddr k) = None) ->
  wf h' n ls.
Proof.
  intros W Fr Sz Tm. split; try apply W; auto.
  intros i l E. apply (dl_frame h h'); [| |apply (wf_dl _ _ _ W i l E)]; eauto.
Qed.

Lemma wf_ensure h n ls e :
  wf h n ls -> (forall i l, nth_error ls i = Some l -> ~ In (eaddr e) l) ->
  wf (ensure h (eaddr e)) n ls /\ valid (ensure h (eaddr e)) (eaddr e).
Proof.
  intros W Nl. unfold ensure. destruct (hm h (eaddr e)) eqn:E.
  - split; auto. unfold valid. congruence.
  - split; [|unfold valid, halloc; simpl; unfold setm; rewrite Nat.eqb_refl; congruence].
    apply (wf_frame_all h); auto.
    + intros i l x El I. simpl. unfold setm. destruct (Nat.eqb_spec x (eaddr e)) as [->|]; auto.
      exfalso. apply (ring_valid _ _ _ _ (proj1 (wf_dl _ _ _ W i l El)) I). auto.
    + intros k. simpl. unfold setm. rewrite (proj2 (Nat.eqb_neq (taddr k) (eaddr e))).
      * apply (wf_tmp _ _ _ W).
      * intros Eq. symmetry in Eq. revert Eq. apply elem_not_tmp, eaddr_elem.
Qed.

Lemma wf_upd1' h h' n ls i li li' foot ex :
  wf h n ls -> nth_error ls i = Some li ->
  dl h' (haddr i) li' -> upd1 h h' (haddr i) foot -> incl foot (haddr i :: li ++ ex) ->
  (forall x, In x ex -> is_elem x /\ forall j lj, nth_error ls j = Some lj -> ~ In x lj) ->
  (forall x, In x li' -> In x li \/ In x ex) ->
  wf h' n (upd ls i li').
Proof.
  intros W Ei Di U Inc Ex Sub.
  assert (forall x, ~ In x (haddr i :: li ++ ex) -> hm h' x = hm h x) as Fr.
  { intros x Hx. apply (u_hm _ _ _ _ U). intros I. apply Hx. apply Inc; auto. }
  apply (wf_upd1 h h' n ls i li li'); auto.
  - intros j lj Nji Ej. apply (other_dl h h' n ls i li ex j lj); auto.
    + intros x I. destruct (Ex x I) as (El & Nl). split; [exact El|]. apply (Nl j lj); auto.
    + apply (u_hs _ _ _ _ U). intros E. apply haddr_inj in E. auto.
  - intros x I. destruct (Sub x I) as [I'|I']; [left; exact I'|right; apply Ex; exact I'].
  - intros k. rewrite Fr; [apply (wf_tmp _ _ _ W)|].
    intros [E|I]; [exact (head_not_tmp _ _ E)|].
    rewrite in_app_iff in I. destruct I as [I|I].
    + apply (elem_not_tmp (taddr k) k); auto. apply (wf_elem _ _ _ W i li); auto.
    + apply (elem_not_tmp (taddr k) k); auto. apply Ex; auto.
Qed.

Lemma nth_error_upd2 {A} (l : list A) i j x y k :
  i <> j -> i < length l -> j < length l ->
  nth_error (upd (upd l i x) j y) k =
  if Nat.eqb j k then Some y else if Nat.eqb i k then Some x else nth_error l k.
Proof.
  intros Nij Li Lj. rewrite nth_error_upd, upd_length.
  destruct (Nat.eqb_spec j k) as [<-|Njk].
  - destruct (Nat.ltb_spec j (length l)); auto; lia.
  - rewrite nth_error_upd. destruct (Nat.eqb_spec i k) as [<-|Nik]; auto.
    destruct (Nat.ltb_spec i (length l)); auto; lia.
Qed.

Lemma wf_upd2 h h' n ls i j li lj li' lj' :
  wf h n ls -> i <> j -> nth_error ls i = Some li -> nth_error ls j = Some lj ->
  dl h' (haddr i) li' -> dl h' (haddr j) lj' ->
  (forall k lk, k <> i -> k <> j -> nth_error ls k = Some lk -> dl h' (haddr k) lk) ->
  (forall x, In x li' -> In x li \/ In x lj) ->
  (forall x, In x lj' -> In x li \/ In x lj) ->
  (forall x, In x li' -> In x lj' -> False) ->
  (forall k, hm h' (taddr k) = None) ->
  wf h' n (upd (upd ls i li') j lj').
Proof.
  intros W Nij Ei Ej Di Dj Dk Si Sj Dij Tm.
  assert (i < length ls) as Li by (apply nth_error_Some; congruence).
  assert (j < length ls) as Lj by (apply nth_error_Some; congruence).
  assert (forall k lk x, nth_error ls k = Some lk -> k <> i -> k <> j -> In x lk -> In x li \/ In x lj -> False) as Ot.
  { intros k lk x Ek Nki Nkj I [I'|I'].
    - apply (wf_disj _ _ _ W k i lk li x); auto.
    - apply (wf_disj _ _ _ W k j lk lj x); auto. }
  split.
  - rewrite !upd_length. apply (wf_len _ _ _ W).
  - intros k l E. rewrite nth_error_upd2 in E; auto.
    destruct (Nat.eqb_spec j k) as [<-|Njk]; [inversion E; subst; auto|].
    destruct (Nat.eqb_spec i k) as [<-|Nik]; [inversion E; subst; auto|].
    apply Dk; auto.
  - intros a b la lb x Nab Ea Eb Ia Ib. rewrite nth_error_upd2 in Ea, Eb; auto.
    destruct (Nat.eqb_spec j a) as [<-|Nja]; destruct (Nat.eqb_spec j b) as [<-|Njb]; try congruence.
    + inversion Ea; subst. destruct (Nat.eqb_spec i b) as [<-|Nib].
      * inversion Eb; subst. eauto.
      * apply (Ot b lb x); auto.
    + inversion Eb; subst. destruct (Nat.eqb_spec i a) as [<-|Nia].
      * inversion Ea; subst. eauto.
      * apply (Ot a la x); auto.
    + destruct (Nat.eqb_spec i a) as [<-|Nia]; destruct (Nat.eqb_spec i b) as [<-|Nib]; try congruence.
      * inversion Ea; subst. apply (Ot b lb x); auto.
      * inversion Eb; subst. apply (Ot a la x); auto.
      * apply (wf_disj _ _ _ W a b la lb x); auto.
  - intros k l x E I. rewrite nth_error_upd2 in E; auto.
    assert (forall y, In y li \/ In y lj -> is_elem y) as El.
    { intros y [I'|I']; [apply (wf_elem _ _ _ W i li)|apply (wf_elem _ _ _ W j lj)]; auto. }
    destruct (Nat.eqb_spec j k) as [<-|Njk]; [inversion E; subst; auto|].
    destruct (Nat.eqb_spec i k) as [<-|Nik]; [inversion E; subst; auto|].
    apply (wf_elem _ _ _ W k l); auto.
  - auto.
Qed.

Lemma other_dl2 h h' n ls i j li lj k lk :
  wf h n ls -> nth_error ls i = Some li -> nth_error ls j = Some lj ->
  k <> i -> k <> j -> nth_error ls k = Some lk ->
  (forall x, ~ In x (haddr i :: li ++ haddr j :: lj) -> hm h' x = hm h x) ->
  (forall x, x <> haddr i -> x <> haddr j -> hs h' x = hs h x) ->
  dl h' (haddr k) lk.
Proof.
  intros W Ei Ej Nki Nkj Ek Fr Sz.
  apply (dl_frame h h'); [| |apply (wf_dl _ _ _ W k lk Ek)].
  - intros y Hy. apply Fr. intros I.
    assert (forall a la, a <> k -> nth_error ls a = Some la -> In y (haddr a :: la) -> False) as No.
    { intros a la Nak Ea Ia.
      eapply (two_rings_disj (haddr a) (haddr k) la lk y); eauto. apply (wf_sep h n ls a k); auto. }
    change (haddr i :: li ++ haddr j :: lj) with ((haddr i :: li) ++ (haddr j :: lj)) in I.
    rewrite in_app_iff in I. destruct I as [I|I]; [apply (No i li)|apply (No j lj)]; auto.
  - apply Sz; intros E; apply haddr_inj in E; auto.
Qed.

Lemma tmp_frame h h' n ls (F : list addr) :
  wf h n ls -> (forall x, ~ In x F -> hm h' x = hm h x) ->
  (forall x, In x F -> valid h x) -> forall k, hm h' (taddr k) = None.
Proof.
  intros W Fr Va k. rewrite Fr; [apply (wf_tmp _ _ _ W)|].
  intros I. apply (Va _ I). apply (wf_tmp _ _ _ W).
Qed.

(** * Reference semantics on sequences *)

Section System.
  Variable key : nat -> Z.
  Notation step := (DListModel.step key).

  Notation kle := (DListProofs6.kle (akey key)).

  (** number of visits of the scripted visitor, its answer *)
  Definition nvis (stop len : nat) : nat := if Nat.leb 1 stop && Nat.leb stop len then stop else len.
  Definition rvis (stop len : nat) : Z := if Nat.leb 1 stop && Nat.leb stop len then Z.of_nat stop else 0%Z.

  Inductive spec (a : list (list addr)) : op -> list (list addr) -> list Z -> Prop :=
  | SPushFront l e x : nth_error a l = Some x ->
      spec a (PushFront l e) (upd a l (eaddr e :: x)) []
  | SPushBack l e x : nth_error a l = Some x ->
      spec a (PushBack l e) (upd a l (x ++ [eaddr e])) []
  | SPopFront l x : nth_error a l = Some x ->
      spec a (PopFront l) (upd a l (tl x)) [zoel (hd_error x)]
  | SPopBack l x : nth_error a l = Some x ->
      spec a (PopBack l) (upd a l (removelast x)) [zoel (last_opt x)]
  | SInsert l b e x1 x2 : nth_error a l = Some (x1 ++ eaddr b :: x2) ->
      spec a (Insert l b e) (upd a l (x1 ++ eaddr b :: eaddr e :: x2)) []
  | SErase l e x1 x2 : nth_error a l = Some (x1 ++ eaddr e :: x2) ->
      spec a (Erase l e) (upd a l (x1 ++ x2)) []
  | SFront l x : nth_error a l = Some x -> spec a (Front l) a [zoel (hd_error x)]
  | SBack l x : nth_error a l = Some x -> spec a (Back l) a [zoel (last_opt x)]
  | SSize l x : nth_error a l = Some x -> spec a (Size l) a [Z.of_nat (length x)]
  | SForeachPlain l d stop x : nth_error a l = Some x ->
      spec a (Foreach l d stop VPlain) a
           (rvis stop (length x) :: map zel (firstn (nvis stop (length x)) (dirl d x)))
  | SForeachFree l d stop x : nth_error a l = Some x ->
      spec a (Foreach l d stop VFree) (upd a l (dirl d (skipn (nvis stop (length x)) (dirl d x))))
           (rvis stop (length x) :: map zel (firstn (nvis stop (length x)) (dirl d x)))
  | SForeachMove l d stop o x xo : nth_error a l = Some x -> nth_error a o = Some xo -> o <> l ->
      spec a (Foreach l d stop (VMove o))
           (upd (upd a l (dirl d (skipn (nvis stop (length x)) (dirl d x)))) o
                (xo ++ firstn (nvis stop (length x)) (dirl d x)))
           (rvis stop (length x) :: map zel (firstn (nvis stop (length x)) (dirl d x)))
  | SFind l k d x : nth_error a l = Some x ->
      spec a (Find l k d) a [zoel (List.find (fun c => Z.eqb k (akey key c)) (dirl d x))]
  | SSwap i j xi xj : nth_error a i = Some xi -> nth_error a j = Some xj -> i <> j ->
      spec a (Swap i j) (upd (upd a i xj) j xi) []
  | SClear l x : nth_error a l = Some x -> spec a (Clear l) (upd a l []) (map zel x)
  | SReverse l x : nth_error a l = Some x -> spec a (Reverse l) (upd a l (rev x)) []
  | SSort l x x' : nth_error a l = Some x -> Permutation x x' -> Sorted kle x' ->
      spec a (Sort l) (upd a l x') []
  | SConcat d s xd xs : nth_error a d = Some xd -> nth_error a s = Some xs -> d <> s ->
      spec a (Concat d s) (upd (upd a d (xd ++ xs)) s []) []
  | SConcatSame d x : nth_error a d = Some x -> spec a (Concat d d) a [].

  Lemma done_ok h' n ls o ls' out :
    wf h' n ls' -> spec ls o ls' out ->
    sys_wf (mkS h' n) /\ spec ls o (abs (mkS h' n)) out.
  Proof. intros W S. unfold sys_wf. simpl. rewrite (wf_abs _ _ _ W). auto. Qed.

  Lemma upd_same {A} (l : list A) i x : nth_error l i = Some x -> upd l i x = l.
  Proof. revert i; induction l as [|y r IH]; intros [|i] H; simpl in *; try congruence. f_equal; auto. Qed.

  Definition good (ls : list (list addr)) (o : op) (r : outcome sys) : Prop :=
    match r with
    | Done s' out => sys_wf s' /\ spec ls o (abs s') out
    | Precond => True
    | _ => False
    end.

  Lemma elem_fresh h n ls i li e :
    wf h n ls -> nth_error ls i = Some li ->
    (forall j lj, nth_error ls j = Some lj -> ~ In (eaddr e) lj) ->
    ~ In (eaddr e) (haddr i :: li).
  Proof.
    intros W Ei Nl [E|I]; [|apply (Nl i li); auto].
    symmetry in E. revert E. apply elem_not_head, eaddr_elem.
  Qed.

  Lemma ex_single ls e :
    (forall j lj, nth_error ls j = Some lj -> ~ In (eaddr e) lj) ->
    forall x, In x [eaddr e] -> is_elem x /\ forall j lj, nth_error ls j = Some lj -> ~ In x lj.
  Proof. intros Nl x [<-|[]]. split; auto. apply eaddr_elem. Qed.

  Lemma step_push_front h n ls l e :
    wf h n ls -> good ls (PushFront l e) (step (mkS h n) (PushFront l e)).
  Proof.
    intros W. unfold DListModel.step. simpl hp. simpl nl.
    destruct (Nat.ltb_spec l n) as [L|L]; simpl negb; simpl orb; [|exact I].
    destruct (linked (mkS h n) (eaddr e)) eqn:Lk; [exact I|].
    destruct (wf_nth _ _ _ l W L) as (li & Ei).
    pose proof (linked_false _ _ _ _ W Lk) as Nl.
    destruct (wf_ensure h n ls e W Nl) as (W1 & V).
    destruct (push_front_dl _ _ li (eaddr e) (wf_dl _ _ _ W1 l li Ei) V (elem_fresh _ _ _ _ _ _ W Ei Nl))
      as (h' & E & D' & U).
    rewrite E. simpl lifth. eapply done_ok; cycle 1; [econstructor; eauto|].
    apply (wf_upd1' _ h' n ls l li _ _ [eaddr e] W1 Ei D' U); auto.
    - intros x [<-|[<-|I]]; [left; auto|right; rewrite in_app_iff; simpl; auto|right; rewrite in_app_iff; auto].
    - apply ex_single; auto.
    - intros x [<-|I]; [right; left; auto|left; auto].
  Qed.

  Lemma step_push_back h n ls l e :
    wf h n ls -> good ls (PushBack l e) (step (mkS h n) (PushBack l e)).
  Proof.
    intros W. unfold DListModel.step. simpl hp. simpl nl.
    destruct (Nat.ltb_spec l n) as [L|L]; simpl negb; simpl orb; [|exact I].
    destruct (linked (mkS h n) (eaddr e)) eqn:Lk; [exact I|].
    destruct (wf_nth _ _ _ l W L) as (li & Ei).
    pose proof (linked_false _ _ _ _ W Lk) as Nl.
    destruct (wf_ensure h n ls e W Nl) as (W1 & V).
    destruct (push_back_dl _ _ li (eaddr e) (wf_dl _ _ _ W1 l li Ei) V (elem_fresh _ _ _ _ _ _ W Ei Nl))
      as (h' & E & D' & U).
    rewrite E. simpl lifth. eapply done_ok; cycle 1; [econstructor; eauto|].
    apply (wf_upd1' _ h' n ls l li _ _ [eaddr e] W1 Ei D' U); auto.
    - apply incl_refl.
    - apply ex_single; auto.
    - intros x I. rewrite in_app_iff in I. tauto.
  Qed.

  Lemma incl_cons_app (hd : addr) l ex : incl (hd :: l) (hd :: l ++ ex).
  Proof. intros x [<-|I]; [left; auto|right; rewrite in_app_iff; auto]. Qed.

  Lemma step_pop_front h n ls l :
    wf h n ls -> good ls (PopFront l) (step (mkS h n) (PopFront l)).
  Proof.
    intros W. unfold DListModel.step. simpl hp. simpl nl.
    destruct (Nat.ltb_spec l n) as [L|L]; simpl negb; cbv iota; [|exact I].
    destruct (wf_nth _ _ _ l W L) as (li & Ei).
    destruct (pop_front_dl h _ li (wf_dl _ _ _ W l li Ei)) as (h' & E & D' & U & _).
    rewrite E. eapply done_ok; cycle 1; [econstructor; eauto|].
    apply (wf_upd1' h h' n ls l li _ _ [] W Ei D' U).
    - intros x [<-|I]; [left; auto|right; rewrite app_nil_r]. destruct li; simpl in *; auto.
    - intros x [].
    - intros x I. left. destruct li; simpl in *; auto.
  Qed.

  Lemma In_removelast {A} (l : list A) x : In x (removelast l) -> In x l.
  Proof.
    induction l as [|y r IH]; simpl; auto. destruct r; [intros []|].
    intros [<-|I]; [left; auto|right; auto].
  Qed.

  Lemma step_pop_back h n ls l :
    wf h n ls -> good ls (PopBack l) (step (mkS h n) (PopBack l)).
  Proof.
    intros W. unfold DListModel.step. simpl hp. simpl nl.
    destruct (Nat.ltb_spec l n) as [L|L]; simpl negb; cbv iota; [|exact I].
    destruct (wf_nth _ _ _ l W L) as (li & Ei).
    destruct (pop_back_dl h _ li (wf_dl _ _ _ W l li Ei)) as (h' & E & D' & U & _).
    rewrite E. eapply done_ok; cycle 1; [econstructor; eauto|].
    apply (wf_upd1' h h' n ls l li _ _ [] W Ei D' U).
    - intros x [<-|I]; [left; auto|right; rewrite app_nil_r]. apply In_removelast; auto.
    - intros x [].
    - intros x I. left. apply In_removelast; auto.
  Qed.

  Lemma step_insert h n ls l b e :
    wf h n ls -> good ls (Insert l b e) (step (mkS h n) (Insert l b e)).
  Proof.
    intros W. unfold DListModel.step. simpl hp. simpl nl.
    destruct (Nat.ltb_spec l n) as [L|L]; simpl negb; simpl orb; [|exact I].
    destruct (linked (mkS h n) (eaddr e)) eqn:Lk; simpl orb; [exact I|].
    destruct (wf_nth _ _ _ l W L) as (li & Ei).
    rewrite (contents_dl _ _ _ (wf_dl _ _ _ W l li Ei)).
    destruct (memb (eaddr b) li) eqn:Mb; simpl negb; cbv iota; [|exact I].
    apply memb_spec in Mb. apply in_split in Mb. destruct Mb as (x1 & x2 & ->).
    pose proof (linked_false _ _ _ _ W Lk) as Nl.
    destruct (wf_ensure h n ls e W Nl) as (W1 & V).
    destruct (insert_after_dl _ _ x1 (eaddr b) x2 (eaddr e) (wf_dl _ _ _ W1 l _ Ei) V
                (elem_fresh _ _ _ _ _ _ W Ei Nl)) as (h' & E & D' & U).
    rewrite E. simpl lifth. eapply done_ok; cycle 1; [econstructor; eauto|].
    apply (wf_upd1' _ h' n ls l _ _ _ [eaddr e] W1 Ei D' U); auto.
    - intros x [<-|I]; [left; auto|right]. rewrite !in_app_iff in *. simpl in *. tauto.
    - apply ex_single; auto.
    - intros x I. rewrite !in_app_iff in *. simpl in *. tauto.
  Qed.

  Lemma step_erase h n ls l e :
    wf h n ls -> good ls (Erase l e) (step (mkS h n) (Erase l e)).
  Proof.
    intros W. unfold DListModel.step. simpl hp. simpl nl.
    destruct (Nat.ltb_spec l n) as [L|L]; simpl negb; simpl orb; [|exact I].
    destruct (wf_nth _ _ _ l W L) as (li & Ei).
    rewrite (contents_dl _ _ _ (wf_dl _ _ _ W l li Ei)).
    destruct (memb (eaddr e) li) eqn:Mb; simpl negb; cbv iota; [|exact I].
    apply memb_spec in Mb. apply in_split in Mb. destruct Mb as (x1 & x2 & ->).
    destruct (erase_dl h _ x1 (eaddr e) x2 (wf_dl _ _ _ W l _ Ei)) as (h' & E & D' & U & _).
    rewrite E. simpl lifth. eapply done_ok; cycle 1; [econstructor; eauto|].
    apply (wf_upd1' h h' n ls l _ _ _ [] W Ei D' U); auto.
    - intros x [<-|I]; [left; auto|right]. rewrite !in_app_iff in *. simpl in *. tauto.
    - intros x [].
    - intros x I. rewrite !in_app_iff in *. simpl in *. tauto.
  Qed.

  Lemma step_front h n ls l :
    wf h n ls -> good ls (Front l) (step (mkS h n) (Front l)).
  Proof.
    intros W. unfold DListModel.step. simpl hp. simpl nl.
    destruct (Nat.ltb_spec l n) as [L|L]; simpl negb; cbv iota; [|exact I].
    destruct (wf_nth _ _ _ l W L) as (li & Ei).
    rewrite (front_dl _ _ _ (wf_dl _ _ _ W l li Ei)). eapply done_ok; cycle 1; [econstructor; eauto|]; auto.
  Qed.

  Lemma step_back h n ls l :
    wf h n ls -> good ls (Back l) (step (mkS h n) (Back l)).
  Proof.
    intros W. unfold DListModel.step. simpl hp. simpl nl.
    destruct (Nat.ltb_spec l n) as [L|L]; simpl negb; cbv iota; [|exact I].
    destruct (wf_nth _ _ _ l W L) as (li & Ei).
    rewrite (back_dl _ _ _ (wf_dl _ _ _ W l li Ei)). eapply done_ok; cycle 1; [econstructor; eauto|]; auto.
  Qed.

  Lemma step_size h n ls l :
    wf h n ls -> good ls (Size l) (step (mkS h n) (Size l)).
  Proof.
    intros W. unfold DListModel.step. simpl hp. simpl nl.
    destruct (Nat.ltb_spec l n) as [L|L]; simpl negb; cbv iota; [|exact I].
    destruct (wf_nth _ _ _ l W L) as (li & Ei).
    rewrite (proj2 (wf_dl _ _ _ W l li Ei)). rewrite nat_N_Z. eapply done_ok; cycle 1; [econstructor; eauto|]; auto.
  Qed.

  Lemma two_valid h n ls i j li lj x :
    wf h n ls -> nth_error ls i = Some li -> nth_error ls j = Some lj ->
    In x (haddr i :: li ++ haddr j :: lj) -> valid h x.
  Proof.
    intros W Ei Ej I. change (haddr i :: li ++ haddr j :: lj) with ((haddr i :: li) ++ (haddr j :: lj)) in I.
    rewrite in_app_iff in I. destruct I as [I|I].
    - apply (ring_valid _ _ _ _ (proj1 (wf_dl _ _ _ W i li Ei)) I).
    - apply (ring_valid _ _ _ _ (proj1 (wf_dl _ _ _ W j lj Ej)) I).
  Qed.

  Lemma step_swap h n ls a b :
    wf h n ls -> good ls (Swap a b) (step (mkS h n) (Swap a b)).
  Proof.
    intros W. unfold DListModel.step. simpl hp. simpl nl.
    destruct (Nat.ltb_spec a n) as [La|La]; simpl negb; simpl orb; [|exact I].
    destruct (Nat.ltb_spec b n) as [Lb|Lb]; simpl negb; simpl orb; [|exact I].
    destruct (Nat.eqb_spec a b) as [->|Nab]; [exact I|].
    destruct (wf_nth _ _ _ a W La) as (la & Ea). destruct (wf_nth _ _ _ b W Lb) as (lb & Eb).
    destruct (swap_dl h _ _ la lb (wf_dl _ _ _ W a la Ea) (wf_dl _ _ _ W b lb Eb) (wf_sep _ _ _ _ _ _ _ W Nab Ea Eb))
      as (h' & E & Da & Db & Fr & Sz & Va).
    rewrite E. simpl lifth. eapply done_ok; cycle 1; [econstructor; eauto|].
    apply (wf_upd2 h h' n ls a b la lb lb la); auto.
    - intros k lk Nka Nkb Ek. apply (other_dl2 h h' n ls a b la lb k lk); auto.
    - intros x I1 I2. apply (wf_disj _ _ _ W a b la lb x); auto.
    - apply (tmp_frame h h' n ls _ W Fr). intros x. apply (two_valid h n ls a b la lb x); auto.
  Qed.

  Lemma step_concat h n ls d sr :
    wf h n ls -> good ls (Concat d sr) (step (mkS h n) (Concat d sr)).
  Proof.
    intros W. unfold DListModel.step. simpl hp. simpl nl.
    destruct (Nat.ltb_spec d n) as [Ld|Ld]; simpl negb; simpl orb; [|exact I].
    destruct (Nat.ltb_spec sr n) as [Ls|Ls]; simpl negb; simpl orb; [|exact I].
    destruct (wf_nth _ _ _ d W Ld) as (ld & Ed). destruct (wf_nth _ _ _ sr W Ls) as (lsr & Es).
    destruct (Nat.eq_dec d sr) as [<-|Nds].
    { rewrite concat_same. simpl lifth. eapply done_ok; cycle 1; [eapply SConcatSame; eauto|]; auto. }
    destruct (concat_dl h _ _ ld lsr (wf_dl _ _ _ W d ld Ed) (wf_dl _ _ _ W sr lsr Es) (wf_sep _ _ _ _ _ _ _ W Nds Ed Es))
      as (h' & E & Dd & Dsr & Fr & Sz & Va).
    rewrite E. simpl lifth. eapply done_ok; cycle 1; [econstructor; eauto|].
    apply (wf_upd2 h h' n ls d sr ld lsr (ld ++ lsr) []); auto.
    - intros k lk Nka Nkb Ek. apply (other_dl2 h h' n ls d sr ld lsr k lk); auto.
    - intros x I. rewrite in_app_iff in I. tauto.
    - intros x [].
    - apply (tmp_frame h h' n ls _ W Fr). intros x. apply (two_valid h n ls d sr ld lsr x); auto.
  Qed.

  Lemma step_clear h n ls l :
    wf h n ls -> good ls (Clear l) (step (mkS h n) (Clear l)).
  Proof.
    intros W. unfold DListModel.step. simpl hp. simpl nl.
    destruct (Nat.ltb_spec l n) as [L|L]; simpl negb; cbv iota; [|exact I].
    destruct (wf_nth _ _ _ l W L) as (li & Ei).
    destruct (clear_log h _ li (wf_dl _ _ _ W l li Ei)) as (h' & E & D' & Fre & Fr & Sz).
    rewrite E. eapply done_ok; cycle 1; [econstructor; eauto|].
    apply (wf_upd1 h h' n ls l li []); auto.
    - intros j lj Nj Ej. apply (other_dl h h' n ls l li [] j lj); auto.
      + rewrite app_nil_r. auto.
      + intros x [].
      + apply Sz. intros E'. apply haddr_inj in E'. auto.
    - intros x [].
    - apply (tmp_frame h h' n ls _ W Fr). intros x I.
      apply (ring_valid _ _ _ _ (proj1 (wf_dl _ _ _ W l li Ei)) I).
  Qed.

  Lemma step_find h n ls l k d :
    wf h n ls -> good ls (Find l k d) (step (mkS h n) (Find l k d)).
  Proof.
    intros W. unfold DListModel.step. simpl hp. simpl nl.
    destruct (Nat.ltb_spec l n) as [L|L]; simpl negb; cbv iota; [|exact I].
    destruct (wf_nth _ _ _ l W L) as (li & Ei).
    rewrite (find_spec (akey key) d h _ li k (wf_dl _ _ _ W l li Ei)).
    eapply done_ok; cycle 1; [econstructor; eauto|]; auto.
  Qed.

  Lemma vcount_nvis stop (t : list addr) :
    vcount stop 0 t = (nvis stop (length t), rvis stop (length t)).
  Proof. rewrite vcount_0. unfold nvis, rvis. destruct (_ && _); auto. Qed.

  Lemma In_skipn {A} (l : list A) k x : In x (skipn k l) -> In x l.
  Proof. intros I. rewrite <- (firstn_skipn k l). rewrite in_app_iff; auto. Qed.
  Lemma In_firstn {A} (l : list A) k x : In x (firstn k l) -> In x l.
  Proof. intros I. rewrite <- (firstn_skipn k l). rewrite in_app_iff; auto. Qed.

  Lemma step_foreach h n ls l d stop m :
    wf h n ls -> good ls (Foreach l d stop m) (step (mkS h n) (Foreach l d stop m)).
  Proof.
    intros W. unfold DListModel.step. simpl hp. simpl nl.
    destruct (Nat.ltb_spec l n) as [L|L]; simpl negb; simpl orb; [|exact I].
    destruct (wf_nth _ _ _ l W L) as (li & Ei).
    pose proof (wf_dl _ _ _ W l li Ei) as Dl.
    set (hd := haddr l) in *. set (t := dirl d li).
    assert (ddl d h hd t) as DD by (unfold ddl, t; rewrite dirl_invol; auto).
    assert (length t = length li) as Lt by apply dirl_length.
    assert (forall x, In x (hd :: t) <-> In x (hd :: li)) as Mt.
    { intros x. simpl. unfold t. rewrite dirl_In. tauto. }
    destruct m as [| |o].
    - (* plain *)
      destruct (foreach_spec d VPlain hd stop h t [] (conj DD I)) as (h' & E & (D' & _) & Fr & Sz & Va & _).
      rewrite E. rewrite vcount_nvis, Lt in *. simpl fst in *. simpl snd in *. rewrite rev_involutive.
      simpl keepk in D'. rewrite firstn_skipn in D'.
      eapply done_ok; cycle 1; [eapply SForeachPlain; eauto|].
      rewrite <- (upd_same ls l li Ei). unfold ddl, t in D'. rewrite dirl_invol in D'.
      apply (wf_upd1 h h' n ls l li li); auto.
      + intros j lj Nj Ej. apply (other_dl h h' n ls l li [] j lj W Ei Nj Ej).
        * intros x Hx. apply Fr; auto. rewrite app_nil_r in Hx. rewrite Mt. auto.
        * intros x [].
        * apply Sz; auto. unfold hd. intros E'. apply haddr_inj in E'. auto.
      + apply (tmp_frame h h' n ls (hd :: t) W); [intros x Hx; apply Fr; auto|].
        intros x Hx. apply (ddl_valid _ _ _ _ _ DD Hx).
    - (* erase and release *)
      destruct (foreach_spec d VFree hd stop h t [] (conj DD I)) as (h' & E & (D' & _) & Fr & Sz & Va & _).
      rewrite E. rewrite vcount_nvis, Lt in *. simpl fst in *. simpl snd in *. rewrite rev_involutive.
      simpl keepk in D'. simpl app in D'.
      eapply done_ok; cycle 1; [eapply SForeachFree; eauto|].
      apply (wf_upd1 h h' n ls l li); auto.
      + intros j lj Nj Ej. apply (other_dl h h' n ls l li [] j lj W Ei Nj Ej).
        * intros x Hx. apply Fr; auto. rewrite app_nil_r in Hx. rewrite Mt. auto.
        * intros x [].
        * apply Sz; auto. unfold hd. intros E'. apply haddr_inj in E'. auto.
      + intros x Hx. left. apply dirl_In, In_skipn in Hx. unfold t in Hx. apply dirl_In in Hx. auto.
      + apply (tmp_frame h h' n ls (hd :: t) W); [intros x Hx; apply Fr; auto|].
        intros x Hx. apply (ddl_valid _ _ _ _ _ DD Hx).
    - (* erase and move to list o *)
      destruct (Nat.ltb_spec o n) as [Lo|Lo]; simpl negb; simpl orb; [|exact I].
      destruct (Nat.eqb_spec o l) as [->|Nol]; [exact I|]. cbv iota.
      destruct (wf_nth _ _ _ o W Lo) as (xo & Eo).
      pose proof (wf_dl _ _ _ W o xo Eo) as Do.
      assert (NoDup (hd :: t ++ haddr o :: xo)) as ND.
      { eapply Permutation_NoDup; [|apply (wf_sep h n ls l o li xo W (not_eq_sym Nol) Ei Eo)].
        apply perm_skip. apply Permutation_app_tail. unfold t. destruct d; simpl; auto. apply Permutation_rev. }
      destruct (foreach_spec d (VMove (haddr o)) hd stop h t xo (conj DD (conj Do ND)))
        as (h' & E & (D' & Do' & ND') & Fr & Sz & Va & _).
      rewrite E. rewrite vcount_nvis, Lt in *. simpl fst in *. simpl snd in *. rewrite rev_involutive.
      simpl keepk in D'. simpl app in D'. simpl lok in Do'. simpl keepk in ND'. simpl lok in ND'. simpl app in ND'.
      eapply done_ok; cycle 1; [eapply SForeachMove; eauto|].
      apply (wf_upd2 h h' n ls l o li xo); auto.
      + intros k lk Nk1 Nk2 Ek. apply (other_dl2 h h' n ls l o li xo k lk W Ei Eo Nk1 Nk2 Ek).
        * intros x Hx. apply Fr.
          -- intros I'. apply Hx. apply Mt in I'. destruct I' as [<-|I']; [left; auto|right; rewrite in_app_iff; auto].
          -- simpl. intros I'. apply Hx. right. rewrite in_app_iff. right. exact I'.
        * intros x H1 H2. apply Sz; auto. simpl. intros [<-|[]]; auto.
      + intros x Hx. left. apply dirl_In, In_skipn in Hx. unfold t in Hx. apply dirl_In in Hx. auto.
      + intros x Hx. rewrite in_app_iff in Hx. destruct Hx as [Hx|Hx]; auto.
        left. apply In_firstn in Hx. unfold t in Hx. apply dirl_In in Hx. auto.
      + intros x I1 I2. apply dirl_In in I1.
        apply (two_rings_disj hd (haddr o) _ _ x ND'); right; auto.
      + apply (tmp_frame h h' n ls (hd :: t ++ haddr o :: xo) W).
        * intros x Hx. apply Fr.
          -- intros [<-|I']; apply Hx; [left; auto|right; rewrite in_app_iff; auto].
          -- simpl. intros I'. apply Hx. right. rewrite in_app_iff. right. exact I'.
        * intros x Hx. change (hd :: t ++ haddr o :: xo) with ((hd :: t) ++ haddr o :: xo) in Hx.
          rewrite in_app_iff in Hx. destruct Hx as [Hx|Hx].
          -- apply (ddl_valid _ _ _ _ _ DD Hx).
          -- apply (ring_valid _ _ _ _ (proj1 Do) Hx).
  Qed.

  Lemma step_reverse h n ls l :
    wf h n ls -> good ls (Reverse l) (step (mkS h n) (Reverse l)).
  Proof.
    intros W. unfold DListModel.step. simpl hp. simpl nl.
    destruct (Nat.ltb_spec l n) as [L|L]; simpl negb; cbv iota; [|exact I].
    destruct (wf_nth _ _ _ l W L) as (li & Ei).
    destruct (reverse_dl h _ li (wf_dl _ _ _ W l li Ei)) as (h' & E & D' & U).
    rewrite E. simpl lifth. eapply done_ok; cycle 1; [econstructor; eauto|].
    apply (wf_upd1' h h' n ls l li _ _ [] W Ei D' U).
    - apply incl_cons_app.
    - intros x [].
    - intros x I. left. apply in_rev; auto.
  Qed.

  Lemma step_sort h n ls l :
    wf h n ls -> good ls (Sort l) (step (mkS h n) (Sort l)).
  Proof.
    intros W. unfold DListModel.step. simpl hp. simpl nl.
    destruct (Nat.ltb_spec l n) as [L|L]; simpl negb; cbv iota; [|exact I].
    destruct (wf_nth _ _ _ l W L) as (li & Ei).
    pose proof (wf_dl _ _ _ W l li Ei) as D.
    destruct (sort_spec (akey key) (N.to_nat (rsz h (haddr l))) 0 h (haddr l) li D)
      as (h' & l' & E & D' & Pm & So & Fr & Sz).
    { rewrite (proj2 D). lia. }
    { intros k _. apply (wf_tmp _ _ _ W). }
    rewrite E. simpl lifth. eapply done_ok; cycle 1; [eapply SSort; eauto|].
    apply (wf_upd1 h h' n ls l li l'); auto.
    - intros j lj Nj Ej. apply (other_dl h h' n ls l li [] j lj W Ei Nj Ej).
      + intros x Hx. apply Fr. rewrite app_nil_r in Hx. exact Hx.
      + intros x [].
      + apply Sz.
        * intros E'. apply haddr_inj in E'. auto.
        * intros k _. apply head_not_tmp.
    - intros x I. left. eapply Permutation_in; [symmetry; exact Pm|exact I].
    - intros k. rewrite Fr; [apply (wf_tmp _ _ _ W)|]. intros [E'|I].
      + exact (head_not_tmp _ _ E').
      + apply (elem_not_tmp (taddr k) k); auto. apply (wf_elem _ _ _ W l li); auto.
  Qed.

  (** Every operation inside the domain, from a well-formed state: no fault,
      well-formedness re-established, visible effect = reference semantics *)
  Theorem step_correct s o :
    sys_wf s -> good (abs s) o (step s o).
  Proof.
    destruct s as [h n]. intros W. unfold sys_wf in W. simpl hp in W. simpl nl in W.
    destruct o.
    - apply step_push_front; auto.
    - apply step_push_back; auto.
    - apply step_pop_front; auto.
    - apply step_pop_back; auto.
    - apply step_insert; auto.
    - apply step_erase; auto.
    - apply step_front; auto.
    - apply step_back; auto.
    - apply step_size; auto.
    - apply step_foreach; auto.
    - apply step_find; auto.
    - apply step_swap; auto.
    - apply step_clear; auto.
    - apply step_reverse; auto.
    - apply step_sort; auto.
    - apply step_concat; auto.
  Qed.
End System.

Lemma wf_init n : wf (hp (sys_init n)) n (repeat [] n).
Proof.
  assert (forall i l, nth_error (repeat (@nil addr) n) i = Some l -> l = [] /\ i < n) as Nth.
  { intros i l E. split.
    - apply nth_error_In in E. apply repeat_spec in E. auto.
    - rewrite <- (repeat_length (@nil addr) n). apply nth_error_Some. congruence. }
  split.
  - apply repeat_length.
  - intros i l E. destruct (Nth i l E) as (-> & L). split.
    + apply ring_nil; unfold gnx, gpv; simpl; unfold init_mem;
        rewrite haddr_mod, haddr_div; simpl Nat.eqb; rewrite (proj2 (Nat.ltb_lt i n)); auto.
    + reflexivity.
  - intros i j li lj x _ E _ I. destruct (Nth i li E) as (-> & _). destruct I.
  - intros i l x E I. destruct (Nth i l E) as (-> & _). destruct I.
  - intros k. simpl. unfold init_mem. rewrite taddr_mod. reflexivity.
Qed.

Lemma sys_wf_init n : sys_wf (sys_init n).
Proof.
  unfold sys_wf. pose proof (wf_init n) as W. change (sys_init n) with (mkS (hp (sys_init n)) n).
  rewrite (wf_abs _ _ _ W). exact W.
Qed.

(** * All reachable states *)

Section Reach.
  Variable key : nat -> Z.
  Notation step := (DListModel.step key).

  Theorem reach_wf n s : reach step (sys_init n) s -> sys_wf s.
  Proof.
    apply (reach_ind_inv step (fun s => sys_wf s)).
    - apply sys_wf_init.
    - intros s0 o s' out W E. pose proof (step_correct key s0 o W) as G. rewrite E in G. apply G.
  Qed.

  Theorem run_safe n ops :
    match fst (run step (sys_init n) ops) with
    | Done s _ => sys_wf s
    | Precond => True
    | _ => False
    end.
  Proof.
    generalize (sys_wf_init n). generalize (sys_init n).
    induction ops as [|o ops IH]; intros s W; simpl; auto.
    pose proof (step_correct key s o W) as H.
    destruct (step s o) as [s' out| | |]; simpl in H; try tauto.
    destruct H as (W' & _). specialize (IH s' W').
    destruct (run step s' ops); simpl in *; auto.
  Qed.

  (** in every reachable state every list object is a well-formed ring whose
      forward walk is its sequence and whose backward walk is the mirror image *)
  Theorem reach_rings n s i l :
    reach step (sys_init n) s -> nth_error (abs s) i = Some l ->
    ring (hp s) (haddr i) l /\ rsz (hp s) (haddr i) = N.of_nat (length l) /\
    forall fuel, length l <= fuel ->
      traverse Fwd (hp s) (haddr i) fuel = l /\ traverse Rev (hp s) (haddr i) fuel = rev l.
  Proof.
    intros R E. pose proof (reach_wf n s R) as W. destruct (wf_dl _ _ _ W i l E) as (Rg & Z).
    split; auto. split; auto. intros fuel Hf. split; [apply traverse_fwd|apply traverse_rev]; auto.
  Qed.
End Reach.
