(** C13 — a singly-linked list equals a reference sequence and its tail is
    the true last element.  Statements only; proofs are in SListProofs.v,
    SListPtrProofs.v and SListPtrSortProofs.v. *)
From Cstl Require Import Prelude SListModel SListProofs SListPtrModel SListPtrProofs SListPtrSortProofs.

Section C13.
  Variable key : nat -> Z.
  Notation step := (SListModel.step key false).

  (** Every operation inside the domain, from a well-formed state: no fault,
      no abort, well-formedness (tail = true last node, count = length, no
      element linked twice) re-established, and the visible effect is the
      one of the reference sequence semantics [spec]. *)
  Theorem C13_step_refines s o :
    sys_wf s ->
    match step s o with
    | Done s' out => sys_wf s' /\ spec key (abs s) o (abs s') out
    | Precond => True
    | Abort => False
    | Fault => False
    end.
  Proof. exact (step_correct key s o). Qed.

  (** ... hence in every state reachable from freshly initialised lists *)
  Theorem C13_reachable_wf n s : reach step (sys_init n) s -> sys_wf s.
  Proof. exact (reach_wf key n s). Qed.

  (** in particular the tail pointer is the true last element *)
  Theorem C13_tail_is_last n s l sl :
    reach step (sys_init n) s -> nth_error s l = Some sl ->
    tail sl = last_opt (items sl) /\ count sl = N.of_nat (length (items sl)).
  Proof.
    intros R E. destruct (reach_wf key n s R) as (Wf & _).
    destruct (nth_error_Forall _ _ _ _ Wf E) as (H1 & H2 & _). auto.
  Qed.

  (** push_back appends after the true last element after any history *)
  Theorem C13_push_back_appends n s l sl e :
    reach step (sys_init n) s -> nth_error s l = Some sl -> in_any s e = false ->
    exists s', step s (PushBack l e) = Done s' [] /\
               abs s' = upd (abs s) l (items sl ++ [e]).
  Proof.
    intros R E F. pose proof (step_correct key s (PushBack l e) (reach_wf key n s R)) as H.
    cbn [SListModel.step] in *. unfold with_list in *. rewrite E, F in *.
    destruct (push_back sl e) as [sl'|]; simpl in *; [|tauto].
    destruct H as (_ & H). inversion H; subst. eexists; split; eauto.
    rewrite (nth_abs _ _ _ E) in *. congruence.
  Qed.

  (** pop_front on an empty list returns NULL and changes nothing *)
  Theorem C13_pop_front_empty n s l sl :
    reach step (sys_init n) s -> nth_error s l = Some sl -> items sl = [] ->
    step s (PopFront l) = Done s [znull].
  Proof.
    intros R E Em. destruct (reach_wf key n s R) as (Wf & _).
    pose proof (nth_error_Forall _ _ _ _ Wf E) as W.
    pose proof (pop_front_spec sl W) as P. rewrite Em in P.
    cbn [SListModel.step]. unfold with_list. rewrite E, P. simpl.
    rewrite upd_same; auto.
  Qed.

  (** no script, however long, drives the (repaired) code into a fault or an
      abort: [run] ends in [Done], or in [Precond] when the script itself left
      the domain *)
  Theorem C13_run_safe n ops :
    match fst (run step (sys_init n) ops) with
    | Done s _ => sys_wf s
    | Precond => True
    | _ => False
    end.
  Proof.
    generalize (sys_wf_init n). generalize (sys_init n).
    induction ops as [|o ops IH]; intros s W; simpl; auto.
    pose proof (step_correct key s o W) as H.
    destruct (step s o) as [s' out| | |]; try tauto.
    destruct H as (W' & _). specialize (IH s' W').
    destruct (run step s' ops); simpl in *; auto.
  Qed.
End C13.

(** Pointer level.  SListPtrModel re-implements slist.c on a heap of [n]
    links (one update per C assignment; sort = the recursive merge sort on two
    stack-local list heads, which live at the next two free object indices).
    For every history -- all operations, sort included -- it produces exactly
    the outputs of the sequence model and stays related to it by the
    representation relation [R] (each list's chain from its head link spells
    the sequence and ends in NULL, the tail pointer is the address of the last
    node or of the head link, the count is the length) -- so everything above
    also holds of the pointer-level model.  Proofs: SListPtrProofs.v (all
    operations but sort), SListPtrSortProofs.v (split, recursion, merge loop,
    final concat of sort; [sim_step], [sim_run]). *)
Theorem C13_pointer_level (key : nat -> Z) n ops :
  match run (SListModel.step key false) (sys_init n) ops, run (p_step key) (p_init n) ops with
  | (Done a' _, outs), (Done p' _, outs') => R a' p' /\ outs = outs' /\ sys_wf a'
  | (Precond, outs), (Precond, outs') => outs = outs'
  | _, _ => False
  end.
Proof. exact (sim_run key ops (sys_init n) (p_init n) (sys_wf_init n) (R_init n)). Qed.

(** Non-vacuity: a concrete history (3 lists, keys 1 0 1 0 2) reaches a
    non-trivial well-formed state through every kind of operation. *)
Example C13_example_run :
  let key := fun n => nth n [1;0;1;0;2]%Z 0%Z in
  let ops := [PushBack 0 0; PushBack 0 1; PushFront 0 2; InsertAfter 0 1 3; PushBack 1 4;
              Sort 0; Reverse 0; Concat 1 0; Swap 0 1; EraseAfter 0 4; PopFront 0; PushBack 0 4] in
  match fst (run (SListModel.step key false) (sys_init 3) ops) with
  | Done s _ => abs s = [[2; 3; 1; 4]; []; []]
  | _ => False
  end.
Proof. vm_compute. reflexivity. Qed.

Print Assumptions C13_step_refines.
Print Assumptions C13_reachable_wf.
Print Assumptions C13_tail_is_last.
Print Assumptions C13_push_back_appends.
Print Assumptions C13_pop_front_empty.
Print Assumptions C13_run_safe.
Print Assumptions C13_pointer_level.
