(** C13 — a singly-linked list equals a reference sequence and its tail is
    the true last element.  Statements only; proofs are in SListProofs.v,
    SListPtrProofs.v and SListPtrSortProofs.v. *)
From Cstl Require Import Prelude SListModel SListProofs SListPtrModel SListPtrProofs SListPtrSortProofs.

Section C13.
  Variable key : nat -> Z.
  Notation step := (SListModel.step key false).

  (** Every operation inside the domain, from a well-formed state: no fault,
      no abort, well-formedness (tail = true last node, count = length, no
      element linked twice) re-established, and the visible effect is the
      one of the reference sequence semantics [spec]. *)
  Theorem C13_step_refines s o :
    sys_wf s ->
    match step s o with
    | Done s' out => sys_wf s' /\ spec key (abs s) o (abs s') out
    | Precond => True
    | Abort => False
    | Fault => False
    end.
  Proof. exact (step_correct key s o). Qed.

  (** ... hence in every state reachable from freshly initialised lists *)
  Theorem C13_reachable_wf n s : reach step (sys_init n) s -> sys_wf s.
  Proof. exact (reach_wf key n s). Qed.

  (** in particular the tail pointer is the true last element *)
  Theorem C13_tail_is_last n s l sl :
    reach step (sys_init n) s -> nth_error s l = Some sl ->
    tail sl = last_opt (items sl) /\ count sl = N.of_nat (length (items sl)).
  Proof.
    intros R E. destruct (reach_wf key n s R) as (Wf & _).
    destruct (nth_error_Forall _ _ _ _ Wf E) as (H1 & H2 & _). auto.
  Qed.

  (** push_back appends after the true last element after any history *)
  Theorem C13_push_back_appends n s l sl e :
    reach step (sys_init n) s -> nth_error s l = Some sl -> in_any s e = false ->
    exists s', step s (PushBack l e) = Done s' [] /\
               abs s' = upd (abs s) l (items sl ++ [e]).
  Proof.
    intros R E F. pose proof (step_correct key s (PushBack l e) (reach_wf key n s R)) as H.
    cbn [SListModel.step] in *. unfold with_list in *. rewrite E, F in *.
    destruct (push_back sl e) as [sl'|]; simpl in *; [|tauto].
    destruct H as (_ & H). inversion H; subst. eexists; split; eauto.
    rewrite (nth_abs _ _ _ E) in *. congruence.
  Qed.

  (** pop_front on an empty list returns NULL and changes nothing *)
  Theorem C13_pop_front_empty n s l sl :
    reach step (sys_init n) s -> nth_error s l = Some sl -> items sl = [] ->
    step s (PopFront l) = Done s [znull].
  Proof.
    intros R E Em. destruct (reach_wf key n s R) as (Wf & _).
    pose proof (nth_error_Forall _ _ _ _ Wf E) as W.
    pose proof (pop_front_spec sl W) as P. rewrite Em in P.
    cbn [SListModel.step]. unfold with_list. rewrite E, P. simpl.
    rewrite upd_same; auto.
  Qed.

  (** no script, however long, drives the (repaired) code into a fault or an
      abort: [run] ends in [Done], or in [Precond] when the script itself left
      the domain *)
  Theorem C13_run_safe n ops :
    match fst (run step (sys_init n) ops) with
    | Done s _ => sys_wf s
    | Precond => True
    | _ => False
    end.
  Proof.
    generalize (sys_wf_init n). generalize (sys_init n).
    induction ops as [|o ops IH]; intros s W; simpl; auto.
    pose proof (step_correct key s o W) as H.
    destruct (step s o) as [s' out| | |]; try tauto.
    destruct H as (W' & _). specialize (IH s' W').
    destruct (run step s' ops); simpl in *; auto.
  Qed.
End C13.

(** Pointer level.  SListPtrModel re-implements slist.c on a heap of [n]
    links (one update per C assignment; sort = the recursive merge sort on two
    stack-local list heads, which live at the next two free object indices).
    For every history -- all operations, sort included -- it produces exactly
    the outputs of the sequence model and stays related to it by the
    representation relation [R] (each list's chain from its head link spells
    the sequence and ends in NULL, the tail pointer is the address of the last
    node or of the head link, the count is the length) -- so everything above
    also holds of the pointer-level model.  Proofs: SListPtrProofs.v (all
    operations but sort), SListPtrSortProofs.v (split, recursion, merge loop,
    final concat of sort; [sim_step], [sim_run]). *)
Theorem C13_pointer_level (key : nat -> Z) n ops :
  match run (SListModel.step key false) (sys_init n) ops, run (p_step key) (p_init n) ops with
  | (Done a' _, outs), (Done p' _, outs') => R a' p' /\ outs = outs' /\ sys_wf a'
  | (Precond, outs), (Precond, outs') => outs = outs'
  | _, _ => False
  end.
Proof. exact (sim_run key ops (sys_init n) (p_init n) (sys_wf_init n) (R_init n)). Qed.

(** foreach with a visitor that changes the lists ([FMove l d stop]): for the
    element it is shown the visitor calls cstl_slist_pop_front(l), checks that
    it got that element, and appends it to list d with cstl_slist_push_back.
    cstl_slist_foreach tolerates this because it reads the successor of the
    current node before calling the visitor.

    Sequence model, from ANY well-formed state and any two distinct lists:
    the call completes; with k = number of visits (all elements, or [stop] of
    them) the traversed list keeps [skipn k], the other list becomes
    [d ++ firstn k], the visit log is [firstn k], the result is [stop] or 0,
    pop_front returned the visited element at every visit (second output 0);
    tail = true last and count = length hold again for both lists. *)
Theorem C13_fmove_refines (key : nat -> Z) s l d stop sl dl :
  sys_wf s -> l <> d -> nth_error s l = Some sl -> nth_error s d = Some dl ->
  exists s',
    SListModel.step key false s (FMove l d stop) =
      Done s' (fm_res stop (length (items sl)) :: 0%Z
               :: zids (firstn (fm_count stop (length (items sl))) (items sl))) /\
    sys_wf s' /\
    abs s' = upd (upd (abs s) l (skipn (fm_count stop (length (items sl))) (items sl))) d
                 (items dl ++ firstn (fm_count stop (length (items sl))) (items sl)).
Proof. exact (fmove_step key s l d stop sl dl). Qed.

(** Pointer level, one visit (the reason for the order of statements in
    cstl_slist_foreach): with [e] the first element of l, pop_front(l) hands
    back [e], push_back(d, e) links it behind d's tail, the states stay
    related, and the link [c->n] that the loop saved BEFORE the visit is the
    first link of l afterwards. *)
Theorem C13_fmove_saved_successor a p l d sl dl e r sl1 dl1 :
  sys_wf a -> R a p -> l <> d ->
  nth_error a l = Some sl -> nth_error a d = Some dl -> items sl = e :: r ->
  pop_front sl = Ok (sl1, Some e) -> push_back dl e = Ok dl1 ->
  exists ol p1 od,
    nth_error (objs p) l = Some ol /\
    p_pop_front p l ol = Ok (p1, Some (Nd e)) /\
    nth_error (objs p1) d = Some od /\
    sys_wf (upd (upd a l sl1) d dl1) /\
    R (upd (upd a l sl1) d dl1) (p_insert_after p1 d od (lt od) e) /\
    nx (p_insert_after p1 d od (lt od) e) (Hd l) = nx p (Nd e) /\
    items sl1 = r.
Proof. exact (sim_fmove_visit (fun _ => 0%Z) a p l d sl dl e r sl1 dl1). Qed.

(** Pointer level, whole call: the loop as coded (successor saved before the
    visitor; visitor = the pointer-level pop_front and push_back acting on the
    heap), from any pointer state representing well-formed sequences,
    completes with the reference result above and represents the reference
    sequences afterwards.  ([C13_pointer_level] covers [FMove] inside
    arbitrary histories as well, since it quantifies over all operations.) *)
Theorem C13_fmove_pointer_level (key : nat -> Z) a p l d stop sl dl :
  sys_wf a -> R a p -> l <> d -> nth_error a l = Some sl -> nth_error a d = Some dl ->
  exists a' p',
    p_step key p (FMove l d stop) =
      Done p' (fm_res stop (length (items sl)) :: 0%Z
               :: zids (firstn (fm_count stop (length (items sl))) (items sl))) /\
    R a' p' /\ sys_wf a' /\
    abs a' = upd (upd (abs a) l (skipn (fm_count stop (length (items sl))) (items sl))) d
                 (items dl ++ firstn (fm_count stop (length (items sl))) (items sl)).
Proof. exact (fmove_ptr_step key a p l d stop sl dl). Qed.

(** Non-vacuity of the three theorems above: a stopping and a complete moving
    traversal, run on both models. *)
Example C13_example_fmove :
  let key := fun _ : nat => 0%Z in
  let ops := [PushBack 0 0; PushBack 0 1; PushBack 0 2; PushBack 0 3; PushBack 1 4;
              FMove 0 1 3; FMove 1 0 0] in
  match run (SListModel.step key false) (sys_init 2) ops, run (p_step key) (p_init 2) ops with
  | (Done s _, outs), (Done p _, outs') =>
    abs s = [[3; 4; 0; 1; 2]; []] /\ outs = outs' /\
    nth 5 outs [] = [3; 0; 0; 1; 2]%Z /\ nth 6 outs [] = [0; 0; 4; 0; 1; 2]%Z /\
    p_dump p 0 = dump (nth 0 s sl_init) /\ p_dump p 1 = dump (nth 1 s sl_init)
  | _, _ => False
  end.
Proof. vm_compute. repeat split; reflexivity. Qed.

(** Non-vacuity: a concrete history (3 lists, keys 1 0 1 0 2) reaches a
    non-trivial well-formed state through every kind of operation. *)
Example C13_example_run :
  let key := fun n => nth n [1;0;1;0;2]%Z 0%Z in
  let ops := [PushBack 0 0; PushBack 0 1; PushFront 0 2; InsertAfter 0 1 3; PushBack 1 4;
              Sort 0; Reverse 0; Concat 1 0; Swap 0 1; EraseAfter 0 4; PopFront 0; PushBack 0 4] in
  match fst (run (SListModel.step key false) (sys_init 3) ops) with
  | Done s _ => abs s = [[2; 3; 1; 4]; []; []]
  | _ => False
  end.
Proof. vm_compute. reflexivity. Qed.

Print Assumptions C13_step_refines.
Print Assumptions C13_reachable_wf.
Print Assumptions C13_tail_is_last.
Print Assumptions C13_push_back_appends.
Print Assumptions C13_pop_front_empty.
Print Assumptions C13_run_safe.
Print Assumptions C13_pointer_level.
Print Assumptions C13_fmove_refines.
Print Assumptions C13_fmove_saved_successor.
Print Assumptions C13_fmove_pointer_level.
