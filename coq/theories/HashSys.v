(** Proofs about HashModel.v, part 5: the scripted system (several tables,
    one element pool, one allocator).  One theorem, [exec_refines], states for
    every operation of the repaired code what it does to the bags of live
    elements, what it returns, which callbacks it makes and how much work it
    performs; the Properties_*.v files are corollaries. *)
From Cstl Require Import Prelude AllocModel HashModel HashProofs HashInv HashOps HashTable.
Local Open Scope N_scope.

Arguments HashModel.bucket_raw : simpl never.
Arguments N.mul : simpl never.

Lemma Forall_upd {A} (P : A -> Prop) l i x : Forall P l -> P x -> Forall P (upd l i x).
Proof.
  intros H Hx. revert i. induction H as [|y r Hy Hr IH]; intros [|i]; simpl; auto.
Qed.

Lemma Forall_nth {A} (P : A -> Prop) l i x : Forall P l -> nth_error l i = Some x -> P x.
Proof. intros H E. rewrite Forall_forall in H. apply H. eapply nth_error_In; eauto. Qed.

Lemma visits_clear_events l : visits (clear_events l) = [].
Proof. induction l; simpl; auto. Qed.
Lemma offers_clear_events l : offers (clear_events l) = [].
Proof. induction l; simpl; auto. Qed.
Lemma clears_walk_events l : clears (walk_events l) = [].
Proof. induction l; simpl; auto. Qed.
Lemma offers_walk_events l : offers (walk_events l) = [].
Proof. induction l; simpl; auto. Qed.
Lemma hcalls_walk_events l : hcalls (walk_events l) = [].
Proof. induction l; simpl; auto. Qed.
Lemma ncleans_walk_events l : ncleans (walk_events l) = 0%nat.
Proof. induction l; simpl; auto. Qed.

Definition lives (ts : list table) : list nat := concat (map live ts).

Lemma lives_app a b : lives (a ++ b) = lives a ++ lives b.
Proof. unfold lives. now rewrite map_app, concat_app. Qed.

Lemma lives_upd ts i t t' :
  nth_error ts i = Some t ->
  exists l1 l2, lives ts = l1 ++ live t ++ l2 /\ lives (upd ts i t') = l1 ++ live t' ++ l2.
Proof.
  intros H. destruct (nth_error_split _ _ _ H) as (p & q & -> & <-).
  rewrite upd_app. exists (lives p), (lives q). rewrite !lives_app. auto.
Qed.

Lemma in_lives ts e : In e (lives ts) <-> exists i t, nth_error ts i = Some t /\ In e (live t).
Proof.
  unfold lives. rewrite in_concat. split.
  - intros (l & Hl & He). apply in_map_iff in Hl. destruct Hl as (t & <- & Ht).
    destruct (In_nth_error _ _ Ht) as (i & Hi). eauto.
  - intros (i & t & Hi & He). exists (live t). split; auto. apply in_map. eapply nth_error_In; eauto.
Qed.

Lemma in_any_spec s e : in_any s e = true <-> In e (lives (tabs s)).
Proof.
  unfold in_any. rewrite existsb_exists, in_lives. split.
  - intros (t & Ht & He). apply existsb_eqb_in in He.
    destruct (In_nth_error _ _ Ht) as (i & Hi). eauto.
  - intros (i & t & Hi & He). exists t. split; [eapply nth_error_In; eauto|].
    apply existsb_eqb_in; auto.
Qed.

Lemma NoDup_app_swap {A} (a b : list A) : NoDup (a ++ b) -> NoDup (b ++ a).
Proof. intros H. eapply Permutation_NoDup; [apply Permutation_app_comm|auto]. Qed.

(** replacing the middle segment of a duplicate-free list by a duplicate-free
    list of elements that are new or were in that segment *)
Lemma NoDup_replace {A} (l1 a a' l2 : list A) :
  NoDup (l1 ++ a ++ l2) -> NoDup a' ->
  (forall x, In x a' -> In x a \/ ~ In x (l1 ++ a ++ l2)) ->
  NoDup (l1 ++ a' ++ l2).
Proof.
  intros H Ha' Hsub.
  assert (H1 : NoDup l1) by (eapply NoDup_app_l; eauto).
  assert (H2 : NoDup l2) by (apply NoDup_app_r in H; apply NoDup_app_r in H; auto).
  assert (D : forall x, In x l1 -> ~ In x (a ++ l2)).
  { intros x Hx Hy. clear - H Hx Hy. induction l1 as [|y l1 IH]; simpl in *; [auto|].
    inversion H; subst. destruct Hx as [->|Hx]; auto. apply H2. apply in_or_app. now right. }
  assert (D2 : forall x, In x a -> ~ In x l2).
  { intros x Hx Hy. apply NoDup_app_r in H. clear - H Hx Hy.
    induction a as [|y a IH]; simpl in *; [auto|]. inversion H; subst.
    destruct Hx as [->|Hx]; auto. apply H2. apply in_or_app. now right. }
  assert (K : NoDup (a' ++ l2)).
  { clear H1. induction a' as [|x a' IH]; simpl; auto. inversion Ha'; subst. constructor.
    - intros Hin. apply in_app_or in Hin. destruct Hin as [Hin|Hin]; auto.
      destruct (Hsub x (or_introl eq_refl)) as [Hx|Hx].
      + apply (D2 x Hx Hin).
      + apply Hx. apply in_or_app. right. apply in_or_app. now right.
    - apply IH; auto. intros y Hy. apply Hsub. now right. }
  clear H2. induction l1 as [|x l1 IH]; simpl in *; auto.
  inversion H; subst. constructor.
  - intros Hin. apply in_app_or in Hin. destruct Hin as [Hin|Hin]; [apply H3; apply in_or_app; now left|].
    apply in_app_or in Hin. destruct Hin as [Hin|Hin].
    + destruct (Hsub x Hin) as [Hx|Hx].
      * apply (D x (or_introl eq_refl)). apply in_or_app. now left.
      * apply Hx. now left.
    + apply (D x (or_introl eq_refl)). apply in_or_app. now right.
  - apply IH; [auto| | |].
    + intros y Hy. destruct (Hsub y Hy) as [Hx|Hx]; [now left|]. right. intros Hc. apply Hx. now right.
    + inversion H1; auto.
    + intros y Hy. apply D. now right.
Qed.

Section Sys.
  Variable hf : fn_id -> N -> N -> option N.
  Variable key : nat -> N.
  Variable ok : nat -> N -> bool.
  Hypothesis Hdef : hf_def hf.

  Notation inv := (inv hf key).
  Notation exec := (exec hf key fixed ok).

  Definition sys_inv (s : sys) : Prop := Forall inv (tabs s) /\ NoDup (lives (tabs s)).

  Lemma sys_inv_init n : sys_inv (sys_init n).
  Proof.
    split; simpl.
    - apply Forall_forall. intros t Ht. apply repeat_spec in Ht. subst. apply inv_init.
    - replace (lives (repeat t_init n)) with (@nil nat); [constructor|].
      induction n; simpl; auto.
  Qed.

  (** replacing table [i] by one whose nodes were there before (or are new) *)
  Lemma sys_inv_upd s i t t' a' :
    sys_inv s -> nth_error (tabs s) i = Some t -> inv t' ->
    (forall x, In x (live t') -> In x (live t) \/ ~ In x (lives (tabs s))) ->
    sys_inv (mkSys (upd (tabs s) i t') a').
  Proof.
    intros (F & Nd) Ht I' Hsub. split; simpl.
    - apply Forall_upd; auto.
    - destruct (lives_upd (tabs s) i t t' Ht) as (l1 & l2 & E1 & E2). rewrite E2.
      rewrite E1 in Nd. eapply NoDup_replace; eauto.
      + apply (inv_nodup _ _ t' (proj1 I')).
      + intros x Hx. rewrite <- E1. auto.
  Qed.

  (** what a keyed operation (insert, find, erase) on key [k] does besides
      its effect on the chains: geometry kept, bounded work, progress of a
      pending rehash, exactly one hash call when nothing is pending *)
  Definition keyed_facts (t t' : table) (k : N) (w : list ev) : Prop :=
    keeps t t' /\ progress t t' /\ (ncleans w <= 3)%nat /\
    (rhash t = None -> rhash t' = None /\ exists g, hash t = Some g /\ hcalls w = [(g, k, bcount t)]).

  (** effect of one operation: [t] is the table operated on, [t'] what it becomes *)
  Definition post (s : sys) (o : op) (s' : sys) (r : list Z) (w : list ev) : Prop :=
    match o with
    | Insert i e =>
      exists t t', nth_error (tabs s) i = Some t /\ tabs s' = upd (tabs s) i t' /\ al s' = al s /\
        Permutation (live t') (e :: live t) /\ size t' = size t + 1 /\ r = [] /\
        keyed_facts t t' (key e) w
    | Find i k vis =>
      exists t t' x, nth_error (tabs s) i = Some t /\ tabs s' = upd (tabs s) i t' /\ al s' = al s /\
        Permutation (live t') (live t) /\ size t' = size t /\ r = [zopt x] /\
        (exists c, NoDup c /\ (forall e, In e c <-> In e (live t) /\ key e = k) /\
                   find_result vis c (offers w) x) /\
        keyed_facts t t' k w
    | Erase i e =>
      exists t t', nth_error (tabs s) i = Some t /\ tabs s' = upd (tabs s) i t' /\ al s' = al s /\
        (forall x, In x (live t') <-> In x (live t) /\ x <> e) /\
        (In e (live t) -> Permutation (e :: live t') (live t) /\ size t' + 1 = size t) /\
        (~ In e (live t) -> Permutation (live t') (live t) /\ size t' = size t) /\ r = [] /\
        keyed_facts t t' (key e) w
    | Resize i n f =>
      exists t t', nth_error (tabs s) i = Some t /\ tabs s' = upd (tabs s) i t' /\
        Permutation (live t') (live t) /\ size t' = size t /\ r = [changed t t'] /\
        (0 < n -> n <= cap t' -> tgt_count t' = n /\ tgt_hash t' = new_hash t f) /\
        (cap t' < n -> t' = t) /\ (n = 0 -> t' = t /\ al s' = al s) /\
        clears w = [] /\ visits w = [] /\ offers w = [] /\
        (hash t = None -> rhash t' = None)
    | Rehash i =>
      exists t t', nth_error (tabs s) i = Some t /\ tabs s' = upd (tabs s) i t' /\ al s' = al s /\
        Permutation (live t') (live t) /\ size t' = size t /\ r = [changed t t'] /\
        rhash t' = None /\ bcount t' = tgt_count t /\ hash t' = tgt_hash t /\
        clears w = [] /\ visits w = [] /\ offers w = []
    | Shrink i =>
      exists t t', nth_error (tabs s) i = Some t /\ tabs s' = upd (tabs s) i t' /\
        Permutation (live t') (live t) /\ size t' = size t /\ r = [changed t t'] /\
        tgt_count t' = tgt_count t /\ tgt_hash t' = tgt_hash t /\
        clears w = [] /\ visits w = [] /\ offers w = []
    | Swap i j =>
      exists ti tj, nth_error (tabs s) i = Some ti /\ nth_error (tabs s) j = Some tj /\
        tabs s' = upd (upd (tabs s) i tj) j ti /\ al s' = al s /\ r = [] /\ w = []
    | Foreach i er stop =>
      exists t t' res, nth_error (tabs s) i = Some t /\ tabs s' = upd (tabs s) i t' /\ al s' = al s /\
        r = [res] /\ rhash t' = None /\ bcount t' = tgt_count t /\ hash t' = tgt_hash t /\
        (exists order, Permutation order (live t) /\
           visits w = fst (visit_upto stop order) /\ res = snd (visit_upto stop order)) /\
        clears w = [] /\ offers w = [] /\ order_ok [] w /\
        (if er then
           (forall x, In x (live t') <-> In x (live t) /\ ~ In x (visits w)) /\
           size t' + N.of_nat (length (visits w)) = size t
         else Permutation (live t') (live t) /\ size t' = size t)
    | ForeachConst i stop =>
      exists t res, nth_error (tabs s) i = Some t /\ s' = s /\ r = [res] /\
        (exists order, Permutation order (live t) /\
           visits w = fst (visit_upto stop order) /\ res = snd (visit_upto stop order)) /\
        clears w = [] /\ offers w = [] /\ order_ok [] w /\ hcalls w = [] /\ ncleans w = 0%nat
    | Clear i cb =>
      exists t t', nth_error (tabs s) i = Some t /\ tabs s' = upd (tabs s) i t' /\
        al s' = free (al s) (at_blk t) /\ r = [] /\
        live t' = [] /\ size t' = 0 /\ hash t' = None /\ rhash t' = None /\ at_blk t' = None /\
        bcount t' = 0 /\ cap t' = 0 /\
        clears w = (if cb then live t else []) /\ visits w = [] /\ offers w = [] /\ order_ok [] w
    | Size i =>
      exists t, nth_error (tabs s) i = Some t /\ s' = s /\ w = [] /\
        r = [Z.of_nat (length (live t))]
    | Load i =>
      exists t, nth_error (tabs s) i = Some t /\ s' = s /\ w = [] /\
        r = [Z.of_nat (length (live t)); Z.of_N (tgt_count t)] /\ 0 < tgt_count t
    end.

  Lemma upd_same_tab s i t : nth_error (tabs s) i = Some t -> mkSys (upd (tabs s) i t) (al s) = s.
  Proof. intros H. rewrite upd_same by auto. now destruct s. Qed.

  Definition outcome_ok (s : sys) (o : op) : Prop :=
    match exec s o with
    | XDone s' r w => sys_inv s' /\ post s o s' r w
    | XAbort => ~ in_range hf
    | XFault => False
    | XPrecond => True
    end.

  Lemma not_in_lives s i t x : nth_error (tabs s) i = Some t -> ~ In x (lives (tabs s)) -> ~ In x (live t).
  Proof. intros Ht Hn H. apply Hn. apply in_lives. eauto. Qed.

  Lemma exec_insert s i e : sys_inv s -> outcome_ok s (Insert i e).
  Proof.
    intros SI. pose proof SI as (F & Nd). unfold outcome_ok. cbn [HashModel.exec]. unfold with_tab.
    destruct (nth_error (tabs s) i) as [t|] eqn:Et; auto.
    pose proof (Forall_nth _ _ _ _ F Et) as I.
    destruct (in_any s e) eqn:Ea; cbn [orb]; auto.
    destruct (hash t) as [g|] eqn:Eh; cbn [is_some negb]; auto.
    assert (Hn : ~ In e (lives (tabs s))) by (rewrite <- in_any_spec; congruence).
    pose proof (insert_spec hf key Hdef t e I ltac:(congruence) (not_in_lives s i t e Et Hn)) as P.
    destruct (insert hf key t e) as [t' w| |]; cbn [lift HashProofs.safe] in *; auto.
    destruct P as (I' & Pl & Z & K & Pr & N3 & _ & Hs).
    split.
    - eapply sys_inv_upd; eauto. intros x Hx.
      apply (Permutation_in x Pl) in Hx. destruct Hx as [<-|Hx]; auto.
    - exists t, t'. repeat (split; [solve [auto]|]).
      intros Hr. destruct (Hs Hr) as (Hr' & _ & _ & g' & E' & ->). split; auto. exists g'. auto.
  Qed.

  Lemma exec_find s i k vis : sys_inv s -> outcome_ok s (Find i k vis).
  Proof.
    intros SI. pose proof SI as (F & Nd). unfold outcome_ok. cbn [HashModel.exec]. unfold with_tab.
    destruct (nth_error (tabs s) i) as [t|] eqn:Et; auto.
    pose proof (Forall_nth _ _ _ _ F Et) as I.
    destruct (hash t) as [g|] eqn:Eh; cbn [is_some negb]; auto.
    pose proof (find_spec hf key Hdef t k vis I ltac:(congruence)) as P.
    destruct (find hf key t k vis) as [[t' x] w| |]; cbn [lift HashProofs.safe fst snd] in *; auto.
    destruct P as (I' & Pl & Z & K & Pr & N3 & C & Hs).
    split.
    - eapply sys_inv_upd; eauto. intros y Hy. left. eapply Permutation_in; eauto.
    - exists t, t', x. repeat (split; [solve [auto]|]).
      intros Hr. destruct (Hs Hr) as (-> & g' & E' & Hc). split; auto. exists g'. auto.
  Qed.

  Lemma exec_erase s i e : sys_inv s -> outcome_ok s (Erase i e).
  Proof.
    intros SI. pose proof SI as (F & Nd). unfold outcome_ok. cbn [HashModel.exec]. unfold with_tab.
    destruct (nth_error (tabs s) i) as [t|] eqn:Et; auto.
    pose proof (Forall_nth _ _ _ _ F Et) as I.
    destruct (hash t) as [g|] eqn:Eh; cbn [is_some negb]; auto.
    pose proof (erase_d_spec hf key Hdef [] t e I ltac:(congruence) ltac:(intros x [])) as P.
    unfold erase. destruct (erase_d hf key [] t e) as [t' w| |]; cbn [lift HashProofs.safe] in *; auto.
    destruct P as (I' & K & Pr & N3 & _ & L & Lin & Lout & Hs).
    split.
    - eapply sys_inv_upd; eauto. intros y Hy. left. apply L in Hy. tauto.
    - exists t, t'. repeat (split; [solve [auto]|]).
      intros Hr. destruct (Hs Hr) as (Hr' & _ & _ & g' & E' & ->). split; auto. exists g'. auto.
  Qed.

  Lemma exec_resize s i n f : sys_inv s -> outcome_ok s (Resize i n f).
  Proof.
    intros SI. pose proof SI as (F & Nd). unfold outcome_ok. cbn [HashModel.exec]. unfold with_tab.
    destruct (nth_error (tabs s) i) as [t|] eqn:Et; auto.
    pose proof (Forall_nth _ _ _ _ F Et) as I.
    destruct (N.ltb_spec MAX_BUCKETS n) as [|Hm]; auto.
    pose proof (resize_spec hf key Hdef ok t (al s) n f I Hm) as P.
    destruct (resize hf key fixed ok t (al s) n f) as [[t' a'] w| |]; cbn [lift HashProofs.safe fst snd] in *; auto.
    destruct P as (I' & Pl & Z & Land & Keep & Zero & _ & _ & _ & X & V & O & First).
    split.
    - eapply sys_inv_upd; eauto. intros y Hy. left. eapply Permutation_in; eauto.
    - exists t, t'. repeat (split; [solve [auto]|]).
      split; [|auto].
      intros E0. specialize (Zero E0). injection Zero as -> ->. auto.
  Qed.

  Lemma exec_rehash s i : sys_inv s -> outcome_ok s (Rehash i).
  Proof.
    intros SI. pose proof SI as (F & Nd). unfold outcome_ok. cbn [HashModel.exec]. unfold with_tab.
    destruct (nth_error (tabs s) i) as [t|] eqn:Et; auto.
    pose proof (Forall_nth _ _ _ _ F Et) as I.
    pose proof (rehash_inv hf key Hdef t I) as P.
    pose proof (internal_rehash hf key t) as Hint.
    destruct (rehash hf key t) as [t' w| |]; cbn [lift HashProofs.safe] in *; auto.
    specialize (Hint t' w eq_refl).
    destruct P as (I' & Hr & Pl & Hc & Hh & _ & _ & Z & _).
    split.
    - eapply sys_inv_upd; eauto. intros y Hy. left. eapply Permutation_in; eauto.
    - exists t, t'. repeat (split; [solve [auto]|]).
      rewrite (internal_clears _ Hint), (internal_visits _ Hint), (internal_offers _ Hint). auto 10.
  Qed.

  Lemma exec_shrink s i : sys_inv s -> outcome_ok s (Shrink i).
  Proof.
    intros SI. pose proof SI as (F & Nd). unfold outcome_ok. cbn [HashModel.exec]. unfold with_tab.
    destruct (nth_error (tabs s) i) as [t|] eqn:Et; auto.
    pose proof (Forall_nth _ _ _ _ F Et) as I.
    pose proof (shrink_spec hf key Hdef ok t (al s) I) as P.
    destruct (shrink_to_fit hf key ok t (al s)) as [[t' a'] w| |]; cbn [lift HashProofs.safe fst snd] in *; auto.
    destruct P as (I' & Pl & Z & TC & TH & _ & _ & X & V & O).
    split.
    - eapply sys_inv_upd; eauto. intros y Hy. left. eapply Permutation_in; eauto.
    - exists t, t'. repeat (split; [solve [auto]|]). auto 10.
  Qed.

  Lemma lives_swap ts i j ti tj :
    nth_error ts i = Some ti -> nth_error ts j = Some tj ->
    Permutation (lives (upd (upd ts i tj) j ti)) (lives ts).
  Proof.
    intros Hi Hj. destruct (Nat.eq_dec i j) as [->|Hne].
    - rewrite upd_upd. rewrite Hi in Hj. injection Hj as ->. now rewrite upd_same.
    - destruct (lives_upd ts i ti tj Hi) as (l1 & l2 & E1 & E2).
      assert (Hj' : nth_error (upd ts i tj) j = Some tj) by (rewrite nth_error_upd_other; auto).
      destruct (lives_upd (upd ts i tj) j tj ti Hj') as (m1 & m2 & E3 & E4).
      rewrite E4, E1. rewrite E2 in E3.
      (* both sides are permutations of the same multiset *)
      assert (P1 : Permutation (m1 ++ live ti ++ m2) (live ti ++ m1 ++ m2)).
      { rewrite app_assoc. rewrite (Permutation_app_comm m1 (live ti)). now rewrite <- app_assoc. }
      assert (P2 : Permutation (l1 ++ live ti ++ l2) (live ti ++ l1 ++ l2)).
      { rewrite app_assoc. rewrite (Permutation_app_comm l1 (live ti)). now rewrite <- app_assoc. }
      rewrite P1, P2. apply Permutation_app_head.
      apply (Permutation_app_inv_l (live tj)).
      assert (P3 : Permutation (live tj ++ m1 ++ m2) (m1 ++ live tj ++ m2)).
      { rewrite app_assoc. rewrite (Permutation_app_comm (live tj) m1). now rewrite <- app_assoc. }
      assert (P4 : Permutation (live tj ++ l1 ++ l2) (l1 ++ live tj ++ l2)).
      { rewrite app_assoc. rewrite (Permutation_app_comm (live tj) l1). now rewrite <- app_assoc. }
      rewrite P3, P4, <- E3. reflexivity.
  Qed.

  Lemma exec_swap s i j : sys_inv s -> outcome_ok s (Swap i j).
  Proof.
    intros SI. pose proof SI as (F & Nd). unfold outcome_ok. cbn [HashModel.exec]. unfold with_tab.
    destruct (nth_error (tabs s) i) as [ti|] eqn:Ei; auto.
    destruct (nth_error (tabs s) j) as [tj|] eqn:Ej; auto.
    split.
    - split; simpl.
      + apply Forall_upd; [apply Forall_upd; auto|]; eapply Forall_nth; eauto.
      + eapply Permutation_NoDup; [symmetry; apply lives_swap; eauto|auto].
    - exists ti, tj. auto 10.
  Qed.

  Lemma exec_foreach s i er stop : sys_inv s -> outcome_ok s (Foreach i er stop).
  Proof.
    intros SI. pose proof SI as (F & Nd). unfold outcome_ok. cbn [HashModel.exec]. unfold with_tab.
    destruct (nth_error (tabs s) i) as [t|] eqn:Et; auto.
    pose proof (Forall_nth _ _ _ _ F Et) as I.
    pose proof (foreach_spec hf key Hdef t er stop I) as P.
    destruct (foreach hf key fixed t er stop) as [[t' res] w| |]; cbn [lift HashProofs.safe fst snd] in *; auto.
    destruct P as (I' & Hr & Hc & Hh & _ & _ & Ord & X & O & Oo & E).
    split.
    - eapply sys_inv_upd; eauto. intros y Hy. left. destruct er.
      + destruct E as (L & _). apply L in Hy. tauto.
      + destruct E as (Pl & _). eapply Permutation_in; eauto.
    - exists t, t', res. repeat (split; [solve [auto]|]). auto 10.
  Qed.

  Lemma exec_foreach_const s i stop : sys_inv s -> outcome_ok s (ForeachConst i stop).
  Proof.
    intros SI. pose proof SI as (F & Nd). unfold outcome_ok. cbn [HashModel.exec]. unfold with_tab.
    destruct (nth_error (tabs s) i) as [t|] eqn:Et; auto.
    pose proof (Forall_nth _ _ _ _ F Et) as I.
    rewrite (foreach_const_spec hf key t stop (proj1 I)). cbn [lift fst snd].
    rewrite upd_same_tab by auto. split; auto.
    exists t, (snd (visit_upto stop (live t))). split; auto. split; auto. split; auto.
    split. { exists (live t). rewrite visits_walk_events. auto. }
    assert (Nl : NoDup (fst (visit_upto stop (live t)))) by (apply visit_upto_nodup; apply (inv_nodup _ _ t (proj1 I))).
    split; [apply clears_walk_events|]. split; [apply offers_walk_events|].
    split; [apply order_ok_walk_events; auto; intros x []|].
    split; [apply hcalls_walk_events|apply ncleans_walk_events].
  Qed.

  Lemma exec_clear s i cb : sys_inv s -> outcome_ok s (Clear i cb).
  Proof.
    intros SI. pose proof SI as (F & Nd). unfold outcome_ok. cbn [HashModel.exec]. unfold with_tab.
    destruct (nth_error (tabs s) i) as [t|] eqn:Et; auto.
    pose proof (Forall_nth _ _ _ _ F Et) as I.
    rewrite (clear_spec hf key t (al s) cb I). cbn [lift fst snd].
    split.
    - eapply sys_inv_upd; [exact SI|exact Et|apply inv_cleared|]. intros x [].
    - exists t, (cleared fixed t). repeat (split; [solve [auto]|]).
      assert (Nl : NoDup (if cb then live t else [])).
      { destruct cb; [apply (inv_nodup _ _ t (proj1 I))|constructor]. }
      split; [apply clears_clear_events|].
      split; [apply visits_clear_events|]. split; [apply offers_clear_events|].
      apply order_ok_clear_events; [exact Nl|intros x []].
  Qed.

  Lemma exec_size s i : sys_inv s -> outcome_ok s (Size i).
  Proof.
    intros SI. pose proof SI as (F & Nd). unfold outcome_ok. cbn [HashModel.exec]. unfold with_tab.
    destruct (nth_error (tabs s) i) as [t|] eqn:Et; auto.
    pose proof (Forall_nth _ _ _ _ F Et) as I.
    split; auto. exists t. repeat (split; auto).
    rewrite (inv_size _ _ t (proj1 I)). now rewrite nat_N_Z.
  Qed.

  Lemma exec_load s i : sys_inv s -> outcome_ok s (Load i).
  Proof.
    intros SI. pose proof SI as (F & Nd). unfold outcome_ok. cbn [HashModel.exec]. unfold with_tab.
    destruct (nth_error (tabs s) i) as [t|] eqn:Et; auto.
    pose proof (Forall_nth _ _ _ _ F Et) as I.
    destruct (hash t) as [g|] eqn:Eh; cbn [is_some negb]; auto.
    split; auto. exists t. split; auto. split; auto. split; auto. unfold load. cbn [fst snd].
    rewrite (inv_size _ _ t (proj1 I)), nat_N_Z. split; auto.
    pose proof (inv_shape _ _ t (proj1 I)) as S. unfold tgt_count.
    destruct (rhash t) eqn:Er.
    - destruct (sh_rh t S ltac:(congruence)). auto.
    - apply (sh_pos t S). congruence.
  Qed.

  Theorem exec_refines s o : sys_inv s -> outcome_ok s o.
  Proof.
    intros SI. destruct o.
    - apply exec_insert; auto.
    - apply exec_find; auto.
    - apply exec_erase; auto.
    - apply exec_resize; auto.
    - apply exec_rehash; auto.
    - apply exec_shrink; auto.
    - apply exec_swap; auto.
    - apply exec_foreach; auto.
    - apply exec_foreach_const; auto.
    - apply exec_clear; auto.
    - apply exec_size; auto.
    - apply exec_load; auto.
  Qed.
End Sys.

(** * Histories *)

Section Runs.
  Variable hf : fn_id -> N -> N -> option N.
  Variable key : nat -> N.
  Variable ok : nat -> N -> bool.
  Hypothesis Hdef : hf_def hf.

  Notation exec := (exec hf key fixed ok).
  Notation step := (step hf key fixed ok).
  Notation sys_inv := (sys_inv hf key).

  Lemma step_done s o s' out :
    step s o = Done s' out -> exists r w, exec s o = XDone s' r w.
  Proof. unfold HashModel.step. destruct (exec s o); try discriminate. intros [= <- _]. eauto. Qed.

  Lemma step_inv s o s' out : sys_inv s -> step s o = Done s' out -> sys_inv s'.
  Proof.
    intros SI H. destruct (step_done _ _ _ _ H) as (r & w & E).
    pose proof (exec_refines hf key ok Hdef s o SI) as R. unfold outcome_ok in R. rewrite E in R. tauto.
  Qed.

  Lemma reach_inv n s : reach step (sys_init n) s -> sys_inv s.
  Proof.
    intros R. induction R; [apply sys_inv_init|]. eapply step_inv; eauto.
  Qed.

  (** no history faults; it aborts only if a hash function left its range *)
  Lemma run_safe s ops :
    sys_inv s ->
    match fst (run step s ops) with
    | Done s' _ => sys_inv s'
    | Abort => ~ in_range hf
    | Fault => False
    | Precond => True
    end.
  Proof.
    revert s. induction ops as [|o ops IH]; intros s SI; simpl; auto.
    pose proof (exec_refines hf key ok Hdef s o SI) as R. unfold outcome_ok in R.
    unfold HashModel.step at 1. destruct (exec s o) as [s' r w| | |]; auto.
    destruct R as (SI' & _). specialize (IH s' SI').
    destruct (run step s' ops). simpl in *. auto.
  Qed.

  (** ** the rehash completes within [count] keyed operations *)

  Definition keyed_on (i : nat) (o : op) : Prop :=
    match o with
    | Insert j _ | Find j _ _ | Erase j _ => j = i
    | _ => False
    end.

  Lemma keyed_step s i o s' r w t :
    sys_inv s -> keyed_on i o -> nth_error (tabs s) i = Some t -> exec s o = XDone s' r w ->
    exists t' k, nth_error (tabs s') i = Some t' /\ keyed_facts t t' k w.
  Proof.
    intros SI K Et E. pose proof (exec_refines hf key ok Hdef s o SI) as R.
    unfold outcome_ok in R. rewrite E in R. destruct R as (_ & P).
    assert (Hl : (i < length (tabs s))%nat) by (eapply nth_error_some_lt; eauto).
    destruct o; simpl in K; try contradiction; subst; simpl in P.
    - destruct P as (t0 & t' & E0 & Eu & _ & _ & _ & _ & KF). rewrite Et in E0. injection E0 as <-.
      exists t', (key e). split; auto. rewrite Eu. apply nth_error_upd_same; auto.
    - destruct P as (t0 & t' & x & E0 & Eu & _ & _ & _ & _ & _ & KF). rewrite Et in E0. injection E0 as <-.
      exists t', k. split; auto. rewrite Eu. apply nth_error_upd_same; auto.
    - destruct P as (t0 & t' & E0 & Eu & _ & _ & _ & _ & _ & KF). rewrite Et in E0. injection E0 as <-.
      exists t', (key e). split; auto. rewrite Eu. apply nth_error_upd_same; auto.
  Qed.

  Lemma rehash_finishes_gen ops : forall s i t s' outs,
    sys_inv s -> nth_error (tabs s) i = Some t -> Forall (keyed_on i) ops ->
    run step s ops = (Done s' [], outs) ->
    (rhash t <> None -> (N.to_nat (bcount t - rclean t) <= length ops)%nat) ->
    exists t', nth_error (tabs s') i = Some t' /\ rhash t' = None /\
               tgt_count t' = tgt_count t /\ tgt_hash t' = tgt_hash t.
  Proof.
    induction ops as [|o ops IH]; intros s i t s' outs SI Et K R Hm.
    - simpl in R. injection R as <- _. exists t. split; auto. split; [|auto].
      destruct (rhash t) eqn:E; auto. exfalso.
      pose proof (Forall_nth _ _ _ _ (proj1 SI) Et) as (_ & Hlt). specialize (Hlt ltac:(congruence)).
      specialize (Hm ltac:(congruence)). simpl in Hm. lia.
    - inversion K as [|? ? Ko Kr]; subst. simpl in R.
      destruct (step s o) as [s1 out1| | |] eqn:Es; try discriminate.
      destruct (run step s1 ops) as [fin outs1] eqn:Er. injection R as -> _.
      destruct (step_done _ _ _ _ Es) as (r & w & E).
      destruct (keyed_step s i o s1 r w t SI Ko Et E) as (t1 & k & Et1 & ((TC & TH & _) & Pr & _ & Hs)).
      rewrite <- TC, <- TH.
      apply (IH s1 i t1 s' outs1 (step_inv _ _ _ _ SI Es) Et1 Kr Er).
      intros Hp1. destruct (rhash t) eqn:Ep.
      + destruct (Pr ltac:(congruence)) as [Hd|(Hlt & Hc)]; [congruence|].
        specialize (Hm ltac:(congruence)). simpl in Hm. rewrite Hc. lia.
      + destruct (Hs eq_refl) as (Hn & _). congruence.
  Qed.
End Runs.
