(** Proofs about DListModel.v, part 3: loops over a list that hand elements
    to callbacks: clear, foreach (both directions, three visitor modes), find. *)
From Cstl Require Import Prelude DListModel DListProofs DListProofs2.

(** * Event traces: nothing touches a node after it was handed to a callback *)

Definition ev_addr (e : ev) : addr :=
  match e with EvRead a | EvWrite a | EvCall a => a end.

(** after [EvCall a] no later event (read, write or another call) names [a] *)
Fixpoint no_access_after_call (evs : list ev) : Prop :=
  match evs with
  | [] => True
  | e :: r =>
    match e with
    | EvCall a => Forall (fun e' => ev_addr e' <> a) r
    | _ => True
    end /\ no_access_after_call r
  end.

Lemma hm_hfree_other h a x : x <> a -> hm (hfree h a) x = hm h x.
Proof. intros H. simpl. unfold setm. destruct (Nat.eqb_spec x a); congruence. Qed.
Lemma hm_hfree_same h a : hm (hfree h a) a = None.
Proof. simpl. unfold setm. rewrite Nat.eqb_refl; auto. Qed.

Lemma dl_hfree h hd l a : ~ In a (hd :: l) -> dl h hd l -> dl (hfree h a) hd l.
Proof.
  intros N. apply dl_frame; auto. intros y Hy. apply hm_hfree_other. intros ->; auto.
Qed.

(** * cstl_dlist_clear *)

Lemma NoDup_second {A} (hd n : A) r : NoDup (hd :: n :: r) -> ~ In n (hd :: r) /\ NoDup (hd :: r).
Proof.
  intros ND. inversion ND as [|? ? H1 H2]; subst. inversion H2 as [|? ? H3 H4]; subst. split.
  - intros [->|I]; [apply H1; left; auto|auto].
  - constructor; auto. intros I. apply H1. right; auto.
Qed.

Fixpoint clear_evs (hd : addr) (l : list addr) : list ev :=
  match l with
  | [] => []
  | n :: r => [EvRead hd; EvRead n; EvRead n; EvWrite (hd_or r hd);
               EvRead n; EvRead n; EvWrite hd; EvCall n] ++ clear_evs hd r
  end.

Lemma clear_loop_spec hd : forall l h log evs fuel,
  dl h hd l -> length l <= fuel ->
  exists h', clear_loop fuel h hd log evs = Ok (h', log ++ l, evs ++ clear_evs hd l) /\
    dl h' hd [] /\
    (forall x, In x l -> hm h' x = None) /\
    (forall x, ~ In x (hd :: l) -> hm h' x = hm h x) /\
    (forall x, x <> hd -> hs h' x = hs h x).
Proof.
  induction l as [|n r IH]; intros h log evs fuel D Hf.
  - exists h. assert (clear_loop fuel h hd log evs = Ok (h, log, evs)) as E.
    { destruct fuel; simpl; rewrite (dl_zero _ _ D); reflexivity. }
    rewrite E. simpl. rewrite !app_nil_r.
    split; [reflexivity|]. split; [exact D|]. split; [intros x []|]. split; auto.
  - destruct fuel as [|f]; [simpl in Hf; lia|]. simpl clear_loop. rewrite (dl_pos _ _ _ _ D).
    pose proof (proj1 D) as R.
    rewrite (rnx_gnx _ _ _ (ring_head_nx _ _ _ R)). simpl hd_or.
    destruct (ring_mid h hd [] n r R) as (Nx & Pv). simpl last in Pv.
    rewrite (rnx_gnx _ _ _ Nx), (rpv_gpv _ _ _ Pv).
    destruct (erase_dl h hd [] n r D) as (h1 & E & D1 & U1 & Hn). rewrite E. simpl app in *.
    assert (~ In n (hd :: r)) as Nn by (apply NoDup_second, R).
    destruct (IH (hfree h1 n) (log ++ [n]) (evs ++ [EvRead hd; EvRead n; EvRead n; EvWrite (hd_or r hd);
                                                   EvRead n; EvRead n; EvWrite hd; EvCall n]) f)
      as (h' & E' & D' & Fr & Ot & Sz).
    { apply dl_hfree; auto. }
    { simpl in Hf; lia. }
    exists h'. rewrite E'. rewrite <- !app_assoc. simpl app.
    split; [reflexivity|]. split; [exact D'|]. split; [|split].
    + intros x [<-|I]; auto. rewrite Ot; auto. apply hm_hfree_same.
    + intros x Hx. rewrite Ot.
      * rewrite hm_hfree_other; [|intros ->; apply Hx; right; left; auto].
        apply (u_hm _ _ _ _ U1). intros I. apply Hx. simpl in *. tauto.
      * intros I. apply Hx. simpl in *. tauto.
    + intros x Hx. rewrite Sz; auto. simpl. apply (u_hs _ _ _ _ U1); auto.
Qed.

(** callback log = the list contents, each element exactly once, in order *)
Theorem clear_log h hd l :
  dl h hd l ->
  exists h', clear h hd = Ok (h', l, clear_evs hd l) /\ dl h' hd [] /\
    (forall x, In x l -> hm h' x = None) /\
    (forall x, ~ In x (hd :: l) -> hm h' x = hm h x) /\
    (forall x, x <> hd -> hs h' x = hs h x).
Proof.
  intros D. unfold clear.
  destruct (clear_loop_spec hd l h [] [] (N.to_nat (rsz h hd)) D) as (h' & E & R).
  { rewrite (proj2 D). lia. }
  exists h'. split; auto.
Qed.

(** the cleared list object is exactly what cstl_dlist_init produces *)
Theorem clear_result_init h hd l h' log evs :
  dl h hd l -> clear h hd = Ok (h', log, evs) ->
  hm h' hd = Some (mkN hd hd) /\ rsz h' hd = 0%N /\ ring h' hd [].
Proof.
  intros D E. destruct (clear_log h hd l D) as (h2 & E2 & D2 & _). rewrite E in E2. inversion E2; subst.
  destruct D2 as (R & Z). split; [|split; auto].
  pose proof (ring_head_nx _ _ _ R) as Nx. pose proof (ring_head_pv _ _ _ R) as Pv.
  unfold gnx, gpv in *. simpl in *. destruct (hm h2 hd) as [[a b]|]; simpl in *; congruence.
Qed.

Lemma clear_evs_addr hd l e : In e (clear_evs hd l) -> In (ev_addr e) (hd :: l).
Proof.
  induction l as [|n r IH]; simpl; [tauto|].
  intros [<-|[<-|[<-|[<-|[<-|[<-|[<-|[<-|I]]]]]]]]; simpl; auto.
  - destruct r; simpl; auto.
  - destruct (IH I) as [<-|I']; auto.
Qed.

(** every node is unlinked before its callback runs and is never read or
    written afterwards *)
Theorem clear_no_access_after_callback hd l :
  NoDup (hd :: l) -> no_access_after_call (clear_evs hd l).
Proof.
  induction l as [|n r IH]; intros ND; simpl; auto.
  destruct (NoDup_second _ _ _ ND) as (Nn & ND').
  repeat (split; auto).
  apply Forall_forall. intros e I Eq. apply Nn. rewrite <- Eq. apply clear_evs_addr; auto.
Qed.

(** * Direction-generic view of a list object *)

Definition dirl (d : dir) (l : list addr) : list addr := match d with Fwd => l | Rev => rev l end.
(** [l] is the sequence in traversal order [d] *)
Definition ddl (d : dir) (h : heap) (hd : addr) (l : list addr) : Prop := dl h hd (dirl d l).

Lemma dirl_length d l : length (dirl d l) = length l.
Proof. destruct d; simpl; auto. apply rev_length. Qed.
Lemma dirl_In d l x : In x (dirl d l) <-> In x l.
Proof. destruct d; simpl; [tauto|]. symmetry. apply in_rev. Qed.
Lemma dirl_invol d l : dirl d (dirl d l) = l.
Proof. destruct d; simpl; auto. apply rev_involutive. Qed.

Lemma last_rev (l : list addr) d : last (rev l) d = hd_or l d.
Proof. destruct l; simpl; auto. apply last_app1. Qed.
Lemma hd_or_rev (l : list addr) d : hd_or (rev l) d = last l d.
Proof. rewrite <- (rev_involutive l) at 2. rewrite last_rev. auto. Qed.

Lemma rev_mid {A} (l1 : list A) c l2 : rev (l1 ++ c :: l2) = rev l2 ++ c :: rev l1.
Proof. rewrite rev_app_distr. simpl. rewrite <- app_assoc. reflexivity. Qed.

Lemma ddl_head d h hd l : ddl d h hd l -> rd d h hd = Ok (hd_or l hd).
Proof.
  intros (R & _). destruct d; simpl in *.
  - apply rnx_gnx, (ring_head_nx _ _ _ R).
  - apply rpv_gpv. rewrite (ring_head_pv _ _ _ R), last_rev. auto.
Qed.

Lemma ddl_mid d h hd l1 c l2 : ddl d h hd (l1 ++ c :: l2) -> rd d h c = Ok (hd_or l2 hd).
Proof.
  intros (R & _). destruct d; simpl in *.
  - apply rnx_gnx. apply (ring_mid _ _ _ _ _ R).
  - rewrite rev_mid in R. apply rpv_gpv. rewrite (proj2 (ring_mid _ _ _ _ _ R)), last_rev. auto.
Qed.

Lemma ddl_size d h hd l : ddl d h hd l -> rsz h hd = N.of_nat (length l).
Proof. intros (_ & Z). rewrite Z, dirl_length. auto. Qed.

Lemma ddl_valid d h hd l x : ddl d h hd l -> In x (hd :: l) -> valid h x.
Proof.
  intros (R & _) I. apply (ring_valid _ _ _ _ R). destruct I as [<-|I]; [left; auto|right; apply dirl_In; auto].
Qed.

Lemma ddl_NoDup d h hd l : ddl d h hd l -> NoDup (hd :: l).
Proof.
  intros ((ND & _) & _). inversion ND; subst. constructor.
  - rewrite <- (dirl_In d). auto.
  - destruct d; simpl in *; auto. rewrite <- (rev_involutive l). apply NoDup_rev; auto.
Qed.

Lemma ddl_frame d h h' hd l :
  (forall y, In y (hd :: l) -> hm h' y = hm h y) -> hs h' hd = hs h hd -> ddl d h hd l -> ddl d h' hd l.
Proof.
  intros H S. apply dl_frame; auto. intros y [<-|I]; apply H; [left; auto|right; apply (dirl_In d); auto].
Qed.

Lemma erase_ddl d h hd l1 c l2 :
  ddl d h hd (l1 ++ c :: l2) ->
  exists h', erase h hd c = Ok h' /\ ddl d h' hd (l1 ++ l2) /\ upd1 h h' hd (hd :: l1 ++ l2) /\
             hm h' c = hm h c.
Proof.
  intros D. destruct d; unfold ddl in *; simpl dirl in *.
  - apply erase_dl; auto.
  - rewrite rev_mid in D. destruct (erase_dl _ _ _ _ _ D) as (h' & E & D' & U & Hc).
    exists h'. rewrite rev_app_distr. split; auto. split; auto. split; auto.
    eapply upd1_weaken; eauto. intros x [<-|I]; [left; auto|right].
    rewrite in_app_iff in *. rewrite <- !in_rev in I. tauto.
Qed.

(** * cstl_dlist_foreach with the scripted visitor *)

Definition others (m : vmode) (lo : list addr) : list addr :=
  match m with VMove o => o :: lo | _ => [] end.
Definition keepx (m : vmode) (keep : list addr) (c : addr) : list addr :=
  match m with VPlain => keep ++ [c] | _ => keep end.
Definition lox (m : vmode) (lo : list addr) (c : addr) : list addr :=
  match m with VMove _ => lo ++ [c] | _ => lo end.

(** the traversed list holds [cur] (in traversal order); in mode [VMove o]
    the list object [o] holds [lo] and shares no node with it *)
Definition finv (d : dir) (m : vmode) (h : heap) (hd : addr) (cur lo : list addr) : Prop :=
  ddl d h hd cur /\
  match m with
  | VMove o => dl h o lo /\ NoDup (hd :: cur ++ o :: lo)
  | _ => True
  end.

Definition zres (stop k : nat) : Z :=
  if negb (Nat.eqb stop 0) && Nat.eqb k stop then Z.of_nat stop else 0%Z.

Lemma perm_move {A} (hd c o : A) k r lo :
  Permutation (hd :: (k ++ c :: r) ++ o :: lo) (hd :: (k ++ r) ++ o :: lo ++ [c]).
Proof.
  apply perm_skip. rewrite <- !app_assoc. apply Permutation_app_head.
  change (r ++ o :: lo ++ [c]) with (r ++ (o :: lo) ++ [c]). rewrite app_assoc.
  apply (Permutation_cons_append (r ++ o :: lo) c).
Qed.

Lemma svisit_spec d m hd stop keep c r lo h cnt log :
  finv d m h hd (keep ++ c :: r) lo ->
  exists h1,
    svisit hd stop m (cnt, log) h c = Ok (h1, (S cnt, c :: log), zres stop (S cnt)) /\
    finv d m h1 hd (keepx m keep c ++ r) (lox m lo c) /\
    (forall x, ~ In x (hd :: keep ++ c :: r) -> ~ In x (others m lo) -> hm h1 x = hm h x) /\
    (forall x, x <> hd -> ~ In x (firstn 1 (others m lo)) -> hs h1 x = hs h x) /\
    (forall x, (m = VFree -> x <> c) -> (valid h1 x <-> valid h x)) /\
    (m = VFree -> hm h1 c = None).
Proof.
  intros (D & O). unfold svisit. simpl fst. simpl snd. fold (zres stop (S cnt)).
  destruct m as [| |o]; simpl keepx; simpl lox; simpl others.
  - (* plain *)
    exists h. split; [reflexivity|]. rewrite <- app_assoc. simpl app.
    split; [split; auto|]. split; auto. split; auto. split; [tauto|discriminate].
  - (* erase + free *)
    destruct (erase_ddl d h hd keep c r D) as (h1 & E & D1 & U1 & Hc). rewrite E.
    assert (~ In c (hd :: keep ++ r)) as Nc.
    { pose proof (ddl_NoDup _ _ _ _ D) as ND. inversion ND; subst.
      intros [<-|I]; [apply H1; rewrite in_app_iff; simpl; auto|].
      apply NoDup_remove_2 in H2. auto. }
    exists (hfree h1 c). split; [reflexivity|]. split; [|split; [|split; [|split]]].
    + split; auto. revert D1. apply ddl_frame; auto. intros y Hy. apply hm_hfree_other. intros ->; auto.
    + intros x Hx _. rewrite hm_hfree_other; [|intros ->; apply Hx; right; rewrite in_app_iff; simpl; auto].
      apply (u_hm _ _ _ _ U1). intros I. apply Hx. apply in_cons_app_mid; auto.
    + intros x Hx _. simpl. apply (u_hs _ _ _ _ U1); auto.
    + intros x Hx. specialize (Hx eq_refl). unfold valid. rewrite hm_hfree_other; auto.
      apply (u_valid _ _ _ _ U1).
    + intros _. apply hm_hfree_same.
  - (* erase + push_back onto list o *)
    destruct O as (Do & ND).
    destruct (erase_ddl d h hd keep c r D) as (h1 & E & D1 & U1 & Hc). rewrite E.
    assert (forall x, In x (hd :: keep ++ c :: r) -> In x (o :: lo) -> False) as Dj.
    { intros x. apply (two_rings_disj hd o (keep ++ c :: r) lo x ND). }
    assert (In c (hd :: keep ++ c :: r)) as Ic by (right; rewrite in_app_iff; simpl; auto).
    assert (forall y, In y (o :: lo) -> ~ In y (hd :: keep ++ r)) as Dj2.
    { intros y Hy I. apply (Dj y); auto. apply in_cons_app_mid; auto. }
    assert (o <> hd) as Ohd by (intros ->; apply (Dj hd); left; auto).
    assert (dl h1 o lo) as Do1.
    { revert Do. apply dl_frame.
      - intros y Hy. apply (u_hm _ _ _ _ U1). apply Dj2; auto.
      - apply (u_hs _ _ _ _ U1); auto. }
    assert (valid h1 c) as Vc1.
    { unfold valid. rewrite Hc. apply (ddl_valid _ _ _ _ _ D); auto. }
    destruct (push_back_dl h1 o lo c Do1 Vc1) as (h2 & E2 & D2 & U2).
    { intros I. apply (Dj c); auto. }
    rewrite E2. exists h2. split; [reflexivity|].
    assert (NoDup (hd :: (keep ++ r) ++ o :: lo ++ [c])) as ND2.
    { eapply Permutation_NoDup; [apply perm_move|]. exact ND. }
    assert (forall y, In y (hd :: keep ++ r) -> ~ In y (o :: lo ++ [c])) as Dj3.
    { intros y Hy I. eapply (two_rings_disj hd o (keep ++ r) (lo ++ [c]) y); eauto. }
    split; [|split; [|split; [|split]]].
    + split; [|split; auto].
      revert D1. apply ddl_frame.
      * intros y Hy. apply (u_hm _ _ _ _ U2). apply Dj3; auto.
      * apply (u_hs _ _ _ _ U2); auto.
    + intros x Hx Hx'. rewrite (u_hm _ _ _ _ U2), (u_hm _ _ _ _ U1); auto.
      * intros I. apply Hx. apply in_cons_app_mid; auto.
      * intros [<-|I]; [apply Hx'; left; auto|]. rewrite in_app_iff in I.
        destruct I as [I|[<-|[]]]; [apply Hx'; right; auto|apply Hx; auto].
    + intros x Hx Hx'. rewrite (u_hs _ _ _ _ U2), (u_hs _ _ _ _ U1); auto.
      intros ->. apply Hx'. left; auto.
    + intros x _. rewrite (u_valid _ _ _ _ U2), (u_valid _ _ _ _ U1). tauto.
    + discriminate.
Qed.

Fixpoint fe_evs (hd : addr) (rest : list addr) (k : nat) {struct k} : list ev :=
  match k, rest with
  | S k', c :: r => EvCall c :: EvRead (hd_or r hd) :: fe_evs hd r k'
  | _, _ => []
  end.

(** how many elements the scripted visitor sees, and its final answer *)
Fixpoint vcount (stop cnt : nat) (rest : list addr) : nat * Z :=
  match rest with
  | [] => (0, 0%Z)
  | c :: r => if negb (Nat.eqb stop 0) && Nat.eqb (S cnt) stop then (1, Z.of_nat stop)
              else let '(k, z) := vcount stop (S cnt) r in (S k, z)
  end.

Lemma vcount_cons stop cnt c r :
  vcount stop cnt (c :: r) =
  if negb (Nat.eqb stop 0) && Nat.eqb (S cnt) stop then (1, Z.of_nat stop)
  else let '(k, z) := vcount stop (S cnt) r in (S k, z).
Proof. reflexivity. Qed.

Definition keepk (m : vmode) (keep rest : list addr) (k : nat) : list addr :=
  match m with VPlain => keep ++ firstn k rest | _ => keep end.
Definition lok (m : vmode) (lo rest : list addr) (k : nat) : list addr :=
  match m with VMove _ => lo ++ firstn k rest | _ => lo end.

Lemma fe_loop_spec d m hd stop : forall rest h keep lo cnt log evs fuel n,
  finv d m h hd (keep ++ rest) lo -> length rest <= fuel ->
  (rest <> [] -> n = hd_or (tl rest) hd) ->
  exists h',
    fe_loop (svisit hd stop m) fuel d h hd (cnt, log) (hd_or rest hd) n evs =
      Ok (h', (cnt + fst (vcount stop cnt rest), rev (firstn (fst (vcount stop cnt rest)) rest) ++ log),
          snd (vcount stop cnt rest), evs ++ fe_evs hd rest (fst (vcount stop cnt rest))) /\
    finv d m h' hd (keepk m keep rest (fst (vcount stop cnt rest)) ++ skipn (fst (vcount stop cnt rest)) rest)
         (lok m lo rest (fst (vcount stop cnt rest))) /\
    (forall x, ~ In x (hd :: keep ++ rest) -> ~ In x (others m lo) -> hm h' x = hm h x) /\
    (forall x, x <> hd -> ~ In x (firstn 1 (others m lo)) -> hs h' x = hs h x) /\
    (forall x, (m = VFree -> ~ In x (firstn (fst (vcount stop cnt rest)) rest)) -> (valid h' x <-> valid h x)) /\
    (m = VFree -> forall x, In x (firstn (fst (vcount stop cnt rest)) rest) -> hm h' x = None).
Proof.
  induction rest as [|c r IH]; intros h keep lo cnt log evs fuel n F Hf Hn.
  - exists h. simpl hd_or. simpl vcount. simpl fst. simpl snd. simpl firstn. simpl skipn.
    assert (fe_loop (svisit hd stop m) fuel d h hd (cnt, log) hd n evs = Ok (h, (cnt, log), 0%Z, evs)) as E.
    { destruct fuel; simpl; rewrite Nat.eqb_refl; reflexivity. }
    rewrite E, Nat.add_0_r, !app_nil_r. split; [reflexivity|].
    split.
    { destruct m; simpl keepk; simpl lok; rewrite ?app_nil_r in *; exact F. }
    split; auto. split; auto. split; [tauto|]. intros _ x [].
  - destruct fuel as [|f]; [simpl in Hf; lia|].
    assert (c <> hd) as Chd.
    { pose proof (ddl_NoDup _ _ _ _ (proj1 F)) as ND. inversion ND; subst.
      intros ->. apply H1. rewrite in_app_iff. simpl; auto. }
    simpl hd_or. simpl fe_loop. rewrite (proj2 (Nat.eqb_neq c hd)); auto.
    destruct (svisit_spec d m hd stop keep c r lo h cnt log F)
      as (h1 & E1 & F1 & Fr1 & Sz1 & Va1 & Fre1).
    rewrite E1. specialize (Hn ltac:(discriminate)). simpl tl in Hn. subst n.
    (* the increment reads the successor of the successor *)
    assert (exists nn, rd d h1 (hd_or r hd) = Ok nn /\ (r <> [] -> nn = hd_or (tl r) hd)) as (nn & Enn & Hnn).
    { destruct r as [|n r'].
      - simpl hd_or. rewrite (ddl_head _ _ _ _ (proj1 F1)). eexists; split; [reflexivity|congruence].
      - simpl hd_or. rewrite (ddl_mid _ _ _ _ _ _ (proj1 F1)). eexists; split; [reflexivity|auto]. }
    rewrite Enn. rewrite vcount_cons. unfold zres.
    destruct (negb (stop =? 0) && (S cnt =? stop)) eqn:Hit.
    + (* the visitor asks to stop *)
      assert (Z.of_nat stop =? 0 = false)%Z as Z0.
      { apply Z.eqb_neq. apply andb_prop in Hit. destruct Hit as (Hs & _).
        apply negb_true_iff, Nat.eqb_neq in Hs. lia. }
      rewrite Z0. exists h1. simpl fst. simpl snd. simpl firstn. simpl skipn. simpl fe_evs. simpl rev.
      rewrite Nat.add_1_r. simpl app. split; [reflexivity|]. split.
      { destruct m; simpl keepk; simpl lok; simpl keepx in F1; simpl lox in F1; exact F1. }
      split; [exact Fr1|]. split; [exact Sz1|]. split.
      { intros x Hx. apply Va1. intros Em. specialize (Hx Em). intros ->. apply Hx. left; auto. }
      intros Em x [<-|[]]. auto.
    + (* continue with the successor *)
      simpl Z.eqb. cbv iota.
      destruct (IH h1 (keepx m keep c) (lox m lo c) (S cnt) (c :: log)
                   (evs ++ [EvCall c; EvRead (hd_or r hd)]) f nn F1) as (h' & E' & F' & Fr' & Sz' & Va' & Fre');
        [simpl in Hf; lia|exact Hnn|].
      destruct (vcount stop (S cnt) r) as (k, z) eqn:Ev. simpl fst in *. simpl snd in *.
      exists h'. rewrite E'. simpl firstn. simpl skipn. simpl fe_evs. simpl rev.
      rewrite <- !app_assoc. simpl app. rewrite Nat.add_succ_r. split; [reflexivity|].
      split.
      { destruct m; simpl keepk in *; simpl lok in *; simpl keepx in *; simpl lox in *;
          rewrite <- ?app_assoc in F'; rewrite <- ?app_assoc; exact F'. }
      assert (forall x, ~ In x (hd :: keep ++ c :: r) -> ~ In x (hd :: keepx m keep c ++ r)) as Sub1.
      { intros x Hx I. apply Hx. destruct m; simpl keepx in I; rewrite <- ?app_assoc in I; auto;
          apply in_cons_app_mid; auto. }
      assert (forall x, ~ In x (hd :: keep ++ c :: r) -> ~ In x (others m lo) -> ~ In x (others m (lox m lo c))) as Sub2.
      { intros x Hx Hx' I. destruct m; simpl in *; auto.
        destruct I as [<-|I]; [tauto|]. rewrite in_app_iff in I. destruct I as [I|[<-|[]]]; [tauto|].
        apply Hx. right. rewrite in_app_iff. simpl; auto. }
      split; [|split; [|split]].
      * intros x Hx Hx'. rewrite Fr', Fr1; auto.
      * intros x Hx Hx'. rewrite Sz', Sz1; auto. destruct m; auto.
      * intros x Hx. rewrite Va', Va1; [tauto| |].
        -- intros Em. specialize (Hx Em). intros ->. apply Hx. left; auto.
        -- intros Em. specialize (Hx Em). intros I. apply Hx. right; auto.
      * intros Em x [<-|I].
        -- rewrite Fr'; auto.
           ++ subst m. simpl keepx. pose proof (ddl_NoDup _ _ _ _ (proj1 F)) as ND. inversion ND; subst.
              intros [E|I]; [congruence|]. apply NoDup_remove_2 in H2. auto.
           ++ subst m. simpl. auto.
        -- apply Fre'; auto.
Qed.

Lemma vcount_closed stop : forall l cnt,
  vcount stop cnt l =
  if Nat.ltb cnt stop && Nat.leb stop (cnt + length l) then (stop - cnt, Z.of_nat stop)
  else (length l, 0%Z).
Proof.
  induction l as [|c r IH]; intros cnt.
  - simpl. destruct (Nat.ltb_spec cnt stop), (Nat.leb_spec stop (cnt + 0)); simpl; auto. lia.
  - rewrite vcount_cons, IH. cbn [length].
    destruct (Nat.eqb_spec stop 0) as [S0|S0]; destruct (Nat.eqb_spec (S cnt) stop) as [Es|Es];
      destruct (Nat.ltb_spec (S cnt) stop); destruct (Nat.ltb_spec cnt stop);
      destruct (Nat.leb_spec stop (S cnt + length r)); destruct (Nat.leb_spec stop (cnt + S (length r)));
      try lia; cbn [negb andb]; try reflexivity; f_equal; lia.
Qed.

(** the scripted visitor sees the first [stop] elements (all of them when
    [stop] is 0 or larger than the list) *)
Lemma vcount_0 stop l :
  vcount stop 0 l =
  if Nat.leb 1 stop && Nat.leb stop (length l) then (stop, Z.of_nat stop) else (length l, 0%Z).
Proof.
  rewrite vcount_closed. simpl plus. rewrite Nat.sub_0_r.
  destruct stop; simpl; auto.
Qed.

Lemma fe_evs_addr hd : forall k l e, In e (fe_evs hd l k) -> In (ev_addr e) (hd :: l).
Proof.
  induction k as [|k IH]; intros l e I; [destruct I|].
  destruct l as [|c r]; [destruct I|]. simpl in I. destruct I as [<-|[<-|I]].
  - simpl. auto.
  - simpl. destruct r; simpl; auto.
  - destruct (IH r e I) as [<-|I']; [left; auto|right; right; auto].
Qed.

(** the traversal never reads a node after the visit of that node returned
    (the successor is captured before the visit) *)
Theorem foreach_no_access_after_visit hd l k :
  NoDup (hd :: l) -> no_access_after_call ([EvRead hd; EvRead (hd_or l hd)] ++ fe_evs hd l k).
Proof.
  intros ND. simpl. split; auto. split; auto.
  revert l ND. induction k as [|k IH]; intros l ND; [simpl; auto|].
  destruct l as [|c r]; [simpl; auto|].
  destruct (NoDup_second _ _ _ ND) as (Nc & ND').
  simpl. split; [|split; auto].
  constructor.
  - simpl. intros E. apply Nc. rewrite <- E. destruct r; simpl; auto.
  - apply Forall_forall. intros e I E. apply Nc. rewrite <- E. apply (fe_evs_addr hd k); auto.
Qed.

(** ** cstl_dlist_foreach: the visitor is shown the elements in traversal
    order up to the first non-zero answer, which is returned; in the
    erase-and-release mode the visited nodes are gone afterwards (and were
    not touched after their visit: any access to a released node faults), in
    the erase-and-move mode they are appended to the other list *)
Theorem foreach_spec d m hd stop h l lo :
  finv d m h hd l lo ->
  exists h',
    foreach (svisit hd stop m) d h hd (0, []) =
      Ok (h', (fst (vcount stop 0 l), rev (firstn (fst (vcount stop 0 l)) l)), snd (vcount stop 0 l),
          [EvRead hd; EvRead (hd_or l hd)] ++ fe_evs hd l (fst (vcount stop 0 l))) /\
    finv d m h' hd (keepk m [] l (fst (vcount stop 0 l)) ++ skipn (fst (vcount stop 0 l)) l)
         (lok m lo l (fst (vcount stop 0 l))) /\
    (forall x, ~ In x (hd :: l) -> ~ In x (others m lo) -> hm h' x = hm h x) /\
    (forall x, x <> hd -> ~ In x (firstn 1 (others m lo)) -> hs h' x = hs h x) /\
    (forall x, (m = VFree -> ~ In x (firstn (fst (vcount stop 0 l)) l)) -> (valid h' x <-> valid h x)) /\
    (m = VFree -> forall x, In x (firstn (fst (vcount stop 0 l)) l) -> hm h' x = None).
Proof.
  intros F. unfold foreach. rewrite (ddl_head _ _ _ _ (proj1 F)).
  assert (exists n, rd d h (hd_or l hd) = Ok n /\ (l <> [] -> n = hd_or (tl l) hd)) as (n & En & Hn).
  { destruct l as [|c r].
    - simpl hd_or. rewrite (ddl_head _ _ _ _ (proj1 F)). eexists; split; [reflexivity|congruence].
    - simpl hd_or. rewrite (ddl_mid d h hd [] c r (proj1 F)). eexists; split; [reflexivity|auto]. }
  rewrite En.
  destruct (fe_loop_spec d m hd stop l h [] lo 0 [] [EvRead hd; EvRead (hd_or l hd)]
              (N.to_nat (rsz h hd)) n F) as (h' & E & R); auto.
  { rewrite (ddl_size _ _ _ _ (proj1 F)). lia. }
  exists h'. rewrite E. rewrite app_nil_r. simpl plus. split; [reflexivity|]. exact R.
Qed.

(** * cstl_dlist_find *)

Section Find.
  Variable key : addr -> Z.

  Lemma fe_loop_find d hd k : forall rest h keep fuel n vs evs,
    ddl d h hd (keep ++ rest) -> length rest <= fuel ->
    (rest <> [] -> n = hd_or (tl rest) hd) ->
    exists evs',
      fe_loop (fvisit key k) fuel d h hd vs (hd_or rest hd) n evs =
      Ok (h, match List.find (fun c => Z.eqb k (key c)) rest with Some c => Some c | None => vs end,
          match List.find (fun c => Z.eqb k (key c)) rest with Some _ => 1%Z | None => 0%Z end, evs').
  Proof.
    induction rest as [|c r IH]; intros h keep fuel n vs evs D Hf Hn.
    - exists evs. destruct fuel; simpl; rewrite Nat.eqb_refl; reflexivity.
    - destruct fuel as [|f]; [simpl in Hf; lia|].
      assert (c <> hd) as Chd.
      { pose proof (ddl_NoDup _ _ _ _ D) as ND. inversion ND; subst.
        intros ->. apply H1. rewrite in_app_iff. simpl; auto. }
      simpl hd_or. simpl fe_loop. rewrite (proj2 (Nat.eqb_neq c hd)); auto.
      specialize (Hn ltac:(discriminate)). simpl tl in Hn. subst n.
      assert (exists nn, rd d h (hd_or r hd) = Ok nn /\ (r <> [] -> nn = hd_or (tl r) hd)) as (nn & Enn & Hnn).
      { destruct r as [|n r'].
        - simpl hd_or. rewrite (ddl_head _ _ _ _ D). eexists; split; [reflexivity|congruence].
        - simpl hd_or. replace (keep ++ c :: n :: r') with ((keep ++ [c]) ++ n :: r') in D
            by (rewrite <- app_assoc; auto).
          rewrite (ddl_mid _ _ _ _ _ _ D). eexists; split; [reflexivity|auto]. }
      unfold fvisit at 1. simpl List.find. destruct (Z.eqb k (key c)) eqn:Ek.
      + rewrite Enn. simpl. eexists; reflexivity.
      + rewrite Enn. simpl Z.eqb. cbv iota.
        replace (keep ++ c :: r) with ((keep ++ [c]) ++ r) in D by (rewrite <- app_assoc; auto).
        apply (IH h (keep ++ [c]) f nn vs _ D); auto. simpl in Hf; lia.
  Qed.

  (** find returns the first element, in the chosen direction, whose key
      equals the probe's; NULL if there is none *)
  Theorem find_spec d h hd l k :
    dl h hd l ->
    find key d h hd k = Ok (List.find (fun c => Z.eqb k (key c)) (dirl d l)).
  Proof.
    intros D. assert (ddl d h hd (dirl d l)) as DD by (unfold ddl; rewrite dirl_invol; auto).
    set (t := dirl d l) in *.
    unfold find, foreach. rewrite (ddl_head _ _ _ _ DD).
    assert (exists n, rd d h (hd_or t hd) = Ok n /\ (t <> [] -> n = hd_or (tl t) hd)) as (n & En & Hn).
    { destruct t as [|c r].
      - simpl hd_or. rewrite (ddl_head _ _ _ _ DD). eexists; split; [reflexivity|congruence].
      - simpl hd_or. rewrite (ddl_mid d h hd [] c r DD). eexists; split; [reflexivity|auto]. }
    rewrite En.
    destruct (fe_loop_find d hd k t h [] (N.to_nat (rsz h hd)) n None [EvRead hd; EvRead (hd_or t hd)] DD)
      as (evs' & E); auto.
    { rewrite (ddl_size _ _ _ _ DD). lia. }
    rewrite E. destruct (List.find (fun c => (k =? key c)%Z) t); reflexivity.
  Qed.
End Find.
