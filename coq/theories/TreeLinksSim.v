(** Pointer-level model of the trees, part 6: __cstl_rbtree_erase, and the
    simulation of the whole scripted system: from related states every
    operation of [lstep] has the outcome of [TreeModel.step] and leads to
    related states; lifted to runs and to reachable states.  Consequence:
    in every state the pointer-level model can reach, every child's parent
    pointer points back at its parent, the root's parent is NULL, and the
    structure is the tree of the functional model (which satisfies the
    red-black rules, Properties_C02.v). *)
From Cstl Require Import Prelude TreeModel TreeProofs RBProofs TreeSysProofs TreeLinksModel
     TreeLinksProofs TreeLinksOps TreeLinksIns TreeLinksErase TreeLinksDel.
Local Open Scope Z_scope.

(** * __cstl_rbtree_erase *)
Lemma caddrs_recolour_mid inner f k c :
  caddrs (inner ++ recolour f k :: c) = caddrs (inner ++ f :: c).
Proof. rewrite !caddrs_app, !caddrs_cons. reflexivity. Qed.

Lemma ctx_par_recolour_mid inner f k c :
  ctx_par (inner ++ recolour f k :: c) = ctx_par (inner ++ f :: c).
Proof. destruct inner; reflexivity. Qed.

Lemma crep_recolour_mid m k f c : forall inner h root,
  crep m (inner ++ f :: c) h root -> NoDup (caddrs (inner ++ f :: c)) ->
  crep (setc m (adr (fe f)) k) (inner ++ recolour f k :: c) h root.
Proof.
  induction inner as [|f0 inner IH]; intros h root C Nd; cbn [app] in *.
  - cbn [crep recolour fd fc fe fs] in *. destruct C as (Hd & Ho & Hc & Hp & Rs & Cc).
    nd_norm. mread. splits; auto.
    + eapply rep_frame; [|exact Rs]. intros i Hi. mframe.
    + eapply crep_frame; [|exact Cc]. intros i Hi. mframe.
  - cbn [crep] in *. destruct C as (Hd & Ho & Hc & Hp & Rs & Cc).
    rewrite caddrs_cons, caddrs_app, caddrs_cons in Nd. nd_norm.
    rewrite ctx_par_recolour_mid. mread. splits; auto.
    + eapply rep_frame; [|exact Rs]. intros i Hi. mframe.
    + apply IH; auto. rewrite caddrs_app, caddrs_cons. nd_solve.
Qed.

Lemma length_plug c : forall t, (length c + theight t <= theight (plug c t))%nat.
Proof.
  induction c as [|f c IH]; intros t; cbn [plug length]; auto.
  etransitivity; [|apply IH]. unfold plug1. rewrite theight_mk. lia.
Qed.

Lemma l_rb_erase_sim m root c nc nl ne nr fuel t' :
  let n := T nc nl ne nr in
  NoDup (addrs n ++ caddrs c) ->
  rep m (ctx_par c) n -> crep m c (Some (adr ne)) root ->
  (length (inorder (plug c n)) <= fuel)%nat ->
  rb_erase_at nc nl ne nr c = Some t' ->
  exists m' root', l_rb_erase fuel m root (adr ne) = Some (m', root') /\
                   rep m' None t' /\ root' = raddr t'.
Proof.
  intros n Nd R C Hf H.
  assert (Hf1 : (theight n <= fuel)%nat).
  { etransitivity; [apply theight_plug|]. etransitivity; [apply theight_size|exact Hf]. }
  destruct (l_bt_erase_sim m root c nc nl ne nr fuel Nd R C Hf1)
    as (m1 & root1 & ya & Eb & R1 & C1 & Hya & Yc & Ncn & Nx & Npn & Nd1 & Nn1 & F1).
  unfold rb_erase_at in H.
  set (z := erase_zip nc nl ne nr) in *.
  set (hole0 := hole_ctx z (z_y z) c) in *.
  set (hole := hole_ctx z (option_map (fun f => recolour f nc) (z_y z)) c) in *.
  set (X := z_x z) in *.
  set (m2 := setc m1 ya nc).
  (* the colour transfer *)
  assert (H2 : rep m2 (ctx_par hole) X /\ crep m2 hole (raddr X) root1 /\
               caddrs hole = caddrs hole0 /\ ctx_par hole = ctx_par hole0 /\
               length hole = length hole0).
  { unfold hole, hole0, hole_ctx. destruct (z_y z) as [fy|] eqn:Ey; cbn [option_map].
    - subst ya. rewrite caddrs_recolour_mid, ctx_par_recolour_mid. splits; auto.
      + eapply rep_frame; [|exact R1]. intros i Hi. unfold m2.
        unfold hole0, hole_ctx in Nd1. try rewrite Ey in Nd1. rewrite caddrs_app, caddrs_cons in Nd1.
        clear - Nd1 Hi. nd_norm. mframe.
      + unfold m2. apply crep_recolour_mid; auto.
        unfold hole0, hole_ctx in Nd1. try rewrite Ey in Nd1. apply NoDup_app_disj in Nd1. tauto.
      + rewrite !app_length. reflexivity.
    - subst ya. unfold hole0, hole_ctx in Nn1, R1, C1. try rewrite Ey in Nn1, R1, C1.
      apply not_in_app_iff in Nn1. destruct Nn1 as (Nn1 & Nn2). splits; auto.
      + eapply rep_frame; [|exact R1]. intros i Hi. unfold m2. mframe.
      + eapply crep_frame; [|exact C1]. intros i Hi. unfold m2. mframe. }
  destruct H2 as (R2 & C2 & Ea & Ep & El).
  assert (Nd2 : NoDup (addrs X ++ caddrs hole)) by (rewrite Ea; exact Nd1).
  assert (E1 : l_rb_erase fuel m root (adr ne) =
               if is_black (z_col z) then
                 let '(m3, x) :=
                     match n_l (mget m2 (adr ne)) with
                     | Some a => (m2, a)
                     | None =>
                       match n_r (mget m2 (adr ne)) with
                       | Some a => (m2, a)
                       | None => (setc (setp m2 XADDR (n_p (mget m2 (adr ne)))) XADDR Black, XADDR)
                       end
                     end in
                 do (m4, root4, x4) <- l_del_loop fuel m3 root1 x;
                 Some (setc m4 x4 Black, root4)
               else Some (m2, root1)).
  { unfold l_rb_erase. rewrite Eb. cbn [bind]. rewrite Yc, Ncn. reflexivity. }
  rewrite E1. clear E1.
  destruct (z_col z).
  - (* a red node left the tree: nothing to repair *)
    cbn [is_black]. injection H as <-. exists m2, root1. split; auto.
    apply rep_plug. auto.
  - cbn [is_black].
    assert (L2 : (match n_l (mget m2 (adr ne)) with Some a => Some a | None => n_r (mget m2 (adr ne)) end)
                 = raddr X /\ n_p (mget m2 (adr ne)) = ctx_par hole).
    { unfold m2. mread. rewrite Ep. auto. }
    destruct L2 as (Lx & Lp).
    assert (Hlen : (length hole <= fuel)%nat).
    { rewrite El. unfold hole0, X.
      pose proof (length_plug (hole_ctx z (z_y z) c) (z_x z)) as L.
      pose proof (theight_size (plug (hole_ctx z (z_y z) c) (z_x z))) as L2.
      pose proof (bt_erase_at_inorder nc nl ne nr c) as L3. unfold bt_erase_at in L3. fold z in L3.
      rewrite L3 in L2. rewrite inorder_plug in Hf. unfold n in Hf. cbn [inorder] in Hf.
      rewrite !app_length in *. cbn [length] in Hf. lia. }
    clearbody X. destruct X as [|xk xl xe xr].
    + (* no child: the stand-in *)
      cbn [raddr] in Lx.
      destruct (n_l (mget m2 (adr ne))) eqn:Ll; [discriminate|].
      rewrite Lx, Lp.
      set (m3 := setc (setp m2 XADDR (ctx_par hole)) XADDR Black).
      assert (C3 : crep m3 hole None root1).
      { eapply crep_frame; [|exact C2]. intros i Hi. unfold m3.
        assert (XADDR <> i) by (intros <-; apply (caddrs_nz _ Hi)). mframe. }
      assert (P3 : n_p (mget m3 XADDR) = ctx_par hole) by (unfold m3; mread; reflexivity).
      assert (K3 : n_c (mget m3 XADDR) = Black) by (unfold m3; mread; reflexivity).
      destruct (l_del_loop_sim hole E XADDR m3 root1 fuel t' Hlen Nd2 eq_refl I C3 P3 K3 H)
        as (m4 & root4 & x4 & E4 & R4 & Hr4).
      rewrite E4. cbn [bind]. eauto.
    + cbn [raddr] in Lx.
      assert (E3 : match n_l (mget m2 (adr ne)) with
                   | Some a => (m2, a)
                   | None =>
                     match n_r (mget m2 (adr ne)) with
                     | Some a => (m2, a)
                     | None => (setc (setp m2 XADDR (n_p (mget m2 (adr ne)))) XADDR Black, XADDR)
                     end
                   end = (m2, adr xe)).
      { destruct (n_l (mget m2 (adr ne))); [congruence|]. rewrite Lx. reflexivity. }
      rewrite E3.
      assert (P3 : n_p (mget m2 (adr xe)) = ctx_par hole).
      { apply (rep_root_p m2 (ctx_par hole) (T xk xl xe xr)); auto. }
      assert (K3 : n_c (mget m2 (adr xe)) = xk).
      { apply (rep_root_c m2 (ctx_par hole) (T xk xl xe xr)); auto. }
      destruct (l_del_loop_sim hole (T xk xl xe xr) (adr xe) m2 root1 fuel t' Hlen Nd2 eq_refl R2 C2 P3 K3 H)
        as (m4 & root4 & x4 & E4 & R4 & Hr4).
      rewrite E4. cbn [bind]. eauto.
Qed.

(** * The scripted system *)
Lemma zptr_raddr t : zptr (raddr t) = zelem (root_elem t).
Proof. destruct t; reflexivity. Qed.
Lemma zptr_ctx_par c : zptr (ctx_par c) = zelem (top_elem c).
Proof. destruct c; reflexivity. Qed.

Lemma slot_set_hole m3 root c n :
  match slot_of c with
  | SRoot => (m3, Some n)
  | SLocal => (m3, root)
  | SField a d => (setsel d m3 a (Some n), root)
  end = set_hole m3 root c (Some n).
Proof. destruct c; reflexivity. Qed.

Lemma plug_descend_E x t : forall c, plug (descend x t c) E = plug c t.
Proof.
  induction t as [|k l IHl y r IHr]; intros c; cbn [descend]; auto.
  destruct (_ <? _); [rewrite IHl|rewrite IHr]; reflexivity.
Qed.

Section Sim.
  Variable key : nat -> Z.
  Variable kd : kind.
  Notation step := (TreeModel.step key kd).
  Notation lstep := (TreeLinksModel.lstep key kd).

  (** the pointer-level state represents the functional one *)
  Definition lrel (sl : lstate) (s : tstate) : Prop :=
    lsz sl = sz s /\ lroot sl = raddr (tr s) /\ rep (lm sl) None (tr s).

  (** invariant of the functional side: [tinv] and the stored keys are the
      keys of the elements *)
  Definition tinvk (s : tstate) : Prop := tinv kd s /\ keyed key (inorder (tr s)).

  Lemma lrel_decode sl s : lrel sl s -> tinvk s -> decode key sl = Some (tr s).
  Proof.
    intros (Hz & Hr & R) ((B & Nd & Sz & Rb) & K). apply decode_rep; auto. congruence.
  Qed.

  Lemma lrel_fuel sl s : lrel sl s -> tinvk s -> lfuel sl = S (length (inorder (tr s))).
  Proof.
    intros (Hz & _) ((_ & _ & Sz & _) & _). unfold lfuel. rewrite Hz, Sz, Nat2N.id. reflexivity.
  Qed.

  Lemma keyed_step s o s' out : tinvk s -> step s o = Done s' out -> tinvk s'.
  Proof.
    intros (I & K) Hs. pose proof (step_correct key kd s o I) as H. rewrite Hs in H.
    destruct H as (I' & Sp). split; auto. unfold abs in Sp.
    destruct o; cbn [spec] in Sp.
    - destruct Sp as (_ & ->). eapply keyed_perm; [symmetry; apply ins_sorted_perm|].
      constructor; auto.
    - destruct Sp as (-> & _). eapply keyed_perm; [symmetry; apply ins_sorted_perm|].
      constructor; auto.
    - destruct Sp as (-> & _). auto.
    - destruct Sp as [(e & l1 & l2 & _ & _ & E1 & ->)|(_ & -> & _)]; auto.
      rewrite E1 in K. apply keyed_app in K. destruct K as (K1 & K2). apply keyed_app. split; auto.
      apply Forall_cons_iff in K2. tauto.
    - destruct Sp as (-> & _). auto.
    - destruct Sp as (-> & _). constructor.
    - rewrite Sp. auto.
    - destruct Sp as (-> & _). auto.
  Qed.

  (** insert, from any starting point of the descent that ends at the link
      the functional model chooses *)
  Lemma l_do_insert_sim sl s hint hp e out :
    let x := mkE e (key e) in
    let c' := descend x (tr s) [] in
    lrel sl s -> tinvk s -> ~ In e (ids (tr s)) ->
    insert_ctx hint (tr s) x = Some c' ->
    (let '(cur, bp, bc) := match hp with
                           | None => (lroot sl, lroot sl, SRoot)
                           | Some p => (Some p, Some p, SLocal)
                           end in
     l_descend key (lfuel sl) (lm sl) (key e) cur bp bc = Some (ctx_par c', slot_of c')) ->
    match do_insert kd s hint x out with
    | Done s' out' => exists sl', l_do_insert key kd sl hp e out = Done sl' out' /\ lrel sl' s'
    | Precond => False
    | _ => True
    end.
  Proof.
    intros x c' L I Hn Hc Hd. pose proof L as (Hz & Hr & R). pose proof I as ((B & Nd & Sz & Rb) & K).
    assert (Hp : plug c' E = tr s).
    { unfold c'. apply (plug_descend_E x (tr s) []). }
    assert (C : crep (lm sl) c' None (lroot sl)).
    { apply (rep_plug (lm sl) c' E (lroot sl)). rewrite Hp. auto. }
    assert (Ndc : NoDup (caddrs c') /\ ~ In (adr x) (caddrs c')).
    { assert (P : Permutation (addrs (tr s)) (caddrs c')).
      { rewrite <- Hp, addrs_plug. reflexivity. }
      split.
      - eapply Permutation_NoDup; [exact P|]. apply NoDup_addrs; auto.
      - intros Hi. apply Hn. eapply Permutation_in in Hi; [|symmetry; exact P].
        rewrite addrs_ids in Hi. apply in_map_iff in Hi. destruct Hi as (i & Hi & Hin).
        unfold adr, addr in Hi. cbn in Hi. congruence. }
    destruct Ndc as (Ndc & Nx).
    assert (Lb : l_bt_insert key (lfuel sl) (lm sl) (lroot sl) (addr e) hp =
                 Some (set_hole (setr (setl (setp (lm sl) (addr e) (ctx_par c')) (addr e) None) (addr e) None)
                                (lroot sl) c' (Some (addr e)))).
    { unfold l_bt_insert. change (akey key (addr e)) with (key e).
      destruct hp as [p|]; rewrite Hd; cbn [bind]; rewrite slot_set_hole; reflexivity. }
    unfold do_insert, l_do_insert. destruct kd eqn:Ek.
    - (* plain binary tree *)
      unfold bt_insert_from. rewrite Hc. rewrite Lb.
      destruct (l_link_rep (lm sl) (lroot sl) c' x Black C Ndc Nx) as (R' & C' & _).
      rewrite (surjective_pairing (set_hole _ _ _ _)).
      eexists; split; [reflexivity|]. unfold lrel. cbn [lsz lroot lm tr sz]. split; [congruence|].
      apply and_comm. apply rep_plug. split; auto.
    - (* red-black tree *)
      unfold rb_insert_from. rewrite Hc.
      destruct (fix_ins (T Red E x E) c') as [t1|] eqn:Ef; [|exact Logic.I].
      unfold l_rb_insert. rewrite Lb. cbn [bind].
      rewrite (surjective_pairing (set_hole _ _ _ _)).
      destruct (l_link_rep (lm sl) (lroot sl) c' x Red C Ndc Nx) as (R' & C' & _).
      change (addr e) with (adr x) in *.
      set (m2 := setc (fst (set_hole _ _ _ _)) (adr x) Red) in *.
      set (root1 := snd (set_hole _ _ _ _)) in *.
      assert (Hlen : (length c' <= lfuel sl)%nat).
      { rewrite (lrel_fuel sl s L I). pose proof (length_plug c' E) as P. rewrite Hp in P.
        pose proof (theight_size (tr s)). lia. }
      destruct (l_ins_loop_sim (length c') c' (le_n _) (lfuel sl) Red E x E m2 root1 t1) as (m3 & root3 & E3 & R3 & Hr3); auto.
      { cbn. nd_solve. }
      rewrite E3. cbn [bind].
      assert (Ht1 : exists k l y r, t1 = T k l y r).
      { pose proof (fix_ins_inorder _ c' (le_n _) _ _ Ef) as Hi. rewrite inorder_plug in Hi.
        destruct t1; eauto. cbn in Hi. destruct (cbefore c'); discriminate. }
      destruct Ht1 as (k1 & l1 & y1 & r1 & ->). rewrite Hr3. cbn [raddr bind].
      eexists; split; [reflexivity|]. unfold lrel. cbn [lsz lroot lm tr sz blacken raddr].
      split; [congruence|]. split; auto.
      apply (rep_setcol m3 None (T k1 l1 y1 r1) (adr y1) Black); auto.
      unfold addrs. rewrite (fix_ins_inorder _ c' (le_n _) _ _ Ef).
      change (NoDup (addrs (plug c' (T Red E x E)))). apply NoDup_addrs_plug. cbn. nd_solve.
  Qed.

  Lemma held_not_in t e : held t e = false -> ~ In e (ids t).
  Proof. intros H Hi. apply held_spec in Hi. congruence. Qed.

  Lemma keyed_sub c t : keyed key (inorder (plug c t)) -> keyed key (inorder t).
  Proof. rewrite inorder_plug. intros H. apply keyed_app in H. destruct H as (_ & H). apply keyed_app in H. tauto. Qed.

  (** one operation *)
  Theorem lstep_sim sl s o :
    lrel sl s -> tinvk s ->
    match step s o with
    | Done s' out => exists sl', lstep sl o = Done sl' out /\ lrel sl' s'
    | Precond => lstep sl o = Precond
    | Fault => True
    | Abort => True
    end.
  Proof.
    intros L I. pose proof L as (Hz & Hr & R). pose proof I as ((B & Nd & Sz & Rb) & K).
    pose proof (lrel_decode sl s L I) as Dec. pose proof (lrel_fuel sl s L I) as Fu.
    assert (Hth : (theight (tr s) <= lfuel sl)%nat).
    { rewrite Fu. pose proof (theight_size (tr s)). lia. }
    destruct o as [e|e|k|k|rev stop| | |]; cbn [TreeModel.step TreeLinksModel.lstep].
    - (* insert *)
      rewrite Dec. destruct (held (tr s) e) eqn:Eh; [reflexivity|].
      assert (Hi : ~ In e (ids (tr s))) by (apply held_not_in; auto).
      enough (HH : match do_insert kd s None (mkE e (key e)) [] with
                   | Done s' out' => exists sl', l_do_insert key kd sl None e [] = Done sl' out' /\ lrel sl' s'
                   | Precond => False
                   | _ => True
                   end).
      { destruct (do_insert kd s None (mkE e (key e)) []); auto. contradiction. }
      apply (l_do_insert_sim sl s None None e []); auto.
      + rewrite Hr. destruct (tr s) as [|tk tl ty tr0] eqn:Et.
        * destruct (lfuel sl); reflexivity.
        * rewrite <- Et in *.
          change (key e) with (ekey (mkE e (key e))).
          rewrite Et. apply (l_descend_node key (lm sl) (mkE e (key e)) tk tl ty tr0 []); rewrite <- Et; auto.
    - (* insert with the hint reported by find *)
      rewrite Dec. destruct (held (tr s) e) eqn:Eh; [reflexivity|].
      pose proof (l_find_rep key (lm sl) (key e) (tr s) [] (lfuel sl) Hth R K) as Fd.
      cbn [ctx_par] in Fd. rewrite <- Hr in Fd. rewrite Fd. clear Fd.
      unfold bt_find. destruct (find_ctx (key e) (tr s) []) as [sub cf] eqn:Ef. cbn [fst snd].
      rewrite <- zptr_ctx_par.
      pose proof (insert_ctx_hint (tr s) (mkE e (key e)) Nd) as Hc. cbn [ekey] in Hc.
      unfold bt_find in Hc. rewrite Ef in Hc. cbn [snd] in Hc.
      assert (Hi : ~ In e (ids (tr s))) by (apply held_not_in; auto).
      enough (HH : match do_insert kd s (option_map eid (top_elem cf)) (mkE e (key e)) [zptr (ctx_par cf)] with
                   | Done s' out' => exists sl', l_do_insert key kd sl (ctx_par cf) e [zptr (ctx_par cf)] = Done sl' out' /\ lrel sl' s'
                   | Precond => False
                   | _ => True
                   end).
      { destruct (do_insert kd s _ (mkE e (key e)) _); auto. contradiction. }
      apply (l_do_insert_sim sl s (option_map eid (top_elem cf)) (ctx_par cf) e); auto.
      + destruct cf as [|f new']; cbn [ctx_par].
        * rewrite Hr. destruct (tr s) as [|tk tl ty tr0] eqn:Et.
          -- destruct (lfuel sl); reflexivity.
          -- rewrite <- Et in *.
             change (key e) with (ekey (mkE e (key e))).
             rewrite Et. apply (l_descend_node key (lm sl) (mkE e (key e)) tk tl ty tr0 []); rewrite <- Et; auto.
        * pose proof (find_ctx_plug _ _ _ _ _ Ef) as Hp. cbn [plug] in Hp.
          pose proof (find_ctx_path _ _ _ _ _ Ef) as (new & Hn & Hpath & _).
          rewrite app_nil_r in Hn. subst new. apply Forall_cons_iff in Hpath. destruct Hpath as (Hf & _).
          assert (Rs : rep (lm sl) (ctx_par new') (plug1 f sub)).
          { apply (rep_plug (lm sl) new' (plug1 f sub) (lroot sl)). rewrite Hp. auto. }
          assert (Ks : keyed key (inorder (plug1 f sub))).
          { apply (keyed_sub new'). rewrite Hp. auto. }
          assert (Hs : (theight (plug1 f sub) <= lfuel sl)%nat).
          { etransitivity; [apply (theight_plug new')|]. rewrite Hp. auto. }
          assert (Hd : descend (mkE e (key e)) (plug1 f sub) new' = descend (mkE e (key e)) (tr s) []).
          { rewrite descend_up by auto. symmetry. apply descend_find. exact Ef. }
          rewrite <- Hd.
          assert (Sh : exists tk tl tr0, plug1 f sub = T tk tl (fe f) tr0).
          { unfold plug1. destruct (fd f); cbn [mk]; eauto. }
          destruct Sh as (tk & tl & tr0 & Sh). rewrite Sh in *.
          change (key e) with (ekey (mkE e (key e))).
          apply (l_descend_node key (lm sl) (mkE e (key e)) tk tl (fe f) tr0 new'); auto.
    - (* find *)
      pose proof (l_find_rep key (lm sl) k (tr s) [] (lfuel sl) Hth R K) as Fd.
      cbn [ctx_par] in Fd. rewrite <- Hr in Fd. rewrite Fd. clear Fd.
      unfold bt_find. destruct (find_ctx k (tr s) []) as [sub cf]. cbn [fst snd].
      rewrite zptr_raddr, zptr_ctx_par. eexists; split; [reflexivity|exact L].
    - (* erase *)
      pose proof (l_find_rep key (lm sl) k (tr s) [] (lfuel sl) Hth R K) as Fd.
      cbn [ctx_par] in Fd. rewrite <- Hr in Fd. rewrite Fd. clear Fd.
      destruct (find_ctx k (tr s) []) as [sub cf] eqn:Ef. cbn [fst snd].
      pose proof (find_ctx_plug _ _ _ _ _ Ef) as Hp. cbn [plug] in Hp.
      destruct sub as [|nc nl ne nr].
      + (* not found *)
        cbn [raddr]. destruct kd eqn:Ek.
        * unfold bt_erase. rewrite Ef. eexists; split; [reflexivity|].
          unfold lrel. cbn [tr sz]. auto.
        * unfold rb_erase. rewrite Ef. eexists; split; [reflexivity|].
          unfold lrel. cbn [tr sz]. auto.
      + cbn [raddr].
        assert (RC : rep (lm sl) (ctx_par cf) (T nc nl ne nr) /\ crep (lm sl) cf (Some (adr ne)) (lroot sl)).
        { apply (rep_plug (lm sl) cf (T nc nl ne nr) (lroot sl)). rewrite Hp. auto. }
        destruct RC as (Rn & Cn).
        assert (Ndn : NoDup (addrs (T nc nl ne nr) ++ caddrs cf)).
        { eapply Permutation_NoDup; [apply addrs_plug|]. rewrite Hp. apply NoDup_addrs; auto. }
        assert (Zp : zptr (Some (adr ne)) = zelem (Some ne)) by reflexivity.
        destruct kd eqn:Ek.
        * unfold bt_erase. rewrite Ef.
          assert (Hfn : (theight (T nc nl ne nr) <= lfuel sl)%nat).
          { etransitivity; [apply (theight_plug cf)|]. rewrite Hp. auto. }
          destruct (l_bt_erase_sim (lm sl) (lroot sl) cf nc nl ne nr (lfuel sl) Ndn Rn Cn Hfn)
            as (m' & root' & ya & Eb & R' & C' & _).
          rewrite Eb. cbn [bind]. rewrite Zp. eexists; split; [reflexivity|].
          unfold lrel. cbn [lsz lroot lm tr sz]. split; [congruence|].
          apply and_comm. apply rep_plug. auto.
        * unfold rb_erase. rewrite Ef.
          destruct (rb_erase_at nc nl ne nr cf) as [t'|] eqn:Er; [|exact Logic.I].
          destruct (l_rb_erase_sim (lm sl) (lroot sl) cf nc nl ne nr (lfuel sl) t' Ndn Rn Cn)
            as (m' & root' & Eb & R' & Hr'); auto.
          { rewrite Hp, Fu. lia. }
          rewrite Eb, Zp. eexists; split; [reflexivity|].
          unfold lrel. cbn [lsz lroot lm tr sz]. split; [congruence|]. auto.
    - (* foreach *)
      rewrite Dec. destruct (foreach _ _ _ _) as [[n log] res].
      eexists; split; [reflexivity|exact L].
    - (* clear *)
      rewrite Hr. destruct (tr s) as [|tk tl ty tr0] eqn:Et; cbn [raddr].
      + eexists; split; [reflexivity|]. unfold lrel. rewrite Et. auto.
      + rewrite Dec. eexists; split; [reflexivity|].
        unfold lrel, t_init. cbn. auto.
    - (* height *)
      rewrite Dec. destruct (bt_height (tr s)) as [mn mx].
      eexists; split; [reflexivity|exact L].
    - (* size *)
      rewrite Hz. eexists; split; [reflexivity|exact L].
  Qed.
End Sim.

(** * Runs and reachable states *)
(** the plain-words reading of [rep]: every child link is answered by the
    child's parent link *)
Lemma rep_links m : forall t par a,
  rep m par t -> In a (addrs t) ->
  (forall b, n_l (mget m a) = Some b -> n_p (mget m b) = Some a) /\
  (forall b, n_r (mget m a) = Some b -> n_p (mget m b) = Some a).
Proof.
  induction t as [|k l IHl x r IHr]; intros par a R Hin; [destruct Hin|].
  cbn [rep] in R. destruct R as (Hp & Hc & Hl & Hr & Rl & Rr).
  rewrite addrs_T in Hin. apply in_app_or in Hin. destruct Hin as [Hin|[<-|Hin]].
  - eapply IHl; eauto.
  - split; intros b Hb.
    + rewrite Hl in Hb. apply (rep_root_p m (Some (adr x)) l b Rl Hb).
    + rewrite Hr in Hb. apply (rep_root_p m (Some (adr x)) r b Rr Hb).
  - eapply IHr; eauto.
Qed.

Section SimRun.
  Variable key : nat -> Z.
  Variable kd : kind.
  Notation step := (TreeModel.step key kd).
  Notation lstep := (TreeLinksModel.lstep key kd).

  Lemma lrel_init : lrel l_init t_init.
  Proof. unfold lrel. cbn. auto. Qed.

  Lemma tinvk_init : tinvk key kd t_init.
  Proof. split; [apply tinv_init|constructor]. Qed.

  Theorem lrun_sim ops : forall sl s,
    lrel sl s -> tinvk key kd s ->
    match run step s ops with
    | (Done s' o1, outs) =>
      exists sl', run lstep sl ops = (Done sl' o1, outs) /\ lrel sl' s' /\ tinvk key kd s'
    | (Precond, outs) => run lstep sl ops = (Precond, outs)
    | _ => False
    end.
  Proof.
    induction ops as [|o ops IH]; intros sl s L I; cbn [run].
    - exists sl. auto.
    - pose proof (lstep_sim key kd sl s o L I) as Hs.
      pose proof (step_correct key kd s o (proj1 I)) as Hc.
      pose proof (keyed_step key kd s o) as Hk.
      destruct (step s o) as [s1 out| | |]; try contradiction.
      + destruct Hs as (sl1 & -> & L1). specialize (Hk s1 out I eq_refl).
        specialize (IH sl1 s1 L1 Hk).
        destruct (run step s1 ops) as [[s2 o2| | |] outs]; try contradiction.
        * destruct IH as (sl2 & -> & L2 & I2). exists sl2. auto.
        * rewrite IH. reflexivity.
      + rewrite Hs. reflexivity.
  Qed.

  Theorem lreach_sim sl :
    reach lstep l_init sl -> exists s, reach step t_init s /\ lrel sl s /\ tinvk key kd s.
  Proof.
    intros Rl. induction Rl as [|sl o sl' out Rl IH Hs].
    - exists t_init. split; [constructor|]. split; [apply lrel_init|apply tinvk_init].
    - destruct IH as (s & Rs & L & I).
      pose proof (lstep_sim key kd sl s o L I) as Hsim.
      pose proof (step_correct key kd s o (proj1 I)) as Hc.
      destruct (step s o) as [s1 out1| | |] eqn:Es; try contradiction.
      + destruct Hsim as (sl1 & E1 & L1). rewrite Hs in E1. injection E1 as <- <-.
        exists s1. split; [econstructor; eauto|]. split; auto.
        eapply keyed_step; eauto.
      + rewrite Hs in Hsim. discriminate.
  Qed.

  (** in every state the pointer-level model reaches the decoder succeeds:
      every child's parent pointer points back, the root's parent is NULL,
      no node is reached twice; and the decoded tree is the functional one *)
  Theorem lreach_decode sl :
    reach lstep l_init sl ->
    exists s, reach step t_init s /\ decode key sl = Some (tr s) /\
              lroot sl = raddr (tr s) /\ rep (lm sl) None (tr s) /\ lsz sl = sz s.
  Proof.
    intros Rl. destruct (lreach_sim sl Rl) as (s & Rs & L & I).
    exists s. split; auto. split; [apply (lrel_decode key kd); auto|].
    destruct L as (Hz & Hr & R). auto.
  Qed.
End SimRun.
