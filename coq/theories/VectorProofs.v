(** Proofs about VectorModel.v (C09; reused by StrProofs.v for C10 and by C16).

    Everything here is about the REPAIRED code ([v0 = false]); the code as
    found is refuted in FindingsVecStr.v. *)
From Cstl Require Import Prelude AllocModel VectorModel.
Local Open Scope N_scope.

(** * Arithmetic *)

Lemma W64_pos : 0 < W64. Proof. reflexivity. Qed.
Lemma LIMIT_lt_W64 : LIMIT < W64. Proof. reflexivity. Qed.
Lemma SIZE_MAX_eq : SIZE_MAX = W64 - 1. Proof. reflexivity. Qed.

Lemma wrap64_small x : x < W64 -> wrap64 x = x.
Proof. intros H. unfold wrap64. apply N.mod_small; auto. Qed.

Lemma wrap64_lt x : wrap64 x < W64.
Proof. unfold wrap64. apply N.mod_lt. discriminate. Qed.

Lemma mul_succ_le i c e : i <= c -> i * e + e <= (c + 1) * e.
Proof.
  intros H. replace (i * e + e) with ((i + 1) * e) by lia.
  apply N.mul_le_mono_r. lia.
Qed.

Lemma mul_le_succ i c e : i <= c -> i * e <= (c + 1) * e.
Proof. intros H. pose proof (mul_succ_le i c e H). lia. Qed.

(** [representable] means exactly: the byte count fits in size_t *)
Lemma representable_spec sz es :
  1 <= es -> (representable sz es = true <-> (sz + 1) * es < W64).
Proof.
  intros He. unfold representable.
  assert (E0 : (es =? 0) = false) by (apply N.eqb_neq; lia). rewrite E0. simpl.
  rewrite andb_true_iff, N.ltb_lt, N.leb_le. unfold SIZE_MAX. split.
  - intros [H1 H2].
    assert (es * (18446744073709551615 / es) <= 18446744073709551615)
      by (apply N.mul_div_le; lia).
    assert ((sz + 1) * es <= (18446744073709551615 / es) * es)
      by (apply N.mul_le_mono_r; auto).
    unfold W64. lia.
  - intros H. unfold W64 in H.
    assert (sz + 1 <= (sz + 1) * es) by (rewrite <- (N.mul_1_r (sz + 1)) at 1; apply N.mul_le_mono_l; auto).
    split; [lia|].
    apply N.div_le_lower_bound; [lia|]. rewrite N.mul_comm. lia.
Qed.

Lemma representable_bytes sz es :
  1 <= es -> representable sz es = true ->
  wrap64 (wrap64 (sz + 1) * es) = (sz + 1) * es /\ 0 < (sz + 1) * es.
Proof.
  intros He R. apply representable_spec in R; auto.
  assert (sz + 1 <= (sz + 1) * es) by (rewrite <- (N.mul_1_r (sz + 1)) at 1; apply N.mul_le_mono_l; auto).
  rewrite (wrap64_small (sz + 1)) by lia. rewrite wrap64_small by auto. split; auto. lia.
Qed.

(** * The allocator *)

Definition bsize (l : list (nat * N)) (b : nat) : option N :=
  option_map snd (find (fun p => Nat.eqb (fst p) b) l).

Lemma block_size_bsize al b : block_size al b = bsize (live al) b.
Proof. reflexivity. Qed.

Lemma bsize_cons_eq l b sz : bsize ((b, sz) :: l) b = Some sz.
Proof. unfold bsize. simpl. rewrite Nat.eqb_refl. reflexivity. Qed.

Lemma bsize_cons_neq l b b' sz : b' <> b -> bsize ((b, sz) :: l) b' = bsize l b'.
Proof. intros H. unfold bsize. simpl. destruct (Nat.eqb_spec b b'); [congruence|reflexivity]. Qed.

Lemma bsize_remove_same l b : bsize (remove_block b l) b = None.
Proof.
  unfold bsize, remove_block. induction l as [|[c sz] l IH]; simpl; auto.
  destruct (Nat.eqb_spec c b) as [->|Hn]; simpl; auto.
  destruct (Nat.eqb_spec c b); [congruence|]. exact IH.
Qed.

Lemma bsize_remove_other l b b' : b' <> b -> bsize (remove_block b l) b' = bsize l b'.
Proof.
  intros H. unfold bsize, remove_block. induction l as [|[c sz] l IH]; simpl; auto.
  destruct (Nat.eqb_spec c b) as [->|Hn]; simpl.
  - destruct (Nat.eqb_spec b b'); [congruence|]. exact IH.
  - destruct (Nat.eqb_spec c b'); auto.
Qed.

Lemma is_live_bsize al b : is_live al b = true <-> block_size al b <> None.
Proof.
  unfold is_live, block_size. induction (live al) as [|[c sz] l IH]; simpl.
  - split; [discriminate|congruence].
  - destruct (Nat.eqb_spec c b); simpl; [split; [discriminate|auto]|exact IH].
Qed.

Lemma is_live_false al b : is_live al b = false <-> block_size al b = None.
Proof.
  pose proof (is_live_bsize al b) as H. destruct (is_live al b); split; intros E; auto; try discriminate.
  - destruct H as [H _]. specialize (H eq_refl). congruence.
  - destruct (block_size al b); auto. destruct H as [_ H]. discriminate H. discriminate.
Qed.

Lemma bsize_nil_all l : (forall b, bsize l b = None) -> l = [].
Proof.
  destruct l as [|[c sz] l]; auto. intros H. specialize (H c). rewrite bsize_cons_eq in H. discriminate.
Qed.

(** ids of live blocks are below [next]: the next id is fresh *)
Definition alloc_ok (al : alloc) : Prop :=
  forall b bs, block_size al b = Some bs -> (b < next al)%nat.

Lemma alloc_ok_init : alloc_ok alloc_init.
Proof. intros b bs H. discriminate. Qed.

Lemma alloc_ok_fresh al : alloc_ok al -> block_size al (next al) = None.
Proof.
  intros A. destruct (block_size al (next al)) eqn:E; auto. apply A in E. lia.
Qed.

(** How one call changed the heap, seen from the vector that made it:
    [ob]/[nb] = its buffer before/after. *)
Definition heap_frame (al al' : alloc) (ob nb : option nat) : Prop :=
  (forall b, Some b <> ob -> Some b <> nb -> block_size al' b = block_size al b) /\
  (ob = nb -> forall b, block_size al' b = block_size al b) /\
  (ob <> nb -> (forall b, ob = Some b -> block_size al' b = None) /\
               (forall b, nb = Some b -> block_size al b = None)).

Lemma heap_frame_refl al ob : heap_frame al al ob ob.
Proof. repeat split; auto; congruence. Qed.

Lemma heap_frame_same_live al al' ob :
  live al' = live al -> heap_frame al al' ob ob.
Proof.
  intros E. unfold heap_frame, block_size. rewrite E. repeat split; auto; congruence.
Qed.

Section Realloc.
  Variable ok : nat -> N -> bool.

  (** realloc with a live (or NULL) pointer and a non-zero size *)
  Lemma realloc_spec al p sz :
    alloc_ok al -> no_bad_free al -> 0 < sz ->
    (forall b, p = Some b -> block_size al b <> None) ->
    match realloc ok al p sz with
    | (al', Some nb) =>
      grant ok al sz = true /\ sz <= LIMIT /\ nb = next al /\
      alloc_ok al' /\ no_bad_free al' /\
      block_size al' nb = Some sz /\ heap_frame al al' p (Some nb)
    | (al', None) =>
      grant ok al sz = false /\ alloc_ok al' /\ no_bad_free al' /\ live al' = live al
    end.
  Proof.
    intros A NB Hsz Hp. unfold realloc.
    assert (Z : (sz =? 0) = false) by (apply N.eqb_neq; lia).
    destruct p as [b|].
    - rewrite Z. destruct (grant ok al sz) eqn:G.
      + assert (Hb : (b < next al)%nat).
        { specialize (Hp b eq_refl). destruct (block_size al b) eqn:E; [|congruence]. eapply A; eauto. }
        unfold grant in G. apply andb_true_iff in G. destruct G as [_ G]. apply N.leb_le in G.
        repeat split; auto.
        * intros c bs. rewrite block_size_bsize. simpl.
          destruct (Nat.eq_dec c (next al)) as [->|Hn]; [lia|].
          rewrite bsize_cons_neq by auto.
          destruct (Nat.eq_dec c b) as [->|Hn2]; [rewrite bsize_remove_same; discriminate|].
          rewrite bsize_remove_other by auto. intros H. apply A in H. lia.
        * intros c H. simpl in H. destruct H as [H|H]; [discriminate|]. exact (NB c H).
        * rewrite block_size_bsize. simpl. apply bsize_cons_eq.
        * intros c H1 H2. rewrite block_size_bsize. simpl.
          rewrite bsize_cons_neq by congruence. rewrite bsize_remove_other by congruence. reflexivity.
        * intros E. inversion E. lia.
        * intros c [= <-]. rewrite block_size_bsize. simpl.
          rewrite bsize_cons_neq by lia. apply bsize_remove_same.
        * intros c [= <-]. apply alloc_ok_fresh; auto.
      + repeat split; auto.
        intros c H. simpl in H. destruct H as [H|H]; [discriminate|]. exact (NB c H).
    - destruct (grant ok al sz) eqn:G.
      + pose proof G as G'. unfold grant in G'. apply andb_true_iff in G'. destruct G' as [_ G']. apply N.leb_le in G'.
        repeat split; auto.
        * intros c bs. rewrite block_size_bsize. simpl.
          destruct (Nat.eq_dec c (next al)) as [->|Hn]; [lia|].
          rewrite bsize_cons_neq by auto. intros H. apply A in H. lia.
        * intros c H. simpl in H. destruct H as [H|H]; [discriminate|]. exact (NB c H).
        * rewrite block_size_bsize. simpl. apply bsize_cons_eq.
        * intros c H1 H2. rewrite block_size_bsize. simpl. rewrite bsize_cons_neq by congruence. reflexivity.
        * discriminate.
        * discriminate.
        * intros c [= <-]. apply alloc_ok_fresh; auto.
      + repeat split; auto.
        intros c H. simpl in H. destruct H as [H|H]; [discriminate|]. exact (NB c H).
  Qed.
End Realloc.

(** free of a live block *)
Lemma free_spec al b bs :
  alloc_ok al -> no_bad_free al -> block_size al b = Some bs ->
  let al' := free al (Some b) in
  alloc_ok al' /\ no_bad_free al' /\ heap_frame al al' (Some b) None.
Proof.
  intros A NB E. simpl. assert (L : is_live al b = true) by (apply is_live_bsize; congruence).
  rewrite L. repeat split.
  - intros c cs. rewrite block_size_bsize. simpl.
    destruct (Nat.eq_dec c b) as [->|Hn]; [rewrite bsize_remove_same; discriminate|].
    rewrite bsize_remove_other by auto. apply A.
  - intros c H. simpl in H. destruct H as [H|H]; [discriminate|]. exact (NB c H).
  - intros c H1 H2. rewrite block_size_bsize. simpl. rewrite bsize_remove_other by congruence. reflexivity.
  - discriminate.
  - intros c [= <-]. rewrite block_size_bsize. simpl. apply bsize_remove_same.
  - discriminate.
Qed.

(** * The vector invariant (C09) *)

Definition vec_ok (al : alloc) (v : vec) : Prop :=
  1 <= esize v /\ count v <= cap v /\ length (elems v) = N.to_nat (count v) /\
  match base v with
  | None => cap v = 0
  | Some b => exists bs, block_size al b = Some bs /\ (cap v + 1) * esize v <= bs /\ bs <= LIMIT
  end.

Lemma vec_ok_init al es c d : 1 <= es -> vec_ok al (vec_init es c d).
Proof. intros H. repeat split; simpl; auto; lia. Qed.

Lemma vec_ok_base al v : vec_ok al v -> 0 < cap v -> exists b, base v = Some b.
Proof. intros (_ & _ & _ & H) C. destruct (base v); eauto. lia. Qed.

(** the invariant only looks at the vector's own block *)
Lemma vec_ok_frame al al' v :
  vec_ok al v -> (forall b, base v = Some b -> block_size al' b = block_size al b) -> vec_ok al' v.
Proof.
  intros (H1 & H2 & H3 & H4) F. repeat split; auto.
  destruct (base v) as [b|]; auto. rewrite (F b eq_refl). exact H4.
Qed.

(** every index up to and including [cap] (the scratch cell) is a cell of
    the block, computed without wrap-around *)
Lemma slot_in al v i :
  vec_ok al v -> base v <> None -> i <= cap v -> slot al v i = Some (N.to_nat i).
Proof.
  intros (He & Hc & Hl & Hb) Hn Hi. unfold slot, blk.
  destruct (base v) as [b|]; [|congruence]. destruct Hb as (bs & E & Hs & Hlim). rewrite E.
  pose proof (mul_succ_le i (cap v) (esize v) Hi) as M.
  assert (i * esize v < W64) by (pose proof LIMIT_lt_W64; lia).
  rewrite wrap64_small by auto.
  rewrite N.mod_mul by lia. rewrite N.div_mul by lia. simpl.
  destruct (N.leb_spec (i * esize v + esize v) bs); [reflexivity|lia].
Qed.

Lemma slot_in_count al v i :
  vec_ok al v -> i < count v -> slot al v i = Some (N.to_nat i).
Proof.
  intros V Hi. pose proof V as (He & Hc & _).
  destruct (vec_ok_base al v V) as (b & E); [lia|].
  apply slot_in; auto; [congruence|lia].
Qed.

(** byte offset of an in-range element: no wrap, inside the block *)
Lemma offset_in_block al v i :
  vec_ok al v -> i < count v ->
  exists b bs, base v = Some b /\ block_size al b = Some bs /\
               wrap64 (i * esize v) = i * esize v /\ i * esize v + esize v <= bs /\
               (cap v + 1) * esize v <= bs.
Proof.
  intros V Hi. pose proof V as (He & Hc & Hl & Hb).
  destruct (vec_ok_base al v V) as (b & E); [lia|]. rewrite E in Hb.
  destruct Hb as (bs & Eb & Hs & Hlim). exists b, bs. repeat split; auto.
  - apply wrap64_small. assert (i <= cap v) by lia.
    pose proof (mul_succ_le i (cap v) (esize v) H). pose proof LIMIT_lt_W64. lia.
  - assert (i <= cap v) by lia. pose proof (mul_succ_le i (cap v) (esize v) H). lia.
Qed.

Lemma vec_ok_set_count al v c l :
  vec_ok al v -> c <= cap v -> length l = N.to_nat c -> vec_ok al (set_count v c l).
Proof. intros (H1 & H2 & H3 & H4) Hc Hl. repeat split; simpl; auto. Qed.

Lemma vec_ok_set_elems al v l :
  vec_ok al v -> length l = length (elems v) -> vec_ok al (set_elems v l).
Proof. intros (H1 & H2 & H3 & H4) Hl. repeat split; simpl; auto. congruence. Qed.

(** * List helpers *)

Lemma nth_firstn_lt {A} (l : list A) n i d : (i < n)%nat -> nth i (firstn n l) d = nth i l d.
Proof.
  revert n i. induction l as [|x l IH]; intros [|n] [|i] H; simpl; auto; try lia.
  apply IH. lia.
Qed.

Lemma nth_repeat_lt {A} (x d : A) n k : (k < n)%nat -> nth k (repeat x n) d = x.
Proof. revert k. induction n as [|n IH]; intros [|k] H; simpl; auto; try lia. apply IH. lia. Qed.

Lemma firstn_firstn_le {A} (l : list A) n m : (n <= m)%nat -> firstn n (firstn m l) = firstn n l.
Proof. intros H. rewrite firstn_firstn. f_equal. lia. Qed.

Lemma resize_list_length l n : length (resize_list l n) = n.
Proof.
  unfold resize_list. rewrite app_length, repeat_length, firstn_length. lia.
Qed.

Lemma insert_sorted_length x l : length (insert_sorted x l) = S (length l).
Proof. induction l as [|y r IH]; simpl; auto. destruct (x <=? y); simpl; auto. Qed.

Lemma isort_length l : length (isort l) = length l.
Proof. induction l as [|x r IH]; simpl; auto. rewrite insert_sorted_length. auto. Qed.

Lemma insert_sorted_perm x l : Permutation (x :: l) (insert_sorted x l).
Proof.
  induction l as [|y r IH]; simpl; auto. destruct (x <=? y); auto.
  eapply perm_trans; [apply perm_swap|]. constructor. exact IH.
Qed.

Lemma isort_perm l : Permutation l (isort l).
Proof.
  induction l as [|x r IH]; simpl; auto.
  eapply perm_trans; [|apply insert_sorted_perm]. constructor. exact IH.
Qed.

Lemma insert_sorted_sorted x l :
  Sorted (fun a b => a <= b) l -> Sorted (fun a b => a <= b) (insert_sorted x l).
Proof.
  induction l as [|y r IH]; intros S; simpl.
  - repeat constructor.
  - destruct (N.leb_spec x y).
    + constructor; auto.
    + inversion S as [|? ? S' Hd]; subst. constructor; auto.
      destruct r as [|z r]; simpl in *.
      * constructor. lia.
      * destruct (N.leb_spec x z); constructor; try lia. inversion Hd; auto.
Qed.

Lemma isort_sorted l : Sorted (fun a b => a <= b) (isort l).
Proof. induction l as [|x r IH]; simpl; [constructor|]. apply insert_sorted_sorted; auto. Qed.

(** constructor calls on indices c, c+1, ... (n of them) *)
Fixpoint cons_log (c : N) (n : nat) : list xev :=
  match n with
  | O => []
  | S n' => XCons c :: cons_log (c + 1) n'
  end.

(** destructor calls on indices c-1, c-2, ... (n of them) of contents l *)
Fixpoint dest_log (l : list N) (c : N) (n : nat) : list xev :=
  match n with
  | O => []
  | S n' => XDest (c - 1) (nth (N.to_nat (c - 1)) l POISON) :: dest_log l (c - 1) n'
  end.

Lemma cons_log_nth c n k :
  (k < n)%nat -> nth_error (cons_log c n) k = Some (XCons (c + N.of_nat k)).
Proof.
  revert c k. induction n as [|n IH]; intros c [|k] H; simpl; try lia.
  - f_equal. f_equal. lia.
  - rewrite IH by lia. f_equal. f_equal. lia.
Qed.

Lemma cons_log_length c n : length (cons_log c n) = n.
Proof. revert c. induction n; intros; simpl; auto. Qed.

Lemma dest_log_nth l c n k :
  (k < n)%nat -> N.of_nat n <= c ->
  nth_error (dest_log l c n) k =
  Some (XDest (c - 1 - N.of_nat k) (nth (N.to_nat (c - 1 - N.of_nat k)) l POISON)).
Proof.
  revert c k. induction n as [|n IH]; intros c [|k] H Hc; simpl; try lia.
  - rewrite N.sub_0_r. reflexivity.
  - rewrite IH by lia. replace (c - 1 - 1 - N.of_nat k) with (c - 1 - N.pos (Pos.of_succ_nat k)) by lia.
    reflexivity.
Qed.

Lemma dest_log_length l c n : length (dest_log l c n) = n.
Proof. revert c. induction n; intros; simpl; auto. Qed.

Lemma dest_log_firstn l c n m :
  N.of_nat n <= c -> (N.to_nat c <= m)%nat -> dest_log (firstn m l) c n = dest_log l c n.
Proof.
  revert c. induction n as [|n IH]; intros c Hn H; simpl; auto.
  rewrite nth_firstn_lt by lia. rewrite IH by lia. reflexivity.
Qed.

(** * The operations (repaired code), for every allocator oracle *)

Ltac peel := repeat (split; [solve [auto; try congruence; try lia]|]).

Lemma same_shape_refl_aux (v : vec) : esize v = esize v /\ xcons v = xcons v /\ xdest v = xdest v.
Proof. auto. Qed.

Section Ops.
  Variable ok : nat -> N -> bool.

  Definition same_shape (v v' : vec) : Prop :=
    esize v' = esize v /\ xcons v' = xcons v /\ xdest v' = xdest v.

  (** the request a capacity change to [sz] makes is refused *)
  Definition refused (al : alloc) (v : vec) (sz : N) : Prop :=
    representable sz (esize v) = false \/ grant ok al ((sz + 1) * esize v) = false.

  Lemma set_capacity_spec al v sz :
    alloc_ok al -> no_bad_free al -> vec_ok al v -> count v <= sz ->
    match set_capacity ok false al v sz with
    | Ok (al', v') =>
      alloc_ok al' /\ no_bad_free al' /\ vec_ok al' v' /\ heap_frame al al' (base v) (base v') /\
      same_shape v v' /\ count v' = count v /\ elems v' = elems v /\
      ((v' = v /\ live al' = live al /\ refused al v sz) \/
       (cap v' = sz /\ base v' = Some (next al) /\ ~ refused al v sz))
    | Abt => False
    | Flt => False
    end.
  Proof.
    intros A NB V Hc. pose proof V as (He & Hcc & Hl & Hb).
    unfold set_capacity. simpl.
    destruct (representable sz (esize v)) eqn:R; simpl.
    2:{ pose proof (heap_frame_refl al (base v)). pose proof (same_shape_refl_aux v).
        peel. left. peel. left; auto. }
    destruct (representable_bytes sz (esize v) He R) as (EB & PB).
    assert (LV : match base v with Some b => is_live al b | None => true end = true).
    { destruct (base v) as [b|]; auto. destruct Hb as (bs & E & _). apply is_live_bsize. congruence. }
    rewrite LV. rewrite EB.
    assert (Hp : forall b, base v = Some b -> block_size al b <> None).
    { intros b E. rewrite E in Hb. destruct Hb as (bs & E' & _). congruence. }
    pose proof (realloc_spec ok al (base v) ((sz + 1) * esize v) A NB PB Hp) as RS.
    destruct (realloc ok al (base v) ((sz + 1) * esize v)) as [al' [nb|]].
    - destruct RS as (G & Lim & -> & A' & NB' & Bs & F).
      assert (V' : vec_ok al' (mkVec (Some (next al)) (esize v) (xcons v) (xdest v) (count v) sz (elems v))).
      { repeat split; simpl; auto. exists ((sz + 1) * esize v). repeat split; auto. lia. }
      pose proof (same_shape_refl_aux v). simpl. peel.
      right. peel. intros [X|X]; congruence.
    - destruct RS as (G & A' & NB' & Lv).
      assert (V' : vec_ok al' v).
      { eapply vec_ok_frame; eauto. intros b _. unfold block_size. rewrite Lv. reflexivity. }
      pose proof (heap_frame_same_live al al' (base v) Lv). pose proof (same_shape_refl_aux v).
      peel. left. peel. right; auto.
  Qed.

  Lemma reserve_spec al v sz :
    alloc_ok al -> no_bad_free al -> vec_ok al v ->
    match reserve ok false al v sz with
    | Ok (al', v') =>
      alloc_ok al' /\ no_bad_free al' /\ vec_ok al' v' /\ heap_frame al al' (base v) (base v') /\
      same_shape v v' /\ count v' = count v /\ elems v' = elems v /\
      ((v' = v /\ live al' = live al /\ (sz <= cap v \/ refused al v sz)) \/
       (cap v < sz /\ cap v' = sz /\ base v' = Some (next al) /\ ~ refused al v sz))
    | Abt => False
    | Flt => False
    end.
  Proof.
    intros A NB V. unfold reserve. destruct (N.ltb_spec (cap v) sz) as [H|H].
    - pose proof V as (_ & Hc & _).
      pose proof (set_capacity_spec al v sz A NB V ltac:(lia)) as S.
      destruct (set_capacity ok false al v sz) as [[al' v']| |]; auto.
      destruct S as (S1 & S2 & S3 & S4 & S5 & S6 & S7 & [(E1 & E2 & E3)|(E1 & E2 & E3)]); peel.
      + left. peel. auto.
      + right. peel. auto.
    - pose proof (heap_frame_refl al (base v)). pose proof (same_shape_refl_aux v).
      peel. left. peel. auto.
  Qed.

  Lemma shrink_spec al v :
    alloc_ok al -> no_bad_free al -> vec_ok al v ->
    match shrink_to_fit ok false al v with
    | Ok (al', v') =>
      alloc_ok al' /\ no_bad_free al' /\ vec_ok al' v' /\ heap_frame al al' (base v) (base v') /\
      same_shape v v' /\ count v' = count v /\ elems v' = elems v /\
      ((v' = v /\ live al' = live al) \/
       (count v < cap v /\ cap v' = count v /\ base v' = Some (next al) /\ ~ refused al v (count v)))
    | Abt => False
    | Flt => False
    end.
  Proof.
    intros A NB V. unfold shrink_to_fit. destruct (N.ltb_spec (count v) (cap v)) as [H|H].
    - pose proof (set_capacity_spec al v (count v) A NB V ltac:(lia)) as S.
      destruct (set_capacity ok false al v (count v)) as [[al' v']| |]; auto.
      destruct S as (S1 & S2 & S3 & S4 & S5 & S6 & S7 & [(E1 & E2 & E3)|(E1 & E2 & E3)]); peel.
      + left. auto.
      + right. peel. auto.
    - pose proof (heap_frame_refl al (base v)). pose proof (same_shape_refl_aux v).
      peel. left. auto.
  Qed.

  Lemma cons_loop_spec n al v log :
    vec_ok al v -> count v + N.of_nat n <= cap v ->
    exists v', cons_loop n al v log = Ok (v', rev (cons_log (count v) n) ++ log) /\
               vec_ok al v' /\ same_shape v v' /\ base v' = base v /\ cap v' = cap v /\
               count v' = count v + N.of_nat n /\ elems v' = elems v ++ repeat CTORV n.
  Proof.
    revert v log. induction n as [|n IH]; intros v log V H.
    - exists v. simpl. rewrite N.add_0_r, app_nil_r. pose proof (same_shape_refl_aux v). peel. auto.
    - cbn [cons_loop].
      destruct (vec_ok_base al v V) as (b & Eb); [lia|].
      rewrite (slot_in al v (count v)) by (try assumption; try congruence; try lia).
      assert (V1 : vec_ok al (set_count v (count v + 1) (elems v ++ [CTORV]))).
      { apply vec_ok_set_count; auto; [lia|]. pose proof V as (_ & _ & Hl & _).
        rewrite app_length. simpl. lia. }
      destruct (IH _ (XCons (count v) :: log) V1) as (v' & E & V' & S' & B' & C' & N' & L').
      { simpl. lia. }
      exists v'. rewrite E. simpl in *. split.
      { f_equal. f_equal. rewrite <- app_assoc. reflexivity. }
      peel. rewrite L', <- app_assoc. reflexivity.
  Qed.

  Lemma dest_loop_spec n al v log :
    vec_ok al v -> N.of_nat n <= count v ->
    exists v', dest_loop n al v log = Ok (v', rev (dest_log (elems v) (count v) n) ++ log) /\
               vec_ok al v' /\ same_shape v v' /\ base v' = base v /\ cap v' = cap v /\
               count v' = count v - N.of_nat n /\
               elems v' = firstn (N.to_nat (count v - N.of_nat n)) (elems v).
  Proof.
    revert v log. induction n as [|n IH]; intros v log V H.
    - exists v. simpl. rewrite N.sub_0_r. pose proof V as (_ & _ & Hl & _).
      rewrite <- Hl, firstn_all. pose proof (same_shape_refl_aux v). peel. auto.
    - cbn [dest_loop]. unfold rd.
      rewrite (slot_in_count al v (count v - 1)) by (auto; lia).
      pose proof V as (_ & Hc & Hl & _).
      assert (V1 : vec_ok al (set_count v (count v - 1) (firstn (N.to_nat (count v - 1)) (elems v)))).
      { apply vec_ok_set_count; auto; [lia|]. rewrite firstn_length. lia. }
      destruct (IH _ (XDest (count v - 1) (nth (N.to_nat (count v - 1)) (elems v) POISON) :: log) V1)
        as (v' & E & V' & S' & B' & C' & N' & L').
      { simpl. lia. }
      exists v'. rewrite E. simpl in *. split.
      { f_equal. f_equal. rewrite dest_log_firstn by lia. rewrite <- app_assoc. reflexivity. }
      peel. rewrite L', firstn_firstn. f_equal. lia.
  Qed.

  (** what resize leaves in [0, sz) *)
  Definition resized (v : vec) (sz : N) : list N :=
    firstn (N.to_nat sz) (elems v) ++
    repeat (if xcons v then CTORV else POISON) (N.to_nat sz - N.to_nat (count v)).

  (** the constructor/destructor calls resize makes, oldest first *)
  Definition resize_log (v : vec) (sz : N) : list xev :=
    (if xcons v then cons_log (count v) (N.to_nat (sz - count v)) else []) ++
    (if xdest v then dest_log (elems v) (count v) (N.to_nat (count v - sz)) else []).

  Lemma resize_spec al v sz :
    alloc_ok al -> no_bad_free al -> vec_ok al v ->
    match resize ok false al v sz with
    | Ok (al', v', log) =>
      alloc_ok al' /\ no_bad_free al' /\ vec_ok al' v' /\ heap_frame al al' (base v) (base v') /\
      same_shape v v' /\ count v' = sz /\ cap v' = N.max (cap v) sz /\
      elems v' = resized v sz /\ log = resize_log v sz /\
      (sz <= cap v -> al' = al /\ base v' = base v) /\
      (cap v < sz -> ~ refused al v sz /\ base v' = Some (next al))
    | Abt => cap v < sz /\ refused al v sz
    | Flt => False
    end.
  Proof.
    intros A NB V. unfold resize.
    pose proof (reserve_spec al v sz A NB V) as RS.
    pose proof (eq_refl (reserve ok false al v sz)) as RE. unfold reserve at 2 in RE.
    destruct (reserve ok false al v sz) as [[al1 v1]| |]; try contradiction.
    destruct RS as (A1 & NB1 & V1 & F1 & S1 & C1 & L1 & Hcase).
    destruct (N.ltb_spec (cap v1) sz) as [Hlt|Hge].
    { destruct Hcase as [(-> & _ & [X|X])|(X1 & X2 & _)]; [lia| |lia]. split; auto. }
    assert (Hcap : cap v1 = N.max (cap v) sz).
    { destruct Hcase as [(-> & _ & _)|(X1 & X2 & _)]; lia. }
    assert (Hsame : sz <= cap v -> al1 = al /\ base v1 = base v).
    { intros Hle. destruct (N.ltb_spec (cap v) sz); [lia|]. inversion RE; subst; auto. }
    assert (Hgrow : cap v < sz -> ~ refused al v sz /\ base v1 = Some (next al)).
    { intros Hl. destruct Hcase as [(-> & _ & [X|X])|(X1 & X2 & X3 & X4)]; auto; try lia. }
    destruct S1 as (Se & Sc & Sd). pose proof V as (_ & Hcc & Hlen & _).
    pose proof V1 as (_ & Hcc1 & Hlen1 & _).
    set (xtor := if count v1 <? sz then xcons v1 else if sz <? count v1 then xdest v1 else false).
    destruct xtor eqn:X; unfold xtor in X; simpl.
    - (* a callback is called for every element entering / leaving *)
      destruct (N.ltb_spec (count v1) sz) as [Hg|Hs].
      + destruct (cons_loop_spec (N.to_nat (sz - count v1)) al1 v1 [] V1) as (v2 & E & V2 & S2 & B2 & C2 & N2 & L2).
        { lia. }
        rewrite E. rewrite app_nil_r, rev_involutive.
        destruct S2 as (Se2 & Sc2 & Sd2).
        assert (F2 : heap_frame al al1 (base v) (base v2)) by (rewrite B2; exact F1).
        assert (SS : same_shape v v2) by (repeat split; congruence).
        peel. split; [|split; [|split]].
        * rewrite L2, L1. unfold resized. rewrite <- Sc, X, C1.
          rewrite firstn_all2 by lia. f_equal. f_equal. lia.
        * unfold resize_log. rewrite <- Sc, X, C1.
          replace (N.to_nat (count v - sz)) with O by lia.
          destruct (xdest v); simpl; rewrite app_nil_r; reflexivity.
        * rewrite B2. apply Hsame; auto.
        * rewrite B2. apply Hgrow; auto.
      + destruct (N.ltb_spec sz (count v1)) as [Hs2|Hs2]; [|discriminate].
        destruct (dest_loop_spec (N.to_nat (count v1 - sz)) al1 v1 [] V1) as (v2 & E & V2 & S2 & B2 & C2 & N2 & L2).
        { lia. }
        rewrite E. rewrite app_nil_r, rev_involutive.
        destruct S2 as (Se2 & Sc2 & Sd2).
        assert (F2 : heap_frame al al1 (base v) (base v2)) by (rewrite B2; exact F1).
        assert (SS : same_shape v v2) by (repeat split; congruence).
        peel. split; [|split; [|split]].
        * rewrite L2, L1. unfold resized.
          replace (N.to_nat sz - N.to_nat (count v))%nat with O by lia. simpl. rewrite app_nil_r.
          f_equal. lia.
        * unfold resize_log. rewrite <- Sd, X, C1, L1.
          replace (N.to_nat (sz - count v)) with O by lia.
          destruct (xcons v); reflexivity.
        * rewrite B2. apply Hsame; auto.
        * rewrite B2. apply Hgrow; auto.
    - (* no callback: count = sz *)
      assert (V2 : vec_ok al1 (set_count v1 sz (resize_list (elems v1) (N.to_nat sz)))).
      { apply vec_ok_set_count; auto. apply resize_list_length. }
      assert (SS : same_shape v (set_count v1 sz (resize_list (elems v1) (N.to_nat sz))))
        by (repeat split; simpl; congruence).
      simpl in *. peel. split; [|split; [|split]]; auto.
      + unfold resize_list, resized. rewrite L1, Hlen.
        destruct (N.ltb_spec (count v1) sz) as [Hg|Hs].
        * rewrite <- Sc, X. reflexivity.
        * replace (N.to_nat sz - N.to_nat (count v))%nat with O by lia. reflexivity.
      + unfold resize_log. rewrite C1 in X.
        destruct (N.ltb_spec (count v) sz) as [Hg|Hs].
        * rewrite <- Sc, X. replace (N.to_nat (count v - sz)) with O by lia.
          destruct (xdest v); reflexivity.
        * replace (N.to_nat (sz - count v)) with O by lia.
          destruct (N.ltb_spec sz (count v)) as [Hs2|Hs2].
          -- rewrite <- Sd, X. destruct (xcons v); reflexivity.
          -- replace (N.to_nat (count v - sz)) with O by lia.
             destruct (xcons v), (xdest v); reflexivity.
  Qed.
End Ops.

Section Ops2.
  Variable ok : nat -> N -> bool.

  Lemma clear_spec al v :
    alloc_ok al -> no_bad_free al -> vec_ok al v ->
    match clear ok false al v with
    | Ok (al', v', log) =>
      alloc_ok al' /\ no_bad_free al' /\ vec_ok al' v' /\ heap_frame al al' (base v) None /\
      same_shape v v' /\ base v' = None /\ cap v' = 0 /\ count v' = 0 /\ elems v' = [] /\
      log = (if xdest v then dest_log (elems v) (count v) (N.to_nat (count v)) else [])
    | Abt => False
    | Flt => False
    end.
  Proof.
    intros A NB V. unfold clear.
    pose proof (resize_spec ok al v 0 A NB V) as RS.
    destruct (resize ok false al v 0) as [[[al1 v1] log]| |].
    2:{ destruct RS; lia. }
    2:{ contradiction. }
    destruct RS as (A1 & NB1 & V1 & F1 & S1 & C1 & Cp & L1 & Lg & Hsame & _).
    destruct (Hsame ltac:(lia)) as (-> & Eb).
    assert (Elog : log = if xdest v then dest_log (elems v) (count v) (N.to_nat (count v)) else []).
    { rewrite Lg. unfold resize_log. rewrite N.sub_0_r. simpl.
      destruct (xcons v); reflexivity. }
    assert (El : elems v1 = []).
    { pose proof V1 as (_ & _ & Hl & _). rewrite C1 in Hl. destruct (elems v1); auto; discriminate. }
    pose proof V1 as (He1 & _ & _ & Hb1).
    destruct (base v1) as [b|] eqn:B1.
    - destruct Hb1 as (bs & E & _ & _).
      assert (Lv : is_live al b = true) by (apply is_live_bsize; congruence). rewrite Lv.
      destruct (free_spec al b bs A NB E) as (A' & NB' & F').
      assert (V' : vec_ok (free al (Some b)) (mkVec None (esize v1) (xcons v1) (xdest v1) (count v1) 0 (elems v1))).
      { repeat split; simpl; auto; try lia. rewrite El. simpl. lia. }
      assert (SS : same_shape v (mkVec None (esize v1) (xcons v1) (xdest v1) (count v1) 0 (elems v1)))
        by exact S1.
      rewrite <- Eb. simpl. peel. auto.
    - assert (V' : vec_ok al (mkVec None (esize v1) (xcons v1) (xdest v1) (count v1) 0 (elems v1))).
      { repeat split; simpl; auto; try lia. rewrite El. simpl. lia. }
      assert (SS : same_shape v (mkVec None (esize v1) (xcons v1) (xdest v1) (count v1) 0 (elems v1)))
        by exact S1.
      rewrite <- Eb. pose proof (heap_frame_refl al None). simpl. peel. auto.
  Qed.

  (** cstl_vector_at aborts exactly when the index is at or beyond size;
      otherwise the pointer is [i * size] bytes into the block, and the whole
      element lies inside the block *)
  Lemma at_spec al v i :
    vec_ok al v ->
    (count v <= i -> at_ v i = Abt) /\
    (i < count v -> at_ v i = Ok (i * esize v) /\
       exists b bs, base v = Some b /\ block_size al b = Some bs /\ i * esize v + esize v <= bs).
  Proof.
    intros V. unfold at_. split; intros H.
    - destruct (N.leb_spec (count v) i); auto. lia.
    - destruct (N.leb_spec (count v) i); [lia|].
      destruct (offset_in_block al v i V H) as (b & bs & E1 & E2 & E3 & E4 & _).
      rewrite E3. split; auto. exists b, bs. auto.
  Qed.

  Lemma put_spec al v i x :
    vec_ok al v ->
    match put al v i x with
    | Ok v' => i < count v /\ vec_ok al v' /\ same_shape v v' /\ base v' = base v /\ cap v' = cap v /\
               count v' = count v /\ elems v' = upd (elems v) (N.to_nat i) x
    | Abt => count v <= i
    | Flt => False
    end.
  Proof.
    intros V. unfold put. destruct (N.leb_spec (count v) i) as [H|H]; auto.
    unfold wr. rewrite (slot_in_count al v i V H).
    assert (V' : vec_ok al (set_elems v (upd (elems v) (N.to_nat i) x)))
      by (apply vec_ok_set_elems; auto; apply upd_length).
    pose proof (same_shape_refl_aux v). simpl. peel. auto.
  Qed.

  Lemma scratch_ok_true al v : vec_ok al v -> 1 < count v -> scratch_ok al v = true.
  Proof.
    intros V H. unfold scratch_ok. pose proof V as (_ & Hc & _).
    destruct (vec_ok_base al v V) as (b & E); [lia|].
    rewrite (slot_in_count al v (count v - 1)) by (auto; lia).
    rewrite (slot_in al v (cap v)) by (auto; try congruence; lia). reflexivity.
  Qed.

  Lemma sort_spec al v :
    vec_ok al v ->
    exists v', sort al v = Ok v' /\ vec_ok al v' /\ same_shape v v' /\ base v' = base v /\ cap v' = cap v /\
               count v' = count v /\ elems v' = isort (elems v).
  Proof.
    intros V. unfold sort. destruct (N.ltb_spec 1 (count v)) as [H|H].
    - rewrite scratch_ok_true by auto. eexists; split; [reflexivity|].
      assert (V' : vec_ok al (set_elems v (isort (elems v))))
        by (apply vec_ok_set_elems; auto; apply isort_length).
      pose proof (same_shape_refl_aux v). simpl. peel. auto.
    - exists v. pose proof (same_shape_refl_aux v). peel.
      pose proof V as (_ & _ & Hl & _).
      destruct (elems v) as [|x [|y r]]; simpl in *; auto. lia.
  Qed.

  Lemma reverse_spec al v :
    vec_ok al v ->
    exists v', reverse al v = Ok v' /\ vec_ok al v' /\ same_shape v v' /\ base v' = base v /\ cap v' = cap v /\
               count v' = count v /\ elems v' = rev (elems v).
  Proof.
    intros V. unfold reverse. destruct (N.ltb_spec 1 (count v)) as [H|H].
    - rewrite scratch_ok_true by auto. eexists; split; [reflexivity|].
      assert (V' : vec_ok al (set_elems v (rev (elems v))))
        by (apply vec_ok_set_elems; auto; apply rev_length).
      pose proof (same_shape_refl_aux v). simpl. peel. auto.
    - exists v. pose proof (same_shape_refl_aux v). peel.
      pose proof V as (_ & _ & Hl & _).
      destruct (elems v) as [|x [|y r]]; simpl in *; auto. lia.
  Qed.
End Ops2.

Lemma option_eq_dec_aux (a b : option nat) : {a = b} + {a <> b}.
Proof. decide equality. apply Nat.eq_dec. Qed.

(** * The system of vectors over one heap *)

Definition bases_distinct (vs : list vec) : Prop :=
  forall i j vi vj b, nth_error vs i = Some vi -> nth_error vs j = Some vj ->
    base vi = Some b -> base vj = Some b -> i = j.

(** every live block is the buffer of some vector (nothing leaks) *)
Definition all_owned (al : alloc) (vs : list vec) : Prop :=
  forall b bs, block_size al b = Some bs ->
    exists i vi, nth_error vs i = Some vi /\ base vi = Some b.

Definition sys_ok (s : sys) : Prop :=
  alloc_ok (heap s) /\ no_bad_free (heap s) /\ Forall (vec_ok (heap s)) (vecs s) /\
  bases_distinct (vecs s) /\ all_owned (heap s) (vecs s).

Lemma Forall_nth_error {A} (P : A -> Prop) l i x : Forall P l -> nth_error l i = Some x -> P x.
Proof. intros F E. rewrite Forall_forall in F. apply F. eapply nth_error_In; eauto. Qed.

Lemma Forall_upd {A} (P : A -> Prop) l i x : Forall P l -> P x -> Forall P (upd l i x).
Proof.
  revert i. induction l as [|y r IH]; intros [|i] F H; simpl; auto; inversion F; subst; constructor; auto.
Qed.

Lemma nth_error_upd_Some {A} (l : list A) i j x y :
  nth_error (upd l i x) j = Some y -> (i = j /\ y = x /\ (i < length l)%nat) \/ (i <> j /\ nth_error l j = Some y).
Proof.
  rewrite nth_error_upd. destruct (Nat.eqb_spec i j) as [->|Hn].
  - destruct (Nat.ltb_spec j (length l)); [|discriminate]. intros [= <-]. left; auto.
  - intros H. right; auto.
Qed.

Lemma sys_ok_init shape :
  Forall (fun p => 1 <= fst (fst p)) shape -> sys_ok (sys_init shape).
Proof.
  intros F. unfold sys_init. repeat split; simpl.
  - apply alloc_ok_init.
  - intros b H. exact H.
  - induction F as [|[[es c] d] r H F IH]; simpl; constructor; auto. apply vec_ok_init; auto.
  - intros i j vi vj b Ei Ej Bi. apply nth_error_In in Ei. apply in_map_iff in Ei.
    destruct Ei as (p & <- & _). discriminate.
  - intros b bs H. discriminate.
Qed.

(** one vector replaced after a call that changed the heap as [heap_frame] says *)
Lemma sys_ok_upd s i v al' v' :
  sys_ok s -> nth_error (vecs s) i = Some v ->
  alloc_ok al' -> no_bad_free al' -> vec_ok al' v' ->
  heap_frame (heap s) al' (base v) (base v') ->
  sys_ok (mkSys (upd (vecs s) i v') al').
Proof.
  intros (A & NB & F & D & O) E A' NB' V' (F1 & F2 & F3).
  assert (Hi : (i < length (vecs s))%nat) by (apply nth_error_Some; congruence).
  pose proof (Forall_nth_error _ _ _ _ F E) as V.
  (* a block of another vector is neither the old nor the new buffer of v *)
  assert (Other : forall j u b, j <> i -> nth_error (vecs s) j = Some u -> base u = Some b ->
                                Some b <> base v /\ Some b <> base v').
  { intros j u b Hj Ej Eb. pose proof (Forall_nth_error _ _ _ _ F Ej) as (_ & _ & _ & Hb).
    rewrite Eb in Hb. destruct Hb as (bs & Ebs & _).
    assert (N1 : Some b <> base v).
    { intros X. apply Hj. symmetry in X. exact (D j i u v b Ej E Eb X). }
    split; auto. intros X.
    destruct (option_eq_dec_aux (base v) (base v')) as [Q|Q].
    - rewrite <- Q in X. contradiction.
    - destruct (F3 Q) as (_ & Fresh). symmetry in X. rewrite (Fresh b X) in Ebs. discriminate. }
  repeat split; simpl; auto.
  - (* every vector *)
    apply Forall_forall. intros u Hu. apply In_nth_error in Hu. destruct Hu as (j & Ej).
    apply nth_error_upd_Some in Ej. destruct Ej as [(-> & -> & _)|(Hn & Ej)]; auto.
    pose proof (Forall_nth_error _ _ _ _ F Ej) as Vu.
    eapply vec_ok_frame; eauto. intros b Eb.
    destruct (Other j u b ltac:(auto) Ej Eb). apply F1; auto.
  - (* distinct buffers *)
    intros j k vj vk b Ej Ek Bj Bk.
    apply nth_error_upd_Some in Ej. apply nth_error_upd_Some in Ek.
    destruct Ej as [(<- & -> & _)|(Hj & Ej)], Ek as [(<- & -> & _)|(Hk & Ek)]; auto.
    + destruct (Other k vk b ltac:(auto) Ek Bk). congruence.
    + destruct (Other j vj b ltac:(auto) Ej Bj). congruence.
    + eapply D; eauto.
  - (* ownership *)
    intros b bs Eb.
    destruct (option_eq_dec_aux (Some b) (base v')) as [Q|Q].
    { exists i, v'. split; auto. apply nth_error_upd_same; auto. }
    assert (Old : block_size (heap s) b = Some bs /\ Some b <> base v).
    { destruct (option_eq_dec_aux (base v) (base v')) as [Q2|Q2].
      - rewrite (F2 Q2) in Eb. split; auto. congruence.
      - destruct (option_eq_dec_aux (Some b) (base v)) as [Q3|Q3].
        + destruct (F3 Q2) as (Gone & _). symmetry in Q3. rewrite (Gone b Q3) in Eb. discriminate.
        + rewrite F1 in Eb by auto. auto. }
    destruct Old as (Eo & Nv). destruct (O b bs Eo) as (j & u & Ej & Bu).
    assert (j <> i) by (intros ->; congruence).
    exists j, u. split; auto. rewrite nth_error_upd_other; auto.
Qed.

Section Sys.
  Variable ok : nat -> N -> bool.
  Notation step := (VectorModel.step ok false).

  (** when an operation of the repaired code aborts *)
  Definition abort_ok (s : sys) (o : op) : Prop :=
    match o with
    | At i k | Put i k _ => exists v, nth_error (vecs s) i = Some v /\ count v <= k
    | Resize i n => exists v, nth_error (vecs s) i = Some v /\ cap v < n /\ refused ok (heap s) v n
    | _ => False
    end.

  Lemma upd_same_nth {A} (l : list A) i x : nth_error l i = Some x -> upd l i x = l.
  Proof.
    revert i. induction l as [|y r IH]; intros [|i] H; simpl in *; auto; try discriminate.
    - congruence.
    - rewrite IH; auto.
  Qed.

  Lemma sys_ok_same_heap s i v v' :
    sys_ok s -> nth_error (vecs s) i = Some v -> vec_ok (heap s) v' -> base v' = base v ->
    sys_ok (mkSys (upd (vecs s) i v') (heap s)).
  Proof.
    intros S E V' B. pose proof S as (A & NB & _).
    eapply sys_ok_upd; eauto. rewrite B. apply heap_frame_refl.
  Qed.

  Theorem step_ok s o :
    sys_ok s ->
    match step s o with
    | Done s' out => sys_ok s'
    | Precond => True
    | Abort => abort_ok s o
    | Fault => False
    end.
  Proof.
    intros S. pose proof S as (A & NB & F & D & O).
    destruct o as [i n|i|i n|i|i k|i k x|a b|i|i]; cbn [VectorModel.step]; unfold with_vec.
    - (* reserve *)
      destruct (nth_error (vecs s) i) as [v|] eqn:E; auto.
      pose proof (Forall_nth_error _ _ _ _ F E) as V.
      pose proof (reserve_spec ok (heap s) v n A NB V) as R.
      destruct (reserve ok false (heap s) v n) as [[al' v']| |]; simpl; auto.
      destruct R as (A' & NB' & V' & Fr & _). eapply sys_ok_upd; eauto.
    - (* shrink *)
      destruct (nth_error (vecs s) i) as [v|] eqn:E; auto.
      pose proof (Forall_nth_error _ _ _ _ F E) as V.
      pose proof (shrink_spec ok (heap s) v A NB V) as R.
      destruct (shrink_to_fit ok false (heap s) v) as [[al' v']| |]; simpl; auto.
      destruct R as (A' & NB' & V' & Fr & _). eapply sys_ok_upd; eauto.
    - (* resize *)
      destruct (nth_error (vecs s) i) as [v|] eqn:E; auto.
      pose proof (Forall_nth_error _ _ _ _ F E) as V.
      pose proof (resize_spec ok (heap s) v n A NB V) as R.
      destruct (resize ok false (heap s) v n) as [[[al' v'] log]| |]; simpl; auto.
      + destruct R as (A' & NB' & V' & Fr & _). eapply sys_ok_upd; eauto.
      + exists v. auto.
    - (* clear *)
      destruct (nth_error (vecs s) i) as [v|] eqn:E; auto.
      pose proof (Forall_nth_error _ _ _ _ F E) as V.
      pose proof (clear_spec ok (heap s) v A NB V) as R.
      destruct (clear ok false (heap s) v) as [[[al' v'] log]| |]; simpl; auto.
      destruct R as (A' & NB' & V' & Fr & _ & B' & _). eapply sys_ok_upd; eauto. rewrite B'. exact Fr.
    - (* at *)
      destruct (nth_error (vecs s) i) as [v|] eqn:E; auto.
      pose proof (Forall_nth_error _ _ _ _ F E) as V.
      destruct (at_spec (heap s) v k V) as (H1 & H2). unfold at_ in *.
      destruct (N.leb_spec (count v) k); auto. exists v; auto.
    - (* put *)
      destruct (nth_error (vecs s) i) as [v|] eqn:E; auto.
      pose proof (Forall_nth_error _ _ _ _ F E) as V.
      pose proof (put_spec (heap s) v k x V) as R.
      destruct (put (heap s) v k x) as [v'| |]; simpl; auto.
      + destruct R as (_ & V' & _ & B' & _). eapply sys_ok_same_heap; eauto.
      + exists v; auto.
    - (* swap *)
      destruct (Nat.eqb_spec a b) as [->|Hab]; auto.
      destruct (nth_error (vecs s) a) as [va|] eqn:Ea; auto.
      destruct (nth_error (vecs s) b) as [vb|] eqn:Eb; auto.
      pose proof (Forall_nth_error _ _ _ _ F Ea) as Va.
      pose proof (Forall_nth_error _ _ _ _ F Eb) as Vb.
      assert (La : (a < length (vecs s))%nat) by (apply nth_error_Some; congruence).
      assert (Lb : (b < length (vecs s))%nat) by (apply nth_error_Some; congruence).
      assert (Nth : forall j u, nth_error (upd (upd (vecs s) a vb) b va) j = Some u ->
                 (j = b /\ u = va) \/ (j = a /\ u = vb) \/ (j <> a /\ j <> b /\ nth_error (vecs s) j = Some u)).
      { intros j u H. apply nth_error_upd_Some in H. destruct H as [(<- & -> & _)|(Hn & H)]; auto.
        apply nth_error_upd_Some in H. destruct H as [(<- & -> & _)|(Hn2 & H)]; auto. }
      repeat split; simpl; auto.
      + apply Forall_upd; auto. apply Forall_upd; auto.
      + intros j k vj vk c Ej Ek Bj Bk.
        apply Nth in Ej. apply Nth in Ek.
        destruct Ej as [(-> & ->)|[(-> & ->)|(J1 & J2 & Ej)]], Ek as [(-> & ->)|[(-> & ->)|(K1 & K2 & Ek)]]; auto.
        * exfalso. apply Hab. eapply D; eauto.
        * exfalso. apply K1. symmetry. eapply D; eauto.
        * exfalso. apply Hab. eapply D; eauto.
        * exfalso. apply K2. symmetry. eapply D; eauto.
        * exfalso. apply J1. eapply D; eauto.
        * exfalso. apply J2. eapply D; eauto.
        * eapply D; eauto.
      + intros c bs Ec. destruct (O c bs Ec) as (j & u & Ej & Bu).
        destruct (Nat.eq_dec j a) as [->|Ja].
        { exists b, u. split; auto. rewrite nth_error_upd_same by (rewrite upd_length; auto). congruence. }
        destruct (Nat.eq_dec j b) as [->|Jb].
        { exists a, u. split; auto. rewrite nth_error_upd_other by auto.
          rewrite nth_error_upd_same by auto. congruence. }
        exists j, u. split; auto. rewrite !nth_error_upd_other by auto. auto.
    - (* sort *)
      destruct (nth_error (vecs s) i) as [v|] eqn:E; auto.
      pose proof (Forall_nth_error _ _ _ _ F E) as V.
      destruct (sort_spec (heap s) v V) as (v' & Es & V' & _ & B' & _). rewrite Es. simpl.
      eapply sys_ok_same_heap; eauto.
    - (* reverse *)
      destruct (nth_error (vecs s) i) as [v|] eqn:E; auto.
      pose proof (Forall_nth_error _ _ _ _ F E) as V.
      destruct (INT_MAX <? count v); auto.
      destruct (reverse_spec (heap s) v V) as (v' & Es & V' & _ & B' & _). rewrite Es. simpl.
      eapply sys_ok_same_heap; eauto.
  Qed.

  Theorem reach_ok shape s :
    Forall (fun p => 1 <= fst (fst p)) shape -> reach step (sys_init shape) s -> sys_ok s.
  Proof.
    intros Fs R. induction R as [|s o s' out R IH E]; [apply sys_ok_init; auto|].
    pose proof (step_ok s o IH) as H. rewrite E in H. exact H.
  Qed.

  Theorem run_safe s ops :
    sys_ok s ->
    match fst (run step s ops) with
    | Done s' _ => sys_ok s'
    | Fault => False
    | _ => True
    end.
  Proof.
    revert s. induction ops as [|o ops IH]; intros s S; simpl; auto.
    pose proof (step_ok s o S) as H.
    destruct (step s o) as [s' out| | |]; simpl; auto.
    specialize (IH s' H). destruct (run step s' ops); simpl in *; auto.
  Qed.

  (** nothing leaks: when no vector holds a buffer, no block is live *)
  Theorem no_leak s :
    sys_ok s -> Forall (fun v => base v = None) (vecs s) -> live (heap s) = [].
  Proof.
    intros (_ & _ & _ & _ & O) Fn. apply bsize_nil_all. intros b.
    destruct (bsize (live (heap s)) b) as [bs|] eqn:E; auto.
    destruct (O b bs E) as (i & v & Ei & Bv).
    pose proof (Forall_nth_error _ _ _ _ Fn Ei) as H. simpl in H. congruence.
  Qed.
End Sys.

(** * Clearing every vector releases everything *)
Section ClearAll.
  Variable ok : nat -> N -> bool.
  Notation step := (VectorModel.step ok false).

  Lemma step_clear s i v :
    sys_ok s -> nth_error (vecs s) i = Some v ->
    exists al' v', step s (Clear i) = Done (mkSys (upd (vecs s) i v') al') (flat_map xev_out
                     (if xdest v then dest_log (elems v) (count v) (N.to_nat (count v)) else [])) /\
                   base v' = None /\ sys_ok (mkSys (upd (vecs s) i v') al').
  Proof.
    intros S E. pose proof S as (A & NB & F & _).
    pose proof (Forall_nth_error _ _ _ _ F E) as V.
    pose proof (clear_spec ok (heap s) v A NB V) as C.
    pose proof (step_ok ok s (Clear i) S) as St.
    cbn [VectorModel.step] in *. unfold with_vec in *. rewrite E in *.
    destruct (clear ok false (heap s) v) as [[[al' v'] log]| |]; try contradiction.
    destruct C as (_ & _ & _ & _ & _ & B & _ & _ & _ & ->). simpl in *.
    exists al', v'. auto.
  Qed.

  (** bases None on a prefix of indices, cleared one by one *)
  Lemma clear_from s k n :
    sys_ok s -> (k + n = length (vecs s))%nat ->
    (forall j v, (j < k)%nat -> nth_error (vecs s) j = Some v -> base v = None) ->
    match fst (run step s (map Clear (seq k n))) with
    | Done s' _ => sys_ok s' /\ Forall (fun v => base v = None) (vecs s')
    | _ => False
    end.
  Proof.
    revert s k. induction n as [|n IH]; intros s k S L P; cbn [seq map run fst].
    - split; auto. apply Forall_forall. intros v Hv. apply In_nth_error in Hv. destruct Hv as (j & Ej).
      apply (P j v); auto. assert (j < length (vecs s))%nat by (apply nth_error_Some; congruence). lia.
    - assert (Hk : (k < length (vecs s))%nat) by lia.
      destruct (nth_error (vecs s) k) as [v|] eqn:E; [|apply nth_error_None in E; lia].
      destruct (step_clear s k v S E) as (al' & v' & St & B & S'). rewrite St.
      specialize (IH (mkSys (upd (vecs s) k v') al') (Datatypes.S k) S').
      simpl in IH. rewrite upd_length in IH.
      assert (L' : (Datatypes.S k + n)%nat = length (vecs s)) by lia.
      assert (P' : forall j u, (j < Datatypes.S k)%nat -> nth_error (upd (vecs s) k v') j = Some u -> base u = None).
      { intros j u Hj Ej. apply nth_error_upd_Some in Ej. destruct Ej as [(_ & -> & _)|(Hn & Ej)]; auto.
        apply (P j u); auto. lia. }
      specialize (IH L' P').
      destruct (run step (mkSys (upd (vecs s) k v') al') (map Clear (seq (Datatypes.S k) n))) as [r outs].
      simpl in *. exact IH.
  Qed.

  Theorem clear_all_no_leak s :
    sys_ok s ->
    match fst (run step s (map Clear (seq 0 (length (vecs s))))) with
    | Done s' _ => live (heap s') = []
    | _ => False
    end.
  Proof.
    intros S. pose proof (clear_from s 0 (length (vecs s)) S eq_refl) as H.
    specialize (H ltac:(intros; lia)).
    destruct (fst (run step s (map Clear (seq 0 (length (vecs s)))))); auto.
    destruct H as (S' & Fn). apply no_leak; auto.
  Qed.
End ClearAll.
