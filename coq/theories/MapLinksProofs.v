(** C08, parent links of the map's tree.

    1. Every map operation acts on the tree component (tree + size field)
       exactly as the tree operations [tree_ops] of the scripted red-black
       tree system (TreeModel.step, kind RB), for every key function that
       agrees with the stored keys on the nodes linked before and after the
       operation ([map_step_tree]).
    2. Hence (per-operation simulation TreeLinksSim.lrun_sim) the tree of
       every reachable map state is represented, with correct parent links,
       by a node memory that the pointer-level tree code (TreeLinksModel.lstep)
       produces for exactly these calls ([map_run_links]).
    3. The pointer-level map model MapLinksModel.mlstep (map.c calling the
       pointer-level rbtree functions) has the runs of MapModel.step: same
       outputs, same outcome, related states ([mlstep_sim], [mlrun_sim],
       [mlreach_sim]). *)
From Cstl Require Import Prelude AllocModel TreeModel TreeProofs RBProofs TreeSysProofs MapModel MapProofs
     TreeLinksModel TreeLinksProofs TreeLinksOps TreeLinksSim MapLinksModel.
Local Open Scope Z_scope.

Local Set Default Proof Using "Type".
Section MapLinksSys.
  Variable ck : nat -> Z.
  Variable ok : nat -> N -> bool.
  Notation step := (MapModel.step ck ok).
  Notation map_inv := (MapProofs.map_inv ck).
  Notation tree_ops := (MapLinksModel.tree_ops ck ok).
  Notation nkey := (MapLinksModel.nkey ck).

  (** the embedded tree of a map state as a state of the scripted tree system *)
  Definition tst (s : mstate) : tstate := mkS (mt s) (msz s).

  (** the invariant of the tree system holds for the tree of a map, under
      every key function that agrees with the keys the tree is ordered by *)
  Lemma tinvk_map key s : map_inv s -> keyed key (inorder (mt s)) -> tinvk key RB (tst s).
  Proof.
    intros I K. split; [|exact K]. unfold tinv, tst, bst. cbn [tr sz].
    split; [apply ssorted_sorted, (inv_sorted ck s I)|]. split; [apply (inv_nodup ck s I)|].
    split; [apply (inv_size ck s I)|]. intros _. apply (inv_rb ck s I).
  Qed.

  (** the stored keys: the [key] field of a linked node canonicalises to the
      key the tree holds for it *)
  Lemma nkey_tree s e : map_inv s -> In e (inorder (mt s)) -> nkey (mtab s) (eid e) = ekey e.
  Proof.
    intros I He. destruct (inv_tab ck s I e He) as (k & v & Hg & Hk). unfold MapLinksModel.nkey.
    rewrite Hg. exact Hk.
  Qed.

  Lemma keyed_nkey s : map_inv s -> keyed (nkey (mtab s)) (inorder (mt s)).
  Proof.
    intros I. apply Forall_forall. intros e He. symmetry. apply nkey_tree; auto.
  Qed.

  Lemma fresh_not_node s : map_inv s -> ~ In (next (mal s)) (nodes s).
  Proof. intros I Hi. apply (inv_fresh ck s I) in Hi. lia. Qed.

  Lemma bt_find_none t z : fst (bt_find t z) = None -> exists c, find_ctx z t [] = (E, c).
  Proof.
    unfold bt_find. destruct (find_ctx z t []) as [sub c]. cbn [fst].
    destruct sub; cbn [root_elem]; [eauto|discriminate].
  Qed.

  Lemma bt_find_eq t z :
    bt_find t z = (root_elem (fst (find_ctx z t [])), top_elem (snd (find_ctx z t []))).
  Proof. unfold bt_find. destruct (find_ctx z t []). reflexivity. Qed.

  (** * 1. what a map operation does to its tree *)

  (** find + cstl_rbtree_insert of the fresh node below the reported parent *)
  Lemma tree_inserth key s k t' :
    map_inv s ->
    rb_insert_from (option_map eid (snd (bt_find (mt s) (ck k)))) (mt s) (mkE (next (mal s)) (ck k))
    = Some (Some t') ->
    key (next (mal s)) = ck k ->
    TreeModel.step key RB (tst s) (InsertH (next (mal s))) =
    Done (mkS t' (msz s + 1)) [zelem (snd (bt_find (mt s) (ck k)))].
  Proof.
    intros I Hi Kb. cbn [TreeModel.step]. unfold tst. cbn [tr sz].
    assert (Eh : held (mt s) (next (mal s)) = false).
    { destruct (held (mt s) (next (mal s))) eqn:Eh; auto. apply held_spec in Eh.
      exfalso. apply (fresh_not_node s I). exact Eh. }
    rewrite Eh, Kb. unfold do_insert. cbn [tr sz]. rewrite Hi. reflexivity.
  Qed.

  (** find + __cstl_rbtree_erase of the found node *)
  Lemma tree_erase key s z e :
    map_inv s -> fst (bt_find (mt s) z) = Some e ->
    exists t' nc nl nr c,
      find_ctx z (mt s) [] = (T nc nl e nr, c) /\
      locate (eid e) (mt s) [] = Some (T nc nl e nr, c) /\
      rb_erase_at nc nl e nr c = Some t' /\
      In e (inorder (mt s)) /\
      (forall y, In y (inorder t') -> In y (inorder (mt s))) /\
      TreeModel.step key RB (tst s) (Erase z) = Done (mkS t' (msz s - 1)) [zelem (Some e)].
  Proof.
    intros I Ef. destruct (bt_find_ctx _ _ _ Ef) as (nc & nl & nr & c & Ec).
    destruct (erase_found_ok _ _ _ _ _ _ _ (inv_rb ck s I) Ec) as (t' & Ee & _ & _ & l1 & l2 & H1 & H2).
    exists t', nc, nl, nr, c. split; [exact Ec|].
    split; [apply (locate_found _ _ _ _ _ _ _ _ (inv_nodup ck s I) Ec)|]. split; [exact Ee|].
    split; [rewrite H1; apply in_or_app; cbn; auto|].
    split.
    - intros y Hy. rewrite H2 in Hy. rewrite H1. apply in_app_or in Hy. apply in_or_app. cbn. tauto.
    - cbn [TreeModel.step]. unfold rb_erase, tst. cbn [tr sz]. rewrite Ec, Ee. reflexivity.
  Qed.

  (** every map operation acts on (tree, size field) as the tree operations
      [tree_ops]; [key] has to give the stored key of a node that is linked
      in by the operation; the elements of the old nodes are not touched *)
  Theorem map_step_tree key s o s' out :
    map_inv s -> step s o = Done s' out ->
    (forall e, In e (inorder (mt s')) -> ~ In (eid e) (nodes s) -> ekey e = key (eid e)) ->
    (exists touts, run (TreeModel.step key RB) (tst s) (tree_ops s o) = (Done (tst s') [], touts)) /\
    (forall e, In e (inorder (mt s')) -> In e (inorder (mt s)) \/ ~ In (eid e) (nodes s)).
  Proof.
    intros I Hs K'. unfold MapLinksModel.tree_ops.
    destruct o as [k v it|k|k it|k| |cb|]; cbn [MapModel.step] in Hs.
    - (* insert *)
      rewrite map_find_node_eq. cbn [fst].
      unfold map_insert in Hs. rewrite map_find_node_eq in Hs.
      destruct (fst (bt_find (mt s) (ck k))) as [e|] eqn:Ef; cbn [option_map] in Hs |- *.
      + assert (s' = s) as ->.
        { destruct it; [destruct (iterator_init _ _); [|discriminate]|]; congruence. }
        split; [|auto]. cbn [run TreeModel.step]. destruct (bt_find (tr (tst s)) (ck k)). eexists; reflexivity.
      + destruct (grant ok (mal s) NODE_SIZE) eqn:Eg.
        * rewrite (malloc_granted _ _ _ Eg) in Hs.
          set (x := mkE (next (mal s)) (ck k)) in *.
          destruct (hinted_insert_ok (mt s) x (inv_sorted ck s I) (inv_nodup ck s I) (inv_rb ck s I))
            as (t' & Hi & _ & _ & Hin).
          cbn [ekey x] in Hi. rewrite Hi in Hs.
          assert (Es' : mt s' = t' /\ msz s' = (msz s + 1)%N).
          { destruct it; [destruct (iterator_init _ _); [|discriminate]|]; injection Hs as <- _; auto. }
          destruct Es' as (Et & Ez).
          assert (Hx : forall e, In e (inorder t') -> e = x \/ In e (inorder (mt s))).
          { intros e He. rewrite Hin in He. apply (Permutation_in _ (ins_sorted_perm x _)) in He.
            destruct He as [<-|He]; auto. }
          assert (Kb : key (next (mal s)) = ck k).
          { symmetry. apply (K' x).
            - rewrite Et, Hin. apply (Permutation_in _ (Permutation_sym (ins_sorted_perm x _))). cbn; auto.
            - apply (fresh_not_node s I). }
          split.
          -- cbn [run]. rewrite (tree_inserth key s k t' I Hi Kb). unfold tst. rewrite Et, Ez.
             eexists; reflexivity.
          -- rewrite Et. intros e He. destruct (Hx e He) as [->|Ho]; auto.
             right. apply (fresh_not_node s I).
        * rewrite (malloc_denied _ _ _ Eg) in Hs.
          assert (Es' : mt s' = mt s /\ msz s' = msz s).
          { destruct it; cbn [iterator_init] in Hs; injection Hs as <- _; auto. }
          destruct Es' as (Et & Ez). unfold tst. rewrite Et, Ez. split; [|auto].
          cbn [run TreeModel.step tr]. destruct (bt_find (mt s) (ck k)). eexists; reflexivity.
    - (* find *)
      assert (s' = s) as -> by (destruct (map_find ck s k); [congruence|discriminate]).
      split; [|auto]. cbn [run TreeModel.step]. destruct (bt_find (tr (tst s)) (ck k)). eexists; reflexivity.
    - (* erase *)
      unfold map_erase, map_find in Hs. rewrite map_find_node_eq in Hs. cbn [fst] in Hs.
      destruct (fst (bt_find (mt s) (ck k))) as [e|] eqn:Ef; cbn [option_map] in Hs.
      + destruct (tree_erase key s (ck k) e I Ef) as (t' & nc & nl & nr & c & Ec & El & Ee & He & Hsub & Et).
        rewrite (iterator_init_node ck s e I He) in Hs. cbn [inode] in Hs.
        unfold map_erase_iterator in Hs. cbn [inode] in Hs. rewrite El, Ee in Hs.
        injection Hs as <- _. cbn [mt msz]. split; [|auto].
        cbn [run]. rewrite Et. eexists; reflexivity.
      + cbn [iterator_init inode iter_end] in Hs. injection Hs as <- _. split; [|auto].
        destruct (bt_find_none _ _ Ef) as (c & Ec).
        cbn [run TreeModel.step]. unfold rb_erase, tst. cbn [tr sz]. rewrite Ec.
        eexists; reflexivity.
    - (* erase through the iterator *)
      unfold map_find in Hs. rewrite map_find_node_eq in Hs. cbn [fst] in Hs.
      destruct (fst (bt_find (mt s) (ck k))) as [e|] eqn:Ef; cbn [option_map] in Hs.
      + destruct (tree_erase key s (ck k) e I Ef) as (t' & nc & nl & nr & c & Ec & El & Ee & He & Hsub & Et).
        rewrite (iterator_init_node ck s e I He) in Hs. cbn [inode] in Hs.
        unfold map_erase_iterator in Hs. cbn [inode] in Hs. rewrite El, Ee in Hs.
        injection Hs as <- _. cbn [mt msz]. split; [|auto].
        cbn [run]. rewrite Et. eexists; reflexivity.
      + cbn [iterator_init inode iter_end] in Hs. discriminate.
    - (* size *)
      injection Hs as <- _. split; [|auto]. cbn [run]. eexists; reflexivity.
    - (* clear *)
      rewrite (clear_ok ck s cb I) in Hs. injection Hs as <- _. split; [|intros e []].
      cbn [run TreeModel.step]. unfold tst, cleared. cbn [tr sz mt msz].
      destruct (mt s) eqn:Et.
      + rewrite (inv_size ck s I), Et. cbn. eexists; reflexivity.
      + eexists; reflexivity.
    - (* live *)
      injection Hs as <- _. split; [|auto]. cbn [run]. eexists; reflexivity.
  Qed.

  (** ** the key function of one operation: the stored key of the node
      before the operation; for a node that gets its memory in the operation,
      the key stored then.  (Block ids are handed out in increasing order,
      so the two never disagree; the definition does not rely on that.) *)
  Definition step_key (s s' : mstate) (n : nat) : Z :=
    match tab_get (mtab s) n with
    | Some (k, _) => ck k
    | None => nkey (mtab s') n
    end.

  Lemma step_key_old s s' : map_inv s -> keyed (step_key s s') (inorder (mt s)).
  Proof.
    intros I. apply Forall_forall. intros e He. unfold step_key.
    destruct (inv_tab ck s I e He) as (k & v & -> & Hk). auto.
  Qed.

  Lemma step_key_new s s' e :
    map_inv s -> map_inv s' -> In e (inorder (mt s')) -> ~ In (eid e) (nodes s) ->
    ekey e = step_key s s' (eid e).
  Proof.
    intros I I' He Hn. unfold step_key. destruct (tab_get (mtab s) (eid e)) as [[k v]|] eqn:Eg.
    - exfalso. apply Hn. apply (inv_tabdom ck s I). congruence.
    - symmetry. apply nkey_tree; auto.
  Qed.

  (** [step_key] agrees with the stored keys on all nodes linked before and
      on all nodes linked after the operation *)
  Lemma step_key_agrees s o s' out :
    map_inv s -> step s o = Done s' out ->
    keyed (step_key s s') (inorder (mt s)) /\ keyed (step_key s s') (inorder (mt s')).
  Proof.
    intros I Hs. split; [apply step_key_old; auto|].
    assert (I' : map_inv s').
    { pose proof (step_correct ck ok s o I) as H. rewrite Hs in H. tauto. }
    destruct (map_step_tree (step_key s s') s o s' out I Hs) as (_ & Hel).
    { intros e He Hn. apply step_key_new; auto. }
    apply Forall_forall. intros e He. destruct (Hel e He) as [Ho|Hn].
    - pose proof (step_key_old s s' I) as K. unfold keyed in K. rewrite Forall_forall in K. auto.
    - apply step_key_new; auto.
  Qed.

  (** * 2. the pointer-level tree code, run for the tree calls of the map *)

  (** one map operation: the pointer-level tree operations [tree_ops] lead
      from a representation of the old tree to a representation of the new *)
  Theorem map_step_links s o s' out sl :
    map_inv s -> step s o = Done s' out -> lrel sl (tst s) ->
    exists sl' touts,
      run (lstep (step_key s s') RB) sl (tree_ops s o) = (Done sl' [], touts) /\ lrel sl' (tst s').
  Proof.
    intros I Hs L.
    assert (I' : map_inv s').
    { pose proof (step_correct ck ok s o I) as H. rewrite Hs in H. tauto. }
    destruct (map_step_tree (step_key s s') s o s' out I Hs) as ((touts & Er) & _).
    { intros e He Hn. apply step_key_new; auto. }
    pose proof (lrun_sim (step_key s s') RB (tree_ops s o) sl (tst s) L
                         (tinvk_map _ s I (step_key_old s s' I))) as H.
    rewrite Er in H. destruct H as (sl' & El & L' & _). eauto.
  Qed.
End MapLinksSys.

(** states of the pointer-level red-black tree system reachable from the empty
    tree by completed operations of [lstep], each under some key function
    (the comparison callback of the moment) *)
Inductive lreachk : lstate -> Prop :=
| lreachk_init : lreachk l_init
| lreachk_step key sl o sl' out : lreachk sl -> lstep key RB sl o = Done sl' out -> lreachk sl'.

Lemma lreachk_run key ops : forall sl sl' o1 outs,
  lreachk sl -> run (lstep key RB) sl ops = (Done sl' o1, outs) -> lreachk sl'.
Proof.
  induction ops as [|o ops IH]; intros sl sl' o1 outs R; cbn [run].
  - intros [= <- _ _]. exact R.
  - destruct (lstep key RB sl o) as [sl1 out| | |] eqn:Es; try discriminate.
    destruct (run (lstep key RB) sl1 ops) as [fin outs1] eqn:Er. intros [= -> _].
    eapply IH; [|exact Er]. econstructor; eauto.
Qed.

Section MapLinksRun.
  Variable ck : nat -> Z.
  Variable ok : nat -> N -> bool.
  Notation step := (MapModel.step ck ok).
  Notation map_inv := (MapProofs.map_inv ck).

  (** along every operation list of the map: a node memory that represents
      the final tree, produced by the pointer-level tree code *)
  Theorem map_run_links ops : forall s sl s' o1 outs,
    map_inv s -> lreachk sl -> lrel sl (tst s) ->
    run step s ops = (Done s' o1, outs) ->
    exists sl', lreachk sl' /\ lrel sl' (tst s').
  Proof.
    induction ops as [|o ops IH]; intros s sl s' o1 outs I R L; cbn [run].
    - intros [= <- _ _]. eauto.
    - destruct (step s o) as [s1 out| | |] eqn:Es; try discriminate.
      destruct (run step s1 ops) as [fin outs1] eqn:Er. intros [= -> _].
      destruct (map_step_links ck ok s o s1 out sl I Es L) as (sl1 & touts & El & L1).
      assert (I1 : map_inv s1).
      { pose proof (step_correct ck ok s o I) as H. rewrite Es in H. tauto. }
      eapply (IH s1 sl1); eauto. eapply lreachk_run; eauto.
  Qed.
End MapLinksRun.

(** * 3. The pointer-level map model has the runs of the functional one *)
Lemma pred_raddr t : option_map pred (raddr t) = option_map eid (root_elem t).
Proof. destruct t; reflexivity. Qed.

Lemma lstep_inserth_inv key l t b f par l' out :
  decode key l = Some t -> held t b = false ->
  l_find key (lfuel l) (lm l) (key b) (lroot l) None = Some (f, par) ->
  lstep key RB l (InsertH b) = Done l' out ->
  exists m' root', l_rb_insert key (lfuel l) (lm l) (lroot l) (addr b) par = Some (m', root') /\
                   l' = mkL m' root' (lsz l + 1).
Proof.
  intros D H F E. cbn [lstep] in E. rewrite D, H, F in E. unfold l_do_insert in E.
  destruct (l_rb_insert key (lfuel l) (lm l) (lroot l) (addr b) par) as [[m' root']|]; [|discriminate].
  injection E as <- _. eauto.
Qed.

Lemma lstep_erase_inv key l z a p l' out :
  l_find key (lfuel l) (lm l) z (lroot l) None = Some (Some a, p) ->
  lstep key RB l (Erase z) = Done l' out ->
  exists m' root', l_rb_erase (lfuel l) (lm l) (lroot l) a = Some (m', root') /\
                   l' = mkL m' root' (lsz l - 1).
Proof.
  intros F E. cbn [lstep] in E. rewrite F in E.
  destruct (l_rb_erase (lfuel l) (lm l) (lroot l) a) as [[m' root']|]; [|discriminate].
  injection E as <- _. eauto.
Qed.

Section MapLinksSim.
  Variable ck : nat -> Z.
  Variable ok : nat -> N -> bool.
  Notation step := (MapModel.step ck ok).
  Notation mlstep := (MapLinksModel.mlstep ck ok).
  Notation map_inv := (MapProofs.map_inv ck).
  Notation nkey := (MapLinksModel.nkey ck).

  (** the pointer-level map state represents the functional one: the node
      memory holds the tree (with parent links); size field, node table and
      heap are the same *)
  Definition mlrel (sl : mlstate) (s : mstate) : Prop :=
    lrel (ml sl) (tst s) /\ mltab sl = mtab s /\ mlal sl = mal s.

  Lemma mlrel_init : mlrel ml_init m_init.
  Proof. split; [apply lrel_init|auto]. Qed.

  (** the loop of cstl_bintree_find on the node memory *)
  Lemma l_find_map key l s z :
    lrel l (tst s) -> map_inv s -> keyed key (inorder (mt s)) ->
    l_find key (lfuel l) (lm l) z (lroot l) None =
    Some (raddr (fst (find_ctx z (mt s) [])), ctx_par (snd (find_ctx z (mt s) []))).
  Proof.
    intros L I K. pose proof L as (Hz & Hr & R). cbn [tst tr sz] in Hz, Hr, R.
    pose proof (lrel_fuel key RB l (tst s) L (tinvk_map ck key s I K)) as Fu. cbn [tst tr] in Fu.
    assert (Hth : (theight (mt s) <= lfuel l)%nat).
    { rewrite Fu. pose proof (theight_size (mt s)). lia. }
    pose proof (l_find_rep key (lm l) z (mt s) [] (lfuel l) Hth R K) as Fd.
    cbn [ctx_par] in Fd. rewrite <- Hr in Fd. exact Fd.
  Qed.

  Lemma ml_find_eq sl s k : mlrel sl s -> map_inv s -> ml_find ck sl k = map_find ck s k.
  Proof.
    intros (L & Et & Ea) I. unfold ml_find, ml_find_node, map_find. rewrite Et.
    rewrite (l_find_map _ (ml sl) s (ck k) L I (keyed_nkey ck s I)).
    rewrite pred_raddr, map_find_node_eq, bt_find_eq. reflexivity.
  Qed.

  (** cstl_map_erase_iterator on the iterator a successful find returned *)
  Lemma erase_iterator_sim sl s k i n :
    mlrel sl s -> map_inv s -> map_find ck s k = Some i -> inode i = Some n ->
    match map_erase_iterator s i with
    | Some s' => exists sl', ml_erase_iterator sl i = Some sl' /\ mlrel sl' s'
    | None => True
    end.
  Proof.
    intros (L & Et & Ea) I Hf Hn. unfold map_find in Hf. rewrite map_find_node_eq in Hf. cbn [fst] in Hf.
    destruct (fst (bt_find (mt s) (ck k))) as [e|] eqn:Ef; cbn [option_map] in Hf;
      [|injection Hf as <-; discriminate].
    set (key := nkey (mtab s)).
    destruct (tree_erase ck key s (ck k) e I Ef) as (t' & nc & nl & nr & c & Ec & El & Ee & He & Hsub & Es).
    rewrite (iterator_init_node ck s e I He) in Hf. injection Hf as <-. cbn [inode] in Hn.
    injection Hn as <-.
    unfold map_erase_iterator, ml_erase_iterator. cbn [inode]. rewrite El, Ee.
    pose proof (lstep_sim key RB (ml sl) (tst s) (Erase (ck k)) L
                          (tinvk_map ck key s I (keyed_nkey ck s I))) as Hsim.
    rewrite Es in Hsim. destruct Hsim as (l' & El' & L').
    pose proof (l_find_map key (ml sl) s (ck k) L I (keyed_nkey ck s I)) as Fd.
    rewrite Ec in Fd. cbn [fst snd raddr] in Fd.
    destruct (lstep_erase_inv key (ml sl) (ck k) _ _ l' _ Fd El') as (m' & root' & Er & ->).
    change (adr e) with (addr (eid e)) in Er. rewrite Er, Et, Ea.
    eexists; split; [reflexivity|]. split; [exact L'|auto].
  Qed.

  (** one operation *)
  Theorem mlstep_sim sl s o :
    mlrel sl s -> map_inv s ->
    match step s o with
    | Done s' out => exists sl', mlstep sl o = Done sl' out /\ mlrel sl' s'
    | Precond => mlstep sl o = Precond
    | Fault => True
    | Abort => True
    end.
  Proof.
    intros M I. pose proof M as (L & Et & Ea).
    destruct o as [k v it|k|k it|k| |cb|]; cbn [MapModel.step MapLinksModel.mlstep].
    - (* insert *)
      unfold map_insert, ml_insert, ml_find_node. rewrite map_find_node_eq, Et, Ea.
      rewrite (l_find_map _ (ml sl) s (ck k) L I (keyed_nkey ck s I)).
      rewrite bt_find_eq. cbn [fst snd].
      pose proof (bt_find_eq (mt s) (ck k)) as Eb.
      destruct (find_ctx (ck k) (mt s) []) as [sub cf] eqn:Ec. cbn [fst snd] in *.
      destruct sub as [|nc nl ne nr]; cbn [root_elem raddr option_map].
      + (* new key *)
        destruct (grant ok (mal s) NODE_SIZE) eqn:Eg.
        * rewrite (malloc_granted _ _ _ Eg).
          set (b := next (mal s)). set (tb' := (b, (k, v)) :: mtab s).
          set (x := mkE b (ck k)).
          destruct (hinted_insert_ok (mt s) x (inv_sorted ck s I) (inv_nodup ck s I) (inv_rb ck s I))
            as (t' & Hi & _ & _ & Hin).
          cbn [ekey x] in Hi. rewrite Eb in Hi. cbn [snd] in Hi. rewrite Hi.
          assert (Kb : nkey tb' b = ck k).
          { unfold MapLinksModel.nkey, tb'. cbn [tab_get]. rewrite Nat.eqb_refl. reflexivity. }
          assert (K : keyed (nkey tb') (inorder (mt s))).
          { apply Forall_forall. intros e He. unfold MapLinksModel.nkey, tb'. cbn [tab_get].
            destruct (Nat.eqb_spec b (eid e)) as [Hb|_].
            - exfalso. apply (fresh_not_node ck s I). fold b. rewrite Hb. apply in_map; auto.
            - symmetry. apply (nkey_tree ck s e I He). }
          assert (Hi' : rb_insert_from (option_map eid (snd (bt_find (mt s) (ck k)))) (mt s)
                                       (mkE (next (mal s)) (ck k)) = Some (Some t')).
          { rewrite Eb. exact Hi. }
          pose proof (tree_inserth ck (nkey tb') s k t' I Hi' Kb) as Es. fold b in Es.
          pose proof (lstep_sim (nkey tb') RB (ml sl) (tst s) (InsertH b) L
                                (tinvk_map ck _ s I K)) as Hsim.
          rewrite Es in Hsim. destruct Hsim as (l' & El' & L').
          pose proof (l_find_map (nkey tb') (ml sl) s (ck k) L I K) as Fd.
          rewrite Ec in Fd. cbn [fst snd raddr] in Fd. rewrite <- Kb in Fd.
          assert (Eh : held (mt s) b = false).
          { destruct (held (mt s) b) eqn:Eh; auto. apply held_spec in Eh.
            exfalso. apply (fresh_not_node ck s I). exact Eh. }
          pose proof (lrel_decode (nkey tb') RB (ml sl) (tst s) L (tinvk_map ck _ s I K)) as Dec.
          cbn [tst tr] in Dec.
          destruct (lstep_inserth_inv (nkey tb') (ml sl) (mt s) b _ _ l' _ Dec Eh Fd El')
            as (m' & root' & Er & ->).
          fold tb'. rewrite Er.
          assert (M' : mlrel (mkML (mkL m' root' (lsz (ml sl) + 1)) tb'
                                   (mkAlloc ((b, NODE_SIZE) :: live (mal s)) (S (next (mal s)))
                                            (S (ord (mal s))) (EvMalloc b NODE_SIZE :: AllocModel.events (mal s))))
                             (mkM t' (msz s + 1) tb'
                                  (mkAlloc ((b, NODE_SIZE) :: live (mal s)) (S (next (mal s)))
                                           (S (ord (mal s))) (EvMalloc b NODE_SIZE :: AllocModel.events (mal s))))).
          { split; [exact L'|auto]. }
          destruct it.
          -- cbn [mtab mltab]. destruct (iterator_init tb' (Some b)); [|exact Logic.I].
             eexists; split; [reflexivity|exact M'].
          -- eexists; split; [reflexivity|exact M'].
        * rewrite (malloc_denied _ _ _ Eg).
          assert (M' : mlrel (mkML (ml sl) (mtab s)
                                   (mkAlloc (live (mal s)) (next (mal s)) (S (ord (mal s)))
                                            (EvMallocFail NODE_SIZE :: AllocModel.events (mal s))))
                             (mkM (mt s) (msz s) (mtab s)
                                  (mkAlloc (live (mal s)) (next (mal s)) (S (ord (mal s)))
                                           (EvMallocFail NODE_SIZE :: AllocModel.events (mal s))))).
          { split; [exact L|auto]. }
          destruct it.
          -- cbn [iterator_init]. eexists; split; [reflexivity|exact M'].
          -- eexists; split; [reflexivity|exact M'].
      + (* existing key *)
        change (Nat.pred (adr ne)) with (eid ne). destruct it.
        * rewrite Et. destruct (iterator_init (mtab s) (Some (eid ne))); [|exact Logic.I].
          eexists; split; [reflexivity|exact M].
        * eexists; split; [reflexivity|exact M].
    - (* find *)
      rewrite (ml_find_eq sl s k M I). destruct (map_find ck s k); [|exact Logic.I].
      eexists; split; [reflexivity|exact M].
    - (* erase *)
      unfold map_erase, ml_erase. rewrite (ml_find_eq sl s k M I).
      destruct (map_find ck s k) as [i|] eqn:Ef; [|exact Logic.I].
      destruct (inode i) as [n|] eqn:En.
      + pose proof (erase_iterator_sim sl s k i n M I Ef En) as H.
        destruct (map_erase_iterator s i) as [s'|]; [|exact Logic.I].
        destruct H as (sl' & -> & M'). eexists; split; [reflexivity|exact M'].
      + eexists; split; [reflexivity|exact M].
    - (* erase through the iterator *)
      rewrite (ml_find_eq sl s k M I).
      destruct (map_find ck s k) as [i|] eqn:Ef; [|exact Logic.I].
      destruct (inode i) as [n|] eqn:En; [|reflexivity].
      pose proof (erase_iterator_sim sl s k i n M I Ef En) as H.
      destruct (map_erase_iterator s i) as [s'|]; [|exact Logic.I].
      destruct H as (sl' & -> & M'). eexists; split; [reflexivity|exact M'].
    - (* size *)
      destruct L as (Hz & _). cbn [tst sz] in Hz. rewrite Hz.
      eexists; split; [reflexivity|exact M].
    - (* clear *)
      unfold map_clear, ml_clear. pose proof L as (Hz & Hr & R). cbn [tst tr sz] in Hz, Hr, R.
      rewrite Hr. destruct (mt s) as [|tk tl ty tr0] eqn:Etr; cbn [raddr].
      + eexists; split; [reflexivity|exact M].
      + rewrite <- Etr.
        pose proof (lrel_decode (nkey (mtab s)) RB (ml sl) (tst s) L
                                (tinvk_map ck _ s I (keyed_nkey ck s I))) as Dec.
        cbn [tst tr] in Dec. rewrite Et, Dec, Ea.
        destruct (clear_nodes cb (bt_clear (mt s)) (mtab s) (mal s)) as [[[[tb' a'] out] trc]|];
          [|exact Logic.I].
        eexists; split; [reflexivity|]. split; [|auto].
        unfold lrel, tst. cbn. auto.
    - (* live *)
      rewrite Ea. eexists; split; [reflexivity|exact M].
  Qed.

  (** every history of the pointer-level map model is the history of the
      functional one *)
  Theorem mlrun_sim ops : forall sl s,
    mlrel sl s -> map_inv s ->
    match run step s ops with
    | (Done s' o1, outs) =>
      exists sl', run mlstep sl ops = (Done sl' o1, outs) /\ mlrel sl' s' /\ map_inv s'
    | (Precond, outs) => run mlstep sl ops = (Precond, outs)
    | _ => False
    end.
  Proof.
    induction ops as [|o ops IH]; intros sl s M I; cbn [run].
    - exists sl. auto.
    - pose proof (mlstep_sim sl s o M I) as Hs.
      pose proof (step_correct ck ok s o I) as Hc.
      destruct (step s o) as [s1 out| | |]; try contradiction.
      + destruct Hs as (sl1 & -> & M1). destruct Hc as (I1 & _).
        specialize (IH sl1 s1 M1 I1).
        destruct (run step s1 ops) as [[s2 o2| | |] outs]; try contradiction.
        * destruct IH as (sl2 & -> & M2 & I2). exists sl2. auto.
        * rewrite IH. reflexivity.
      + rewrite Hs. reflexivity.
  Qed.

  Theorem mlreach_sim sl :
    reach mlstep ml_init sl -> exists s, reach step m_init s /\ mlrel sl s /\ map_inv s.
  Proof.
    intros Rl. induction Rl as [|sl o sl' out Rl IH Hs].
    - exists m_init. split; [constructor|]. split; [apply mlrel_init|apply map_inv_init].
    - destruct IH as (s & Rs & M & I).
      pose proof (mlstep_sim sl s o M I) as Hsim.
      pose proof (step_correct ck ok s o I) as Hc.
      destruct (step s o) as [s1 out1| | |] eqn:Es; try contradiction.
      + destruct Hsim as (sl1 & E1 & M1). rewrite Hs in E1. injection E1 as <- <-.
        exists s1. split; [econstructor; eauto|]. split; auto. tauto.
      + rewrite Hs in Hsim. discriminate.
  Qed.
End MapLinksSim.

(** * Parent links, spelled out *)

(** what [rep m None t] with root pointer [raddr t] says about the links *)
Lemma rep_parent_links m root t :
  root = raddr t -> rep m None t ->
  (forall r, root = Some r -> n_p (mget m r) = None) /\
  (forall a, In a (addrs t) ->
     (forall b, n_l (mget m a) = Some b -> n_p (mget m b) = Some a) /\
     (forall b, n_r (mget m a) = Some b -> n_p (mget m b) = Some a)).
Proof.
  intros Hr R. split.
  - intros r Hrr. rewrite Hr in Hrr. eapply rep_root_p; eauto.
  - intros a Ha. eapply rep_links; eauto.
Qed.

Section MapLinksTop.
  Variable ck : nat -> Z.
  Variable ok : nat -> N -> bool.
  Notation step := (MapModel.step ck ok).
  Notation mlstep := (MapLinksModel.mlstep ck ok).
  Notation map_inv := (MapProofs.map_inv ck).
  Notation nkey := (MapLinksModel.nkey ck).

  (** 1, with the key function of the operation made explicit *)
  Theorem map_step_tree_calls s o s' out :
    map_inv s -> step s o = Done s' out ->
    keyed (step_key ck s s') (inorder (mt s)) /\ keyed (step_key ck s s') (inorder (mt s')) /\
    exists touts,
      run (TreeModel.step (step_key ck s s') RB) (mkS (mt s) (msz s)) (tree_ops ck ok s o)
      = (Done (mkS (mt s') (msz s')) [], touts).
  Proof.
    intros I Hs. destruct (step_key_agrees ck ok s o s' out I Hs) as (K & K').
    split; [exact K|]. split; [exact K'|].
    destruct (map_step_tree ck ok (step_key ck s s') s o s' out I Hs) as (H & _); [|exact H].
    intros e He _. unfold keyed in K'. rewrite Forall_forall in K'. auto.
  Qed.

  (** 2: the tree of every reachable map state is held, with correct parent
      links, by a node memory the pointer-level tree code produces *)
  Theorem map_links_represented ops s o1 outs :
    run step m_init ops = (Done s o1, outs) ->
    exists sl,
      lreachk sl /\ lsz sl = msz s /\ lroot sl = raddr (mt s) /\ rep (lm sl) None (mt s) /\
      (forall r, lroot sl = Some r -> n_p (mget (lm sl) r) = None) /\
      (forall a, In a (addrs (mt s)) ->
         (forall b, n_l (mget (lm sl) a) = Some b -> n_p (mget (lm sl) b) = Some a) /\
         (forall b, n_r (mget (lm sl) a) = Some b -> n_p (mget (lm sl) b) = Some a)) /\
      root_black (mt s) /\ no_red_red (mt s) /\ exists n, black_height (mt s) n.
  Proof.
    intros Hr.
    destruct (map_run_links ck ok ops m_init l_init s o1 outs (map_inv_init ck) lreachk_init lrel_init Hr)
      as (sl & R & Hz & Hrt & Rp).
    cbn [tst tr sz] in Hz, Hrt, Rp.
    pose proof (run_safe ck ok ops m_init (map_inv_init ck)) as I. rewrite Hr in I. cbn [fst] in I.
    destruct (rep_parent_links (lm sl) (lroot sl) (mt s) Hrt Rp) as (P1 & P2).
    pose proof (proj1 (rb_inv_rules (mt s)) (inv_rb ck s I)) as (B1 & B2 & B3).
    exists sl. repeat (split; auto).
  Qed.

  (** 3 from the initial states *)
  Theorem ml_run_refines ops :
    match run step m_init ops with
    | (Done s o1, outs) =>
      exists sl, run mlstep ml_init ops = (Done sl o1, outs) /\
                 lsz (ml sl) = msz s /\ lroot (ml sl) = raddr (mt s) /\ rep (lm (ml sl)) None (mt s) /\
                 mltab sl = mtab s /\ mlal sl = mal s
    | (Precond, outs) => run mlstep ml_init ops = (Precond, outs)
    | _ => False
    end.
  Proof.
    pose proof (mlrun_sim ck ok ops ml_init m_init mlrel_init (map_inv_init ck)) as H.
    destruct (run step m_init ops) as [[s o1| | |] outs]; auto.
    destruct H as (sl & E & ((Hz & Hr & R) & Et & Ea) & _). exists sl. repeat (split; auto).
  Qed.

  (** in every state the pointer-level map model reaches *)
  Theorem ml_parent_links sl :
    reach mlstep ml_init sl ->
    exists t,
      decode (nkey (mltab sl)) (ml sl) = Some t /\ lroot (ml sl) = raddr t /\ rep (lm (ml sl)) None t /\
      (forall r, lroot (ml sl) = Some r -> n_p (mget (lm (ml sl)) r) = None) /\
      (forall a, In a (addrs t) ->
         (forall b, n_l (mget (lm (ml sl)) a) = Some b -> n_p (mget (lm (ml sl)) b) = Some a) /\
         (forall b, n_r (mget (lm (ml sl)) a) = Some b -> n_p (mget (lm (ml sl)) b) = Some a)) /\
      root_black t /\ no_red_red t /\ (exists n, black_height t n) /\
      lsz (ml sl) = N.of_nat (length (inorder t)) /\
      (forall n, tab_get (mltab sl) n <> None <-> In (addr n) (addrs t)).
  Proof.
    intros Rl. destruct (mlreach_sim ck ok sl Rl) as (s & _ & (L & Et & Ea) & I).
    pose proof L as (Hz & Hr & R). cbn [tst tr sz] in Hz, Hr, R.
    pose proof (lrel_decode (nkey (mtab s)) RB (ml sl) (tst s) L
                            (tinvk_map ck _ s I (keyed_nkey ck s I))) as Dec.
    cbn [tst tr] in Dec.
    destruct (rep_parent_links (lm (ml sl)) (lroot (ml sl)) (mt s) Hr R) as (P1 & P2).
    destruct (map_inv_meaning ck s I) as (_ & _ & Htab & _).
    pose proof (proj1 (rb_inv_rules (mt s)) (inv_rb ck s I)) as (B1 & B2 & B3).
    exists (mt s). rewrite Et.
    repeat (split; auto).
    - rewrite Hz. apply (inv_size ck s I).
    - intros Hn. rewrite addrs_ids. apply in_map. apply Htab; auto.
    - intros Hn. rewrite addrs_ids in Hn. apply in_map_iff in Hn. destruct Hn as (n' & Hn' & Hin).
      injection Hn' as ->. apply Htab; auto.
  Qed.
End MapLinksTop.
