(** C17(b) -- bucket selection is fail-stop: a caller-supplied hash function
    that returns a value >= the table size makes the operation abort; the
    bucket array is never indexed outside its allocation.  (Part (a), the
    range of the built-in cstl_hash_mul/cstl_hash_div, is in Properties_C17.v.)

    In HashModel.v every access to the bucket array is [nth_error (bks t) i]
    and a failed access is [RFault]; the only other sources of [RFault] are a
    call through a NULL function pointer, a hash function that itself traps,
    and a read of a node freed by the visit function.  The theorems below are
    for EVERY family [hf] of hash functions that return some value for a
    non-zero table size ([hf_def]: no assumption whatsoever on the value),
    every key assignment and every allocator behaviour. *)
From Cstl Require Import Prelude AllocModel HashModel HashProofs HashInv HashOps HashTable HashSys.
Local Open Scope N_scope.

Section C17b.
  Variable hf : fn_id -> N -> N -> option N.
  Variable key : nat -> N.
  Variable ok : nat -> N -> bool.
  Hypothesis Hdef : hf_def hf.

  Notation exec := (exec hf key fixed ok).
  Notation step := (step hf key fixed ok).

  (** one operation from any state satisfying the invariant: never a fault;
      an abort is possible only if some hash function is out of range *)
  Theorem no_oob s o :
    sys_inv hf key s ->
    exec s o <> XFault /\ (exec s o = XAbort -> ~ in_range hf) /\
    (forall s' r w, exec s o = XDone s' r w -> sys_inv hf key s').
  Proof.
    intros SI. pose proof (exec_refines hf key ok Hdef s o SI) as H. unfold outcome_ok in H.
    destruct (exec s o) as [s' r w| | |].
    - split; [discriminate|]. split; [discriminate|]. intros sx rx wx [= <- _ _]. tauto.
    - split; [discriminate|]. split; [auto|]. intros sx rx wx [=].
    - contradiction.
    - split; [discriminate|]. split; [discriminate|]. intros sx rx wx [=].
  Qed.

  (** ... hence no history, however long and whatever the hash functions
      return, indexes the bucket array out of bounds: it ends normally, or in
      abort(), or where the script itself left the documented domain *)
  Theorem no_oob_run n ops : fst (run step (sys_init n) ops) <> Fault.
  Proof.
    pose proof (run_safe hf key ok Hdef (sys_init n) ops (sys_inv_init hf key n)) as H.
    destruct (fst (run step (sys_init n) ops)); auto; discriminate.
  Qed.

  (** the range check itself: whenever the bucket lookup returns, the index
      is inside the table whose size was passed to the hash function *)
  Theorem bucket_raw_in_range f k m i w :
    bucket_raw hf f k m = Ok i w -> (i < N.to_nat m)%nat.
  Proof.
    unfold bucket_raw. destruct f as [g|]; [|discriminate].
    destruct (hf g k m) as [j|]; [|discriminate].
    destruct (N.leb_spec m j); [discriminate|]. intros [= <- _]. lia.
  Qed.
End C17b.

(** for hash functions given as plain total functions (as in C) *)
Theorem no_oob_total (h : fn_id -> N -> N -> N) key ok n ops :
  fst (run (step (fun f k m => Some (h f k m)) key fixed ok) (sys_init n) ops) <> Fault.
Proof. apply no_oob_run. intros f k m _. discriminate. Qed.

(** Non-vacuity: functions returning m, m+1, SIZE_MAX, or m for odd keys only
    (ids 4, 5, 6, 7 of [script_hf]) make the keyed operations abort -- at
    once, or in the middle of a pending rehash when an element with an odd
    key has to be relocated. *)
Example C17b_example :
  let key := fun e => nth e [0; 2; 4; 6] 0 in
  let hf := script_hf (fun _ _ => 0) in
  let okk := fun (_ : nat) (_ : N) => true in
  let st := step hf key fixed okk in
  fst (run st (sys_init 1) [Resize 0 4 (Some 4%nat); Find 0 0 None]) = Abort /\
  fst (run st (sys_init 1) [Resize 0 4 (Some 5%nat); Insert 0 0]) = Abort /\
  fst (run st (sys_init 1) [Resize 0 4 (Some 6%nat); Erase 0 0]) = Abort /\
  fst (run st (sys_init 1) [Resize 0 4 (Some 1%nat); Insert 0 0; Resize 0 8 (Some 4%nat); Find 0 2 None]) = Abort /\
  fst (run st (sys_init 1) [Resize 0 4 (Some 7%nat); Insert 0 0; Insert 0 1; Find 0 3 None]) = Abort /\
  (match fst (run st (sys_init 1) [Resize 0 4 (Some 7%nat); Insert 0 0; Insert 0 1; Find 0 2 None]) with
   | Done _ _ => True | _ => False end).
Proof. vm_compute. repeat split; reflexivity. Qed.

Print Assumptions no_oob.
Print Assumptions no_oob_run.
Print Assumptions bucket_raw_in_range.
Print Assumptions no_oob_total.
