(** Pointer-level model of the trees, part 3: cstl_bintree_insert,
    cstl_rbtree_fix_insertion and the loop of cstl_rbtree_insert realise
    [bt_insert_from] / [fix_ins] / [rb_insert_from] on represented trees. *)
From Cstl Require Import Prelude TreeModel TreeProofs RBProofs TreeLinksModel TreeLinksProofs TreeLinksOps.
Local Open Scope Z_scope.

Lemma unmk_mk_id d k a x b : unmk d (mk d k a x b) = Some (k, a, x, b).
Proof. destruct d; reflexivity. Qed.
Lemma rotate_mk d xc a xe yc b ye cc :
  rotate d (mk d xc a xe (mk d yc b ye cc)) = Some (mk d yc (mk d xc a xe b) ye cc).
Proof. unfold rotate. rewrite !unmk_mk_id. reflexivity. Qed.
Lemma setcol_mk k d k0 a x b : setcol k (mk d k0 a x b) = mk d k a x b.
Proof. destruct d; reflexivity. Qed.
Lemma rotate_tail d kx X1 pe b' ge y :
  rotate (opp d) (mk d Red (setcol Black (mk d kx X1 pe b')) ge y) =
  Some (mk (opp d) Black (mk (opp d) Red y ge b') pe X1).
Proof. destruct d; reflexivity. Qed.

(** the statements of cstl_rbtree_fix_insertion after the optional first rotation *)
Definition l_fi_tail (m1 : mem) (root1 : option nat) (x1 : nat) (d : dir)
  : option (mem * option nat * nat) :=
  do p1 <- n_p (mget m1 x1);
  let m2 := setc m1 p1 Black in
  do g2 <- l_gp m2 x1;
  let m3 := setc m2 g2 Red in
  do g3 <- l_gp m3 x1;
  do (m4, root4) <- l_rotate m3 root1 g3 (opp d);
  Some (m4, root4, x1).

Lemma l_fi_tail_sim m root up d kx X1 pe b' gc ge y x1 :
  NoDup (addrs (mk d kx X1 pe b') ++ caddrs (mkF d gc ge y :: up)) ->
  rep m (Some (adr ge)) (mk d kx X1 pe b') ->
  crep m (mkF d gc ge y :: up) (Some (adr pe)) root ->
  raddr X1 = Some x1 ->
  let t := mk (opp d) Black (mk (opp d) Red y ge b') pe X1 in
  exists m' root',
    l_fi_tail m root x1 d = Some (m', root', x1) /\
    rep m' (ctx_par up) t /\ crep m' up (raddr t) root' /\
    n_p (mget m' x1) = Some (adr pe) /\ n_c (mget m' (adr pe)) = Black.
Proof.
  intros Nd R C HX t.
  apply rep_mk in R. destruct R as (Pp & Pc & Pl & Pr & RX & Rb).
  cbn [crep fd fc fe fs] in C. destruct C as (Gd & Go & Gc & Gp & Ry & Cup).
  pose proof (rep_root_p _ _ _ _ RX HX) as Xp.
  nd_norm.
  set (pa := adr pe) in *. set (ga := adr ge) in *.
  set (m2 := setc m pa Black). set (m3 := setc m2 ga Red).
  destruct (l_rotate_rep m3 root up (opp d) Red y ge Black b' pe X1) as (m' & root' & E & R' & C' & F).
  - nd_solve.
  - apply rep_mk. fold ga. unfold m3, m2. mread. rewrite raddr_mk. fold pa. splits; auto.
    + eapply rep_frame; [|exact Ry]. intros i Hi. mframe.
    + apply rep_mk. fold pa. mread. splits; auto.
      * eapply rep_frame; [|exact Rb]. intros i Hi. mframe.
      * eapply rep_frame; [|exact RX]. intros i Hi. mframe.
  - eapply crep_frame; [|exact Cup]. intros i Hi. unfold m3, m2. mframe.
  - exists m', root'. split; [|split; [|split]].
    + unfold l_fi_tail. rewrite Xp. cbn [bind]. fold m2.
      assert (G2 : l_gp m2 x1 = Some ga).
      { unfold l_gp, m2. mread. rewrite Xp. cbn [bind]. mread. auto. }
      rewrite G2. cbn [bind]. fold m3.
      assert (G3 : l_gp m3 x1 = Some ga).
      { unfold l_gp, m3, m2. mread. rewrite Xp. cbn [bind]. mread. auto. }
      rewrite G3. cbn [bind]. fold ga in E. rewrite E. reflexivity.
    + exact R'.
    + unfold t. rewrite raddr_mk. exact C'.
    + apply rep_mk in R'. destruct R' as (_ & Hc' & _ & _ & _ & RX').
      split; auto. eapply rep_root_p; eauto.
Qed.

(** cstl_rbtree_fix_insertion, the uncle is red *)
Lemma l_fix_insertion_red m root up' x xa pd pe ps d gc ge yl ye yr :
  let p := mkF pd Red pe ps in
  let y := T Red yl ye yr in
  let g := mkF d gc ge y in
  NoDup (addrs x ++ caddrs (p :: g :: up')) ->
  raddr x = Some xa -> rep m (Some (adr pe)) x -> crep m (p :: g :: up') (Some xa) root ->
  let x' := mk d Red (plug1 (recolour p Black) x) ge (blacken y) in
  exists m',
    l_fix_insertion m root xa d = Some (m', root, adr ge) /\
    rep m' (ctx_par up') x' /\ crep m' up' (Some (adr ge)) root /\
    NoDup (addrs x' ++ caddrs up').
Proof.
  intros p y g Nd HX R C x'. subst p y g.
  cbn [crep fd fc fe fs] in C.
  destruct C as (Pd & Po & Pc & Pp & Rs & Gd & Go & Gc & Gp & Ry & Cup).
  cbn [ctx_par fe] in Pp.
  pose proof (rep_root_p _ _ _ _ R HX) as Xp.
  pose proof Ry as Ry0. cbn [rep] in Ry. destruct Ry as (Yp & Yc & Yl & Yr & Ryl & Ryr).
  cbn [raddr] in Go.
  assert (Nx : ~ In xa (addrs x) -> False) by (intros Hx; apply Hx; apply raddr_in; auto).
  nd_norm.
  set (pa := adr pe) in *. set (ga := adr ge) in *. set (ya := adr ye) in *.
  set (m1 := setc m pa Black). set (m2 := setc m1 ya Black). set (m3 := setc m2 ga Red).
  assert (G : forall mm, (forall i, n_p (mget mm i) = n_p (mget m i)) -> l_gp mm xa = Some ga).
  { intros mm Hmm. unfold l_gp. rewrite Hmm, Xp. cbn [bind]. rewrite Hmm. auto. }
  exists m3. split; [|split; [|split]].
  - unfold l_fix_insertion. rewrite (G m) by auto. cbn [bind]. rewrite Go, Yc. cbn [is_black].
    rewrite Xp. cbn [bind]. fold m1 m2.
    rewrite (G m2) by (intros i; unfold m2, m1; mread; auto). cbn [bind]. fold m3.
    rewrite (G m3) by (intros i; unfold m3, m2, m1; mread; auto). reflexivity.
  - assert (Rx3 : rep m3 (Some pa) x).
    { eapply rep_frame; [|exact R]. intros i Hi. unfold m3, m2, m1. mframe. }
    assert (Rs3 : rep m3 (Some pa) ps).
    { eapply rep_frame; [|exact Rs]. intros i Hi. unfold m3, m2, m1. mframe. }
    assert (Ry3 : rep m3 (Some ga) (blacken (T Red yl ye yr))).
    { cbn [blacken rep]. fold ya. unfold m3, m2, m1. mread. splits; auto.
      - eapply rep_frame; [|exact Ryl]. intros i Hi. mframe.
      - eapply rep_frame; [|exact Ryr]. intros i Hi. mframe. }
    unfold x'. apply rep_mk. fold ga. unfold plug1.
    cbn [recolour fd fc fe fs]. rewrite raddr_mk. fold pa. splits; auto.
    + unfold m3, m2, m1. mread. auto.
    + unfold m3, m2, m1. mread. auto.
    + unfold m3, m2, m1. mread. auto.
    + unfold m3, m2, m1. mread. auto.
    + apply rep_mk. fold pa. splits; auto; unfold m3, m2, m1; mread; auto. rewrite Pd; auto.
  - eapply crep_frame; [|exact Cup]. intros i Hi. unfold m3, m2, m1. mframe.
  - unfold x', plug1. cbn [recolour fd fc fe fs blacken]. nd_solve.
Qed.

(** cstl_rbtree_fix_insertion, the uncle is black or missing *)
Lemma l_fix_insertion_black m root up' xk xl xe xr pd pe ps d gc ge y px t :
  let x := T xk xl xe xr in
  let p := mkF pd Red pe ps in
  let g := mkF d gc ge y in
  NoDup (addrs x ++ caddrs (p :: g :: up')) ->
  rep m (Some (adr pe)) x -> crep m (p :: g :: up') (Some (adr xe)) root ->
  is_red y = false ->
  (if dir_eqb pd d then Some (mk d Red x pe ps) else rotate d (mk d Red ps pe x)) = Some px ->
  rotate (opp d) (mk d Red (setcol Black px) ge y) = Some t ->
  exists m' root' x1 pp,
    l_fix_insertion m root (adr xe) d = Some (m', root', x1) /\
    rep m' (ctx_par up') t /\ crep m' up' (raddr t) root' /\
    n_p (mget m' x1) = Some pp /\ n_c (mget m' pp) = Black.
Proof.
  intros x p g Nd R C Ey Hpx Ht. subst p g.
  pose proof (Nd : keep _) as Nd0. unfold x in Nd. nd_norm.
  pose proof C as C0. cbn [crep fd fc fe fs] in C.
  destruct C as (Pd & Po & Pc & Pp & Rs & Gd & Go & Gc & Gp & Ry & Cup).
  cbn [ctx_par fe] in Pp.
  assert (Xp : n_p (mget m (adr xe)) = Some (adr pe)).
  { apply (rep_root_p m (Some (adr pe)) x); [exact R|reflexivity]. }
  set (xa := adr xe) in *. set (pa := adr pe) in *. set (ga := adr ge) in *.
  assert (G : l_gp m xa = Some ga).
  { unfold l_gp. rewrite Xp. cbn [bind]. auto. }
  assert (Eu : match sel (opp d) (mget m ga) with
               | Some yy => if is_black (n_c (mget m yy)) then None else Some yy
               | None => None
               end = None).
  { rewrite Go. destruct y as [|yk yl ye yr]; cbn [raddr]; auto.
    cbn [rep] in Ry. destruct Ry as (_ & -> & _). destruct yk; [discriminate|reflexivity]. }
  assert (Head : l_fix_insertion m root xa d =
            do (m1, root1, x1) <-
               (if oeqb (Some xa) (sel (opp d) (mget m pa))
                then do (m', root') <- l_rotate m root pa d; Some (m', root', pa)
                else Some (m, root, xa));
            l_fi_tail m1 root1 x1 d).
  { unfold l_fix_insertion. rewrite G. cbn [bind]. rewrite Eu, Xp. cbn [bind].
    destruct (oeqb (Some xa) (sel (opp d) (mget m pa))).
    - destruct (l_rotate m root pa d) as [[m' root']|]; reflexivity.
    - reflexivity. }
  rewrite Head. clear Head.
  destruct (dir_eqb pd d) eqn:Ed.
  - (* x is the l-child: no first rotation *)
    apply dir_eqb_eq in Ed. subst pd. injection Hpx as <-.
    rewrite rotate_tail in Ht. injection Ht as <-.
    assert (Ex : oeqb (Some xa) (sel (opp d) (mget m pa)) = false).
    { rewrite Po. apply oeqb_raddr_false'. notin. }
    rewrite Ex. cbn [bind].
    destruct (l_fi_tail_sim m root up' d Red x pe ps gc ge y xa) as (m' & root' & E & R' & C' & Hp' & Hc').
    + unfold x. nd_solve.
    + apply rep_mk. fold pa. splits; auto.
    + cbn [crep fd fc fe fs]. fold ga pa. splits; auto.
    + reflexivity.
    + exists m', root', xa, pa. auto.
  - (* x is the r-child: rotate about the parent first *)
    apply dir_eqb_opp in Ed. subst pd. rewrite opp_opp in *.
    assert (Ex : oeqb (Some xa) (sel (opp d) (mget m pa)) = true).
    { rewrite Pd. apply oeqb_refl. }
    rewrite Ex.
    destruct (rotate_shape _ _ _ Hpx) as (k1 & a1 & e1 & k2 & b2 & e2 & c2 & Eq & ->).
    (* mk d Red ps pe x = mk d k1 a1 e1 (mk d k2 b2 e2 c2) *)
    assert (k1 = Red /\ a1 = ps /\ e1 = pe /\ x = mk d k2 b2 e2 c2) as (-> & -> & -> & Hx).
    { destruct d; cbn [mk] in Eq; injection Eq; intros; unfold x; cbn [mk]; splits; congruence. }
    assert (He : e2 = xe).
    { unfold x in Hx. destruct d; cbn [mk] in Hx; injection Hx; intros; congruence. }
    subst e2.
    rewrite rotate_tail in Ht. injection Ht as <-.
    destruct (l_rotate_rep m root (mkF d gc ge y :: up') d Red ps pe k2 b2 xe c2)
      as (m1 & root1 & E1 & R1 & C1 & _).
    + rewrite <- Hx. unfold x. nd_solve.
    + rewrite <- Hx. apply rep_mk. fold pa. cbn [ctx_par fe]. fold ga. splits; auto.
    + cbn [crep fd fc fe fs]. fold ga pa. splits; auto.
    + fold pa in E1. rewrite E1. cbn [bind].
      destruct (l_fi_tail_sim m1 root1 up' d k2 (mk d Red ps pe b2) xe c2 gc ge y pa)
        as (m' & root' & E & R' & C' & Hp' & Hc').
      * unfold keep in Nd0. rewrite Hx in Nd0. clear - Nd0. nd_norm. nd_solve.
      * exact R1.
      * exact C1.
      * apply raddr_mk.
      * exists m', root', pa, xa. auto.
Qed.

Lemma nd_up f t c : NoDup (addrs t ++ caddrs (f :: c)) <-> NoDup (addrs (plug1 f t) ++ caddrs c).
Proof.
  assert (P : Permutation (addrs (plug1 f t) ++ caddrs c) (addrs t ++ caddrs (f :: c))).
  { rewrite addrs_plug1, caddrs_cons, <- app_assoc. reflexivity. }
  split; apply Permutation_NoDup; [symmetry|]; exact P.
Qed.

(** the loop of cstl_rbtree_insert realises [fix_ins] *)
Lemma l_ins_loop_sim : forall n c, (length c <= n)%nat ->
  forall fuel xk xl xe xr m root t',
  let x := T xk xl xe xr in
  (length c <= fuel)%nat ->
  NoDup (addrs x ++ caddrs c) ->
  rep m (ctx_par c) x -> crep m c (Some (adr xe)) root ->
  fix_ins x c = Some t' ->
  exists m' root',
    l_ins_loop fuel m root (adr xe) = Some (m', root') /\ rep m' None t' /\ root' = raddr t'.
Proof.
  induction n as [|n IH]; intros c Hlen fuel xk xl xe xr m root t' x Hf Nd R C H.
  { destruct c; [|cbn in Hlen; lia]. cbn [fix_ins] in H. injection H as <-.
    cbn [crep] in C. exists m, root. split; [|split]; auto.
    assert (Xp : n_p (mget m (adr xe)) = None) by (eapply rep_root_p; eauto; reflexivity).
    destruct fuel; cbn [l_ins_loop]; rewrite Xp; reflexivity. }
  destruct c as [|p up].
  { cbn [fix_ins] in H. injection H as <-.
    cbn [crep] in C. exists m, root. split; [|split]; auto.
    assert (Xp : n_p (mget m (adr xe)) = None) by (eapply rep_root_p; eauto; reflexivity).
    destruct fuel; cbn [l_ins_loop]; rewrite Xp; reflexivity. }
  destruct p as [pd pc pe ps]. cbn [fix_ins fc] in H.
  assert (Xp : n_p (mget m (adr xe)) = Some (adr pe)) by (eapply rep_root_p; eauto; reflexivity).
  pose proof C as C0. cbn [crep fd fc fe fs] in C. destruct C as (Pd & Po & Pc & Pp & Rs & Cup).
  destruct pc.
  2:{ (* the parent is black: the loop ends *)
      injection H as <-. exists m, root. split.
      - destruct fuel; cbn [l_ins_loop]; rewrite Xp, Pc; reflexivity.
      - apply (rep_plug m (mkF pd Black pe ps :: up) x root). split; auto. }
  destruct up as [|g up']; [discriminate|]. destruct g as [d gc ge y].
  cbn [fd fc fe fs] in H.
  destruct fuel as [|f]; [cbn in Hf; lia|].
  cbn [crep fd fc fe fs] in Cup. destruct Cup as (Gd & Go & Gc & Gp & Ry & Cup).
  cbn [ctx_par fe] in Pp.
  assert (Dir : (if oeqb (Some (adr pe)) (n_l (mget m (adr ge))) then Lf else Rt) = d).
  { destruct d; cbn [sel opp] in Gd, Go.
    - rewrite Gd, oeqb_refl. reflexivity.
    - rewrite Go. pose proof Nd as Nd1. nd_norm. rewrite oeqb_raddr_false' by notin. reflexivity. }
  assert (Loop : l_ins_loop (S f) m root (adr xe) =
                 do (m', root', x') <- l_fix_insertion m root (adr xe) d; l_ins_loop f m' root' x').
  { cbn [l_ins_loop]. rewrite Xp, Pc, Pp. cbn [bind]. rewrite Dir. reflexivity. }
  rewrite Loop. clear Loop.
  destruct (is_red y) eqn:Ey.
  - (* uncle red *)
    destruct y as [|[] yl ye yr]; try discriminate.
    destruct (l_fix_insertion_red m root up' x (adr xe) pd pe ps d gc ge yl ye yr)
      as (m1 & E1 & R1 & C1 & Nd1); auto.
    rewrite E1. cbn [bind].
    unfold plug1 in H. cbn [recolour fd fc fe fs] in H.
    unfold plug1 in R1, Nd1. cbn [recolour fd fc fe fs] in R1, Nd1.
    assert (Sh : exists k l r, mk d Red (mk pd Black x pe ps) ge (blacken (T Red yl ye yr)) = T k l ge r).
    { destruct d; cbn [mk]; eauto. }
    destruct Sh as (k' & l' & r' & Sh). rewrite Sh in *.
    apply (IH up') with (fuel := f) (m := m1) (root := root) in H; auto.
    + cbn [length] in Hlen. lia.
    + cbn [length] in Hf. lia.
  - (* uncle black *)
    destruct (if dir_eqb pd d then Some (mk d Red x pe ps) else rotate d (mk d Red ps pe x))
      as [px|] eqn:Hpx; [|discriminate].
    destruct (rotate (opp d) (mk d Red (setcol Black px) ge y)) as [t|] eqn:Ht; [|discriminate].
    injection H as <-.
    destruct (l_fix_insertion_black m root up' xk xl xe xr pd pe ps d gc ge y px t)
      as (m1 & root1 & x1 & pp & E1 & R1 & C1 & Hp1 & Hc1); auto.
    rewrite E1. cbn [bind]. exists m1, root1. split.
    + destruct f; cbn [l_ins_loop]; rewrite Hp1, Hc1; reflexivity.
    + apply (rep_plug m1 up' t root1). auto.
Qed.
