(** Proofs about SortModel.v (C11), part 3: linear find, reverse, binary
    search (ssize_t indices, as repaired for F11). *)
From Cstl Require Import Prelude SortModel SortProofs.

Local Open Scope Z_scope.

Lemma smax64 : smax 64 = 9223372036854775807.
Proof. reflexivity. Qed.
Lemma smin64 : smin 64 = -9223372036854775808.
Proof. reflexivity. Qed.

Lemma chk_ok bits z : smin bits <= z <= smax bits -> chk bits z = Ok z.
Proof.
  intros H. unfold chk.
  destruct (Z.leb_spec (smin bits) z); destruct (Z.leb_spec z (smax bits)); simpl; auto; lia.
Qed.

Lemma zidx_ok n : zidx (Z.of_nat n) = Ok n.
Proof.
  unfold zidx. destruct (Z.ltb_spec (Z.of_nat n) 0); [lia|]. now rewrite Nat2Z.id.
Qed.

(** (ssize_t)(count - 1) for a count that fits *)
Lemma j_init64 n : Z.of_nat n <= smax 64 -> j_init 64 n = Z.of_nat n - 1.
Proof.
  rewrite smax64. intros H. destruct n as [|n]; [reflexivity|].
  unfold j_init, cast.
  change (2 ^ 64) with 18446744073709551616.
  change (2 ^ (64 - 1)) with 9223372036854775808.
  rewrite (Z.mod_small (Z.of_nat (S n) - 1)) by lia.
  rewrite Z.mod_small by lia. lia.
Qed.

Lemma upd_app_mid {A} (l1 l2 : list A) x y :
  upd (l1 ++ x :: l2) (length l1) y = l1 ++ y :: l2.
Proof. induction l1 as [|z r IH]; simpl; auto. now rewrite IH. Qed.

Lemma nth_error_app_mid {A} (l1 l2 : list A) x :
  nth_error (l1 ++ x :: l2) (length l1) = Some x.
Proof. induction l1; simpl; auto. Qed.

Section Search.
  Context {A : Type}.
  Variable cmp : A -> A -> Z.

  (** * linear find (no contract needed) *)
  Lemma find_from_spec ex l i :
    (fst (find_from cmp ex l i) = -1 /\ Forall (fun x => cmp ex x <> 0) l) \/
    (exists k x, fst (find_from cmp ex l i) = Z.of_nat (i + k) /\ nth_error l k = Some x /\
                 cmp ex x = 0 /\ Forall (fun y => cmp ex y <> 0) (firstn k l)).
  Proof.
    revert i; induction l as [|x r IH]; intros i; cbn [find_from].
    - left. split; auto.
    - destruct (Z.eqb_spec (cmp ex x) 0) as [E|E].
      + right. exists 0%nat, x. rewrite Nat.add_0_r. simpl. auto.
      + specialize (IH (S i)). destruct (find_from cmp ex r (S i)) as [z lg]. cbn [fst] in *.
        destruct IH as [(H1 & H2)|(k & y & H1 & H2 & H3 & H4)].
        * left. split; auto.
        * right. exists (S k), y. cbn [nth_error firstn]. repeat split; auto. rewrite H1. f_equal. lia.
  Qed.

  (** * reverse *)
  Lemma rev_loop_spec fuel : forall (mid pre post : list A),
    (length mid <= fuel)%nat ->
    Z.of_nat (length (pre ++ mid ++ post)) <= smax 64 ->
    exists l, rev_loop 64 fuel (pre ++ mid ++ post) (Z.of_nat (length pre))
                       (Z.of_nat (length pre + length mid) - 1)
              = Ok (pre ++ rev mid ++ post, l).
  Proof.
    rewrite smax64.
    induction fuel as [|f IH]; intros mid pre post Hf Hn.
    - destruct mid; simpl in Hf; [|lia]. cbn [rev_loop length]. rewrite Nat.add_0_r.
      destruct (Z.ltb_spec (Z.of_nat (length pre)) (Z.of_nat (length pre) - 1)); [lia|]. eauto.
    - destruct mid as [|x mid].
      + cbn [rev_loop length]. rewrite Nat.add_0_r.
        destruct (Z.ltb_spec (Z.of_nat (length pre)) (Z.of_nat (length pre) - 1)); [lia|]. eauto.
      + destruct mid as [|x2 mid2].
        * cbn [rev_loop length].
          destruct (Z.ltb_spec (Z.of_nat (length pre)) (Z.of_nat (length pre + 1) - 1)); [lia|]. eauto.
        * destruct (exists_last (l := x2 :: mid2)) as (mid' & y & Em); [discriminate|].
          rewrite Em in *. clear Em x2 mid2.
          rewrite !app_length in Hn. cbn [length] in Hn, Hf. rewrite app_length in Hn, Hf. cbn [length] in Hn, Hf.
          cbn [rev_loop].
          replace (Z.of_nat (length pre + length (x :: mid' ++ [y])) - 1)
            with (Z.of_nat (length pre + S (length mid'))).
          2:{ cbn [length]. rewrite app_length. cbn [length]. lia. }
          destruct (Z.ltb_spec (Z.of_nat (length pre)) (Z.of_nat (length pre + S (length mid')))); [|lia].
          rewrite !zidx_ok. cbn [bind].
          (* the swap *)
          assert (Ea : pre ++ (x :: mid' ++ [y]) ++ post = pre ++ x :: (mid' ++ y :: post)).
          { cbn [app]. rewrite <- app_assoc. reflexivity. }
          rewrite Ea.
          assert (Hx : nth_error (pre ++ x :: mid' ++ y :: post) (length pre) = Some x)
            by apply nth_error_app_mid.
          assert (Ey : pre ++ x :: mid' ++ y :: post = (pre ++ x :: mid') ++ y :: post).
          { rewrite <- app_assoc. reflexivity. }
          assert (Ly : (length pre + S (length mid') = length (pre ++ x :: mid'))%nat).
          { rewrite app_length. cbn [length]. lia. }
          assert (Hy : nth_error (pre ++ x :: mid' ++ y :: post) (length pre + S (length mid')) = Some y).
          { rewrite Ey, Ly. apply nth_error_app_mid. }
          unfold swap. destruct (Nat.eqb_spec (length pre) (length pre + S (length mid'))); [lia|].
          rewrite Hx, Hy. cbn [bind].
          rewrite upd_app_mid.
          assert (Ey2 : pre ++ y :: mid' ++ y :: post = (pre ++ y :: mid') ++ y :: post).
          { rewrite <- app_assoc. reflexivity. }
          assert (Ly2 : (length pre + S (length mid') = length (pre ++ y :: mid'))%nat).
          { rewrite app_length. cbn [length]. lia. }
          rewrite Ey2, Ly2, upd_app_mid. rewrite <- Ly2.
          rewrite !chk_ok by (rewrite smin64, smax64; lia). cbn [bind].
          destruct (IH mid' (pre ++ [y]) (x :: post)) as (l & El).
          { lia. }
          { rewrite !app_length. cbn [length]. lia. }
          replace (Z.of_nat (length pre) + 1) with (Z.of_nat (length (pre ++ [y])))
            by (rewrite app_length; cbn [length]; lia).
          replace (Z.of_nat (length pre + S (length mid')) - 1)
            with (Z.of_nat (length (pre ++ [y]) + length mid') - 1)
            by (rewrite app_length; cbn [length]; lia).
          replace ((pre ++ y :: mid') ++ x :: post) with ((pre ++ [y]) ++ mid' ++ x :: post)
            by (rewrite <- !app_assoc; reflexivity).
          rewrite El. cbn [bind]. eexists. f_equal. f_equal.
          cbn [rev]. rewrite rev_app_distr. cbn [rev app].
          rewrite <- !app_assoc. cbn [app]. reflexivity.
  Qed.

  (** cstl_raw_array_reverse with ssize_t indices, count <= SSIZE_MAX *)
  Theorem reverse_correct (a : list A) :
    Z.of_nat (length a) <= smax 64 ->
    exists l, reverse a = Ok (rev a, l).
  Proof.
    intros H. unfold reverse, reverse_gen. rewrite j_init64 by auto.
    destruct (rev_loop_spec (length a) a [] []) as (l & E).
    - lia.
    - cbn [app]. rewrite app_nil_r. auto.
    - cbn [app length] in E. rewrite app_nil_r in E. cbn [Nat.add] in E.
      rewrite app_nil_r in E. eauto.
  Qed.

  (** * binary search *)
  Hypothesis contract : cmp_contract cmp.
  Local Notation le := (le cmp).

  Lemma lt_le_trans x y z : cmp x y < 0 -> le y z -> cmp x z < 0.
  Proof.
    intros H1 H2. destruct (Z_lt_ge_dec (cmp x z) 0) as [|G]; auto. exfalso.
    assert (le z x) by (apply (not_lt_le cmp contract); lia).
    assert (le y x) by (eapply (le_trans cmp contract); eauto).
    apply (le_not_lt cmp contract) in H0. tauto.
  Qed.

  Lemma le_lt_trans x y z : le x y -> cmp y z < 0 -> cmp x z < 0.
  Proof.
    intros H1 H2. destruct (Z_lt_ge_dec (cmp x z) 0) as [|G]; auto. exfalso.
    assert (le z x) by (apply (not_lt_le cmp contract); lia).
    assert (le z y) by (eapply (le_trans cmp contract); eauto).
    apply (le_not_lt cmp contract) in H0. tauto.
  Qed.

  Lemma ss_nth (a : list A) : StronglySorted le a ->
    forall k1 k2 x y, (k1 <= k2)%nat -> nth_error a k1 = Some x -> nth_error a k2 = Some y -> le x y.
  Proof.
    induction 1 as [|z r S IH F]; intros k1 k2 x y Hk H1 H2.
    - destruct k1; discriminate.
    - destruct k1 as [|k1]; destruct k2 as [|k2]; simpl in *; try lia.
      + injection H1 as <-. injection H2 as <-. apply (le_refl cmp contract).
      + injection H1 as <-. rewrite Forall_forall in F. apply F. eapply nth_error_In; eauto.
      + apply (IH k1 k2); auto. lia.
  Qed.

  Definition found (ex : A) (a : list A) (r : Z) : Prop :=
    (r = -1 /\ forall k x, nth_error a k = Some x -> cmp ex x <> 0) \/
    (0 <= r /\ exists x, nth_error a (Z.to_nat r) = Some x /\ cmp ex x = 0).

  Lemma search_loop_spec ex (a : list A) : StronglySorted le a ->
    Z.of_nat (length a) <= smax 64 ->
    forall fuel i j,
    0 <= i -> j < Z.of_nat (length a) -> i <= j + 1 -> j - i + 1 <= Z.of_nat fuel ->
    (forall k x, Z.of_nat k < i -> nth_error a k = Some x -> cmp ex x > 0) ->
    (forall k x, j < Z.of_nat k -> nth_error a k = Some x -> cmp ex x < 0) ->
    exists r l, search_loop cmp 64 (mid_fix 64) ex fuel a i j = Ok (r, l) /\ found ex a r.
  Proof.
    intros SS Hn. rewrite smax64 in Hn.
    induction fuel as [|f IH]; intros i j Hi Hj Hij Hf HL HR.
    - cbn [search_loop]. destruct (Z.leb_spec i j); [lia|].
      eexists _, _. split; [reflexivity|]. left. split; auto.
      intros k x Hx. destruct (Z_lt_ge_dec (Z.of_nat k) i) as [Lk|Gk].
      + specialize (HL k x Lk Hx). lia.
      + assert (Jk : j < Z.of_nat k) by lia. specialize (HR k x Jk Hx). lia.
    - cbn [search_loop]. destruct (Z.leb_spec i j) as [Le|Gt].
      2:{ eexists _, _. split; [reflexivity|]. left. split; auto.
          intros k x Hx. destruct (Z_lt_ge_dec (Z.of_nat k) i) as [Lk|Gk].
          + specialize (HL k x Lk Hx). lia.
          + assert (Jk : j < Z.of_nat k) by lia. specialize (HR k x Jk Hx). lia. }
      assert (D : 0 <= (j - i) / 2 <= j - i).
      { split; [apply Z.div_pos; lia|]. apply Z.div_le_upper_bound; lia. }
      assert (M : mid_fix 64 i j = Ok (i + (j - i) / 2)).
      { unfold mid_fix. rewrite chk_ok by (rewrite smin64, smax64; lia). cbn [bind].
        rewrite Z.quot_div_nonneg by lia.
        rewrite chk_ok by (rewrite smin64, smax64; lia). reflexivity. }
      rewrite M. cbn [bind].
      set (n := i + (j - i) / 2) in *.
      assert (Hnn : 0 <= n < Z.of_nat (length a)) by (unfold n; lia).
      unfold zidx. destruct (Z.ltb_spec n 0); [lia|]. cbn [bind].
      destruct (nth_error_ex a (Z.to_nat n)) as (x & Hx); [lia|].
      rewrite Hx.
      destruct (Z.eqb_spec (cmp ex x) 0) as [E0|E0].
      + eexists _, _. split; [reflexivity|]. right. split; [lia|]. eauto.
      + destruct (Z.ltb_spec (cmp ex x) 0) as [Lt|Ge].
        * rewrite chk_ok by (rewrite smin64, smax64; lia). cbn [bind].
          destruct (IH i (n - 1)) as (r & l & El & Fr); auto; try lia.
          { intros k y Hk Hy. destruct (Z_lt_ge_dec j (Z.of_nat k)); [apply (HR k); auto|].
            apply lt_le_trans with x; auto.
            apply (ss_nth a SS (Z.to_nat n) k); auto. lia. }
          rewrite El. cbn [bind]. eauto.
        * rewrite chk_ok by (rewrite smin64, smax64; lia). cbn [bind].
          destruct (IH (n + 1) j) as (r & l & El & Fr); auto; try lia.
          { intros k y Hk Hy. destruct (Z_lt_ge_dec (Z.of_nat k) i); [apply (HL k); auto|].
            assert (cmp y ex < 0); [|apply (cmp_anti cmp contract) in H0; lia].
            apply le_lt_trans with x.
            - apply (ss_nth a SS k (Z.to_nat n)); auto. lia.
            - apply (cmp_anti cmp contract). lia. }
          rewrite El. cbn [bind]. eauto.
  Qed.

  (** cstl_raw_array_search with ssize_t indices on a sorted array of
      count <= SSIZE_MAX elements: an index of an element equal to the probe
      iff there is one, -1 otherwise; never outside the array *)
  Theorem search_correct ex (a : list A) :
    StronglySorted le a -> Z.of_nat (length a) <= smax 64 ->
    exists r l, search cmp ex a = Ok (r, l) /\ found ex a r.
  Proof.
    intros SS Hn. unfold search, search_gen. rewrite j_init64 by auto.
    apply search_loop_spec; auto; try lia.
    intros k x Hk Hx. apply nth_error_lt in Hx. lia.
  Qed.
End Search.
