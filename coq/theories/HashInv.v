(** Proofs about HashModel.v, part 2: the table invariant [inv] (DESIGN.md
    appendix A.1, "hash_inv") and its preservation by the internal functions
    of hash.c, for ANY hash function: a call either aborts (range check) or
    re-establishes the invariant; it never faults. *)
From Cstl Require Import Prelude AllocModel HashModel HashProofs.
Local Open Scope N_scope.

Arguments HashModel.bucket_raw : simpl never.

Section Inv.
  Variable hf : fn_id -> N -> N -> option N.
  Variable key : nat -> N.
  Hypothesis Hdef : hf_def hf.

  Notation safe := (HashProofs.safe hf).
  Notation bucket_raw := (bucket_raw hf).
  Notation reinsert := (reinsert hf key).
  Notation clean_bucket := (clean_bucket hf key).
  Notation sweep := (sweep hf key).
  Notation rehash_n := (rehash_n hf key).
  Notation rehash := (rehash hf key).
  Notation get_bucket := (get_bucket hf key).

  (** the bucket [__cstl_hash_get_bucket] returns for the key of [e] under
      the geometry (f, m), if it returns *)
  Definition hidx (f : option fn_id) (m : N) (e : nat) : option nat :=
    match bucket_raw f (key e) m with
    | Ok i _ => Some i
    | _ => None
    end.

  Lemma hidx_lt f m e i : hidx f m e = Some i -> (i < N.to_nat m)%nat.
  Proof.
    unfold hidx, HashModel.bucket_raw. destruct f as [g|]; [|discriminate].
    destruct (hf g (key e) m) as [j|]; [|discriminate].
    destruct (N.leb_spec m j); [discriminate|]. intros [= <-]. lia.
  Qed.

  Lemma hidx_key f m e e' : key e = key e' -> hidx f m e = hidx f m e'.
  Proof. unfold hidx. now intros ->. Qed.

  Lemma bucket_raw_hidx f m e i w : bucket_raw f (key e) m = Ok i w -> hidx f m e = Some i.
  Proof. unfold hidx. now intros ->. Qed.

  (** where a node may sit: under the current geometry when no rehash is
      pending; otherwise at its pending index, or -- in a dirty bucket -- still
      at its old index *)
  Definition ok_at (t : table) (i : nat) (b : bucket) (e : nat) : Prop :=
    match rhash t with
    | None => hidx (hash t) (bcount t) e = Some i
    | Some _ =>
      hidx (rhash t) (rcount t) e = Some i \/
      (bbit b <> cst t /\ hidx (hash t) (bcount t) e = Some i)
    end.

  (** buckets whose bit must agree with the table's: all buckets in use when
      nothing is pending (so that the next resize, which flips the table bit,
      makes every one of them dirty); the buckets added by a pending grow *)
  Definition fresh_range (t : table) (i : nat) : Prop :=
    match rhash t with
    | None => (i < N.to_nat (bcount t))%nat
    | Some _ => (N.to_nat (bcount t) <= i < N.to_nat (rcount t))%nat
    end.

  (** the loop invariant of the sweep ([rh.clean <= count]); [inv] below adds
      that between calls the sweep index is strictly inside the table *)
  Record invw (t : table) : Prop := mkInv {
    inv_shape : shape t;
    inv_placed : forall i b e, nth_error (bks t) i = Some b -> In e (chain b) -> ok_at t i b e;
    inv_swept : rhash t <> None ->
                rclean t <= bcount t /\
                forall i b, (i < N.to_nat (rclean t))%nat -> nth_error (bks t) i = Some b -> bbit b = cst t;
    inv_nodup : NoDup (live t);
    inv_size : size t = N.of_nat (length (live t));
    inv_fresh : forall i b, nth_error (bks t) i = Some b -> fresh_range t i -> bbit b = cst t
  }.

  Definition inv (t : table) : Prop := invw t /\ (rhash t <> None -> rclean t < bcount t).

  Lemma inv_init : inv t_init.
  Proof.
    split; [|simpl; congruence]. split; simpl; auto.
    - apply shape_init.
    - intros [|i] b e H; discriminate.
    - congruence.
    - constructor.
    - intros [|i] b H; discriminate.
  Qed.

  (** ** reinsert *)

  Definition same_bits (bs bs' : list bucket) : Prop :=
    forall i, option_map bbit (nth_error bs' i) = option_map bbit (nth_error bs i).

  Lemma same_bits_refl bs : same_bits bs bs.
  Proof. intro; auto. Qed.

  Lemma same_bits_trans a b c : same_bits a b -> same_bits b c -> same_bits a c.
  Proof. intros H1 H2 i. now rewrite H2, H1. Qed.

  Lemma same_bits_upd bs i b b' :
    nth_error bs i = Some b -> bbit b' = bbit b -> same_bits bs (upd bs i b').
  Proof.
    intros H E j. rewrite nth_error_upd. destruct (Nat.eqb_spec i j) as [->|]; auto.
    rewrite H. destruct (Nat.ltb_spec j (length bs)) as [_|Hl]; simpl; [congruence|].
    apply nth_error_some_lt in H. lia.
  Qed.

  Definition hash_events (g : fn_id) (m : N) (l : list nat) : list ev :=
    map (fun e => EvHash g (key e) m) l.

  Lemma reinsert_spec l g m bs :
    0 < m -> (N.to_nat m <= length bs)%nat ->
    safe (reinsert l (Some g) m bs) (fun bs' w =>
      length bs' = length bs /\ same_bits bs bs' /\
      Permutation (lv bs') (l ++ lv bs) /\
      (forall i b' e, nth_error bs' i = Some b' -> In e (chain b') ->
         (exists b, nth_error bs i = Some b /\ In e (chain b)) \/
         (In e l /\ hidx (Some g) m e = Some i)) /\
      w = hash_events g m l).
  Proof.
    intros Hm. revert bs. induction l as [|e r IH]; intros bs Hlen; simpl.
    - repeat split; auto using same_bits_refl. intros i b' e H1 H2. left; eauto.
    - pose proof (bucket_raw_safe hf Hdef (Some g) (key e) m ltac:(congruence) Hm) as R.
      destruct (bucket_raw (Some g) (key e) m) as [j wj| |] eqn:Ej; simpl in *; auto.
      destruct R as (Hj & g' & [= <-] & ->).
      destruct (nth_error_lt bs j) as (b & Hb); [lia|]. rewrite Hb.
      specialize (IH (upd bs j (mkB (e :: chain b) (bbit b)))).
      rewrite upd_length in IH. specialize (IH Hlen).
      destruct (reinsert r (Some g) m _) as [bs' w'| |]; simpl in *; auto.
      destruct IH as (L & B & P & W & ->). repeat split; auto.
      + eapply same_bits_trans; [|exact B]. eapply same_bits_upd; eauto.
      + rewrite P. rewrite (lv_upd_cons bs j b e (bbit b) Hb).
        rewrite <- Permutation_middle. auto.
      + intros i b' x H1 H2. destruct (W i b' x H1 H2) as [(b0 & Hb0 & Hx)|(Hx & Hi)].
        * rewrite nth_error_upd in Hb0. destruct (Nat.eqb_spec j i) as [->|].
          -- destruct (Nat.ltb_spec i (length bs)); [|discriminate].
             injection Hb0 as <-. simpl in Hx. destruct Hx as [<-|Hx].
             ++ right. split; auto. eapply bucket_raw_hidx; eauto.
             ++ left. eauto.
          -- left. eauto.
        * right. auto.
  Qed.

  (** ** clean_bucket *)

  Definition pending (t : table) : Prop := rhash t <> None.

  (** where the nodes of [t'] come from: each stayed in its bucket or went to
      its index under the pending geometry of [t] *)
  Definition moved (t t' : table) : Prop :=
    forall i b' e, nth_error (bks t') i = Some b' -> In e (chain b') ->
      (exists b, nth_error (bks t) i = Some b /\ In e (chain b)) \/
      hidx (rhash t) (rcount t) e = Some i.

  Lemma moved_refl t : moved t t.
  Proof. intros i b e H1 H2. left; eauto. Qed.

  (** bits: only bucket [i] may have changed, and it is clean now *)
  Definition cleaned_at (t t' : table) (i : nat) : Prop :=
    (forall j, j <> i -> option_map bbit (nth_error (bks t') j) = option_map bbit (nth_error (bks t) j)) /\
    (forall b', nth_error (bks t') i = Some b' -> bbit b' = cst t).

  Fixpoint ncleans (w : list ev) : nat :=
    match w with
    | [] => 0
    | EvClean _ :: r => S (ncleans r)
    | _ :: r => ncleans r
    end.

  Lemma ncleans_app a b : ncleans (a ++ b) = (ncleans a + ncleans b)%nat.
  Proof. induction a as [|[] a IH]; simpl; auto. Qed.

  Lemma ncleans_hash g m l : ncleans (hash_events g m l) = 0%nat.
  Proof. induction l; simpl; auto. Qed.

  Lemma clean_bucket_invw t i :
    invw t -> pending t -> (i < length (bks t))%nat ->
    safe (clean_bucket t i) (fun t' w =>
      invw t' /\ same_frame t t' /\ cleaned_at t t' i /\ moved t t' /\
      Permutation (live t') (live t) /\ (ncleans w <= 1)%nat).
  Proof.
    intros I Hp Hi. unfold HashModel.clean_bucket.
    destruct (nth_error_lt _ _ Hi) as (b & Hb). rewrite Hb.
    destruct (Bool.eqb_spec (cst t) (bbit b)) as [Ec|Ec]; simpl.
    { split; [exact I|]. split; [apply same_frame_refl|].
      split; [split; [auto|intros b' Hb'; congruence]|].
      split; [apply moved_refl|]. split; [auto|simpl; lia]. }
    pose proof (inv_shape t I) as S.
    destruct (sh_rh t S Hp) as (Hr0 & Hrc).
    destruct (rhash t) as [g|] eqn:Erh; [|congruence].
    pose proof (reinsert_spec (chain b) g (rcount t) (upd (bks t) i (mkB [] (bbit b))) Hr0) as R.
    rewrite upd_length in R. specialize (R ltac:(rewrite (sh_len t S); lia)).
    destruct (reinsert (chain b) (Some g) (rcount t) _) as [bs w| |]; simpl in *; auto.
    destruct R as (L & B & P & W & ->).
    destruct (nth_error_lt bs i) as (b' & Hb'); [lia|]. rewrite Hb'. simpl.
    set (t' := set_bks t (upd bs i (mkB (chain b') (cst t)))).
    assert (Elive : lv (bks t') = lv bs).
    { unfold t'. simpl. apply lv_upd_bit; auto. }
    assert (Pl : Permutation (live t') (live t)).
    { rewrite !live_lv, Elive, P. apply lv_upd_detach; auto. }
    (* bits of the intermediate array *)
    assert (Bj : forall j, j <> i -> option_map bbit (nth_error (bks t') j) = option_map bbit (nth_error (bks t) j)).
    { intros j Hj. unfold t'. simpl. rewrite nth_error_upd_other by auto.
      rewrite B. now rewrite nth_error_upd_other by auto. }
    assert (Mv : moved t t').
    { intros x bx e Hx He. unfold t' in Hx. simpl in Hx.
      rewrite nth_error_upd in Hx. destruct (Nat.eqb_spec i x) as [<-|Hne].
      - destruct (Nat.ltb_spec i (length bs)); [|discriminate]. injection Hx as <-. simpl in He.
        destruct (W i b' e Hb' He) as [(b0 & Hb0 & He0)|(_ & Hh)].
        + rewrite nth_error_upd_same in Hb0 by auto. injection Hb0 as <-. destruct He0.
        + right. now rewrite Erh.
      - destruct (W x bx e Hx He) as [(b0 & Hb0 & He0)|(_ & Hh)].
        + rewrite nth_error_upd_other in Hb0 by auto. left; eauto.
        + right. now rewrite Erh. }
    assert (I' : invw t').
    { split.
    - eapply same_frame_shape; [|exact S]. split; [apply scal_set_bks|].
      unfold t'. simpl. rewrite upd_length. now rewrite L.
    - (* placement *)
      intros x bx e Hx He. unfold ok_at. replace (rhash t') with (Some g) by (now unfold t'; simpl).
      replace (rcount t') with (rcount t) by reflexivity.
      replace (cst t') with (cst t) by reflexivity.
      replace (hash t') with (hash t) by reflexivity.
      replace (bcount t') with (bcount t) by reflexivity.
      unfold t' in Hx. simpl in Hx.
      destruct (Nat.eq_dec x i) as [->|Hne].
      + rewrite nth_error_upd_same in Hx by lia. injection Hx as <-. simpl in He.
        destruct (W i b' e Hb' He) as [(b1 & Hb1 & He1)|(Hin & Hh)]; [|left; auto].
        rewrite nth_error_upd_same in Hb1 by auto. injection Hb1 as <-. destruct He1.
      + rewrite nth_error_upd_other in Hx by auto.
        destruct (W x bx e Hx He) as [(b0 & Hb0 & He0)|(_ & Hh)]; [|left; auto].
        rewrite nth_error_upd_other in Hb0 by auto.
        pose proof (inv_placed t I x b0 e Hb0 He0) as O. unfold ok_at in O. rewrite Erh in O.
        destruct O as [O|(Od & Oh)]; [left; auto|].
        right. split; auto. specialize (B x). rewrite Hx in B.
        rewrite nth_error_upd_other in B by auto. rewrite Hb0 in B. simpl in B.
        injection B as ->. auto.
    - (* swept *)
      intros _. destruct (inv_swept t I Hp) as (Hlt & Hs). split; auto.
      intros x bx Hxl Hx. replace (cst t') with (cst t) by reflexivity.
      destruct (Nat.eq_dec x i) as [->|Hne].
      + unfold t' in Hx. simpl in Hx. rewrite nth_error_upd_same in Hx by lia. now injection Hx as <-.
      + specialize (Bj x Hne). rewrite Hx in Bj. replace (rclean t') with (rclean t) in Hxl by reflexivity.
        destruct (nth_error (bks t) x) as [b0|] eqn:E0; [|discriminate].
        simpl in Bj. injection Bj as ->. eapply Hs; eauto.
    - eapply Permutation_NoDup; [symmetry; exact Pl|apply (inv_nodup t I)].
    - replace (size t') with (size t) by reflexivity. rewrite (inv_size t I).
      now rewrite (Permutation_length Pl).
    - intros x bx Hx Hf. replace (cst t') with (cst t) by reflexivity.
      destruct (Nat.eq_dec x i) as [->|Hne].
      + unfold t' in Hx. simpl in Hx. rewrite nth_error_upd_same in Hx by lia. now injection Hx as <-.
      + specialize (Bj x Hne). rewrite Hx in Bj.
        destruct (nth_error (bks t) x) as [b0|] eqn:E0; [|discriminate].
        simpl in Bj. injection Bj as ->. apply (inv_fresh t I x b0 E0).
        unfold fresh_range in *. simpl in Hf. exact Hf. }
    split; [exact I'|].
    split; [split; [apply scal_set_bks|unfold t'; simpl; rewrite upd_length; now rewrite L]|].
    split; [split; [exact Bj|]|].
    { intros bx Hx. unfold t' in Hx. simpl in Hx. rewrite nth_error_upd_same in Hx by lia.
      now injection Hx as <-. }
    split; [exact Mv|]. split; [exact Pl|].
    rewrite ncleans_app, ncleans_hash. simpl. lia.
  Qed.

  (** ** the sweep *)

  Lemma ok_at_ext t t' i b e :
    rhash t' = rhash t -> rcount t' = rcount t -> hash t' = hash t -> bcount t' = bcount t ->
    cst t' = cst t -> ok_at t i b e -> ok_at t' i b e.
  Proof. unfold ok_at. intros -> -> -> -> ->. auto. Qed.

  Lemma invw_set_rclean t c :
    invw t -> c <= bcount t ->
    (forall i b, (i < N.to_nat c)%nat -> nth_error (bks t) i = Some b -> bbit b = cst t) ->
    invw (set_rclean t c).
  Proof.
    intros I Hc Hs. split; simpl.
    - eapply shape_ext; try apply (inv_shape t I); auto.
    - intros i b e Hb He. eapply ok_at_ext; try apply (inv_placed t I i b e); auto.
    - intros _. split; auto.
    - apply (inv_nodup t I).
    - apply (inv_size t I).
    - intros i b Hb Hf. apply (inv_fresh t I i b Hb Hf).
  Qed.

  Lemma skip_clean_invw fuel t :
    invw t -> pending t ->
    safe (skip_clean fuel t) (fun t' w => invw t' /\ sweep_frame t t' /\ bks t' = bks t /\ w = []).
  Proof.
    revert t. induction fuel as [|fu IH]; intros t I Hp; simpl.
    - split; auto. split; [apply sweep_frame_refl|auto].
    - destruct (N.ltb_spec (rclean t) (bcount t)) as [Hlt|];
        [|simpl; split; auto; split; [apply sweep_frame_refl|auto]].
      pose proof (inv_shape t I) as S.
      destruct (nth_error_lt (bks t) (N.to_nat (rclean t))) as (b & Hb).
      { rewrite (sh_len t S). pose proof (sh_cnt t S). lia. }
      rewrite Hb.
      destruct (Bool.eqb_spec (bbit b) (cst t)) as [Eb|];
        [|simpl; split; auto; split; [apply sweep_frame_refl|auto]].
      assert (I1 : invw (set_rclean t (rclean t + 1))).
      { apply invw_set_rclean; auto; [lia|].
        destruct (inv_swept t I Hp) as (_ & Hs).
        intros i b0 Hi Hb0. destruct (Nat.eq_dec i (N.to_nat (rclean t))) as [->|].
        - congruence.
        - apply (Hs i b0); auto. lia. }
      specialize (IH _ I1 Hp).
      destruct (skip_clean fu _) as [t' w| |]; simpl in *; auto.
      destruct IH as (I' & F & B & W). split; auto. split; [|auto].
      eapply sweep_frame_trans; [apply sweep_frame_set_rclean|auto].
  Qed.

  Lemma moved_trans t u v :
    rhash u = rhash t -> rcount u = rcount t -> moved t u -> moved u v -> moved t v.
  Proof.
    intros E1 E2 M1 M2 i b e Hb He.
    destruct (M2 i b e Hb He) as [(b1 & Hb1 & He1)|H].
    - apply (M1 i b1 e Hb1 He1).
    - right. now rewrite <- E1, <- E2.
  Qed.

  Lemma moved_set_rclean t t' c : moved t t' -> moved t (set_rclean t' c).
  Proof. intros M i b e Hb He. apply (M i b e Hb He). Qed.

  Lemma sweep_invw fuel n t :
    invw t -> pending t ->
    safe (sweep fuel n t) (fun t' w =>
      invw t' /\ sweep_frame t t' /\ moved t t' /\ Permutation (live t') (live t) /\
      (ncleans w <= N.to_nat n)%nat /\
      ((0 < fuel)%nat -> 0 < n -> rclean t < bcount t -> rclean t < rclean t')).
  Proof.
    revert n t. induction fuel as [|fu IH]; intros n t I Hp; simpl.
    { split; auto. split; [apply sweep_frame_refl|]. split; [apply moved_refl|].
      split; auto. split; [lia|lia]. }
    destruct (N.ltb_spec (rclean t) (bcount t)) as [Hlt|Hge]; simpl.
    2: { split; auto. split; [apply sweep_frame_refl|]. split; [apply moved_refl|].
         split; auto. split; [simpl; lia|lia]. }
    destruct (N.ltb_spec 0 n) as [Hn|Hn]; simpl.
    2: { split; auto. split; [apply sweep_frame_refl|]. split; [apply moved_refl|].
         split; auto. split; [simpl; lia|lia]. }
    pose proof (inv_shape t I) as S.
    assert (Hi : (N.to_nat (rclean t) < length (bks t))%nat).
    { rewrite (sh_len t S). pose proof (sh_cnt t S). lia. }
    pose proof (clean_bucket_invw t _ I Hp Hi) as C.
    destruct (clean_bucket t (N.to_nat (rclean t))) as [t1 w1| |]; simpl in *; auto.
    destruct C as (I1 & F1 & (Bo & Bi) & M1 & P1 & N1).
    pose proof F1 as [E1 L1]. scal_inv E1.
    assert (I2 : invw (set_rclean t1 (rclean t1 + 1))).
    { apply invw_set_rclean; auto; [lia|].
      assert (Hp1 : pending t1) by (unfold pending; congruence).
      destruct (inv_swept t1 I1 Hp1) as (_ & Hs).
      intros i b0 Hi0 Hb0. destruct (Nat.eq_dec i (N.to_nat (rclean t))) as [->|].
      - rewrite Ecst. auto.
      - apply (Hs i b0); auto. lia. }
    assert (Hp2 : pending (set_rclean t1 (rclean t1 + 1))) by (unfold pending; simpl; congruence).
    specialize (IH (n - 1) _ I2 Hp2).
    destruct (sweep fu (n - 1) _) as [t' w'| |]; simpl in *; auto.
    destruct IH as (I' & F' & M' & P' & N' & _).
    split; auto.
    assert (F2 : sweep_frame t (set_rclean t1 (rclean t1 + 1))).
    { eapply sweep_frame_trans; [apply same_sweep_frame; exact F1|apply sweep_frame_set_rclean]. }
    split; [eapply sweep_frame_trans; eauto|].
    split.
    { eapply moved_trans; [| |apply moved_set_rclean; exact M1|exact M']; simpl; congruence. }
    split; [rewrite P'; exact P1|].
    split; [rewrite ncleans_app; lia|].
    intros _ _ _. destruct F' as (_ & _ & _ & _ & _ & _ & _ & _ & _ & Hr). simpl in Hr. lia.
  Qed.

  (** when the sweep index has reached the end, every bucket is clean and
      therefore every node sits at its pending index *)
  Lemma finish_inv t : invw t -> pending t -> inv (finish t).
  Proof.
    intros I Hp. unfold finish. destruct (N.leb_spec (bcount t) (rclean t)) as [Hge|Hlt].
    2: { split; auto. }
    pose proof (inv_shape t I) as S.
    destruct (inv_swept t I Hp) as (Hle & Hs).
    split; [|simpl; congruence]. split; simpl.
    - pose proof (finish_shape t S Hp) as F. unfold finish in F.
      destruct (N.leb_spec (bcount t) (rclean t)); [exact F|lia].
    - intros i b e Hb He. pose proof (inv_placed t I i b e Hb He) as O.
      unfold ok_at in *. simpl. destruct (rhash t) as [g|] eqn:E; [|congruence].
      destruct O as [O|(Od & Oh)]; auto.
      exfalso. apply Od. apply (Hs i b); auto. apply hidx_lt in Oh. lia.
    - congruence.
    - apply (inv_nodup t I).
    - apply (inv_size t I).
    - intros i b Hb Hf. unfold fresh_range in Hf. simpl in Hf.
      destruct (Nat.lt_ge_cases i (N.to_nat (bcount t))) as [Hl|Hg].
      + apply (Hs i b); auto. lia.
      + apply (inv_fresh t I i b Hb). unfold fresh_range. unfold pending in Hp.
        destruct (rhash t); [lia|congruence].
  Qed.

  Lemma moved_finish t t' : moved t t' -> moved t (finish t').
  Proof.
    intros M i b e Hb He. apply (M i b e); auto.
    unfold finish in Hb. destruct (bcount t' <=? rclean t'); auto.
  Qed.

  Lemma live_finish t : live (finish t) = live t.
  Proof. unfold finish. destruct (bcount t <=? rclean t); auto. Qed.

  (** ** __cstl_hash_rehash *)

  Lemma tgt_finish t : pending t -> tgt_count (finish t) = tgt_count t /\ tgt_hash (finish t) = tgt_hash t.
  Proof.
    unfold pending, finish, tgt_count, tgt_hash. intros Hp.
    destruct (bcount t <=? rclean t); simpl; auto.
    destruct (rhash t); [auto|congruence].
  Qed.

  Lemma rehash_n_inv t n :
    inv t -> pending t ->
    safe (rehash_n t n) (fun t' w =>
      inv t' /\ moved t t' /\ Permutation (live t') (live t) /\
      tgt_count t' = tgt_count t /\ tgt_hash t' = tgt_hash t /\
      cap t' = cap t /\ at_blk t' = at_blk t /\ size t' = size t /\ cst t' = cst t /\
      length (bks t') = length (bks t) /\
      (ncleans w <= N.to_nat n)%nat /\
      (0 < n -> rhash t' = None \/ (rclean t < rclean t' /\ bcount t' = bcount t))).
  Proof.
    intros [I Hlt] Hp. specialize (Hlt Hp). unfold HashModel.rehash_n.
    pose proof (skip_clean_invw (N.to_nat (bcount t - rclean t)) t I Hp) as K.
    destruct (skip_clean _ t) as [t1 w1| |]; simpl in *; auto.
    destruct K as (I1 & F1 & B1 & ->).
    pose proof F1 as (A1 & C1 & P1 & H1 & T1 & R1 & RH1 & Z1 & L1 & Le1).
    assert (Hp1 : pending t1) by (unfold pending; congruence).
    pose proof (sweep_invw (N.to_nat (bcount t1 - rclean t1)) n t1 I1 Hp1) as W.
    destruct (sweep _ n t1) as [t2 w2| |]; simpl in *; auto.
    destruct W as (I2 & F2 & M2 & P2 & N2 & Pr2).
    pose proof F2 as (A2 & C2 & Q2 & H2 & T2 & R2 & RH2 & Z2 & L2 & Le2).
    assert (Hp2 : pending t2) by (unfold pending; congruence).
    split; [apply finish_inv; auto|].
    split.
    { apply moved_finish. intros i b e Hb He. destruct (M2 i b e Hb He) as [(b0 & Hb0 & He0)|H].
      - left. rewrite <- B1. eauto.
      - right. now rewrite <- RH1, <- R1. }
    split; [rewrite live_finish, P2, !live_lv, B1; auto|].
    destruct (tgt_finish t2 Hp2) as (TC & TH). rewrite TC, TH.
    unfold tgt_count, tgt_hash. rewrite RH2, RH1, R2, R1.
    destruct (rhash t) as [g|] eqn:Eg; [|unfold pending in Hp; congruence].
    split; auto. split; auto.
    assert (Ef : forall {A} (f : table -> A), (forall u, f (mkT (at_blk u) (bks u) (rcount u) (cap u) (rhash u) (cst u) (rcount u) (rclean u) None (size u)) = f u) -> f (finish t2) = f t2).
    { intros A f Hf. unfold finish. destruct (bcount t2 <=? rclean t2); auto. }
    rewrite (Ef _ cap), (Ef _ at_blk), (Ef _ size), (Ef _ cst), (Ef _ (fun u => length (bks u))) by reflexivity.
    repeat (split; [congruence|]).
    split; [rewrite app_nil_r; auto|].
    intros Hn. unfold finish. destruct (N.leb_spec (bcount t2) (rclean t2)); simpl; auto.
    right. split; [|congruence].
    destruct (N.ltb_spec (rclean t1) (bcount t1)) as [Hl1|Hg1].
    - assert (rclean t1 < rclean t2); [|lia]. apply Pr2; auto. lia.
    - lia.
  Qed.

  (** ** cstl_hash_rehash: afterwards nothing is pending *)

  Lemma rehash_inv t :
    inv t ->
    safe (rehash t) (fun t' w =>
      inv t' /\ rhash t' = None /\ Permutation (live t') (live t) /\
      bcount t' = tgt_count t /\ hash t' = tgt_hash t /\
      cap t' = cap t /\ at_blk t' = at_blk t /\ size t' = size t /\ cst t' = cst t /\
      length (bks t') = length (bks t) /\ (rhash t = None -> t' = t /\ w = [])).
  Proof.
    intros I. pose proof (rehash_settles hf key Hdef t (inv_shape t (proj1 I))) as R.
    unfold HashModel.rehash in *. destruct (rhash t) as [g|] eqn:Eg.
    - assert (Hp : pending t) by (unfold pending; congruence).
      pose proof (rehash_n_inv t SIZE_MAX I Hp) as Q.
      destruct (rehash_n t SIZE_MAX) as [t' w| |]; simpl in *; auto.
      destruct R as (_ & Rn & _).
      destruct Q as (I' & _ & P & TC & TH & C & A & Z & T & L & _).
      unfold tgt_count, tgt_hash in TC, TH. rewrite Rn, Eg in *.
      unfold tgt_count, tgt_hash. rewrite Eg.
      repeat (split; [first [assumption|reflexivity]|]). intros; discriminate.
    - simpl. unfold tgt_count, tgt_hash. rewrite Eg. repeat (split; auto).
  Qed.

  (** ** cstl_hash_get_bucket *)

  (** every node with key [k] is in bucket [j] *)
  Definition at_home (t : table) (k : N) (j : nat) : Prop :=
    forall x b e, nth_error (bks t) x = Some b -> In e (chain b) -> key e = k -> x = j.

  (** [j] is the bucket of key [k] under the geometry the table is heading for *)
  Definition tidx (t : table) (k : N) (j : nat) : Prop :=
    exists w, bucket_raw (tgt_hash t) k (tgt_count t) = Ok j w.

  Lemma tidx_hidx t k j e : tidx t k j -> key e = k -> hidx (tgt_hash t) (tgt_count t) e = Some j.
  Proof. intros (w & H) <-. eapply bucket_raw_hidx; eauto. Qed.

  Lemma tidx_ok_at t k j b e : tidx t k j -> key e = k -> ok_at t j b e.
  Proof.
    intros H E. pose proof (tidx_hidx t k j e H E) as X. unfold ok_at, tgt_hash, tgt_count in *.
    destruct (rhash t); auto.
  Qed.

  Lemma get_bucket_inv t k :
    inv t -> hash t <> None ->
    safe (get_bucket t k) (fun p w =>
      let t' := fst p in let j := snd p in
      inv t' /\ (j < length (bks t'))%nat /\ at_home t' k j /\ tidx t' k j /\
      Permutation (live t') (live t) /\
      tgt_count t' = tgt_count t /\ tgt_hash t' = tgt_hash t /\ hash t' <> None /\
      cap t' = cap t /\ at_blk t' = at_blk t /\ size t' = size t /\ cst t' = cst t /\
      (ncleans w <= 3)%nat /\
      (rhash t = None -> t' = t /\ exists g, hash t = Some g /\ w = [EvHash g k (bcount t)]) /\
      (rhash t <> None -> rhash t' = None \/ (rclean t < rclean t' /\ bcount t' = bcount t))).
  Proof.
    intros I Hh. pose proof (inv_shape t (proj1 I)) as S.
    pose proof (get_bucket_safe hf key Hdef t k S Hh) as G.
    unfold HashModel.get_bucket in *.
    pose proof (bucket_raw_safe hf Hdef (hash t) k (bcount t) Hh (sh_pos t S Hh)) as R.
    destruct (bucket_raw (hash t) k (bcount t)) as [i wi| |] eqn:Ei; simpl in *; auto.
    destruct R as (Hi & g & Eh & ->).
    assert (Hil : (i < length (bks t))%nat).
    { rewrite (sh_len t S). pose proof (sh_cnt t S). lia. }
    destruct (rhash t) as [g'|] eqn:Ep; simpl in *.
    2: { (* no rehash pending *)
      split; auto. split; auto.
      split.
      { intros x b e Hb He Hk. pose proof (inv_placed t (proj1 I) x b e Hb He) as O.
        unfold ok_at in O. rewrite Ep in O. subst k. rewrite (bucket_raw_hidx _ _ _ _ _ Ei) in O.
        congruence. }
      split. { unfold tidx, tgt_hash, tgt_count. rewrite Ep. eauto. }
      repeat (split; [first [reflexivity|assumption|lia]|]).
      split; [intros _; split; eauto|congruence]. }
    assert (Hp : pending t) by (unfold pending; congruence).
    destruct (sh_rh t S ltac:(congruence)) as (Hr0 & Hrc).
    pose proof (bucket_raw_safe hf Hdef (Some g') k (rcount t) ltac:(congruence) Hr0) as R.
    destruct (bucket_raw (Some g') k (rcount t)) as [j wj| |] eqn:Ej; simpl in *; auto.
    destruct R as (Hj & g2 & [= <-] & ->).
    assert (Hjl : (j < length (bks t))%nat) by (rewrite (sh_len t S); lia).
    pose proof (clean_bucket_invw t i (proj1 I) Hp Hil) as C1.
    destruct (clean_bucket t i) as [t1 w1| |]; simpl in *; auto.
    destruct C1 as (I1 & F1 & (Bo1 & Bi1) & M1 & P1 & N1).
    pose proof F1 as [E1 L1]. scal_inv E1.
    assert (Hp1 : pending t1) by (unfold pending; congruence).
    pose proof (clean_bucket_invw t1 j I1 Hp1 ltac:(lia)) as C2.
    destruct (clean_bucket t1 j) as [t2 w2| |]; simpl in *; auto.
    destruct C2 as (I2 & F2 & (Bo2 & Bi2) & M2 & P2 & N2).
    pose proof F2 as [E2 L2]. scal_inv E2.
    assert (Hp2 : pending t2) by (unfold pending; congruence).
    assert (I2s : inv t2).
    { split; auto. intros _. destruct I as (_ & Hlt). specialize (Hlt ltac:(congruence)). congruence. }
    (* after the two cleans every node with key k is in bucket j *)
    assert (H2 : at_home t2 k j).
    { intros x b e Hb He Hk. pose proof (inv_placed t2 I2 x b e Hb He) as O. unfold ok_at in O.
      rewrite Erhash0, Erhash, Ep in O. rewrite Ercount0, Ercount, Ehash0, Ehash, Ecount0, Ecount, Ecst0, Ecst in O.
      subst k. destruct O as [O|(Od & Oh)].
      - rewrite (bucket_raw_hidx _ _ _ _ _ Ej) in O. congruence.
      - rewrite (bucket_raw_hidx _ _ _ _ _ Ei) in Oh. injection Oh as <-.
        exfalso. apply Od.
        destruct (Nat.eq_dec i j) as [->|Hne].
        + rewrite (Bi2 b Hb). congruence.
        + specialize (Bo2 i Hne). rewrite Hb in Bo2.
          destruct (nth_error (bks t1) i) as [b1|] eqn:Eb1; [|discriminate].
          simpl in Bo2. injection Bo2 as Eb. rewrite Eb, (Bi1 b1 eq_refl). congruence. }
    pose proof (rehash_n_inv t2 1 I2s Hp2) as Q.
    destruct (rehash_n t2 1) as [t3 w3| |]; simpl in *; auto.
    destruct Q as (I3 & M3 & P3 & TC & TH & C3 & A3 & Z3 & T3 & L3 & N3 & Pr3).
    split; auto. split; [lia|].
    assert (Tg : tgt_count t3 = rcount t /\ tgt_hash t3 = Some g').
    { rewrite TC, TH. unfold tgt_count, tgt_hash. rewrite Erhash0, Erhash, Ep. split; congruence. }
    destruct Tg as (Tg1 & Tg2).
    split.
    { intros x b e Hb He Hk. destruct (M3 x b e Hb He) as [(b0 & Hb0 & He0)|H].
      - apply (H2 x b0 e Hb0 He0 Hk).
      - rewrite Erhash0, Erhash, Ep, Ercount0, Ercount in H. subst k.
        rewrite (bucket_raw_hidx _ _ _ _ _ Ej) in H. congruence. }
    split. { unfold tidx. rewrite Tg1, Tg2. eauto. }
    split. { rewrite P3, P2, P1. auto. }
    split; [unfold tgt_count at 2; rewrite Ep; exact Tg1|].
    split; [unfold tgt_hash at 2; rewrite Ep; exact Tg2|].
    split.
    { (* hash of the result *)
      pose proof G as G'. destruct G' as (_ & _ & G' & _). exact G'. }
    repeat (split; [congruence|]).
    split. { rewrite !ncleans_app. simpl. lia. }
    split; [congruence|]. intros _.
    destruct (Pr3 ltac:(lia)) as [Hd|(Hd1 & Hd2)]; [left; auto|right]. split; congruence.
  Qed.
End Inv.
