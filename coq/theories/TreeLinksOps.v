(** Pointer-level model of the trees, part 2: the pointer-level primitives
    realise the functional ones on represented trees -- replacing a child
    link, __cstl_bintree_rotate, the descent loops of find and insert, the
    linking step of insert, recolouring. *)
From Cstl Require Import Prelude TreeModel TreeProofs RBProofs TreeLinksModel TreeLinksProofs.
Local Open Scope Z_scope.

(** * Distinctness bookkeeping *)
Definition disj (l1 l2 : list nat) : Prop := forall a, In a l1 -> ~ In a l2.

Lemma disj_cons_l x l1 l2 : disj (x :: l1) l2 <-> ~ In x l2 /\ disj l1 l2.
Proof.
  unfold disj. split.
  - intros H. split; [apply H; cbn; auto|]. intros a Ha. apply H. cbn; auto.
  - intros (H1 & H2) a [<-|Ha]; auto.
Qed.
Lemma disj_app_l l1 l1' l2 : disj (l1 ++ l1') l2 <-> disj l1 l2 /\ disj l1' l2.
Proof.
  unfold disj. split.
  - intros H. split; intros a Ha; apply H; apply in_or_app; auto.
  - intros (H1 & H2) a Ha. apply in_app_or in Ha. destruct Ha; auto.
Qed.
Lemma disj_cons_r x l1 l2 : disj l1 (x :: l2) <-> ~ In x l1 /\ disj l1 l2.
Proof.
  unfold disj. split.
  - intros H. split.
    + intros Hx. apply (H x Hx). cbn; auto.
    + intros a Ha Hi. apply (H a Ha). cbn; auto.
  - intros (H1 & H2) a Ha [<-|Hi]; auto. apply (H2 a); auto.
Qed.
Lemma disj_app_r l1 l2 l2' : disj l1 (l2 ++ l2') <-> disj l1 l2 /\ disj l1 l2'.
Proof.
  unfold disj. split.
  - intros H. split; intros a Ha Hi; apply (H a Ha); apply in_or_app; auto.
  - intros (H1 & H2) a Ha Hi. apply in_app_or in Hi. destruct Hi; [apply (H1 a)|apply (H2 a)]; auto.
Qed.
Lemma disj_nil_l l : disj [] l <-> True.
Proof. unfold disj. cbn. tauto. Qed.
Lemma disj_nil_r l : disj l [] <-> True.
Proof. unfold disj. cbn. tauto. Qed.

Lemma NoDup_app_disj (l1 l2 : list nat) : NoDup (l1 ++ l2) <-> NoDup l1 /\ NoDup l2 /\ disj l1 l2.
Proof. apply NoDup_app_iff. Qed.

Lemma not_in_app_iff (x : nat) l1 l2 : ~ In x (l1 ++ l2) <-> ~ In x l1 /\ ~ In x l2.
Proof. rewrite in_app_iff. tauto. Qed.
Lemma not_in_cons_iff (x y : nat) l : ~ In x (y :: l) <-> x <> y /\ ~ In x l.
Proof. cbn. split; [intros H; split; auto|intros (H1 & H2) [H|H]; auto]. Qed.

Lemma in_addrs_mk i d k a x b : In i (addrs (mk d k a x b)) <-> i = adr x \/ In i (addrs a) \/ In i (addrs b).
Proof.
  destruct d; cbn [mk]; rewrite addrs_T, in_app_iff; cbn [In]; rewrite ?in_app_iff;
    intuition congruence.
Qed.

Lemma nd_mk d k a x b : NoDup (addrs (mk d k a x b)) <-> NoDup (adr x :: addrs a ++ addrs b).
Proof. split; apply Permutation_NoDup; [|symmetry]; apply addrs_mk. Qed.
Lemma nd_mk_app d k a x b L :
  NoDup (addrs (mk d k a x b) ++ L) <-> NoDup (adr x :: addrs a ++ addrs b ++ L).
Proof.
  assert (P : Permutation (addrs (mk d k a x b) ++ L) (adr x :: addrs a ++ addrs b ++ L)).
  { rewrite addrs_mk. cbn. rewrite <- app_assoc. reflexivity. }
  split; apply Permutation_NoDup; [|symmetry]; exact P.
Qed.
Lemma notin_mk i d k a x b :
  ~ In i (addrs (mk d k a x b)) <-> i <> adr x /\ ~ In i (addrs a) /\ ~ In i (addrs b).
Proof. rewrite in_addrs_mk. tauto. Qed.
Lemma disj_mk_l d k a x b L :
  disj (addrs (mk d k a x b)) L <-> ~ In (adr x) L /\ disj (addrs a) L /\ disj (addrs b) L.
Proof.
  unfold disj. split.
  - intros H. repeat split; try intros i Hi; apply H; apply in_addrs_mk; auto.
  - intros (H1 & H2 & H3) i Hi. apply in_addrs_mk in Hi. destruct Hi as [->|[Hi|Hi]]; auto.
Qed.
Lemma disj_mk_r d k a x b L :
  disj L (addrs (mk d k a x b)) <-> ~ In (adr x) L /\ disj L (addrs a) /\ disj L (addrs b).
Proof.
  unfold disj. split.
  - intros H. repeat split.
    + intros Hx. apply (H _ Hx). apply in_addrs_mk; auto.
    + intros i Hi Hj. apply (H _ Hi). apply in_addrs_mk; auto.
    + intros i Hi Hj. apply (H _ Hi). apply in_addrs_mk; auto.
  - intros (H1 & H2 & H3) i Hi Hj. apply in_addrs_mk in Hj. destruct Hj as [->|[Hj|Hj]]; auto.
    + apply (H2 i); auto.
    + apply (H3 i); auto.
Qed.

(** split syntactic conjunctions only *)
Ltac splits := repeat match goal with |- _ /\ _ => split end.

(** [keep P] hides a hypothesis from [nd_norm] *)
Definition keep (P : Prop) : Prop := P.

(** break every distinctness hypothesis into atoms: [a <> b], [~ In a L],
    [NoDup L], [disj L1 L2] with symbolic lists *)
Ltac nd_norm :=
  repeat match goal with
  | H : _ /\ _ |- _ => destruct H
  | H : True |- _ => clear H
  | H : NoDup (addrs (mk _ _ _ _ _) ++ _) |- _ => apply nd_mk_app in H
  | H : NoDup (addrs (mk _ _ _ _ _)) |- _ => apply nd_mk in H
  | H : NoDup (addrs (T _ _ _ _) ++ _) |- _ => rewrite addrs_T in H
  | H : NoDup (addrs (T _ _ _ _)) |- _ => rewrite addrs_T in H
  | H : NoDup (addrs E ++ _) |- _ => rewrite addrs_E in H; cbn [app] in H
  | H : NoDup (caddrs (_ :: _)) |- _ => rewrite caddrs_cons in H; cbn [fe fs] in H
  | H : NoDup (_ ++ caddrs (_ :: _)) |- _ => rewrite caddrs_cons in H; cbn [fe fs] in H
  | H : NoDup ((_ ++ _) ++ _) |- _ => rewrite <- app_assoc in H
  | H : NoDup ((_ :: _) ++ _) |- _ => rewrite <- app_comm_cons in H
  | H : NoDup (_ :: _) |- _ => apply NoDup_cons_iff in H
  | H : NoDup (_ ++ _) |- _ => apply NoDup_app_disj in H
  | H : NoDup [] |- _ => clear H
  | H : ~ In _ (_ ++ _) |- _ => apply not_in_app_iff in H
  | H : ~ In _ (_ :: _) |- _ => apply not_in_cons_iff in H
  | H : ~ In _ [] |- _ => clear H
  | H : ~ In _ (addrs (mk _ _ _ _ _)) |- _ => apply notin_mk in H
  | H : ~ In _ (addrs (T _ _ _ _)) |- _ => rewrite addrs_T in H
  | H : ~ In _ (addrs E) |- _ => clear H
  | H : ~ In _ (caddrs (_ :: _)) |- _ => rewrite caddrs_cons in H; cbn [fe fs] in H
  | H : disj (_ :: _) _ |- _ => apply disj_cons_l in H
  | H : disj (_ ++ _) _ |- _ => apply disj_app_l in H
  | H : disj _ (_ :: _) |- _ => apply disj_cons_r in H
  | H : disj _ (_ ++ _) |- _ => apply disj_app_r in H
  | H : disj [] _ |- _ => clear H
  | H : disj _ [] |- _ => clear H
  | H : disj (addrs (mk _ _ _ _ _)) _ |- _ => apply disj_mk_l in H
  | H : disj _ (addrs (mk _ _ _ _ _)) |- _ => apply disj_mk_r in H
  | H : disj (addrs (T _ _ _ _)) _ |- _ => rewrite addrs_T in H
  | H : disj _ (addrs (T _ _ _ _)) |- _ => rewrite addrs_T in H
  | H : disj (addrs E) _ |- _ => clear H
  | H : disj _ (addrs E) |- _ => clear H
  | H : disj (caddrs (_ :: _)) _ |- _ => rewrite caddrs_cons in H; cbn [fe fs] in H
  | H : disj _ (caddrs (_ :: _)) |- _ => rewrite caddrs_cons in H; cbn [fe fs] in H
  end.

Lemma eqb_false a b : a <> b -> Nat.eqb a b = false.
Proof. apply Nat.eqb_neq. Qed.

Lemma raddr_notin t i : ~ In i (addrs t) -> raddr t <> Some i.
Proof. intros H E. apply H. apply raddr_in; auto. Qed.
Lemma oeqb_raddr_false t i : ~ In i (addrs t) -> oeqb (raddr t) (Some i) = false.
Proof. intros H. apply oeqb_neq. apply raddr_notin; auto. Qed.
Lemma oeqb_raddr_false' t i : ~ In i (addrs t) -> oeqb (Some i) (raddr t) = false.
Proof. intros H. apply oeqb_neq. intros E. symmetry in E. revert E. apply raddr_notin; auto. Qed.

Lemma disj_notin l1 l2 i : disj l1 l2 -> In i l1 -> ~ In i l2.
Proof. intros H. apply H. Qed.
Lemma disj_notin' l1 l2 i : disj l1 l2 -> In i l2 -> ~ In i l1.
Proof. intros H Hi Hj. apply (H i); auto. Qed.

(** [~ In i L] from the atoms *)
Ltac notin :=
  solve [ assumption
        | apply addrs_nz | apply caddrs_nz
        | match goal with
          | H : disj ?l1 ?l2, Hi : In ?i ?l1 |- ~ In ?i ?l2 => exact (H i Hi)
          | H : disj ?l1 ?l2, Hi : In ?i ?l2 |- ~ In ?i ?l1 => exact (disj_notin' l1 l2 i H Hi)
          end
        | (let E := fresh in intros E; congruence) ].

(** [a <> b] from the atoms *)
Ltac neq :=
  solve [ assumption
        | apply not_eq_sym; assumption
        | apply adr_nz | apply not_eq_sym; apply adr_nz
        | congruence
        | match goal with
          | Hi : In ?i ?L |- ?a <> ?i => (assert (~ In a L) by notin); congruence
          | Hi : In ?i ?L |- ?i <> ?a => (assert (~ In a L) by notin); congruence
          end
        | apply raddr_notin; notin
        | (intros E; symmetry in E; revert E; apply raddr_notin; notin) ].

(** evaluate reads through a stack of writes *)
Ltac mread :=
  repeat first
    [ progress autorewrite with msimp
    | rewrite Nat.eqb_refl
    | rewrite oeqb_refl
    | rewrite p_setp | rewrite l_setl | rewrite r_setr | rewrite c_setc | rewrite sel_setsel
    | rewrite p_setp_opt | rewrite p_setlinks | rewrite l_setlinks | rewrite r_setlinks
    | rewrite eqb_false by neq
    | rewrite oeqb_raddr_false by notin
    | rewrite oeqb_raddr_false' by notin ].

(** [mget m' i = mget m i] when [i] is none of the written addresses *)
Ltac mframe :=
  repeat first
    [ reflexivity
    | rewrite mget_setp_o by neq | rewrite mget_setl_o by neq | rewrite mget_setr_o by neq
    | rewrite mget_setc_o by neq | rewrite mget_setsel_o by neq | rewrite mget_setlinks_o by neq
    | rewrite mget_setp_opt_o by neq ].

(** * Replacing the child link of the parent (or the root pointer) *)
Definition set_hole (m : mem) (root : option nat) (c : ctx) (h : option nat) : mem * option nat :=
  match c with
  | [] => (m, h)
  | f :: _ => (setsel (fd f) m (adr (fe f)) h, root)
  end.

Lemma l_replace_hole m root c old new d :
  crep m c (Some old) root -> ~ In old (caddrs c) ->
  l_replace m root (ctx_par c) old new d = set_hole m root c new.
Proof.
  destruct c as [|f c]; cbn [crep ctx_par l_replace set_hole]; auto.
  intros (Hd & Ho & _) Hn. nd_norm.
  destruct d, (fd f) eqn:Ef; cbn [sel opp setsel] in *.
  - rewrite Hd, oeqb_refl. reflexivity.
  - rewrite Ho, oeqb_raddr_false' by notin. reflexivity.
  - rewrite Ho, oeqb_raddr_false' by notin. reflexivity.
  - rewrite Hd, oeqb_refl. reflexivity.
Qed.

Lemma p_set_hole m root c h i : n_p (mget (fst (set_hole m root c h)) i) = n_p (mget m i).
Proof. destruct c; cbn [set_hole fst]; auto. apply p_setsel. Qed.
Lemma c_set_hole m root c h i : n_c (mget (fst (set_hole m root c h)) i) = n_c (mget m i).
Proof. destruct c; cbn [set_hole fst]; auto. apply c_setsel. Qed.
Lemma mget_set_hole_o m root c h i :
  ~ In i (caddrs c) -> mget (fst (set_hole m root c h)) i = mget m i.
Proof.
  destruct c as [|f c]; cbn [set_hole fst]; auto. intros H. nd_norm. apply mget_setsel_o. neq.
Qed.
#[export] Hint Rewrite p_set_hole c_set_hole : msimp.

Lemma crep_set_hole m root c h h' :
  crep m c h root -> NoDup (caddrs c) ->
  crep (fst (set_hole m root c h')) c h' (snd (set_hole m root c h')).
Proof.
  destruct c as [|f c]; cbn [crep set_hole fst snd]; auto.
  intros (Hd & Ho & Hc & Hp & Rs & Rc) Nd. nd_norm. mread. repeat split; auto.
  - eapply rep_frame; [|exact Rs]. intros i Hi. apply mget_setsel_o. neq.
  - eapply crep_frame; [|exact Rc]. intros i Hi. apply mget_setsel_o. neq.
Qed.

(** * __cstl_bintree_rotate *)
Lemma l_rotate_rep m root c d xc a xe yc b ye cc :
  let t := mk d xc a xe (mk d yc b ye cc) in
  NoDup (addrs t ++ caddrs c) ->
  rep m (ctx_par c) t -> crep m c (Some (adr xe)) root ->
  exists m' root',
    l_rotate m root (adr xe) d = Some (m', root') /\
    rep m' (ctx_par c) (mk d yc (mk d xc a xe b) ye cc) /\
    crep m' c (Some (adr ye)) root' /\
    (forall i, ~ In i (addrs t ++ caddrs c) -> mget m' i = mget m i).
Proof.
  intros t Nd R C. subst t.
  apply rep_mk in R. destruct R as (Xp & Xc & Xl & Xr & Ra & Ry). rewrite raddr_mk in Xr.
  apply rep_mk in Ry. destruct Ry as (Yp & Yc & Yl & Yr & Rb & Rc).
  nd_norm.
  set (x := adr xe) in *. set (y := adr ye) in *.
  set (m1 := setsel (opp d) m x (raddr b)).
  set (m2 := setp_opt m1 (raddr b) (Some x)).
  set (m3 := setp m2 y (ctx_par c)).
  set (m4 := fst (set_hole m3 root c (Some y))).
  set (root4 := snd (set_hole m3 root c (Some y))).
  set (m5 := setsel d m4 y (Some x)).
  set (m6 := setp m5 x (Some y)).
  assert (C3 : crep m3 c (Some x) root).
  { eapply crep_frame; [|exact C]. intros i Hi. unfold m3, m2, m1. mframe. }
  assert (Rb2 : rep m2 (Some x) b).
  { unfold m2. apply (rep_reparent m1 (Some y)); auto. eapply rep_frame; [|exact Rb]. intros i Hi. unfold m1. mframe. }
  exists m6, root4. split; [|split; [|split]].
  - unfold l_rotate. rewrite Xr. cbn [bind]. rewrite Yl. fold m1.
    replace (sel d (mget m1 y)) with (raddr b) by (unfold m1; mread; auto). fold m2.
    replace (n_p (mget m2 x)) with (ctx_par c) by (unfold m2, m1; mread; auto). fold m3.
    replace (n_p (mget m3 x)) with (ctx_par c) by (unfold m3, m2, m1; mread; auto).
    rewrite (l_replace_hole m3 root c x (Some y) d C3) by notin.
    rewrite (surjective_pairing (set_hole m3 root c (Some y))). reflexivity.
  - apply rep_mk. unfold m6, m5, m4, m3, m2, m1. mread.
    rewrite !mget_set_hole_o by notin. mread. repeat split; auto.
    + rewrite raddr_mk. reflexivity.
    + apply rep_mk. mread. rewrite !mget_set_hole_o by notin. mread. repeat split; auto.
      * eapply rep_frame; [|exact Ra]. intros i Hi. mframe. rewrite mget_set_hole_o by notin. mframe.
      * eapply rep_frame; [|exact Rb2].
        intros i Hi. mframe. rewrite mget_set_hole_o by notin. mframe.
    + eapply rep_frame; [|exact Rc]. intros i Hi. mframe. rewrite mget_set_hole_o by notin. mframe.
  - eapply crep_frame; [|apply (crep_set_hole m3 root c (Some x) (Some y)); auto].
    intros i Hi. unfold m6, m5. mframe.
  - intros i Hi. nd_norm. unfold m6, m5, m4, m3, m2, m1. mframe.
    rewrite mget_set_hole_o by notin. mframe.
Qed.

Lemma rotate_shape d t t' :
  rotate d t = Some t' ->
  exists xc a xe yc b ye cc,
    t = mk d xc a xe (mk d yc b ye cc) /\ t' = mk d yc (mk d xc a xe b) ye cc.
Proof.
  unfold rotate. destruct (unmk d t) as [[[[xc a] xe] y]|] eqn:E1; [|discriminate].
  destruct (unmk d y) as [[[[yc b] ye] cc]|] eqn:E2; [|discriminate].
  intros [= <-]. apply unmk_mk in E1, E2. subst. do 7 eexists. split; reflexivity.
Qed.

Lemma rotate_addrs d t t' : rotate d t = Some t' -> addrs t' = addrs t.
Proof. intros H. unfold addrs. rewrite (rotate_inorder _ _ _ H). reflexivity. Qed.

(** the pointer-level rotation realises [rotate] below any context *)
Lemma l_rotate_sim m root c d t t' :
  NoDup (addrs t ++ caddrs c) ->
  rep m (ctx_par c) t -> crep m c (raddr t) root -> rotate d t = Some t' ->
  exists x m' root',
    raddr t = Some x /\ l_rotate m root x d = Some (m', root') /\
    rep m' (ctx_par c) t' /\ crep m' c (raddr t') root' /\
    (forall i, ~ In i (addrs t ++ caddrs c) -> mget m' i = mget m i).
Proof.
  intros Nd R C H. apply rotate_shape in H.
  destruct H as (xc & a & xe & yc & b & ye & cc & -> & ->).
  rewrite raddr_mk in C.
  destruct (l_rotate_rep m root c d xc a xe yc b ye cc Nd R C) as (m' & root' & E & R' & C' & F).
  exists (adr xe), m', root'. rewrite !raddr_mk. auto.
Qed.

(** * Descents *)
Definition slot_of (c : ctx) : slot :=
  match c with [] => SRoot | f :: _ => SField (adr (fe f)) (fd f) end.

Section Descents.
  Variable key : nat -> Z.

  Lemma akey_adr x : ekey x = key (eid x) -> akey key (adr x) = ekey x.
  Proof. intros ->. reflexivity. Qed.

  Lemma keyed_T k l x r :
    keyed key (inorder (T k l x r)) <-> keyed key (inorder l) /\ ekey x = key (eid x) /\ keyed key (inorder r).
  Proof. cbn [inorder]. unfold keyed. rewrite Forall_app, Forall_cons_iff. tauto. Qed.

  (** loop of cstl_bintree_find *)
  Lemma l_find_rep m k : forall t c fuel,
    (theight t <= fuel)%nat -> rep m (ctx_par c) t -> keyed key (inorder t) ->
    l_find key fuel m k (raddr t) (ctx_par c) =
    Some (raddr (fst (find_ctx k t c)), ctx_par (snd (find_ctx k t c))).
  Proof.
    induction t as [|kk l IHl y r IHr]; intros c fuel Hf R K.
    - destruct fuel; reflexivity.
    - apply keyed_T in K. destruct K as (Kl & Ky & Kr).
      cbn [rep] in R. destruct R as (Hp & Hc & Hl & Hr & Rl & Rr).
      cbn [find_ctx raddr theight] in *.
      assert (E : l_find key fuel m k (Some (adr y)) (ctx_par c) =
                  if k =? ekey y then Some (Some (adr y), ctx_par c)
                  else match fuel with
                       | O => None
                       | S f => if k <? ekey y then l_find key f m k (n_l (mget m (adr y))) (Some (adr y))
                                else l_find key f m k (n_r (mget m (adr y))) (Some (adr y))
                       end).
      { destruct fuel; cbn [l_find]; rewrite akey_adr; auto. }
      rewrite E. destruct (k =? ekey y); [reflexivity|].
      destruct fuel as [|f]; [lia|]. destruct (k <? ekey y).
      + rewrite Hl. apply (IHl (mkF Lf kk y r :: c)); auto. lia.
      + rewrite Hr. apply (IHr (mkF Rt kk y l :: c)); auto. lia.
  Qed.

  (** loop of cstl_bintree_insert *)
  Lemma l_descend_rep m x : forall t c fuel,
    (theight t <= fuel)%nat -> rep m (ctx_par c) t -> keyed key (inorder t) ->
    l_descend key fuel m (ekey x) (raddr t) (ctx_par c) (slot_of c) =
    Some (ctx_par (descend x t c), slot_of (descend x t c)).
  Proof.
    induction t as [|kk l IHl y r IHr]; intros c fuel Hf R K.
    - destruct fuel; reflexivity.
    - apply keyed_T in K. destruct K as (Kl & Ky & Kr).
      cbn [rep] in R. destruct R as (Hp & Hc & Hl & Hr & Rl & Rr).
      cbn [descend raddr theight] in *. destruct fuel as [|f]; [lia|].
      cbn [l_descend]. rewrite akey_adr by auto. destruct (ekey x <? ekey y).
      + rewrite Hl. apply (IHl (mkF Lf kk y r :: c)); auto. lia.
      + rewrite Hr. apply (IHr (mkF Rt kk y l :: c)); auto. lia.
  Qed.

  (** ... started at a node: the initial values of [bp] and [bc] are overwritten *)
  Lemma l_descend_node m x kk l y r c fuel bp bc :
    let t := T kk l y r in
    (theight t <= fuel)%nat -> rep m (ctx_par c) t -> keyed key (inorder t) ->
    l_descend key fuel m (ekey x) (raddr t) bp bc =
    Some (ctx_par (descend x t c), slot_of (descend x t c)).
  Proof.
    intros t Hf R K. subst t. apply keyed_T in K. destruct K as (Kl & Ky & Kr).
    cbn [rep] in R. destruct R as (Hp & Hc & Hl & Hr & Rl & Rr).
    cbn [descend raddr theight] in *. destruct fuel as [|f]; [lia|].
    cbn [l_descend]. rewrite akey_adr by auto. destruct (ekey x <? ekey y).
    - rewrite Hl. apply (l_descend_rep m x l (mkF Lf kk y r :: c)); auto. lia.
    - rewrite Hr. apply (l_descend_rep m x r (mkF Rt kk y l :: c)); auto. lia.
  Qed.
End Descents.

Lemma theight_mk d k a x b : theight (mk d k a x b) = S (Nat.max (theight a) (theight b)).
Proof. destruct d; cbn; lia. Qed.

Lemma theight_plug c : forall t, (theight t <= theight (plug c t))%nat.
Proof.
  induction c as [|f c IH]; intros t; cbn [plug]; auto.
  etransitivity; [|apply IH]. unfold plug1. rewrite theight_mk. lia.
Qed.

(** * Linking a new leaf: [bn->p = bp; bn->l = NULL; bn->r = NULL; *bc = bn;]
    followed by the write of the colour *)
Lemma l_link_rep m root c x k :
  let n := adr x in
  crep m c None root -> NoDup (caddrs c) -> ~ In n (caddrs c) ->
  let m3 := setr (setl (setp m n (ctx_par c)) n None) n None in
  let m4 := setc (fst (set_hole m3 root c (Some n))) n k in
  rep m4 (ctx_par c) (T k E x E) /\ crep m4 c (Some n) (snd (set_hole m3 root c (Some n))) /\
  (forall i, i <> n -> ~ In i (caddrs c) -> mget m4 i = mget m i).
Proof.
  intros n C Nd Hn m3 m4.
  assert (C3 : crep m3 c None root).
  { eapply crep_frame; [|exact C]. intros i Hi. unfold m3. mframe. }
  split; [|split].
  - cbn [rep raddr]. fold n. unfold m4, m3. mread. rewrite !mget_set_hole_o by notin. mread. repeat split; auto.
  - eapply crep_frame; [|apply (crep_set_hole m3 root c None (Some n)); auto].
    intros i Hi. unfold m4. mframe.
  - intros i H1 H2. unfold m4, m3. mframe. rewrite mget_set_hole_o by notin. mframe.
Qed.

(** * Proving a distinctness goal from the atoms *)
Lemma disj_sym l1 l2 : disj l1 l2 -> disj l2 l1.
Proof. intros H a H2 H1. apply (H a); auto. Qed.

Ltac nd_atom :=
  first [ assumption | apply not_eq_sym; assumption | apply disj_sym; assumption
        | apply adr_nz | apply not_eq_sym; apply adr_nz | apply addrs_nz | apply caddrs_nz
        | exact I | constructor ].

Ltac nd_solve :=
  repeat first
    [ rewrite nd_mk_app | rewrite nd_mk | rewrite addrs_T | rewrite addrs_E
    | rewrite caddrs_cons; cbn [fe fs]
    | rewrite addrs_setcol | rewrite addrs_blacken
    | rewrite <- app_assoc | rewrite <- app_comm_cons | rewrite app_nil_r | rewrite app_nil_l
    | rewrite NoDup_cons_iff | rewrite NoDup_app_disj
    | rewrite not_in_app_iff | rewrite not_in_cons_iff | rewrite notin_mk
    | rewrite disj_cons_l | rewrite disj_cons_r | rewrite disj_app_l | rewrite disj_app_r
    | rewrite disj_mk_l | rewrite disj_mk_r | rewrite disj_nil_l | rewrite disj_nil_r ];
  repeat split; nd_atom.

Lemma nd_test d k a x b c f :
  NoDup (addrs (mk d k a x b) ++ caddrs (f :: c)) ->
  NoDup (addrs (mk (opp d) Red (fs f) (fe f) (mk d Black b x a)) ++ caddrs c).
Proof. intros H. nd_norm. nd_solve. Qed.
