(** Proofs about SwapModel.v (C11): the byte-level cstl_swap, run on the
    memory image of an array of sz-byte elements followed by the scratch
    element, exchanges exactly the two elements (all sizes: the four typed
    cases and the memcpy case), leaves every other byte of the array alone
    and leaves a copy of the first argument's old value in the scratch;
    replaying the swap callbacks of an element-level log on the bytes gives
    the memory image of the element-level result. *)
From Cstl Require Import Prelude SortModel SortProofs SwapModel SortReplayProofs.

(** normalise nested appends / conses on both sides and compare *)
Ltac lnorm := repeat rewrite <- app_assoc; cbn [app]; try reflexivity.
Ltac llen := cbn [length] in *; repeat (rewrite app_length; cbn [length]); lia.

Section BytesProofs.
  Context {B : Type}.
  Implicit Types m A C D E L R S T P Q X Y : list B.

  (** * single byte accesses *)
  Lemma rd_at L R b a : a = length L -> rd (L ++ b :: R) a = Ok b.
  Proof.
    intros ->. unfold rd. rewrite nth_error_app2 by lia. rewrite Nat.sub_diag. reflexivity.
  Qed.

  Lemma upd_at {K} (L R : list K) d b : upd (L ++ d :: R) (length L) b = L ++ b :: R.
  Proof. induction L as [|x L IH]; simpl; congruence. Qed.

  Lemma wr_at L R d b a : a = length L -> wr (L ++ d :: R) a b = Ok (L ++ b :: R).
  Proof.
    intros ->. unfold wr. rewrite app_length. cbn [length].
    destruct (Nat.ltb_spec (length L) (length L + S (length R))) as [_|H]; [|lia].
    rewrite upd_at. reflexivity.
  Qed.

  (** * typed load / store *)
  Lemma load_at : forall S L R off, off = length L -> load (L ++ S ++ R) off (length S) = Ok S.
  Proof.
    induction S as [|b S IH]; intros L R off ->; cbn [load length]; [reflexivity|].
    cbn [app]. rewrite rd_at by reflexivity. cbn [bind].
    replace (L ++ b :: S ++ R) with ((L ++ [b]) ++ S ++ R) by lnorm.
    rewrite IH by (rewrite app_length; simpl; lia). reflexivity.
  Qed.

  Lemma store_at : forall v L D R off, off = length L -> length D = length v ->
    store (L ++ D ++ R) off v = Ok (L ++ v ++ R).
  Proof.
    induction v as [|b v IH]; intros L D R off -> HL.
    - destruct D; [reflexivity|discriminate].
    - destruct D as [|d D]; [discriminate|]. cbn [store app].
      rewrite wr_at by reflexivity. cbn [bind].
      replace (L ++ b :: D ++ R) with ((L ++ [b]) ++ D ++ R) by lnorm.
      rewrite (IH (L ++ [b]) D R) by (try rewrite app_length; simpl in *; lia).
      f_equal. lnorm.
  Qed.

  (** * the copy loop, source before destination and destination before source.
      S1 = the bytes already copied, S2 / D2 = still to do *)
  Lemma copy_fwd : forall S2 S1 D2 A C E dst src,
    length D2 = length S2 ->
    src = length A + length S1 ->
    dst = length A + length S1 + length S2 + length C + length S1 ->
    copy_bytes (A ++ S1 ++ S2 ++ C ++ S1 ++ D2 ++ E) dst src (length S2)
    = Ok (A ++ S1 ++ S2 ++ C ++ S1 ++ S2 ++ E).
  Proof.
    induction S2 as [|b S2 IH]; intros S1 D2 A C E dst src HL -> ->.
    - destruct D2; [reflexivity|discriminate].
    - destruct D2 as [|d D2]; [discriminate|]. cbn [length copy_bytes].
      replace (A ++ S1 ++ (b :: S2) ++ C ++ S1 ++ (d :: D2) ++ E)
        with ((A ++ S1) ++ b :: (S2 ++ C ++ S1 ++ (d :: D2) ++ E)) by lnorm.
      rewrite rd_at by llen. cbn [bind].
      replace ((A ++ S1) ++ b :: (S2 ++ C ++ S1 ++ (d :: D2) ++ E))
        with ((A ++ S1 ++ (b :: S2) ++ C ++ S1) ++ d :: (D2 ++ E)) by lnorm.
      rewrite wr_at by llen. cbn [bind].
      replace ((A ++ S1 ++ (b :: S2) ++ C ++ S1) ++ b :: D2 ++ E)
        with (A ++ (S1 ++ [b]) ++ S2 ++ C ++ (S1 ++ [b]) ++ D2 ++ E) by lnorm.
      rewrite IH; [f_equal; lnorm | llen | llen | llen].
  Qed.

  Lemma copy_bwd : forall S2 S1 D2 A C E dst src,
    length D2 = length S2 ->
    dst = length A + length S1 ->
    src = length A + length S1 + length D2 + length C + length S1 ->
    copy_bytes (A ++ S1 ++ D2 ++ C ++ S1 ++ S2 ++ E) dst src (length S2)
    = Ok (A ++ S1 ++ S2 ++ C ++ S1 ++ S2 ++ E).
  Proof.
    induction S2 as [|b S2 IH]; intros S1 D2 A C E dst src HL -> ->.
    - destruct D2; [reflexivity|discriminate].
    - destruct D2 as [|d D2]; [discriminate|]. cbn [length copy_bytes].
      replace (A ++ S1 ++ (d :: D2) ++ C ++ S1 ++ (b :: S2) ++ E)
        with ((A ++ S1 ++ (d :: D2) ++ C ++ S1) ++ b :: (S2 ++ E)) by lnorm.
      rewrite rd_at by llen. cbn [bind].
      replace ((A ++ S1 ++ (d :: D2) ++ C ++ S1) ++ b :: (S2 ++ E))
        with ((A ++ S1) ++ d :: (D2 ++ C ++ S1 ++ (b :: S2) ++ E)) by lnorm.
      rewrite wr_at by llen. cbn [bind].
      replace ((A ++ S1) ++ b :: D2 ++ C ++ S1 ++ (b :: S2) ++ E)
        with (A ++ (S1 ++ [b]) ++ D2 ++ C ++ (S1 ++ [b]) ++ S2 ++ E) by lnorm.
      rewrite IH; [f_equal; lnorm | llen | llen | llen].
  Qed.

  (** * what memcpy and the typed assignment have in common: on two disjoint
      n-byte ranges inside the memory the destination becomes a copy of the
      source and nothing else changes *)
  Definition mv_ok (mv : list B -> nat -> nat -> nat -> res (list B)) : Prop :=
    (forall A S C D E dst src n,
        length S = n -> length D = n -> src = length A -> dst = length A + n + length C ->
        mv (A ++ S ++ C ++ D ++ E) dst src n = Ok (A ++ S ++ C ++ S ++ E)) /\
    (forall A D C S E dst src n,
        length S = n -> length D = n -> dst = length A -> src = length A + n + length C ->
        mv (A ++ D ++ C ++ S ++ E) dst src n = Ok (A ++ S ++ C ++ S ++ E)).

  Lemma memcpy_mv_ok : mv_ok memcpy.
  Proof.
    split.
    - intros A S C D E dst src n HS HD -> ->. subst n. unfold memcpy, in_range, disjoint.
      rewrite !app_length.
      destruct (Nat.leb_spec (length A + length S + length C + length S)
                  (length A + (length S + (length C + (length D + length E))))); [|lia].
      destruct (Nat.leb_spec (length A + length S)
                  (length A + (length S + (length C + (length D + length E))))); [|lia].
      destruct (Nat.leb_spec (length A + length S) (length A + length S + length C)) as [_|F];
        [|lia].
      cbn [andb orb].
      destruct (Nat.leb_spec (length A + length S + length C + length S) (length A)); cbn [orb];
        apply (copy_fwd S [] D A C E); cbn [length]; lia.
    - intros A D C S E dst src n HS HD -> ->. subst n. unfold memcpy, in_range, disjoint.
      rewrite !app_length.
      destruct (Nat.leb_spec (length A + length S)
                  (length A + (length D + (length C + (length S + length E))))); [|lia].
      destruct (Nat.leb_spec (length A + length S + length C + length S)
                  (length A + (length D + (length C + (length S + length E))))); [|lia].
      cbn [andb].
      destruct (Nat.leb_spec (length A + length S) (length A + length S + length C)) as [_|F];
        [|lia].
      cbn [orb].
      apply (copy_bwd S [] D A C E); cbn [length]; lia.
  Qed.

  Lemma assign_mv_ok : mv_ok assign.
  Proof.
    split.
    - intros A S C D E dst src n HS HD -> ->. subst n. unfold assign, disjoint.
      destruct (Nat.leb_spec (length A + length S) (length A + length S + length C)) as [_|F];
        [|lia].
      rewrite !Bool.orb_true_r.
      rewrite load_at by reflexivity. cbn [bind].
      replace (A ++ S ++ C ++ D ++ E) with ((A ++ S ++ C) ++ D ++ E) by lnorm.
      rewrite store_at by (rewrite ?app_length; lia). f_equal. lnorm.
    - intros A D C S E dst src n HS HD -> ->. subst n. unfold assign, disjoint.
      destruct (Nat.leb_spec (length A + length S) (length A + length S + length C)) as [_|F];
        [|lia].
      cbn [orb]. rewrite !Bool.orb_true_r.
      replace (A ++ D ++ C ++ S ++ E) with ((A ++ D ++ C) ++ S ++ E) by lnorm.
      rewrite load_at by (rewrite ?app_length; lia). cbn [bind].
      replace ((A ++ D ++ C) ++ S ++ E) with (A ++ D ++ (C ++ S ++ E)) by lnorm.
      rewrite store_at by (rewrite ?app_length; lia). reflexivity.
  Qed.

  (** the typed assignment of an object to itself is the identity *)
  Lemma assign_self A S E a n :
    length S = n -> a = length A -> assign (A ++ S ++ E) a a n = Ok (A ++ S ++ E).
  Proof.
    intros <- ->. unfold assign. rewrite Nat.eqb_refl. cbn [orb].
    rewrite load_at by reflexivity. cbn [bind]. rewrite store_at by reflexivity. reflexivity.
  Qed.

  (** memcpy of a non-empty range onto itself is undefined *)
  Lemma memcpy_self m a n : 1 <= n -> memcpy m a a n = Ub.
  Proof.
    intros H. unfold memcpy, disjoint.
    destruct (Nat.leb_spec (a + n) a); [lia|]. cbn [orb]. rewrite Bool.andb_false_r. reflexivity.
  Qed.

  (** * the three moves t := x; x := y; y := t *)
  Definition three (mv : list B -> nat -> nat -> nat -> res (list B)) m x y t sz : res (list B) :=
    m1 <- mv m t x sz ;; m2 <- mv m1 x y sz ;; mv m2 y t sz.

  Section Three.
    Variable mv : list B -> nat -> nat -> nat -> res (list B).
    Hypothesis Hmv : mv_ok mv.

    (** x before y *)
    Lemma three_lt P X Q Y R T sz x y t :
      length X = sz -> length Y = sz -> length T = sz ->
      x = length P -> y = length P + sz + length Q ->
      t = length P + sz + length Q + sz + length R ->
      three mv (P ++ X ++ Q ++ Y ++ R ++ T) x y t sz = Ok (P ++ Y ++ Q ++ X ++ R ++ X).
    Proof.
      intros HX HY HT -> -> ->. destruct Hmv as (Hf & Hb). unfold three.
      pose proof (Hf P X (Q ++ Y ++ R) T [] (length P + sz + length Q + sz + length R) (length P) sz) as H1.
      rewrite !app_length in H1. repeat rewrite <- app_assoc in H1. rewrite !app_nil_r in H1.
      rewrite H1 by (auto; lia). cbn [bind].
      pose proof (Hb P X Q Y (R ++ X) (length P) (length P + sz + length Q) sz) as H2.
      rewrite H2 by auto. cbn [bind].
      pose proof (Hb (P ++ Y ++ Q) Y R X [] (length P + sz + length Q) (length P + sz + length Q + sz + length R) sz) as H3.
      rewrite !app_length in H3. repeat rewrite <- app_assoc in H3. rewrite !app_nil_r in H3.
      rewrite H3 by (auto; lia). reflexivity.
    Qed.

    (** y before x *)
    Lemma three_gt P Y Q X R T sz x y t :
      length X = sz -> length Y = sz -> length T = sz ->
      y = length P -> x = length P + sz + length Q ->
      t = length P + sz + length Q + sz + length R ->
      three mv (P ++ Y ++ Q ++ X ++ R ++ T) x y t sz = Ok (P ++ X ++ Q ++ Y ++ R ++ X).
    Proof.
      intros HX HY HT -> -> ->. destruct Hmv as (Hf & Hb). unfold three.
      pose proof (Hf (P ++ Y ++ Q) X R T [] (length P + sz + length Q + sz + length R) (length P + sz + length Q) sz) as H1.
      rewrite !app_length in H1. repeat rewrite <- app_assoc in H1. rewrite !app_nil_r in H1.
      rewrite H1 by (auto; lia). cbn [bind].
      pose proof (Hf P Y Q X (R ++ X) (length P + sz + length Q) (length P) sz) as H2.
      rewrite H2 by auto. cbn [bind].
      pose proof (Hb P Y (Q ++ Y ++ R) X [] (length P) (length P + sz + length Q + sz + length R) sz) as H3.
      rewrite !app_length in H3. repeat rewrite <- app_assoc in H3. rewrite !app_nil_r in H3.
      rewrite H3 by (auto; lia). reflexivity.
    Qed.
  End Three.

  (** x = y with the typed assignments: the element is copied to the
      scratch and written back twice *)
  Lemma three_assign_self P X R T sz x t :
    length X = sz -> length T = sz -> x = length P -> t = length P + sz + length R ->
    three assign (P ++ X ++ R ++ T) x x t sz = Ok (P ++ X ++ R ++ X).
  Proof.
    intros HX HT -> ->. destruct assign_mv_ok as (Hf & Hb). unfold three.
    pose proof (Hf P X R T [] (length P + sz + length R) (length P) sz) as H1.
    rewrite !app_nil_r in H1. rewrite H1 by auto. cbn [bind].
    rewrite (assign_self P X (R ++ X)) by auto. cbn [bind].
    pose proof (Hb P X R X [] (length P) (length P + sz + length R) sz) as H3.
    rewrite !app_nil_r in H3. rewrite H3 by auto. reflexivity.
  Qed.

  (** x = y on the memcpy path: the second call copies a range onto itself *)
  Lemma three_memcpy_self P X R T sz x t :
    1 <= sz -> length X = sz -> length T = sz -> x = length P -> t = length P + sz + length R ->
    three memcpy (P ++ X ++ R ++ T) x x t sz = Ub.
  Proof.
    intros H1 HX HT -> ->. destruct memcpy_mv_ok as (Hf & _). unfold three.
    pose proof (Hf P X R T [] (length P + sz + length R) (length P) sz) as E1.
    rewrite !app_nil_r in E1. rewrite E1 by auto. cbn [bind].
    rewrite memcpy_self by auto. reflexivity.
  Qed.

  (** * cstl_swap is one of the two instances, selected by the size *)
  Definition typed_size (sz : nat) : Prop := sz = 1 \/ sz = 2 \/ sz = 4 \/ sz = 8.

  Lemma bytes_swap_cases sz :
    (typed_size sz /\ forall m x y t, bytes_swap m x y t sz = three assign m x y t sz) \/
    (~ typed_size sz /\ forall m x y t, bytes_swap m x y t sz = three memcpy m x y t sz).
  Proof.
    unfold bytes_swap, typed_size.
    destruct (Nat.eqb_spec sz 1) as [->|N1]; [left; split; [tauto|reflexivity]|].
    destruct (Nat.eqb_spec sz 2) as [->|N2]; [left; split; [tauto|reflexivity]|].
    destruct (Nat.eqb_spec sz 4) as [->|N4]; [left; split; [tauto|reflexivity]|].
    destruct (Nat.eqb_spec sz 8) as [->|N8]; [left; split; [tauto|reflexivity]|].
    right. split; [lia|reflexivity].
  Qed.

  Lemma bytes_swap_mv sz :
    exists mv, mv_ok mv /\ forall m x y t, bytes_swap m x y t sz = three mv m x y t sz.
  Proof.
    destruct (bytes_swap_cases sz) as [(_ & H)|(_ & H)].
    - exists assign. split; [apply assign_mv_ok|exact H].
    - exists memcpy. split; [apply memcpy_mv_ok|exact H].
  Qed.

  (** * the memory image of an array of sz-byte elements *)
  Definition uniform (sz : nat) (cs : list (list B)) : Prop := Forall (fun c => length c = sz) cs.

  Lemma uniform_app sz l1 l2 : uniform sz (l1 ++ l2) <-> uniform sz l1 /\ uniform sz l2.
  Proof. apply Forall_app. Qed.
  Lemma uniform_cons sz c l : uniform sz (c :: l) <-> length c = sz /\ uniform sz l.
  Proof. apply Forall_cons_iff. Qed.

  Lemma concat_uniform sz cs : uniform sz cs -> length (concat cs) = length cs * sz.
  Proof.
    induction 1 as [|c cs Hc _ IH]; [reflexivity|]. cbn [concat length]. rewrite app_length. lia.
  Qed.

  Lemma uniform_nth sz cs i c : uniform sz cs -> nth_error cs i = Some c -> length c = sz.
  Proof. intros U H. apply nth_error_In in H. eapply Forall_forall in U; eauto. Qed.

  Lemma uniform_upd sz cs i c : uniform sz cs -> length c = sz -> uniform sz (upd cs i c).
  Proof.
    intros U Hc. revert i. induction U as [|d cs Hd U IH]; intros [|i]; cbn [upd]; constructor; auto.
    apply IH.
  Qed.

  Lemma swap_uniform sz (cs cs' : list (list B)) i j :
    uniform sz cs -> swap cs i j = Ok cs' -> uniform sz cs'.
  Proof.
    intros U H. apply swap_inv in H. destruct H as (x & y & _ & Hx & Hy & ->).
    apply uniform_upd; [apply uniform_upd|]; eauto using uniform_nth.
  Qed.

  (** two distinct positions of a list, in order *)
  Lemma split_two {K} (l : list K) i j x y :
    i < j -> nth_error l i = Some x -> nth_error l j = Some y ->
    exists pre mid post, l = pre ++ x :: mid ++ y :: post /\ i = length pre /\ j = length pre + 1 + length mid.
  Proof.
    intros Hij Hi Hj. apply nth_error_split in Hi. destruct Hi as (pre & rest & -> & <-).
    rewrite nth_error_app2 in Hj by lia.
    replace (j - length pre) with (S (j - length pre - 1)) in Hj by lia. cbn [nth_error] in Hj.
    apply nth_error_split in Hj. destruct Hj as (mid & post & -> & Hm).
    exists pre, mid, post. repeat split; auto. lia.
  Qed.

  Lemma upd_two {K} (pre mid post : list K) x y x' y' :
    upd (upd (pre ++ x :: mid ++ y :: post) (length pre) x') (length pre + 1 + length mid) y'
    = pre ++ x' :: mid ++ y' :: post.
  Proof.
    rewrite upd_at.
    replace (pre ++ x' :: mid ++ y :: post) with ((pre ++ x' :: mid) ++ y :: post) by lnorm.
    replace (length pre + 1 + length mid) with (length (pre ++ x' :: mid))
      by (rewrite app_length; simpl; lia).
    rewrite upd_at. lnorm.
  Qed.

  (** the core statement on a split array: both argument orders *)
  Lemma bytes_swap_layout sz pre ci mid cj post scratch :
    uniform sz (pre ++ ci :: mid ++ cj :: post) -> length scratch = sz ->
    let chunks := pre ++ ci :: mid ++ cj :: post in
    let i := length pre in
    let j := length pre + 1 + length mid in
    bytes_swap (image chunks scratch) (at_off sz i) (at_off sz j) (at_off sz (length chunks)) sz
      = Ok (image (pre ++ cj :: mid ++ ci :: post) ci) /\
    bytes_swap (image chunks scratch) (at_off sz j) (at_off sz i) (at_off sz (length chunks)) sz
      = Ok (image (pre ++ cj :: mid ++ ci :: post) cj).
  Proof.
    intros U HT. cbv zeta.
    apply uniform_app in U. destruct U as (Upre & U). apply uniform_cons in U. destruct U as (Hci & U).
    apply uniform_app in U. destruct U as (Umid & U). apply uniform_cons in U. destruct U as (Hcj & Upost).
    pose proof (concat_uniform _ _ Upre) as Lpre. pose proof (concat_uniform _ _ Umid) as Lmid.
    pose proof (concat_uniform _ _ Upost) as Lpost.
    destruct (bytes_swap_mv sz) as (mv & Hmv & Hsw). rewrite !Hsw.
    unfold image, at_off.
    assert (Img : forall a b, concat (pre ++ a :: mid ++ b :: post)
                              = concat pre ++ a ++ concat mid ++ b ++ concat post).
    { intros a b. rewrite concat_app. cbn [concat]. rewrite concat_app. cbn [concat]. lnorm. }
    rewrite !Img. repeat rewrite <- app_assoc.
    rewrite !app_length. cbn [length]. rewrite !app_length. cbn [length].
    split.
    - apply three_lt; auto; lia.
    - apply three_gt; auto; lia.
  Qed.

  (** * (a) cstl_swap on two distinct elements: exactly the element-level swap *)
  Theorem bytes_swap_spec sz chunks scratch i j ci chunks' :
    uniform sz chunks -> length scratch = sz ->
    nth_error chunks i = Some ci ->
    swap chunks i j = Ok chunks' ->
    bytes_swap (image chunks scratch) (at_off sz i) (at_off sz j) (at_off sz (length chunks)) sz
      = Ok (image chunks' ci).
  Proof.
    intros U HT Hi H. apply swap_inv in H. destruct H as (x & y & N & Hx & Hy & ->).
    rewrite Hi in Hx. injection Hx as <-.
    destruct (Nat.lt_total i j) as [Hlt|[->|Hgt]]; [|tauto|].
    - destruct (split_two _ _ _ _ _ Hlt Hi Hy) as (pre & mid & post & -> & -> & ->).
      rewrite upd_two. apply (bytes_swap_layout sz pre ci mid y post scratch U HT).
    - destruct (split_two _ _ _ _ _ Hgt Hy Hi) as (pre & mid & post & -> & -> & ->).
      rewrite upd_comm by lia. rewrite upd_two.
      apply (bytes_swap_layout sz pre y mid ci post scratch U HT).
  Qed.

  (** * (b) cstl_swap of an element with itself *)
  Lemma split_one {K} (l : list K) i x :
    nth_error l i = Some x -> exists pre post, l = pre ++ x :: post /\ i = length pre.
  Proof. intros H. apply nth_error_split in H. destruct H as (p & q & -> & <-). eauto. Qed.

  Theorem bytes_swap_self sz chunks scratch i ci :
    1 <= sz -> uniform sz chunks -> length scratch = sz -> nth_error chunks i = Some ci ->
    bytes_swap (image chunks scratch) (at_off sz i) (at_off sz i) (at_off sz (length chunks)) sz
    = if (sz =? 1) || (sz =? 2) || (sz =? 4) || (sz =? 8) then Ok (image chunks ci) else Ub.
  Proof.
    intros H1 U HT Hi. destruct (split_one _ _ _ Hi) as (pre & post & -> & ->).
    apply uniform_app in U. destruct U as (Upre & U). apply uniform_cons in U. destruct U as (Hci & Upost).
    pose proof (concat_uniform _ _ Upre) as Lpre. pose proof (concat_uniform _ _ Upost) as Lpost.
    unfold image, at_off. rewrite concat_app. cbn [concat]. repeat rewrite <- app_assoc.
    rewrite !app_length. cbn [length].
    destruct (bytes_swap_cases sz) as [(Ty & Hsw)|(Ty & Hsw)]; rewrite Hsw.
    - replace ((sz =? 1) || (sz =? 2) || (sz =? 4) || (sz =? 8)) with true
        by (destruct Ty as [-> | [-> | [-> | -> ]]]; reflexivity).
      apply three_assign_self; auto; lia.
    - replace ((sz =? 1) || (sz =? 2) || (sz =? 4) || (sz =? 8)) with false.
      + apply three_memcpy_self; auto; lia.
      + unfold typed_size in Ty.
        destruct (Nat.eqb_spec sz 1); [tauto|]. destruct (Nat.eqb_spec sz 2); [tauto|].
        destruct (Nat.eqb_spec sz 4); [tauto|]. destruct (Nat.eqb_spec sz 8); [tauto|]. reflexivity.
  Qed.

  (** * (c) replaying a log.  The element-level replay with the scratch
      element tracked: after a swap of (i, j) it holds the old element i *)
  Fixpoint replay_elems_t {K} (a : list K) (t : K) (l : list ev) : res (list K * K) :=
    match l with
    | [] => Ok (a, t)
    | ESwap i j :: r =>
      match nth_error a i with
      | Some x => a' <- swap a i j ;; replay_elems_t a' x r
      | None => Ub
      end
    | _ :: r => replay_elems_t a t r
    end.

  Lemma replay_elems_t_fst {K} (l : list ev) : forall (a : list K) t a',
    replay_elems a l = Ok a' -> exists t', replay_elems_t a t l = Ok (a', t').
  Proof.
    induction l as [|e l IH]; intros a t a' H; cbn [replay_elems replay_elems_t] in *.
    - injection H as <-. eauto.
    - destruct e; eauto.
      destruct (swap a i j) as [a1| |] eqn:E; cbn [bind] in H; try discriminate.
      pose proof E as E'. apply swap_inv in E'. destruct E' as (x & y & _ & -> & _).
      cbn [bind]. eauto.
  Qed.

  Theorem replay_refines_t sz : forall l chunks scratch chunks' scratch',
    uniform sz chunks -> length scratch = sz ->
    replay_elems_t chunks scratch l = Ok (chunks', scratch') ->
    replay sz (length chunks) (image chunks scratch) l = Ok (image chunks' scratch') /\
    uniform sz chunks' /\ length scratch' = sz /\ length chunks' = length chunks.
  Proof.
    induction l as [|e l IH]; intros chunks scratch chunks' scratch' U HT H;
      cbn [replay replay_elems_t] in *.
    - injection H as <- <-. auto.
    - destruct e; try (apply IH; assumption).
      destruct (nth_error chunks i) as [ci|] eqn:Hi; [|discriminate].
      destruct (swap chunks i j) as [c1| |] eqn:E; cbn [bind] in H; try discriminate.
      rewrite (bytes_swap_spec sz chunks scratch i j ci c1 U HT Hi E). cbn [bind].
      pose proof (swap_uniform _ _ _ _ _ U E) as U1.
      pose proof (swap_length _ _ _ _ E) as L1.
      rewrite <- L1.
      destruct (IH c1 ci chunks' scratch' U1 (uniform_nth _ _ _ _ U Hi) H) as (R & U' & T' & L').
      repeat split; auto.
  Qed.

  (** the form asked for: a log whose element-level replay on [chunks] gives
      [chunks'] (all its swaps in range and non-self, then), replayed on the
      bytes, gives the image of [chunks'] and some scratch content *)
  Theorem replay_refines sz l chunks scratch chunks' :
    uniform sz chunks -> length scratch = sz ->
    replay_elems chunks l = Ok chunks' ->
    exists scratch', length scratch' = sz /\
      replay sz (length chunks) (image chunks scratch) l = Ok (image chunks' scratch').
  Proof.
    intros U HT H. destruct (replay_elems_t_fst l chunks scratch chunks' H) as (t' & Ht).
    destruct (replay_refines_t sz l chunks scratch chunks' t' U HT Ht) as (R & _ & T' & _).
    eauto.
  Qed.

  (** [image] is injective on arrays of the same shape: the bytes determine the elements *)
  Lemma chop_image sz : forall chunks scratch,
    uniform sz chunks -> chop sz (length chunks) (image chunks scratch) = chunks.
  Proof.
    unfold image. induction chunks as [|c cs IH]; intros scratch U; [reflexivity|].
    apply uniform_cons in U. destruct U as (Hc & U).
    cbn [length chop concat]. rewrite <- app_assoc.
    rewrite firstn_app, Hc, Nat.sub_diag, firstn_O, app_nil_r, <- Hc, firstn_all.
    rewrite skipn_app, Nat.sub_diag, skipn_all. cbn [skipn app]. rewrite Hc.
    f_equal. apply IH; auto.
  Qed.
End BytesProofs.

(** * the raw-array operations on bytes: the elements are the sz-byte
    chunks themselves (the comparison callback sees an element as its bytes) *)
Section ArrayBytes.
  Context {B : Type}.
  Variable cmp : list B -> list B -> Z.

  (** any run of cstl_raw_array_sort that returns (every selector, every
      rand(), no contract needed): its swap callbacks, executed by cstl_swap
      on the bytes, turn the image of the input into the image of the output *)
  Theorem sort_bytes sz sel extra rnd chunks scratch chunks' l :
    uniform sz chunks -> length scratch = sz ->
    sort cmp sel extra rnd chunks = Ok (chunks', l) ->
    exists scratch', length scratch' = sz /\
      replay sz (length chunks) (image chunks scratch) l = Ok (image chunks' scratch').
  Proof.
    intros U HT H. apply (replay_refines sz l chunks scratch chunks' U HT).
    eapply sort_replay; eauto.
  Qed.

  Theorem reverse_bytes sz (chunks : list (list B)) scratch chunks' l :
    uniform sz chunks -> length scratch = sz ->
    reverse chunks = Ok (chunks', l) ->
    exists scratch', length scratch' = sz /\
      replay sz (length chunks) (image chunks scratch) l = Ok (image chunks' scratch').
  Proof.
    intros U HT H. apply (replay_refines sz l chunks scratch chunks' U HT).
    eapply reverse_replay; eauto.
  Qed.
End ArrayBytes.
