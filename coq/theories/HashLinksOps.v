(** Pointer-level model of the hash table, part 2: the keyed operations.
    cstl_hash_insert links the node at the head of its chain; the chain walk
    of cstl_hash_find offers what [find_chain] offers; the pointer-to-pointer
    walk of cstl_hash_erase ends at the link that points to the node passed
    (or at NULL when the node is not in the chain), and the splice
    [*hep.n = ( *hep.n)->next] turns the chain [l1 ++ e :: l2] into
    [l1 ++ l2], touching the head field (l1 empty) or the [next] field of the
    last node of [l1] and nothing else. *)
From Cstl Require Import Prelude AllocModel HashModel HashProofs HashInv HashOps HashLinksModel HashLinksProofs.
Local Open Scope N_scope.

(** ** replacing one bucket after a write confined to its own chain *)
Lemma Forall2_app_inv_l' {A B} (R : A -> B -> Prop) l1 l2 l' :
  Forall2 R (l1 ++ l2) l' ->
  exists l1' l2', l' = l1' ++ l2' /\ Forall2 R l1 l1' /\ Forall2 R l2 l2' /\ length l1' = length l1.
Proof.
  revert l'. induction l1 as [|a l1 IH]; intros l' H; simpl in *.
  - exists [], l'. auto.
  - inversion H as [|? b ? l0 Hab H0]; subst.
    destruct (IH l0 H0) as (l1' & l2' & -> & H1 & H2 & Hl).
    exists (b :: l1'), l2'. simpl. auto.
Qed.

Lemma chain_nodup bs i b : NoDup (lv bs) -> nth_error bs i = Some b -> NoDup (chain b).
Proof.
  intros Nd Hb. destruct (lv_upd bs i b b Hb) as (l1 & l2 & E & _). rewrite E in Nd.
  apply NoDup_app_r in Nd. apply NoDup_app_l in Nd. auto.
Qed.

Lemma bks_upd_frame T m m' bs lbs j b b' lb' :
  Forall2 (brel m) bs lbs -> nth_error bs j = Some b -> NoDup (lv bs) ->
  frame T m m' -> incl T (chain b) -> brel m' b' lb' ->
  Forall2 (brel m') (upd bs j b') (upd lbs j lb').
Proof.
  intros H Hb Nd F Hi Hb'.
  destruct (nth_error_split _ _ _ Hb) as (l1 & l2 & -> & <-).
  destruct (Forall2_app_inv_l' _ _ _ _ H) as (k1 & k2 & -> & H1 & H2 & Hl).
  inversion H2 as [|? lb0 ? k2' Hb0 H2']; subst.
  rewrite upd_app. rewrite <- Hl. rewrite upd_app.
  rewrite lv_app, lv_cons in Nd.
  apply Forall2_app; [|constructor; auto].
  - eapply bks_frame; [exact F| |exact H1].
    intros x Hx Hc. apply Hi in Hc.
    eapply (NoDup_app_disj (lv l1) (chain b ++ lv l2) x); eauto. apply in_or_app. now left.
  - eapply bks_frame; [exact F| |exact H2'].
    intros x Hx Hc. apply Hi in Hc. apply NoDup_app_r in Nd.
    eapply (NoDup_app_disj (chain b) (lv l2) x); eauto.
Qed.

Section Ops.
  Variable hf : fn_id -> N -> N -> option N.
  Variable key : nat -> N.

  Notation get_bucket := (get_bucket hf key).

  (** what a keyed operation leaves: related states; only cells of nodes of
      the table (and of the node passed) were written *)
  Definition kpost (T : list nat) (m : mem) (t' : table) (p : mem * ltable) : Prop :=
    trel (fst p) t' (snd p) /\ frame T m (fst p).

  (** ** cstl_hash_insert *)
  Lemma l_insert_sim m t lt e :
    trel m t lt -> good t -> ~ In e (live t) ->
    sim (kpost (e :: live t) m) (insert hf key t e) (l_insert hf key m lt e).
  Proof.
    intros H G Hn. unfold insert, l_insert.
    eapply sim_bind; [apply l_get_bucket_sim; eauto|].
    intros [t1 j] [[m1 lt1] j'] (Ej & H1 & F1 & K1). simpl in Ej, H1, F1, K1. subst j'.
    cbn [fst snd].
    destruct (nth_error (bks t1) j) as [b|] eqn:Eb; [|exact I].
    destruct (Forall2_nth _ _ _ _ _ (tr_bks _ _ _ H1) Eb) as (lb & Elb & Hbit & Hsp). rewrite Elb.
    apply sim_ok. unfold kpost. cbn [fst snd].
    assert (Hn1 : ~ In e (live t1)) by (rewrite (keepl_in _ _ _ K1); exact Hn).
    split.
    - destruct H1. split; simpl; auto; [congruence|].
      apply Forall2_upd; [apply bks_wr; auto|].
      split; [exact Hbit|]. simpl. split; auto. exists (hd lb). split; [apply rd_wr_same|].
      apply seg_wr; auto. intros Hc. apply Hn1. rewrite live_lv. eapply chain_lv; eauto.
    - eapply frame_trans.
      + eapply frame_mono; [|exact F1]. intros x Hx. now right.
      + apply frame_wr. now left.
  Qed.

  (** ** cstl_hash_find *)
  Lemma l_find_chain_spec k vis l : forall fuel m h,
    spells m h l -> (length l <= fuel)%nat ->
    l_find_chain key fuel m k vis h = Some (find_chain key k vis l).
  Proof.
    induction l as [|e r IH]; intros fuel m h Hs Hf.
    - apply spells_nil in Hs. subst. destruct fuel; reflexivity.
    - destruct Hs as (-> & nn & Hr & Hs). destruct fuel as [|fu]; [simpl in Hf; lia|].
      cbn [l_find_chain find_chain]. rewrite Hr.
      assert (Hf' : (length r <= fu)%nat) by (simpl in Hf; lia).
      destruct (key e =? k); [|apply IH; auto].
      destruct vis as [acc|]; [|reflexivity].
      destruct (existsb (Nat.eqb e) acc); [reflexivity|].
      rewrite (IH fu m nn Hs Hf'). destruct (find_chain key k (Some acc) r). reflexivity.
  Qed.

  Lemma l_find_sim m t lt k vis :
    trel m t lt -> good t ->
    sim (fun (p : table * option nat) (q : mem * ltable * option nat) =>
           snd q = snd p /\ kpost (live t) m (fst p) (fst q))
        (find hf key t k vis) (l_find hf key m lt k vis).
  Proof.
    intros H G. unfold find, l_find.
    eapply sim_bind; [apply l_get_bucket_sim; eauto|].
    intros [t1 j] [[m1 lt1] j'] (Ej & H1 & F1 & K1). simpl in Ej, H1, F1, K1. subst j'.
    cbn [fst snd].
    destruct (nth_error (bks t1) j) as [b|] eqn:Eb; [|exact I].
    destruct (Forall2_nth _ _ _ _ _ (tr_bks _ _ _ H1) Eb) as (lb & Elb & Hbit & Hsp). rewrite Elb.
    rewrite (l_find_chain_spec k vis (chain b) _ m1 (hd lb) Hsp).
    2: { rewrite (lfuel_trel _ _ _ H1). pose proof (chain_length_good t1 j b (good_keepl _ _ G K1) Eb). lia. }
    destruct (find_chain key k vis (chain b)) as [o x].
    apply sim_ok. split; [reflexivity|]. split; auto.
  Qed.

  (** ** cstl_hash_erase *)

  (** the walk: [rest] is the part of the chain from the loop variable on,
      [pp] points at the link that holds its first node *)
  Lemma l_erase_walk_spec e : forall rest fuel m h cur pp,
    spells m cur rest -> slot_get m h pp = Some cur -> (length rest <= fuel)%nat ->
    match remove_first e rest with
    | None => l_erase_walk fuel m h e cur pp = Some None
    | Some l' =>
      exists l1 l2 pp', rest = l1 ++ e :: l2 /\ l' = l1 ++ l2 /\ ~ In e l1 /\
        l_erase_walk fuel m h e cur pp = Some (Some pp') /\
        ((l1 = [] /\ pp' = pp) \/ (exists l0 a, l1 = l0 ++ [a] /\ pp' = SNext a))
    end.
  Proof.
    induction rest as [|n r IH]; intros fuel m h cur pp Hs Hp Hf.
    - apply spells_nil in Hs. subst. destruct fuel; reflexivity.
    - destruct Hs as (-> & nn & Hr & Hs). destruct fuel as [|fu]; [simpl in Hf; lia|].
      cbn [l_erase_walk remove_first]. rewrite Hr.
      destruct (Nat.eqb_spec n e) as [->|Hne].
      + exists [], r, pp. repeat split; auto.
      + rewrite Hp.
        specialize (IH fu m h nn (SNext n) Hs Hr ltac:(simpl in Hf; lia)).
        destruct (remove_first e r) as [l'|]; simpl; [|exact IH].
        destruct IH as (l1 & l2 & pp' & -> & -> & Hn1 & Hw & Hpp).
        exists (n :: l1), l2, pp'. repeat split; auto.
        * intros [E|Hin]; auto.
        * right. destruct Hpp as [(-> & ->)|(l0 & a & -> & ->)].
          -- exists [], n. auto.
          -- exists (n :: l0), a. auto.
  Qed.

  (** the splice at the link found by the walk started at the head field *)
  Lemma l_splice_spec m h l1 e l2 pp :
    spells m h (l1 ++ e :: l2) -> NoDup (l1 ++ e :: l2) ->
    ((l1 = [] /\ pp = SHead) \/ (exists l0 a, l1 = l0 ++ [a] /\ pp = SNext a)) ->
    exists nx, slot_get m h pp = Some (Some e) /\ rd m e = Some nx /\
      let '(m', h') := slot_set m h pp nx in
      spells m' h' (l1 ++ l2) /\ frame l1 m m'.
  Proof.
    intros Hs Nd [(-> & ->)|(l0 & a & -> & ->)].
    - simpl in *. destruct Hs as (-> & nx & Hr & Hs). exists nx. repeat split; auto.
    - apply seg_app in Hs. destruct Hs as (mid & H1 & H2).
      destruct H2 as (-> & nx & Hr & H2).
      apply seg_app in H1. destruct H1 as (mid & H0 & Ha).
      destruct Ha as (-> & nn & Hra & <-).
      exists nx. simpl. split; [exact Hra|]. split; [exact Hr|].
      rewrite <- app_assoc in Nd. simpl in Nd.
      assert (Ha0 : ~ In a l0).
      { intros Hc. eapply (NoDup_app_disj l0 (a :: e :: l2) a); eauto. now left. }
      assert (Ha2 : ~ In a l2).
      { apply NoDup_app_r in Nd. inversion Nd as [|? ? Hn _]; subst.
        intros Hc. apply Hn. right. auto. }
      split.
      + unfold spells. rewrite <- app_assoc. apply seg_app. exists (Some a). split.
        * apply seg_wr; auto.
        * simpl. split; auto. exists nx. split; [apply rd_wr_same|]. apply seg_wr; auto.
      + apply frame_wr. apply in_or_app. right. now left.
  Qed.

  Lemma l_erase_sim dead m t lt e :
    trel m t lt -> good t ->
    sim (kpost (live t) m) (erase_d hf key dead t e) (l_erase hf key m lt e).
  Proof.
    intros H G. unfold erase_d, l_erase.
    eapply sim_bind; [apply l_get_bucket_sim; eauto|].
    intros [t1 j] [[m1 lt1] j'] (Ej & H1 & F1 & K1). simpl in Ej, H1, F1, K1. subst j'.
    cbn [fst snd].
    destruct (nth_error (bks t1) j) as [b|] eqn:Eb; [|exact I].
    destruct (Forall2_nth _ _ _ _ _ (tr_bks _ _ _ H1) Eb) as (lb & Elb & Hbit & Hsp). rewrite Elb.
    destruct (touches_dead dead e (chain b)); [exact I|].
    pose proof (good_keepl _ _ G K1) as G1.
    assert (Hf : (length (chain b) <= lfuel lt1)%nat).
    { rewrite (lfuel_trel _ _ _ H1). pose proof (chain_length_good t1 j b G1 Eb). lia. }
    pose proof (l_erase_walk_spec e (chain b) _ m1 (hd lb) (hd lb) SHead Hsp eq_refl Hf) as W.
    destruct (remove_first e (chain b)) as [l'|].
    2: { rewrite W. apply sim_ok. split; auto. }
    destruct W as (l1 & l2 & pp & Ec & -> & Hn1 & -> & Hpp).
    destruct G1 as (Nd1 & Sz1).
    assert (Ndc : NoDup (l1 ++ e :: l2)).
    { rewrite <- Ec. eapply chain_nodup; eauto. }
    rewrite Ec in Hsp.
    destruct (l_splice_spec m1 (hd lb) l1 e l2 pp Hsp Ndc Hpp) as (nx & Eg & Er & Hsl).
    rewrite Eg, Er. destruct (slot_set m1 (hd lb) pp nx) as [m2 h2]. destruct Hsl as (Hs2 & F2).
    apply sim_ok. unfold kpost. cbn [fst snd].
    assert (Hl1 : incl l1 (chain b)).
    { intros x Hx. rewrite Ec. apply in_or_app. now left. }
    split.
    - destruct H1. split; simpl; auto; [congruence|].
      eapply bks_upd_frame; eauto. split; auto.
    - eapply frame_trans; [exact F1|].
      eapply frame_mono; [|exact F2]. intros x Hx.
      apply (keepl_in _ _ _ K1). rewrite live_lv. eapply chain_lv; eauto.
  Qed.
End Ops.
