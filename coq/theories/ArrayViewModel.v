(** Executable model of the array views of src/array.c (the cstl_array functions),
    on top of MemModel.v (C14, C20).

    A cstl_array_t is a pool object of kind [KA]: a shared pointer (guarded
    pointer to a bookkeeping block) plus [ooff], [olen].  The managed block
    starts with struct cstl_raw_array = [desc] {sz, nm, buf}; [buf] is
    [Inline] (ra + 1, i.e. byte [HDR] of the same block) or the caller's
    external buffer [Ext e].

    The functions follow the code *as repaired* by fixes/F6 and
    fixes/F7 patches; with [v0 = true] they are the functions as found
    (alloc keeps off/len and does not check the byte count; slice tests
    [off + end > nm] with wrap-around), used by FindingsMem.v.

    [size_t] arithmetic that can wrap is written with [wrap64]. *)
From Cstl Require Import Prelude AllocModel MemModel.
Local Open Scope N_scope.

Definition HDR : N := 24.                       (* sizeof(struct cstl_raw_array) *)
Definition MAX64 : N := 18446744073709551615.   (* SIZE_MAX *)
Definition wrap64 (x : N) : N := x mod 18446744073709551616.

(** where a pointer handed out by at/data points: byte [off] of heap block
    [m], byte [off] of external buffer [e], or NULL *)
Inductive loc := LBlk (m : nat) (off : N) | LExt (e : nat) (off : N) | LNull.

Definition loc_out (l : loc) : list Z :=
  match l with
  | LBlk m o => [0%Z; zid m; Z.of_N o]
  | LExt e o => [1%Z; zid e; Z.of_N o]
  | LNull => [znull]
  end.

Section Arr.
  Variable ok : nat -> N -> bool.
  Variable v0 : bool.

  Definition set_offlen (s : st) (a : nat) (off len : N) : st :=
    match nth_error (objs s) a with
    | Some o => set_objs s (upd (objs s) a (mkO (okind o) (ogp o) (oclr o) off len))
    | None => s
    end.
  Definition off_at (s : st) (a : nat) : N :=
    match nth_error (objs s) a with Some o => ooff o | None => 0 end.
  Definition len_at (s : st) (a : nat) : N :=
    match nth_error (objs s) a with Some o => olen o | None => 0 end.

  Definition rd_desc (s : st) (m : nat) : res desc :=
    match lookup m (descs s) with Some d => Ok d | None => Flt end.
  Definition wr_desc (s : st) (m : nat) (d : desc) : st :=
    set_descs s (store m d (descs s)).

  (** cstl_array_reset *)
  Definition array_reset (s : st) (a : nat) : res st :=
    s1 <- shared_reset s a;;
    Ok (set_offlen s1 a 0 0).

  (** cstl_array_alloc *)
  Definition array_alloc (s : st) (a : nat) (nm sz : N) : res st :=
    s1 <- (if v0 then shared_reset s a else array_reset s a);;
    if negb v0 && negb (sz =? 0) && ((MAX64 - HDR) / sz <? nm) then Ok s1
    else
      s2 <- shared_alloc ok s1 a (wrap64 (HDR + wrap64 (nm * sz))) None;;
      r <- shared_get s2 a;;
      match r with
      | Some m =>
        (* ra->sz = sz; ra->nm = nm; ra->buf = ra + 1: writes the first HDR
           bytes of the block (out of bounds if the byte count wrapped
           around to less than that); a->len = nm *)
        if match block_size (al s2) m with Some bs => HDR <=? bs | None => false end then
          let s3 := wr_desc s2 m (mkDesc sz nm Inline) in
          Ok (set_offlen s3 a (off_at s3 a) nm)
        else Flt
      | None => Ok s2
      end.

  (** cstl_array_set: a zero-element alloc whose header is re-pointed *)
  Definition array_set (s : st) (a : nat) (e : nat) (nm sz : N) : res st :=
    s1 <- array_alloc s a 0 sz;;
    r <- shared_get s1 a;;
    match r with
    | Some m =>
      d <- rd_desc s1 m;;
      let s2 := wr_desc s1 m (mkDesc (dsz d) nm (Ext e)) in
      Ok (set_offlen s2 a (off_at s2 a) nm)
    | None => Ok s1
    end.

  (** cstl_array_release: the external buffer, or NULL and no change *)
  Definition array_release (s : st) (a : nat) : res (st * option nat) :=
    r <- shared_get s a;;
    match r with
    | None => Ok (s, None)
    | Some m =>
      d <- rd_desc s m;;
      match dbuf d with
      | Inline => Ok (s, None)
      | Ext e =>
        u <- shared_unique s a;;
        if u then s1 <- array_reset s a;; Ok (s1, Some e)
        else Ok (s, None)
      end
    end.

  Definition buf_loc (m : nat) (d : desc) (byte : N) : loc :=
    match dbuf d with Inline => LBlk m (HDR + byte) | Ext e => LExt e byte end.

  (** cstl_array_data_const: start of the underlying buffer *)
  Definition array_data (s : st) (a : nat) : res loc :=
    r <- shared_get s a;;
    match r with
    | None => Ok LNull
    | Some m => d <- rd_desc s m;; Ok (buf_loc m d 0)
    end.

  (** an element of [sz] bytes at [l] lies inside its buffer *)
  Definition loc_inside (s : st) (l : loc) (sz : N) : bool :=
    match l with
    | LBlk m o => match block_size (al s) m with Some bs => o + sz <=? bs | None => false end
    | LExt e o => match nth_error (exts s) e with Some c => o + sz <=? c | None => false end
    | LNull => false
    end.

  (** cstl_array_at_const.  The function only computes an address,
      [buf + (off + i) * sz]; the caller is entitled to access [sz] bytes
      there, so an address outside the buffer is [Flt]. *)
  Definition array_at (s : st) (a : nat) (i : N) : res loc :=
    if len_at s a <=? i then Ab
    else
      r <- shared_get s a;;
      match r with
      | None => Flt                     (* ra->buf with ra == NULL *)
      | Some m =>
        d <- rd_desc s m;;
        let l := buf_loc m d (wrap64 (wrap64 (off_at s a + i) * dsz d)) in
        if loc_inside s l (dsz d) then Ok l else Flt
      end.

  (** cstl_array_slice *)
  Definition array_slice (s : st) (a : nat) (b e : N) (t : nat) : res st :=
    r <- shared_get s a;;
    match r with
    | None => Ab
    | Some m =>
      d <- rd_desc s m;;
      let bad :=
        if v0 then (e <? b) || (dnm d <? wrap64 (off_at s a + e))
        else (e <? b) || (dnm d <? off_at s a) || (dnm d - off_at s a <? e) in
      if bad then Ab
      else
        let s1 := set_offlen s t (wrap64 (off_at s a + b)) (e - b) in
        if Nat.eqb a t then Ok s1 else shared_share s1 a t
    end.

  (** cstl_array_unslice(s, a) *)
  Definition array_unslice (s : st) (sl a : nat) : res st :=
    r <- shared_get s sl;;
    match r with
    | None => Ab
    | Some m =>
      d <- rd_desc s m;;
      let s1 := set_offlen s a 0 (dnm d) in
      if Nat.eqb a sl then Ok s1 else shared_share s1 sl a
    end.
End Arr.

(** * The scripted system: pointer objects and array objects in one pool *)
Inductive aop :=
| VInit (a : nat) | VAlloc (a : nat) (nm sz : N) | VSet (a e : nat) (nm sz : N)
| VRelease (a : nat) | VData (a : nat) | VAt (a : nat) (i : N) | VSize (a : nat)
| VSlice (a : nat) (b e : N) (t : nat) | VUnslice (sl a : nat) | VReset (a : nat).

Inductive op := OM (o : mop) | OA (o : aop).

(** Domain: slots are array objects; numeric arguments are [size_t] values;
    cstl_array_init only on a disposable object; cstl_array_set only with a
    buffer that really has [nm] elements of [sz] bytes (documented
    precondition). *)
Definition is64 (x : N) : bool := x <? 18446744073709551616.

Definition adom (s : st) (o : aop) : bool :=
  match o with
  | VInit a => has_kind s a KA && disposable s a
  | VRelease a | VData a | VSize a | VReset a => has_kind s a KA
  | VAlloc a nm sz => has_kind s a KA && is64 nm && is64 sz
  | VAt a i => has_kind s a KA && is64 i
  | VSet a e nm sz =>
    has_kind s a KA && is64 nm && is64 sz &&
    match nth_error (exts s) e with Some c => (nm * sz <=? c) && is64 c | None => false end
  | VSlice a b e t => has_kind s a KA && has_kind s t KA && is64 b && is64 e
  | VUnslice sl a => has_kind s sl KA && has_kind s a KA
  end.

Section Step.
  Variable ok : nat -> N -> bool.
  Variable v0 : bool.

  Definition aexec (s : st) (o : aop) : outcome st :=
    match o with
    | VInit a => Done (obj_reinit s a) []
    | VAlloc a nm sz => of_res (array_alloc ok v0 s a nm sz) (fun s' => Done s' [])
    | VSet a e nm sz => of_res (array_set ok v0 s a e nm sz) (fun s' => Done s' [])
    | VRelease a => of_res (array_release s a) (fun r => Done (fst r) [zopt (snd r)])
    | VData a => of_res (array_data s a) (fun l => Done s (loc_out l))
    | VAt a i => of_res (array_at s a i) (fun l => Done s (loc_out l))
    | VSize a => Done s [Z.of_N (len_at s a)]
    | VSlice a b e t => of_res (array_slice v0 s a b e t) (fun s' => Done s' [])
    | VUnslice sl a => of_res (array_unslice s sl a) (fun s' => Done s' [])
    | VReset a => of_res (array_reset s a) (fun s' => Done s' [])
    end.

  Definition astep (s : st) (o : aop) : outcome st :=
    if adom s o then aexec s o else Precond.

  Definition step (s : st) (o : op) : outcome st :=
    match o with OM m => mstep ok s m | OA a => astep s a end.
End Step.

Definition lstep (v0 : bool) (s : st) (l : oracle * op) : outcome st := step (fst l) v0 s (snd l).

(** Reset every object (stray copies are re-initialised instead, which is
    the only thing a program may do with them; a guarded pointer object owns
    nothing and is simply re-initialised): the end-of-case clean-up of
    the harness, after which nothing may be live. *)
Definition cleanup_op (s : st) (i : nat) : option op :=
  match nth_error (objs s) i with
  | None => None
  | Some o =>
    Some (if wfb s i then
            match okind o with
            | KU => OM (UReset i) | KS => OM (SReset i) | KW => OM (WReset i) | KA => OA (VReset i)
            | KG => OM (GInit i)
            end
          else
            match okind o with
            | KU => OM (UInit i) | KS => OM (SInit i) | KW => OM (WInit i) | KA => OA (VInit i)
            | KG => OM (GInit i)
            end)
  end.

Fixpoint cleanup_from (ok : oracle) (v0 : bool) (n : nat) (i : nat) (s : st) : outcome st :=
  match n with
  | O => Done s []
  | S n' =>
    match cleanup_op s i with
    | None => Done s []
    | Some o =>
      match step ok v0 s o with
      | Done s' _ => cleanup_from ok v0 n' (S i) s'
      | r => r
      end
    end
  end.
Definition cleanup (ok : oracle) (v0 : bool) (s : st) : outcome st :=
  cleanup_from ok v0 (length (objs s)) 0 s.
