(** Refutation for the code *as found* (before the F1 repair of
    include/cstl/hash.h): hash.h defined [cstl_hash_size] and [cstl_hash_load]
    as plain functions, i.e. with external linkage, and libcstl (whose hash.c
    includes hash.h) defined them as well.

    [facts_v0] is the minimal hand-written fact record that reproduces the
    defect: hash.h and the header it includes, with only the functions that
    matter.  The generated facts of the unfixed tree contain the same entries
    (see notes/C18.md); on them [Properties_C18.C18_facts_ok] does not
    compile. *)
From Coq Require Import List String Bool.
From Cstl Require Import LinkSpec LinkProofs.
Import ListNotations.
Open Scope string_scope.
Open Scope list_scope.

Definition common_h_v0 : header := {|
  hname := "common.h"; hincludes := []; hguarded := true;
  hdecls := [("cstl_fls", true)]; hdefs := [("cstl_swap", false)];
  hcompiles_alone := true |}.

Definition hash_h_v0 : header := {|
  hname := "hash.h"; hincludes := ["common.h"]; hguarded := true;
  hdecls := [("cstl_hash_insert", true); ("cstl_hash_find", true)];
  hdefs := [("cstl_hash_init", false);
            ("cstl_hash_size", true);      (* size_t cstl_hash_size(...) { ... } *)
            ("cstl_hash_load", true);      (* float cstl_hash_load(...) { ... }  *)
            ("cstl_hash_swap", false)];
  hcompiles_alone := true |}.

Definition facts_v0 : facts := {|
  headers := [common_h_v0; hash_h_v0];
  lib_a := ["cstl_fls"; "cstl_hash_insert"; "cstl_hash_find"; "cstl_hash_size"; "cstl_hash_load"];
  lib_so := ["cstl_fls"; "cstl_hash_insert"; "cstl_hash_find"; "cstl_hash_size"; "cstl_hash_load"] |}.

(** F1 / C18: the finite obligation fails, and a concrete program -- two
    translation units that each contain nothing but [#include "cstl/hash.h"] --
    is a valid program that does not link: both objects (and the library)
    define cstl_hash_size and cstl_hash_load. *)
Theorem F1_hash_h_external_definitions_refuted :
  facts_ok facts_v0 = false /\
  exists prog, valid_prog facts_v0 prog /\ ~ link_ok facts_v0 prog.
Proof.
  split; [vm_compute; reflexivity|].
  exists [["hash.h"]; ["hash.h"]]. split.
  - apply valid_prog_b_iff. vm_compute. reflexivity.
  - intros H. apply link_ok_b_iff in H. vm_compute in H. discriminate.
Qed.

(** Even a single translation unit clashes with the library, which defines
    the same two symbols (observable with libcstl.a as soon as the client
    uses any other function of hash.o). *)
Theorem F1_hash_h_single_tu_clashes_with_library_refuted :
  exists prog, valid_prog facts_v0 prog /\ List.length prog = 1 /\
               ~ NoDup (all_exports facts_v0 prog ++ lib_a facts_v0).
Proof.
  exists [["hash.h"]]. split; [|split].
  - apply valid_prog_b_iff. vm_compute. reflexivity.
  - reflexivity.
  - intros H. apply nodupb_spec in H. vm_compute in H. discriminate.
Qed.

(** ... and with the two definitions made [static inline] (the repair) the
    same facts pass, so the refutation is about exactly those two entries. *)
Definition hash_h_v1 : header := {|
  hname := "hash.h"; hincludes := ["common.h"]; hguarded := true;
  hdecls := hdecls hash_h_v0;
  hdefs := [("cstl_hash_init", false); ("cstl_hash_size", false);
            ("cstl_hash_load", false); ("cstl_hash_swap", false)];
  hcompiles_alone := true |}.

Example F1_repaired_facts_ok :
  facts_ok {| headers := [common_h_v0; hash_h_v1];
              lib_a := ["cstl_fls"; "cstl_hash_insert"; "cstl_hash_find"];
              lib_so := ["cstl_fls"; "cstl_hash_insert"; "cstl_hash_find"] |} = true.
Proof. vm_compute. reflexivity. Qed.

Print Assumptions F1_hash_h_external_definitions_refuted.
Print Assumptions F1_hash_h_single_tu_clashes_with_library_refuted.
