(** Executable pointer-level model of src/dlist.c (C12, C15).

    Memory is a partial map from addresses to nodes [{nx; pv}] (the fields
    [n] and [p] of [struct cstl_dlist_node]) plus a map holding the [size]
    field of the list object whose embedded head node lives at an address.
    Every C statement that writes a field is one update below, in the order
    in which dlist.c performs them.  Nothing in this file knows what a
    "list" is: that the links always describe a well-formed ring, that the
    forward and backward links agree and that [size] is the number of nodes
    are theorems (DListProofs*.v), not definitions.

    Address layout (all addresses are natural numbers):
      [wild]     = 0        never valid (stands for garbage / freed links)
      [haddr i]  = 3i+1     embedded head node of list object number i
      [eaddr e]  = 3e+2     list node of pool element number e
      [taddr k]  = 3k+3     stack-local list heads of cstl_dlist_sort

    Dereferencing an address that holds no node is [Flt] (-> [Fault]). *)
From Cstl Require Import Prelude.

Definition addr := nat.
Definition wild : addr := 0.
Definition haddr (i : nat) : addr := 3 * i + 1.
Definition eaddr (e : nat) : addr := 3 * e + 2.
Definition taddr (k : nat) : addr := 3 * k + 3.

Record node := mkN { nx : addr; pv : addr }.
Record heap := mkH { hm : addr -> option node; hs : addr -> N }.

Inductive res (A : Type) := Ok (a : A) | Flt.
Arguments Ok {A} a.
Arguments Flt {A}.

Notation "x <- e ;; f" := (match e with Ok x => f | Flt => Flt end)
  (at level 61, e at next level, right associativity).
Notation "' p <- e ;; f" := (match e with Ok p => f | Flt => Flt end)
  (at level 61, p pattern, e at next level, right associativity).

(** * Loads and stores *)

Definition setm (m : addr -> option node) (a : addr) (c : option node) : addr -> option node :=
  fun b => if Nat.eqb b a then c else m b.

Definition ld (h : heap) (a : addr) : res node :=
  match hm h a with Some c => Ok c | None => Flt end.
Definition st (h : heap) (a : addr) (c : node) : res heap :=
  match hm h a with
  | Some _ => Ok (mkH (setm (hm h) a (Some c)) (hs h))
  | None => Flt
  end.

Definition rnx (h : heap) (a : addr) : res addr :=
  match hm h a with Some c => Ok (nx c) | None => Flt end.
Definition rpv (h : heap) (a : addr) : res addr :=
  match hm h a with Some c => Ok (pv c) | None => Flt end.
Definition wnx (h : heap) (a v : addr) : res heap :=
  match hm h a with
  | Some c => Ok (mkH (setm (hm h) a (Some (mkN v (pv c)))) (hs h))
  | None => Flt
  end.
Definition wpv (h : heap) (a v : addr) : res heap :=
  match hm h a with
  | Some c => Ok (mkH (setm (hm h) a (Some (mkN (nx c) v))) (hs h))
  | None => Flt
  end.

Definition rsz (h : heap) (l : addr) : N := hs h l.
Definition wsz (h : heap) (l : addr) (v : N) : heap :=
  mkH (hm h) (fun b => if Nat.eqb b l then v else hs h b).

(** storage that comes into existence with garbage links (malloc of a pool
    element, a stack-local list object) and goes away again *)
Definition halloc (h : heap) (a : addr) : heap :=
  mkH (setm (hm h) a (Some (mkN wild wild))) (hs h).
Definition hfree (h : heap) (a : addr) : heap :=
  mkH (setm (hm h) a None) (hs h).
Definition ensure (h : heap) (a : addr) : heap :=
  match hm h a with Some _ => h | None => halloc h a end.

Inductive dir := Fwd | Rev.
(** [*next(a)] of cstl_dlist_foreach *)
Definition rd (d : dir) (h : heap) (a : addr) : res addr :=
  match d with Fwd => rnx h a | Rev => rpv h a end.

(** [l->size--] on a [size_t] *)
Definition dec (n : N) : N := if N.eqb n 0 then 18446744073709551615%N else N.pred n.

(** * The functions of dlist.c; [l] is the address of the list object (= of
    its head node) *)

(** cstl_dlist_init *)
Definition init (h : heap) (l : addr) : res heap :=
  h <- wpv h l l ;;
  h <- wnx h l l ;;
  Ok (wsz h l 0%N).

(** __cstl_dlist_insert(l, p, n) *)
Definition insert (h : heap) (l p n : addr) : res heap :=
  pn <- rnx h p ;;
  h <- wnx h n pn ;;                 (* n->n = p->n *)
  h <- wpv h n p ;;                  (* n->p = p *)
  nn <- rnx h n ;;
  h <- wpv h nn n ;;                 (* n->n->p = n *)
  h <- wnx h p n ;;                  (* p->n = n *)
  Ok (wsz h l (rsz h l + 1)%N).      (* l->size++ *)

(** __cstl_dlist_erase(l, n) (returns n) *)
Definition erase (h : heap) (l n : addr) : res heap :=
  nn <- rnx h n ;;
  np <- rpv h n ;;
  h <- wpv h nn np ;;                (* n->n->p = n->p *)
  np <- rpv h n ;;
  nn <- rnx h n ;;
  h <- wnx h np nn ;;                (* n->p->n = n->n *)
  Ok (wsz h l (dec (rsz h l))).      (* l->size-- *)

Definition front (h : heap) (l : addr) : res (option addr) :=
  if (0 <? rsz h l)%N then n <- rnx h l ;; Ok (Some n) else Ok None.
Definition back (h : heap) (l : addr) : res (option addr) :=
  if (0 <? rsz h l)%N then n <- rpv h l ;; Ok (Some n) else Ok None.

Definition push_front (h : heap) (l e : addr) : res heap := insert h l l e.
Definition push_back (h : heap) (l e : addr) : res heap :=
  p <- rpv h l ;; insert h l p e.

Definition pop_front (h : heap) (l : addr) : res (heap * option addr) :=
  if (0 <? rsz h l)%N then
    n <- rnx h l ;; h <- erase h l n ;; Ok (h, Some n)
  else Ok (h, None).
Definition pop_back (h : heap) (l : addr) : res (heap * option addr) :=
  if (0 <? rsz h l)%N then
    n <- rpv h l ;; h <- erase h l n ;; Ok (h, Some n)
  else Ok (h, None).

(** cstl_dlist_foreach.  The visitor may change the heap (it may unlink the
    element it is shown).  Loop header as coded:
      for (c = *next(&l->h), n = *next(c); res == 0 && c != &l->h; c = n, n = *next(c))
    i.e. the successor of [c] is read before the visit, and the increment
    (with its read of [*next(n)]) runs before [res] is tested.  Running out
    of [fuel] stands for a loop that does not terminate. *)
Inductive ev := EvRead (a : addr) | EvWrite (a : addr) | EvCall (a : addr).

Section Foreach.
  Context {VS : Type}.
  Variable visit : VS -> heap -> addr -> res (heap * VS * Z).

  (** besides the result the loop reports, in program order, which nodes it
      reads ([EvRead]) and which nodes it hands to the visitor ([EvCall]) *)
  Fixpoint fe_loop (fuel : nat) (d : dir) (h : heap) (l : addr) (vs : VS) (c n : addr)
           (evs : list ev) : res (heap * VS * Z * list ev) :=
    if Nat.eqb c l then Ok (h, vs, 0%Z, evs) else
    match fuel with
    | O => Flt
    | S f =>
      '(h, vs, r) <- visit vs h c ;;
      nn <- rd d h n ;;                      (* c = n, n = *next(c) *)
      let evs := evs ++ [EvCall c; EvRead n] in
      if Z.eqb r 0 then fe_loop f d h l vs n nn evs else Ok (h, vs, r, evs)
    end.

  Definition foreach (d : dir) (h : heap) (l : addr) (vs : VS) : res (heap * VS * Z * list ev) :=
    c <- rd d h l ;;
    n <- rd d h c ;;
    fe_loop (N.to_nat (rsz h l)) d h l vs c n [EvRead l; EvRead c].
End Foreach.

(** The script-driven visitor: logs the element; then, depending on the mode,
    leaves it alone, or unlinks it with cstl_dlist_erase and releases its
    storage (any later access to it faults), or unlinks it and appends it to
    another list [o] with cstl_dlist_push_back; answers [stop] at its
    [stop]-th call (0 = never). *)
Inductive vmode := VPlain | VFree | VMove (o : addr).
Definition svis := (nat * list addr)%type.       (* calls so far, log (newest first) *)
Definition svisit (l : addr) (stop : nat) (m : vmode) (vs : svis) (h : heap) (c : addr)
  : res (heap * svis * Z) :=
  let cnt := S (fst vs) in
  h <- match m with
       | VPlain => Ok h
       | VFree => h <- erase h l c ;; Ok (hfree h c)
       | VMove o => h <- erase h l c ;; push_back h o c
       end ;;
  Ok (h, (cnt, c :: snd vs),
      if negb (Nat.eqb stop 0) && Nat.eqb cnt stop then Z.of_nat stop else 0%Z).

Section WithKey.
  (** what the comparison callback sees of a node (addresses of pool
      elements are mapped to their keys by the caller) *)
  Variable key : addr -> Z.

  (** cstl_dlist_find_visit / cstl_dlist_find with a probe of key [k] *)
  Definition fvisit (k : Z) (vs : option addr) (h : heap) (c : addr)
    : res (heap * option addr * Z) :=
    if Z.eqb k (key c) then Ok (h, Some c, 1%Z) else Ok (h, vs, 0%Z).

  Definition find (d : dir) (h : heap) (l : addr) (k : Z) : res (option addr) :=
    '(_, found, r, _) <- foreach (fvisit k) d h l None ;;
    if (0 <? r)%Z then Ok found else Ok None.

  (** merge loop of cstl_dlist_sort *)
  Fixpoint merge_loop (fuel : nat) (h : heap) (l l0 l1 : addr) : res heap :=
    if (0 <? rsz h l0)%N && (0 <? rsz h l1)%N then
      match fuel with
      | O => Flt
      | S f =>
        a <- rnx h l0 ;;
        b <- rnx h l1 ;;
        let ol := if (key a <=? key b)%Z then l0 else l1 in
        n <- rnx h ol ;;
        h <- erase h ol n ;;
        p <- rpv h l ;;
        h <- insert h l p n ;;
        merge_loop f h l l0 l1
      end
    else Ok h.
End WithKey.

(** cstl_dlist_swap(a, b), a <> b: byte swap of the two list objects, then
    CSTL_DLIST_SWAP_FIX for a, then for b *)
Definition swap_fix (h : heap) (l : addr) : res heap :=
  if N.eqb (rsz h l) 0 then
    h <- wpv h l l ;; wnx h l l           (* L->h.n = L->h.p = &L->h *)
  else
    p <- rpv h l ;; h <- wnx h p l ;;     (* L->h.p->n = &L->h *)
    n <- rnx h l ;; wpv h n l.            (* L->h.n->p = &L->h *)

Definition swap (h : heap) (a b : addr) : res heap :=
  ca <- ld h a ;;
  cb <- ld h b ;;
  h <- st h a cb ;;
  h <- st h b ca ;;
  let sa := rsz h a in
  let h := wsz h a (rsz h b) in
  let h := wsz h b sa in
  h <- swap_fix h a ;;
  swap_fix h b.

(** cstl_dlist_clear: [while (l->size > 0) clr(__cstl_dlist_erase(l, l->h.n))].
    The callback releases the element: its storage is gone afterwards.
    Besides the callback log the function reports every access it makes to a
    node and every callback, in program order (used by C15). *)
Fixpoint clear_loop (fuel : nat) (h : heap) (l : addr) (log : list addr) (evs : list ev)
  : res (heap * list addr * list ev) :=
  if (0 <? rsz h l)%N then
    match fuel with
    | O => Flt
    | S f =>
      n <- rnx h l ;;
      nn <- rnx h n ;;
      np <- rpv h n ;;
      h <- erase h l n ;;
      let evs := evs ++ [EvRead l; EvRead n; EvRead n; EvWrite nn;
                         EvRead n; EvRead n; EvWrite np; EvCall n] in
      clear_loop f (hfree h n) l (log ++ [n]) evs
    end
  else Ok (h, log, evs).

Definition clear (h : heap) (l : addr) : res (heap * list addr * list ev) :=
  clear_loop (N.to_nat (rsz h l)) h l [] [].

(** cstl_dlist_reverse *)
Fixpoint rev_loop (fuel : nat) (h : heap) (i j : addr) : res (heap * addr * addr) :=
  if Nat.eqb i j then Ok (h, i, j) else
  i_n <- rnx h i ;;
  if Nat.eqb i_n j then Ok (h, i, j) else
  match fuel with
  | O => Flt
  | S f =>
    ip <- rpv h i ;; h <- wnx h ip j ;;       (* i->p->n = j *)
    i_n <- rnx h i ;; h <- wpv h i_n j ;;     (* i->n->p = j *)
    jn <- rnx h j ;; h <- wpv h jn i ;;       (* j->n->p = i *)
    jp <- rpv h j ;; h <- wnx h jp i ;;       (* j->p->n = i *)
    ci <- ld h i ;; cj <- ld h j ;;           (* cstl_swap(i, j, &t, sizeof(t)) *)
    h <- st h i cj ;; h <- st h j ci ;;
    k <- rpv h i ;;                           (* k = i->p, i = j->n, j = k *)
    i' <- rnx h j ;;
    rev_loop f h i' k
  end.

Definition reverse (h : heap) (l : addr) : res heap :=
  i <- rnx h l ;;
  j <- rpv h l ;;
  '(h, i, j) <- rev_loop (S (N.to_nat (rsz h l))) h i j ;;
  i_n <- rnx h i ;;
  if Nat.eqb i_n j then
    ip <- rpv h i ;; h <- wnx h ip j ;;       (* i->p->n = j *)
    jn <- rnx h j ;; h <- wpv h jn i ;;       (* j->n->p = i *)
    jn <- rnx h j ;; h <- wnx h i jn ;;       (* i->n = j->n *)
    h <- wnx h j i ;;                         (* j->n = i *)
    ip <- rpv h i ;; h <- wpv h j ip ;;       (* j->p = i->p *)
    wpv h i j                                 (* i->p = j *)
  else Ok h.

(** cstl_dlist_concat(d, s); both lists have the same [off] *)
Definition concat (h : heap) (d s : addr) : res heap :=
  if negb (Nat.eqb d s) && (0 <? rsz h s)%N then
    sn <- rnx h s ;; dp <- rpv h d ;; h <- wpv h sn dp ;;   (* s->h.n->p = d->h.p *)
    sp <- rpv h s ;; h <- wnx h sp d ;;                     (* s->h.p->n = &d->h *)
    dp <- rpv h d ;; sn <- rnx h s ;; h <- wnx h dp sn ;;   (* d->h.p->n = s->h.n *)
    sp <- rpv h s ;; h <- wpv h d sp ;;                     (* d->h.p = s->h.p *)
    let h := wsz h d (rsz h d + rsz h s)%N in               (* d->size += s->size *)
    init h s
  else Ok h.

Section Sort.
  Variable key : addr -> Z.

  (** for (t = &l->h; _l[0].size < l->size / 2; t = t->n, _l[0].size++) ; *)
  Fixpoint mid_loop (fuel : nat) (h : heap) (l l0 t : addr) : res (heap * addr) :=
    if (rsz h l0 <? rsz h l / 2)%N then
      match fuel with
      | O => Flt
      | S f =>
        t' <- rnx h t ;;
        mid_loop f (wsz h l0 (rsz h l0 + 1)%N) l l0 t'
      end
    else Ok (h, t).

  (** first half of the body of cstl_dlist_sort: declare and initialise the
      two local list objects [l0], [l1], cut [l] into halves, hand the
      halves to them, re-initialise [l] *)
  Definition sort_split (h : heap) (l l0 l1 : addr) : res heap :=
    let h := halloc (halloc h l0) l1 in
    h <- init h l0 ;;
    h <- init h l1 ;;
    '(h, t) <- mid_loop (N.to_nat (rsz h l)) h l l0 l ;;
    ln <- rnx h l ;; h <- wnx h l0 ln ;;              (* _l[0].h.n = l->h.n *)
    h <- wpv h l0 t ;;                                (* _l[0].h.p = t *)
    tn <- rnx h t ;; h <- wnx h l1 tn ;;              (* _l[1].h.n = t->n *)
    lp <- rpv h l ;; h <- wpv h l1 lp ;;              (* _l[1].h.p = l->h.p *)
    p0 <- rpv h l0 ;; h <- wnx h p0 l0 ;;             (* _l[0].h.p->n = &_l[0].h *)
    n0 <- rnx h l0 ;; h <- wpv h n0 l0 ;;             (* _l[0].h.n->p = &_l[0].h *)
    p1 <- rpv h l1 ;; h <- wnx h p1 l1 ;;
    n1 <- rnx h l1 ;; h <- wpv h n1 l1 ;;
    let h := wsz h l1 (rsz h l - rsz h l0)%N in       (* _l[1].size = l->size - _l[0].size *)
    init h l.

  (** second half: merge, append the rest, leave the scope of [l0], [l1] *)
  Definition sort_join (h : heap) (l l0 l1 : addr) : res heap :=
    h <- merge_loop key (N.to_nat (rsz h l0 + rsz h l1)) h l l0 l1 ;;
    h <- (if (0 <? rsz h l0)%N then concat h l l0 else concat h l l1) ;;
    Ok (hfree (hfree h l0) l1).

  (** cstl_dlist_sort.  The two stack-local list objects of the call at
      recursion depth [depth] live at [taddr (2*depth)], [taddr (2*depth+1)];
      they exist from the declaration to the return. *)
  Fixpoint sort (fuel depth : nat) (h : heap) (l : addr) : res heap :=
    if (1 <? rsz h l)%N then
      match fuel with
      | O => Flt
      | S f =>
        let l0 := taddr (2 * depth) in
        let l1 := taddr (2 * depth + 1) in
        h <- sort_split h l l0 l1 ;;
        h <- sort f (S depth) h l0 ;;
        h <- sort f (S depth) h l1 ;;
        sort_join h l l0 l1
      end
    else Ok h.
End Sort.

(** * Raw traversals (what the driver's dump does): follow [nx] (or [pv])
    links from the head until the head is met again, at most [fuel] steps *)
Fixpoint walk (d : dir) (h : heap) (l : addr) (fuel : nat) (c : addr) : list addr :=
  if Nat.eqb c l then [] else
  match fuel with
  | O => []
  | S f => match rd d h c with
           | Ok n => c :: walk d h l f n
           | Flt => [c]
           end
  end.

Definition traverse (d : dir) (h : heap) (l : addr) (fuel : nat) : list addr :=
  match rd d h l with Ok c => walk d h l fuel c | Flt => [] end.

(** * The scripted system *)

Inductive op :=
| PushFront (l e : nat) | PushBack (l e : nat) | PopFront (l : nat) | PopBack (l : nat)
| Insert (l b e : nat) | Erase (l e : nat)
| Front (l : nat) | Back (l : nat) | Size (l : nat)
| Foreach (l : nat) (d : dir) (stop : nat) (m : vmode)   (* [VMove o]: o = list number *)
| Find (l : nat) (k : Z) (d : dir)
| Swap (a b : nat) | Clear (l : nat) | Reverse (l : nat) | Sort (l : nat)
| Concat (d s : nat).

Record sys := mkS { hp : heap; nl : nat }.

Definition init_mem (n : nat) : addr -> option node :=
  fun a => if Nat.eqb (a mod 3) 1 && Nat.ltb (a / 3) n then Some (mkN a a) else None.
Definition sys_init (n : nat) : sys := mkS (mkH (init_mem n) (fun _ => 0%N)) n.

Definition contents (h : heap) (l : addr) : list addr :=
  traverse Fwd h l (N.to_nat (rsz h l)).

Definition memb (a : addr) (l : list addr) : bool := existsb (Nat.eqb a) l.

Definition linked (s : sys) (a : addr) : bool :=
  existsb (fun i => memb a (contents (hp s) (haddr i))) (seq 0 (nl s)).

(** element address -> element id as printed in traces *)
Definition zel (a : addr) : Z :=
  if Nat.eqb (a mod 3) 2 then Z.of_nat (a / 3) else (-2 - Z.of_nat a)%Z.
Definition zoel (o : option addr) : Z := match o with Some a => zel a | None => znull end.

Section Step.
  Variable key : nat -> Z.            (* element id -> key *)
  Definition akey (a : addr) : Z := key (a / 3).

  Definition lifth (s : sys) (r : res heap) (out : list Z) : outcome sys :=
    match r with Ok h => Done (mkS h (nl s)) out | Flt => Fault end.

  Definition step (s : sys) (o : op) : outcome sys :=
    let h := hp s in
    let okl l := Nat.ltb l (nl s) in
    match o with
    | PushFront l e =>
      if negb (okl l) || linked s (eaddr e) then Precond
      else lifth s (push_front (ensure h (eaddr e)) (haddr l) (eaddr e)) []
    | PushBack l e =>
      if negb (okl l) || linked s (eaddr e) then Precond
      else lifth s (push_back (ensure h (eaddr e)) (haddr l) (eaddr e)) []
    | PopFront l =>
      if negb (okl l) then Precond else
      match pop_front h (haddr l) with
      | Ok (h', r) => Done (mkS h' (nl s)) [zoel r]
      | Flt => Fault
      end
    | PopBack l =>
      if negb (okl l) then Precond else
      match pop_back h (haddr l) with
      | Ok (h', r) => Done (mkS h' (nl s)) [zoel r]
      | Flt => Fault
      end
    | Insert l b e =>
      if negb (okl l) || linked s (eaddr e) || negb (memb (eaddr b) (contents h (haddr l)))
      then Precond
      else lifth s (insert (ensure h (eaddr e)) (haddr l) (eaddr b) (eaddr e)) []
    | Erase l e =>
      if negb (okl l) || negb (memb (eaddr e) (contents h (haddr l))) then Precond
      else lifth s (erase h (haddr l) (eaddr e)) []
    | Front l =>
      if negb (okl l) then Precond else
      match front h (haddr l) with Ok r => Done s [zoel r] | Flt => Fault end
    | Back l =>
      if negb (okl l) then Precond else
      match back h (haddr l) with Ok r => Done s [zoel r] | Flt => Fault end
    | Size l =>
      if negb (okl l) then Precond else Done s [Z.of_N (rsz h (haddr l))]
    | Foreach l d stop m =>
      if negb (okl l) || match m with VMove o => negb (okl o) || Nat.eqb o l | _ => false end
      then Precond else
      let m' := match m with VMove o => VMove (haddr o) | VPlain => VPlain | VFree => VFree end in
      match foreach (svisit (haddr l) stop m') d h (haddr l) (0, []) with
      | Ok (h', (_, log), r, _) => Done (mkS h' (nl s)) (r :: map zel (rev log))
      | Flt => Fault
      end
    | Find l k d =>
      if negb (okl l) then Precond else
      match find akey d h (haddr l) k with
      | Ok r => Done s [zoel r]
      | Flt => Fault
      end
    | Swap a b =>
      if negb (okl a) || negb (okl b) || Nat.eqb a b then Precond
      else lifth s (swap h (haddr a) (haddr b)) []
    | Clear l =>
      if negb (okl l) then Precond else
      match clear h (haddr l) with
      | Ok (h', log, _) => Done (mkS h' (nl s)) (map zel log)
      | Flt => Fault
      end
    | Reverse l =>
      if negb (okl l) then Precond else lifth s (reverse h (haddr l)) []
    | Sort l =>
      if negb (okl l) then Precond
      else lifth s (sort akey (N.to_nat (rsz h (haddr l))) 0 h (haddr l)) []
    | Concat d sr =>
      if negb (okl d) || negb (okl sr) then Precond
      else lifth s (concat h (haddr d) (haddr sr)) []
    end.
End Step.

(** Observable dump of list [l] for the correspondence check: size, front,
    back, raw forward walk, raw backward walk (both bounded by [bound]
    steps), cstl_dlist_foreach forward and backward. *)
Definition zfront (h : heap) (l : addr) : Z :=
  match front h l with Ok r => zoel r | Flt => (-3)%Z end.
Definition zback (h : heap) (l : addr) : Z :=
  match back h l with Ok r => zoel r | Flt => (-3)%Z end.
Definition fe_log (d : dir) (h : heap) (l : addr) : list Z :=
  match foreach (svisit l 0 VPlain) d h l (0, []) with
  | Ok (_, (_, log), _, _) => map zel (rev log)
  | Flt => [(-3)%Z]
  end.
Definition dump (bound : nat) (s : sys) (i : nat)
  : N * Z * Z * (list Z * list Z) * (list Z * list Z) :=
  let h := hp s in let l := haddr i in
  (rsz h l, zfront h l, zback h l,
   (map zel (traverse Fwd h l bound), map zel (traverse Rev h l bound)),
   (fe_log Fwd h l, fe_log Rev h l)).
