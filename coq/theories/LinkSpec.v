(** C18 -- public headers are usable by client programs.

    Specification side (definitions only; proofs are in LinkProofs.v).

    This is a model of what the C preprocessor, compiler and linker do with
    the *facts* that the translator (gen/headers.py) extracts from the
    headers of $REPO/include/cstl and from nm of the freshly built
    libcstl.a / libcstl.so on every run (coq/link/LinkFacts.v, generated,
    never committed).  Nothing in here is specific to libcstl. *)
From Coq Require Import List String Bool Arith.
Import ListNotations.
Open Scope string_scope.
Open Scope list_scope.

(** A symbol as the compiler sees it -- a function, or an object declared at
    file scope (e.g. [extern const char cstl_string_nul]) -- its name and
    whether it has external linkage ([true]) or internal linkage ([false]:
    [static], [static inline]). *)
Definition fsym := (string * bool)%type.

(** What the translator records about one public header. *)
Record header := {
  hname : string;            (* "hash.h" *)
  hincludes : list string;   (* the public cstl headers it #includes, in order *)
  hguarded : bool;           (* whole body inside #ifndef X / #define X / #endif *)
  hdecls : list fsym;        (* functions it declares by prototype only,
                                objects it declares [extern] *)
  hdefs : list fsym;         (* functions it has a body for, objects it defines *)
  hcompiles_alone : bool     (* a TU containing only this #include compiles
                                with the project's flags and -Werror *)
}.

Record facts := {
  headers : list header;
  lib_a : list string;       (* nm -g --defined-only libcstl.a *)
  lib_so : list string       (* nm -D --defined-only libcstl.so *)
}.

(** A translation unit of a client program is the list of public headers it
    includes: any order, any repetition.  A program is any list of TUs. *)
Definition tu := list string.
Definition program := list tu.

Definition names (hs : list header) : list string := map hname hs.

Definition valid_prog (f : facts) (p : program) : Prop :=
  forall t, In t p -> forall n, In n t -> In n (names (headers f)).

(* ------------------------------------------------------------------ *)
(** * Preprocessing: which header bodies a TU sees, and how often *)

Definition mem (n : string) (l : list string) : bool := existsb (String.eqb n) l.

Fixpoint find_header (hs : list header) (n : string) : option header :=
  match hs with
  | [] => None
  | h :: r => if String.eqb (hname h) n then Some h else find_header r n
  end.

(** [pp hs fuel seen stack]: the include directives still to be processed are
    [stack] (next one first); [seen] are the headers whose body has been
    entered so far (for a guarded header: its guard macro is defined).  A
    guarded header that was already entered contributes nothing; any other
    header contributes its body once more, and its own #includes are
    processed next.  The result lists the bodies the compiler sees, one entry
    per occurrence.  [None]: a header that does not exist, or the fuel ran out
    (unbounded recursion of unguarded headers; gcc stops at depth 200). *)
Fixpoint pp (hs : list header) (fuel : nat) (seen stack : list string)
  : option (list header) :=
  match fuel with
  | O => None
  | S fuel' =>
    match stack with
    | [] => Some []
    | n :: rest =>
      match find_header hs n with
      | None => None
      | Some h =>
        if hguarded h && mem n seen
        then pp hs fuel' seen rest
        else option_map (cons h) (pp hs fuel' (n :: seen) (hincludes h ++ rest))
      end
    end
  end.

(** Enough fuel for every expansion in which no header is entered twice (one
    step per include directive: those of the TU plus those of every header
    once).  An expansion that needs more enters some header twice and is
    rejected by [tu_compiles] anyway. *)
Definition total_includes (hs : list header) : nat :=
  fold_right (fun h a => List.length (hincludes h) + a) 0 hs.
Definition fuel_for (hs : list header) (t : tu) : nat :=
  List.length t + total_includes hs + 1.

Definition tu_bodies (f : facts) (t : tu) : option (list header) :=
  pp (headers f) (fuel_for (headers f) t) [] t.

(* ------------------------------------------------------------------ *)
(** * Compiling one TU *)

Definition tu_decls (bs : list header) : list fsym := flat_map hdecls bs.
Definition tu_defs (bs : list header) : list fsym := flat_map hdefs bs.
Definition tu_syms (bs : list header) : list fsym := tu_decls bs ++ tu_defs bs.

(** The TU compiles when
    - preprocessing terminates,
    - no header body is seen twice (a second copy re-defines the header's
      types and functions; only an include guard prevents that),
    - each body is one that compiles on its own (self-contained),
    - no function is defined twice in the TU,
    - no function is declared with external linkage in one place and with
      internal linkage in another,
    - every function declared [static] is defined in this TU. *)
Definition tu_compiles (f : facts) (t : tu) : Prop :=
  exists bs, tu_bodies f t = Some bs /\
    NoDup (names bs) /\
    (forall b, In b bs -> hcompiles_alone b = true) /\
    NoDup (map fst (tu_defs bs)) /\
    (forall n, In (n, true) (tu_syms bs) -> ~ In (n, false) (tu_syms bs)) /\
    (forall n, In (n, false) (tu_decls bs) -> In (n, false) (tu_defs bs)).

(* ------------------------------------------------------------------ *)
(** * Object files and linking *)

Definition ext_names (l : list fsym) : list string := map fst (filter snd l).

Definition bodies_or_nil (f : facts) (t : tu) : list header :=
  match tu_bodies f t with Some bs => bs | None => [] end.

(** Symbols the object file of a TU defines with external linkage ... *)
Definition obj_exports (f : facts) (t : tu) : list string :=
  ext_names (tu_defs (bodies_or_nil f t)).
(** ... and the external functions its headers declare, each of which a
    client may call (the generated client takes the address of all of them). *)
Definition obj_imports (f : facts) (t : tu) : list string :=
  ext_names (tu_decls (bodies_or_nil f t)).

Definition all_exports (f : facts) (p : program) : list string :=
  flat_map (obj_exports f) p.

(** Linking the objects of [p] against a library that defines [lib]:
    every TU compiles; no symbol is defined by two objects (two TUs, or a TU
    and the library, or twice inside the library); every declared external
    function is defined by some object or by the library. *)
Definition link_ok_with (f : facts) (lib : list string) (p : program) : Prop :=
  (forall t, In t p -> tu_compiles f t) /\
  NoDup (all_exports f p ++ lib) /\
  (forall t n, In t p -> In n (obj_imports f t) -> In n (all_exports f p ++ lib)).

(** ... against the static and against the shared library. *)
Definition link_ok (f : facts) (p : program) : Prop :=
  link_ok_with f (lib_a f) p /\ link_ok_with f (lib_so f) p.

(* ------------------------------------------------------------------ *)
(** * The finite check on the facts *)

Fixpoint nodupb (l : list string) : bool :=
  match l with
  | [] => true
  | x :: r => negb (mem x r) && nodupb r
  end.

Definition sym_eqb (a b : fsym) : bool :=
  String.eqb (fst a) (fst b) && Bool.eqb (snd a) (snd b).
Definition memsym (s : fsym) (l : list fsym) : bool := existsb (sym_eqb s) l.

Definition all_syms (hs : list header) : list fsym :=
  flat_map (fun h => hdecls h ++ hdefs h) hs.
Definition all_def_names (hs : list header) : list string :=
  flat_map (fun h => map fst (hdefs h)) hs.

(** Linkage is used consistently: no name is external in one place and
    internal in another. *)
Definition linkage_consistent (l : list fsym) : bool :=
  forallb (fun s => negb (memsym (fst s, negb (snd s)) l)) l.

Definition header_ok (f : facts) (h : header) : bool :=
  hguarded h &&
  hcompiles_alone h &&
  forallb (fun i => mem i (names (headers f))) (hincludes h) &&
  (* helpers defined in a header have internal linkage *)
  forallb (fun d : fsym => negb (snd d)) (hdefs h) &&
  (* every external prototype is provided by both libraries;
     every static prototype has its body in the same header *)
  forallb (fun d : fsym => if snd d then mem (fst d) (lib_a f) && mem (fst d) (lib_so f)
                    else memsym d (hdefs h)) (hdecls h).

Definition facts_ok (f : facts) : bool :=
  nodupb (names (headers f)) &&
  forallb (header_ok f) (headers f) &&
  nodupb (all_def_names (headers f)) &&
  linkage_consistent (all_syms (headers f)) &&
  nodupb (lib_a f) &&
  nodupb (lib_so f).

(* ------------------------------------------------------------------ *)
(** * Executable verdict for one program (used by the check to compare the
      model with gcc/ld on the enumerated configurations; proved equivalent
      to [link_ok] in LinkProofs.v) *)

Definition valid_prog_b (f : facts) (p : program) : bool :=
  forallb (forallb (fun n => mem n (names (headers f)))) p.

Definition tu_compiles_b (f : facts) (t : tu) : bool :=
  match tu_bodies f t with
  | None => false
  | Some bs =>
    nodupb (names bs) &&
    forallb hcompiles_alone bs &&
    nodupb (map fst (tu_defs bs)) &&
    linkage_consistent (tu_syms bs) &&
    forallb (fun d : fsym => snd d || memsym d (tu_defs bs)) (tu_decls bs)
  end.

Definition link_ok_with_b (f : facts) (lib : list string) (p : program) : bool :=
  forallb (tu_compiles_b f) p &&
  nodupb (all_exports f p ++ lib) &&
  forallb (fun t => forallb (fun n => mem n (all_exports f p ++ lib)) (obj_imports f t)) p.

Definition link_ok_b (f : facts) (p : program) : bool :=
  link_ok_with_b f (lib_a f) p && link_ok_with_b f (lib_so f) p.
