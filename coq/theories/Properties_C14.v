(** C14 - array views never reach outside their buffer. Statements only. *)
From Cstl Require Import Prelude AllocModel MemModel ArrayViewModel MemProofs ArrayViewProofs.
Local Open Scope N_scope.

Theorem C14_slice_check off nm b e :
  ((e <? b) || (nm <? off) || (nm - off <? e)) = false <-> b <= e /\ off + e <= nm.
Proof. exact (slice_check_nat off nm b e). Qed.

Example C14_example :
  let ok := fun _ _ => true in
  match fst (run (step ok false) (st_init [KA; KA] [40]) [OA (VAlloc 0 5 4); OA (VSlice 0 1 3 1); OA (VAt 1 1)]) with
  | Done s _ => True
  | _ => False
  end.
Proof. vm_compute. exact I. Qed.

Print Assumptions C14_slice_check.
