(** C14 - array views never reach outside their buffer, which lives as long
    as any view.  Statements only; proofs are in ArrayViewProofs.v.

    [sys s]: [s] is reachable from a pool of initialised objects (kinds [ks],
    external buffers of [ex] bytes) by any history of pointer and array calls
    of the *repaired* library (fixes/F6, fixes/F7), each under an arbitrary
    allocator oracle.  The pool has fewer than 2^31 objects (cstl_array_release
    relies on cstl_shared_ptr_unique, which converts the count to [int]). *)
From Cstl Require Import Prelude AllocModel MemModel ArrayViewModel MemProofs ArrayViewProofs.
Local Open Scope N_scope.

Section C14.
  Variables (ks : list kind) (ex : list N).
  Hypothesis pool_small : 2 * N.of_nat (length ks) < 4294967296.
  Notation sys := (reach (lstep false) (st_init ks ex)).

  (** view_inv: an empty object has offset = length = 0; otherwise
      offset + length <= element count as natural numbers and the buffer
      (header + elements inside the block, or the external buffer) really has
      room for all elements *)
  Theorem C14_view_inv s a o :
    sys s -> nth_error (objs s) a = Some o -> okind o = KA -> wf_obj a o = true ->
    match gp (ogp o) with
    | None => ooff o = 0 /\ olen o = 0
    | Some d => exists D m de, lookup d (datas s) = Some D /\ gp (ugp (dup D)) = Some m /\
                               lookup m (descs s) = Some de /\ ooff o + olen o <= dnm de /\ buf_ok s m de
    end.
  Proof. intros R. destruct (reach_sys ks ex s pool_small R) as (_ & A & _). apply A. Qed.

  (** no call ever runs into undefined behaviour; it aborts only for a stray
      copy among its arguments or for the documented reasons ([range_abort]) *)
  Theorem C14_step_safe s l :
    sys s ->
    match lstep false s l with
    | Done s' _ => sys s'
    | Abort => (exists i, In i (args (snd l)) /\ stray s i) \/ (exists ao, snd l = OA ao /\ range_abort s ao)
    | Fault => False
    | Precond => True
    end.
  Proof.
    intros R. destruct (reach_sys ks ex s pool_small R) as (I & A & L & _).
    pose proof (step_outcome (fst l) s (snd l) I A) as Q. rewrite L in Q. specialize (Q pool_small).
    unfold lstep at 1. destruct (step (fst l) false s (snd l)) eqn:E; auto. eapply reach_step; eauto.
  Qed.

  (** cstl_array_at aborts for every index >= size and otherwise returns a
      place, with room for a whole element, inside the live buffer *)
  Theorem C14_at_iff s a o i :
    sys s -> nth_error (objs s) a = Some o -> okind o = KA -> wf_obj a o = true -> i <= MAX64 ->
    if olen o <=? i then array_at s a i = Ab
    else exists d D m de, gp (ogp o) = Some d /\ lookup d (datas s) = Some D /\ gp (ugp (dup D)) = Some m /\
           lookup m (descs s) = Some de /\ is_live (al s) m = true /\
           array_at s a i = Ok (buf_loc m de ((ooff o + i) * dsz de)) /\
           loc_inside s (buf_loc m de ((ooff o + i) * dsz de)) (dsz de) = true /\
           (ooff o + i) * dsz de + dsz de <= dnm de * dsz de.
  Proof. intros R. destruct (reach_sys ks ex s pool_small R) as (I & A & _). apply array_at_spec; auto. Qed.

  (** cstl_array_slice aborts iff the source is empty, end < beg, or
      offset + end exceeds the element count *as natural numbers*; otherwise
      the target views [offset + beg, offset + end) of the same buffer *)
  Theorem C14_slice_iff s a t oa ot b e :
    sys s -> nth_error (objs s) a = Some oa -> nth_error (objs s) t = Some ot ->
    okind oa = KA -> okind ot = KA -> wf_obj a oa = true -> wf_obj t ot = true -> b <= MAX64 -> e <= MAX64 ->
    match gp (ogp oa) with
    | None => array_slice false s a b e t = Ab
    | Some d =>
      exists D m de, lookup d (datas s) = Some D /\ gp (ugp (dup D)) = Some m /\ lookup m (descs s) = Some de /\
        if (e <? b) || (dnm de <? ooff oa + e)
        then array_slice false s a b e t = Ab
        else exists s', array_slice false s a b e t = Ok s' /\ inv s' /\ ainv s' /\ exts s' = exts s /\
               objs s' = upd (objs s) t (olo (ptr_obj t ot (Some d)) (ooff oa + b) (e - b))
    end.
  Proof. intros R. destruct (reach_sys ks ex s pool_small R) as (I & A & _). apply array_slice_spec; auto. Qed.

  (** the allocation stays alive while any view refers to it ... *)
  Theorem C14_buffer_alive s a o d :
    sys s -> nth_error (objs s) a = Some o -> okind o = KA -> wf_obj a o = true -> gp (ogp o) = Some d ->
    exists D m, lookup d (datas s) = Some D /\ gp (ugp (dup D)) = Some m /\
                is_live (al s) m = true /\ is_live (al s) d = true /\ shared_get s a = Ok (Some m).
  Proof.
    intros R E K W G. destruct (reach_sys ks ex s pool_small R) as (I & A & _).
    destruct (array_target s a o d I A E K W G) as (D & m & de & B1 & B2 & _ & _ & _ & GET & _).
    exists D, m. destruct (managed_live None s d D m I B1 B2) as (_ & Lm & _).
    pose proof (inv_live _ _ I d D B1). auto 6.
  Qed.

  (** ... and is released exactly once afterwards: every block is live iff
      something still owns it, every block that is not live any more was
      released exactly once, nothing was ever freed twice or wrongly (C05) *)
  Theorem C14_released_once_afterwards s :
    sys s ->
    (forall b, is_live (al s) b = true <-> lookup b (datas s) <> None \/ managed s b \/ uowned s b) /\
    NoDup (freed (log s)) /\
    (forall b, In b (freed (log s)) <-> (b < next (al s))%nat /\ is_live (al s) b = false) /\
    (forall b, ~ In (MA (EvBadFree b)) (log s)).
  Proof.
    intros R. destruct (reach_sys ks ex s pool_small R) as (I & _).
    destruct (released_exactly_once s I) as (A & B & C & _).
    split; [intros b; apply live_iff_owned; auto|]. auto.
  Qed.

  (** cstl_array_release hands the external buffer back only to its sole
      user and otherwise reports NULL and changes nothing *)
  Theorem C14_release s a o :
    sys s -> nth_error (objs s) a = Some o -> okind o = KA -> wf_obj a o = true ->
    exists s' r, array_release s a = Ok (s', r) /\
      match r with
      | None => s' = s
      | Some e => objs s' = upd (objs s) a (olo (ptr_obj a o None) 0 0) /\
                  exists d D m de, gp (ogp o) = Some d /\ lookup d (datas s) = Some D /\ gp (ugp (dup D)) = Some m /\
                                   lookup m (descs s) = Some de /\ dbuf de = Ext e /\ owners s d + weaks s d = 1
      end /\
      (r = None <-> match gp (ogp o) with
                    | None => True
                    | Some d => forall D m de, lookup d (datas s) = Some D -> gp (ugp (dup D)) = Some m ->
                                  lookup m (descs s) = Some de -> dbuf de = Inline \/ owners s d + weaks s d <> 1
                    end).
  Proof.
    intros R E K W. destruct (reach_sys ks ex s pool_small R) as (I & A & L & _).
    destruct (array_release_spec s a o I A E K W) as (s' & r & X & _ & _ & _ & C); [rewrite L; auto|]. eauto.
  Qed.

  (** a failed allocation leaves the object empty: after cstl_array_alloc
      the object is either empty (offset = length = 0) or views all [nm]
      elements of a fresh block of at least 24 + nm * sz bytes; a byte count
      that cannot be represented always gives the empty object *)
  Theorem C14_alloc_result ok s a o nm sz :
    sys s -> nth_error (objs s) a = Some o -> okind o = KA -> wf_obj a o = true -> nm <= MAX64 -> sz <= MAX64 ->
    exists s' p, array_alloc ok false s a nm sz = Ok s' /\ ainv s' /\
      objs s' = upd (objs s) a (olo (ptr_obj a o p) 0 (match p with Some _ => nm | None => 0 end)) /\
      (MAX64 < HDR + nm * sz -> p = None).
  Proof.
    intros R E K W Nm Sz. destruct (reach_sys ks ex s pool_small R) as (I & A & _).
    destruct (array_alloc_spec ok s a o nm sz I A E K W Nm Sz) as (s' & p & X & _ & A' & _ & O' & P).
    exists s', p. split; auto. split; auto. split; auto. intros OV. destruct p; auto. destruct P as (m & _ & _ & P). lia.
  Qed.
End C14.

(** Non-vacuity: a history through every array function, including a
    re-allocation of an object that is a slice and slicing in place. *)
Example C14_example :
  let ok := fun _ _ => true in
  let ops := [OA (VAlloc 0 5 4); OA (VSlice 0 1 4 1); OA (VSlice 1 1 2 1); OA (VAt 1 0); OA (VAlloc 1 3 8);
              OA (VAt 1 2); OA (VSet 0 0 10 4); OA (VUnslice 0 1); OA (VRelease 0); OA (VReset 1); OA (VRelease 0)] in
  match run (step ok false) (st_init [KA; KA] [40]) ops with
  | (Done s _, outs) => nth 3 outs [] = [0; 1; 32]%Z /\ nth 5 outs [] = [0; 3; 40]%Z /\
                        nth 8 outs [] = [-1]%Z /\ nth 10 outs [] = [0]%Z /\ live (al s) = []
  | _ => False
  end.
Proof. vm_compute. auto. Qed.

Print Assumptions C14_view_inv.
Print Assumptions C14_step_safe.
Print Assumptions C14_at_iff.
Print Assumptions C14_slice_iff.
Print Assumptions C14_buffer_alive.
Print Assumptions C14_released_once_afterwards.
Print Assumptions C14_release.
Print Assumptions C14_alloc_result.
