(** Model of malloc/realloc/free shared by all components that allocate
    (DESIGN.md section 4).  Requests are numbered; an oracle [ok] decides for
    every (ordinal, size) whether the request is satisfied; requests above
    [LIMIT] bytes always fail (the drivers' __wrap_malloc applies the same
    policy).  All theorems elsewhere quantify over every oracle. *)
From Cstl Require Import Prelude.
Local Open Scope N_scope.

Definition LIMIT : N := 4294967296.   (* 2^32 *)

Inductive aev :=
| EvMalloc (b : nat) (sz : N)
| EvMallocFail (sz : N)
| EvRealloc (old : option nat) (b : nat) (sz : N)
| EvReallocFail (old : option nat) (sz : N)
| EvReallocFree (old : nat)            (* realloc(p, 0): frees p, returns NULL *)
| EvFree (b : nat)
| EvBadFree (b : nat).                 (* free of a block that is not live *)

Record alloc := mkAlloc {
  live : list (nat * N);   (* live blocks: id, size in bytes *)
  next : nat;              (* next fresh block id *)
  ord : nat;               (* ordinal of the next request that can fail *)
  events : list aev        (* newest first *)
}.

Definition alloc_init : alloc := mkAlloc [] 0 0 [].

Definition is_live (a : alloc) (b : nat) : bool :=
  existsb (fun p => Nat.eqb (fst p) b) (live a).

Definition block_size (a : alloc) (b : nat) : option N :=
  option_map snd (find (fun p => Nat.eqb (fst p) b) (live a)).

Definition remove_block (b : nat) (l : list (nat * N)) : list (nat * N) :=
  filter (fun p => negb (Nat.eqb (fst p) b)) l.

Section WithOracle.
  Variable ok : nat -> N -> bool.

  Definition grant (a : alloc) (sz : N) : bool := ok (ord a) sz && (sz <=? LIMIT).

  (** malloc(sz); malloc(0) returns a unique non-NULL pointer, as glibc does *)
  Definition malloc (a : alloc) (sz : N) : alloc * option nat :=
    if grant a sz then
      (mkAlloc ((next a, sz) :: live a) (S (next a)) (S (ord a)) (EvMalloc (next a) sz :: events a),
       Some (next a))
    else
      (mkAlloc (live a) (next a) (S (ord a)) (EvMallocFail sz :: events a), None).

  (** free(p); free(NULL) is a no-op and is not logged *)
  Definition free (a : alloc) (p : option nat) : alloc :=
    match p with
    | None => a
    | Some b =>
      if is_live a b
      then mkAlloc (remove_block b (live a)) (next a) (ord a) (EvFree b :: events a)
      else mkAlloc (live a) (next a) (ord a) (EvBadFree b :: events a)
    end.

  (** realloc(p, sz).  A moved block gets a fresh id (the model never relies
      on the address being kept); realloc(p, 0) with p <> NULL frees p and
      returns NULL (glibc and ASan behaviour); realloc(NULL, sz) = malloc(sz).
      The caller is responsible for carrying the contents over (prefix
      preserved). *)
  Definition realloc (a : alloc) (p : option nat) (sz : N) : alloc * option nat :=
    match p with
    | Some b =>
      if sz =? 0 then
        (if is_live a b
         then mkAlloc (remove_block b (live a)) (next a) (ord a) (EvReallocFree b :: events a)
         else mkAlloc (live a) (next a) (ord a) (EvBadFree b :: events a), None)
      else if grant a sz then
        (mkAlloc ((next a, sz) :: remove_block b (live a)) (S (next a)) (S (ord a))
                 (EvRealloc p (next a) sz :: events a), Some (next a))
      else
        (mkAlloc (live a) (next a) (S (ord a)) (EvReallocFail p sz :: events a), None)
    | None =>
      if grant a sz then
        (mkAlloc ((next a, sz) :: live a) (S (next a)) (S (ord a))
                 (EvRealloc None (next a) sz :: events a), Some (next a))
      else
        (mkAlloc (live a) (next a) (S (ord a)) (EvReallocFail None sz :: events a), None)
    end.
End WithOracle.

(** No double free / free of a foreign pointer ever happened. *)
Definition no_bad_free (a : alloc) : Prop :=
  forall b, ~ In (EvBadFree b) (events a).

(** Oracle given by a script: explicit failing ordinals plus "every ordinal
    from [from] on fails" ([from = None]: no suffix). *)
Definition script_oracle (fails : list nat) (from : option nat) : nat -> N -> bool :=
  fun o _ => negb (existsb (Nat.eqb o) fails) &&
             match from with Some f => Nat.ltb o f | None => true end.

Definition aev_out (e : aev) : list Z :=
  match e with
  | EvMalloc b sz => [1; zid b; Z.of_N sz]
  | EvMallocFail sz => [2; Z.of_N sz]
  | EvRealloc o b sz => [3; zopt o; zid b; Z.of_N sz]
  | EvReallocFail o sz => [4; zopt o; Z.of_N sz]
  | EvReallocFree o => [5; zid o]
  | EvFree b => [6; zid b]
  | EvBadFree b => [7; zid b]
  end%Z.
