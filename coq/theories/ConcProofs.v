(** C06 — proofs about the interleaving model ConcModel.v: the inductive
    invariant [conc_inv] (DESIGN.md appendix A.2, adapted to the code) for any
    number of threads and any schedule, and its consequences. *)
From Cstl Require Import Prelude ConcModel.
Local Open Scope nat_scope.

(* ------------------------------------------------------------------ *)
(** * Sums over lists *)

Lemma nsum_app l1 l2 : nsum (l1 ++ l2) = nsum l1 + nsum l2.
Proof. induction l1 as [|x l IH]; simpl; auto. unfold nsum in *. simpl. lia. Qed.

Lemma nsum_map_upd {A} (f : A -> nat) (l : list A) i x d :
  i < length l ->
  nsum (map f (upd l i x)) + f (nth i l d) = nsum (map f l) + f x.
Proof.
  revert i; induction l as [|y r IH]; intros [|i] H; simpl in *; try lia.
  assert (Hi : i < length r) by lia. specialize (IH i Hi). unfold nsum in *; simpl. lia.
Qed.

Lemma nsum_map_nth_le {A} (f : A -> nat) (l : list A) i d :
  i < length l -> f (nth i l d) <= nsum (map f l).
Proof.
  revert i; induction l as [|y r IH]; intros [|i] H; simpl in *; try lia.
  assert (Hi : i < length r) by lia. specialize (IH i Hi). unfold nsum in *; simpl. lia.
Qed.

Lemma nsum_map_zero {A} (f : A -> nat) (l : list A) :
  (forall x, In x l -> f x = 0) -> nsum (map f l) = 0.
Proof.
  induction l as [|y r IH]; intros H; auto. unfold nsum in *; simpl.
  rewrite (H y), IH; auto; simpl; auto. intros; apply H; simpl; auto.
Qed.

Lemma nth_upd_same {A} (l : list A) i x d : i < length l -> nth i (upd l i x) d = x.
Proof. revert i; induction l as [|y r IH]; intros [|i] H; simpl in *; try lia; auto. apply IH; lia. Qed.

Lemma nth_upd_other {A} (l : list A) i j x d : i <> j -> nth j (upd l i x) d = nth j l d.
Proof. revert i j; induction l as [|y r IH]; intros [|i] [|j] H; simpl; auto; try congruence. Qed.

Lemma nth_split_upd {A} (l : list A) i t :
  nth_error l i = Some t ->
  exists l1 l2, l = l1 ++ t :: l2 /\ forall x, upd l i x = l1 ++ x :: l2.
Proof.
  revert i; induction l as [|y r IH]; intros [|i] H; simpl in *; try discriminate.
  - injection H as ->. exists [], r. auto.
  - destruct (IH _ H) as (l1 & l2 & -> & E). exists (y :: l1), l2. split; auto.
    intros x; simpl; rewrite E; auto.
Qed.

(* ------------------------------------------------------------------ *)
(** * Per-thread quantities of the invariant *)

Definition own_obj (o : sobj) : nat := match o with SHard | SFull => 1 | _ => 0 end.
Definition probe_obj (o : sobj) : nat := match o with SProbe => 1 | _ => 0 end.

(** counted owners of the managed memory held by the thread *)
Definition own (t : thread) : nat := nsum (map own_obj (sh t)).
(** transient increments of a failing weak lock *)
Definition probes (t : thread) : nat := nsum (map probe_obj (sh t)).
Definition ssoft (t : thread) : nat := nsum (map softc_obj (sh t)).
Definition wsoft (t : thread) : nat := nsum (map softc_wobj (wk t)).
(** inside the section protected by the spin flag *)
Definition win (t : thread) : nat :=
  match tpc t with PLockHard | PLockSoft | PLockUndo | PLockClear => 1 | _ => 0 end.
(** saw the owner count go 1 -> 0, about to clear and free the memory *)
Definition clr (t : thread) : nat := match tpc t with PClear => 1 | _ => 0 end.
(** saw the reference count go 1 -> 0, about to free the bookkeeping block *)
Definition fre (t : thread) : nat := match tpc t with PFree => 1 | _ => 0 end.

Lemma softc_split t : softc t = ssoft t + wsoft t.
Proof. reflexivity. Qed.

Lemma hardc_split t : hardc t = own t + probes t.
Proof.
  unfold hardc, own, probes. induction (sh t) as [|o r IH]; auto.
  unfold nsum in *; simpl. destruct o; simpl; lia.
Qed.

Definition stable_s (o : sobj) : Prop := o = SNull \/ o = SFull.
Definition stable_w (o : wobj) : Prop := o = WNull \/ o = WFull.

(** shared objects: object [d] is in state [x], every other one is stable *)
Definition sh_at (t : thread) (d : nat) (x : sobj) : Prop :=
  d < length (sh t) /\ get_sh t d = x /\ forall i, i <> d -> stable_s (get_sh t i).
Definition sh_stable (t : thread) : Prop := forall i, stable_s (get_sh t i).
Definition wk_at (t : thread) (d : nat) (x : wobj) : Prop :=
  d < length (wk t) /\ get_wk t d = x /\ forall i, i <> d -> stable_w (get_wk t i).
Definition wk_stable (t : thread) : Prop := forall i, stable_w (get_wk t i).

(** indices of a call are in range *)
Definition op_wf (t : thread) (o : op) : Prop :=
  match o with
  | Share s d => s < length (sh t) /\ d < length (sh t)
  | Reset i | Get i => i < length (sh t)
  | WeakFrom s d => s < length (sh t) /\ d < length (wk t)
  | Lock w d => w < length (wk t) /\ d < length (sh t)
  | WeakReset i => i < length (wk t)
  end.

(** what the program counter says about the thread's objects *)
Definition pc_ok (t : thread) (o : op) : Prop :=
  match tpc t, o with
  | PIdle, _ => sh_stable t /\ wk_stable t
  | PResetHard, (Share _ d | Lock _ d | Reset d) => sh_at t d SFull /\ wk_stable t
  | PClear, (Share _ d | Lock _ d | Reset d) => sh_at t d SSoft /\ wk_stable t
  | PResetSoft, (Share _ d | Lock _ d | Reset d) => sh_at t d SSoft /\ wk_stable t
  | PResetSoft, (WeakFrom _ d | WeakReset d) => sh_stable t /\ wk_at t d WFull
  | PFree, (Share _ d | Lock _ d | Reset d) => sh_stable t /\ wk_stable t /\ get_sh t d = SNull
  | PFree, (WeakFrom _ d | WeakReset d) => sh_stable t /\ wk_stable t /\ get_wk t d = WNull
  | PShareHard, Share s d => sh_at t d SRaw /\ get_sh t s = SFull /\ wk_stable t
  | PShareSoft, Share s d => sh_at t d SHard /\ get_sh t s = SFull /\ wk_stable t
  | PWeakSoft, WeakFrom s d => sh_stable t /\ get_sh t s = SFull /\ wk_at t d WRaw
  | (PLockSpin | PLockHard), Lock w d => sh_at t d SRaw /\ wk_stable t /\ get_wk t w = WFull
  | PLockSoft, Lock w d => sh_at t d SHard /\ wk_stable t /\ get_wk t w = WFull
  | PLockUndo, Lock w d => sh_at t d SProbe /\ wk_stable t /\ get_wk t w = WFull
  | PLockClear, Lock w d => (sh_at t d SFull \/ sh_at t d SNull) /\ wk_stable t /\ get_wk t w = WFull
  | _, _ => False
  end.

Definition thread_ok (t : thread) : Prop :=
  Forall (op_wf t) (prog t) /\
  match prog t with
  | [] => tpc t = PIdle /\ sh_stable t /\ wk_stable t
  | o :: _ => pc_ok t o
  end.

(* ------------------------------------------------------------------ *)
(** * Object-level lemmas *)

Lemma get_sh_set_same t d x : d < length (sh t) -> get_sh (set_sh t d x) d = x.
Proof. intros H. unfold get_sh, set_sh; simpl. apply nth_upd_same; auto. Qed.
Lemma get_sh_set_other t d x i : i <> d -> get_sh (set_sh t d x) i = get_sh t i.
Proof. intros H. unfold get_sh, set_sh; simpl. apply nth_upd_other; auto. Qed.
Lemma get_wk_set_same t d x : d < length (wk t) -> get_wk (set_wk t d x) d = x.
Proof. intros H. unfold get_wk, set_wk; simpl. apply nth_upd_same; auto. Qed.
Lemma get_wk_set_other t d x i : i <> d -> get_wk (set_wk t d x) i = get_wk t i.
Proof. intros H. unfold get_wk, set_wk; simpl. apply nth_upd_other; auto. Qed.

Lemma len_sh_set t d x : length (sh (set_sh t d x)) = length (sh t).
Proof. unfold set_sh; simpl. apply upd_length. Qed.
Lemma len_wk_set t d x : length (wk (set_wk t d x)) = length (wk t).
Proof. unfold set_wk; simpl. apply upd_length. Qed.

Lemma sh_at_set t d x y : sh_at t d x -> sh_at (set_sh t d y) d y.
Proof.
  intros (L & _ & O). split; [rewrite len_sh_set; auto|]. split; [apply get_sh_set_same; auto|].
  intros i Hi. rewrite get_sh_set_other; auto.
Qed.
Lemma sh_stable_set_at t d y : sh_stable t -> d < length (sh t) -> sh_at (set_sh t d y) d y.
Proof.
  intros S L. split; [rewrite len_sh_set; auto|]. split; [apply get_sh_set_same; auto|].
  intros i Hi. rewrite get_sh_set_other; auto.
Qed.
Lemma sh_at_set_stable t d x y : sh_at t d x -> stable_s y -> sh_stable (set_sh t d y).
Proof.
  intros (L & _ & O) Sy i. destruct (Nat.eq_dec i d) as [->|N].
  - rewrite get_sh_set_same; auto.
  - rewrite get_sh_set_other; auto.
Qed.
Lemma wk_at_set t d x y : wk_at t d x -> wk_at (set_wk t d y) d y.
Proof.
  intros (L & _ & O). split; [rewrite len_wk_set; auto|]. split; [apply get_wk_set_same; auto|].
  intros i Hi. rewrite get_wk_set_other; auto.
Qed.
Lemma wk_stable_set_at t d y : wk_stable t -> d < length (wk t) -> wk_at (set_wk t d y) d y.
Proof.
  intros S L. split; [rewrite len_wk_set; auto|]. split; [apply get_wk_set_same; auto|].
  intros i Hi. rewrite get_wk_set_other; auto.
Qed.
Lemma wk_at_set_stable t d x y : wk_at t d x -> stable_w y -> wk_stable (set_wk t d y).
Proof.
  intros (L & _ & O) Sy i. destruct (Nat.eq_dec i d) as [->|N].
  - rewrite get_wk_set_same; auto.
  - rewrite get_wk_set_other; auto.
Qed.

Lemma sh_at_stable t d x : sh_at t d x -> stable_s x -> sh_stable t.
Proof. intros (L & E & O) Sx i. destruct (Nat.eq_dec i d) as [->|N]; [rewrite E|]; auto. Qed.
Lemma wk_at_stable t d x : wk_at t d x -> stable_w x -> wk_stable t.
Proof. intros (L & E & O) Sx i. destruct (Nat.eq_dec i d) as [->|N]; [rewrite E|]; auto. Qed.

(** effect of an object update on the per-thread sums *)
Lemma own_set t d y : d < length (sh t) ->
  own (set_sh t d y) + own_obj (get_sh t d) = own t + own_obj y.
Proof. intros L. unfold own, set_sh, get_sh; simpl. apply nsum_map_upd; auto. Qed.
Lemma probes_set t d y : d < length (sh t) ->
  probes (set_sh t d y) + probe_obj (get_sh t d) = probes t + probe_obj y.
Proof. intros L. unfold probes, set_sh, get_sh; simpl. apply nsum_map_upd; auto. Qed.
Lemma ssoft_set t d y : d < length (sh t) ->
  ssoft (set_sh t d y) + softc_obj (get_sh t d) = ssoft t + softc_obj y.
Proof. intros L. unfold ssoft, set_sh, get_sh; simpl. apply nsum_map_upd; auto. Qed.
Lemma wsoft_set t d y : d < length (wk t) ->
  wsoft (set_wk t d y) + softc_wobj (get_wk t d) = wsoft t + softc_wobj y.
Proof. intros L. unfold wsoft, set_wk, get_wk; simpl. apply nsum_map_upd; auto. Qed.

Lemma get_sh_nondefault t i : get_sh t i <> SNull -> i < length (sh t).
Proof.
  intros H. destruct (Nat.lt_ge_cases i (length (sh t))); auto.
  exfalso; apply H. unfold get_sh. apply nth_overflow; auto.
Qed.
Lemma get_wk_nondefault t i : get_wk t i <> WNull -> i < length (wk t).
Proof.
  intros H. destruct (Nat.lt_ge_cases i (length (wk t))); auto.
  exfalso; apply H. unfold get_wk. apply nth_overflow; auto.
Qed.

Lemma own_ge t i : own_obj (get_sh t i) <= own t.
Proof.
  destruct (Nat.lt_ge_cases i (length (sh t))).
  - apply nsum_map_nth_le; auto.
  - unfold get_sh. rewrite nth_overflow; simpl; auto; lia.
Qed.
Lemma ssoft_ge t i : softc_obj (get_sh t i) <= ssoft t.
Proof.
  destruct (Nat.lt_ge_cases i (length (sh t))).
  - apply nsum_map_nth_le; auto.
  - unfold get_sh. rewrite nth_overflow; simpl; auto; lia.
Qed.
Lemma wsoft_ge t i : softc_wobj (get_wk t i) <= wsoft t.
Proof.
  destruct (Nat.lt_ge_cases i (length (wk t))).
  - apply nsum_map_nth_le; auto.
  - unfold get_wk. rewrite nth_overflow; simpl; auto; lia.
Qed.

Lemma probes_stable t : sh_stable t -> probes t = 0.
Proof.
  intros S. apply nsum_map_zero. intros x Hx. destruct (In_nth _ _ SNull Hx) as (i & _ & <-).
  destruct (S i) as [E|E]; unfold get_sh in E; rewrite E; auto.
Qed.
Lemma probes_at t d x : sh_at t d x -> probes t = probe_obj x.
Proof.
  intros (L & E & O).
  pose proof (probes_set t d SNull L) as H. rewrite E in H. simpl in H.
  assert (S0 : sh_stable (set_sh t d SNull)) by (eapply sh_at_set_stable; [split; eauto|left; auto]).
  rewrite (probes_stable _ S0) in H. lia.
Qed.

(* ------------------------------------------------------------------ *)
(** * Counters under the record updates *)

Lemma own_set_pc t p : own (set_pc t p) = own t. Proof. reflexivity. Qed.
Lemma probes_set_pc t p : probes (set_pc t p) = probes t. Proof. reflexivity. Qed.
Lemma ssoft_set_pc t p : ssoft (set_pc t p) = ssoft t. Proof. reflexivity. Qed.
Lemma wsoft_set_pc t p : wsoft (set_pc t p) = wsoft t. Proof. reflexivity. Qed.
Lemma own_set_wk t d x : own (set_wk t d x) = own t. Proof. reflexivity. Qed.
Lemma probes_set_wk t d x : probes (set_wk t d x) = probes t. Proof. reflexivity. Qed.
Lemma ssoft_set_wk t d x : ssoft (set_wk t d x) = ssoft t. Proof. reflexivity. Qed.
Lemma wsoft_set_sh t d x : wsoft (set_sh t d x) = wsoft t. Proof. reflexivity. Qed.
#[local] Hint Rewrite own_set_pc probes_set_pc ssoft_set_pc wsoft_set_pc
     own_set_wk probes_set_wk ssoft_set_wk wsoft_set_sh : cnt.

(** same lists lengths and same program *)
Definition same_shape (t t' : thread) : Prop :=
  length (sh t') = length (sh t) /\ length (wk t') = length (wk t) /\ prog t' = prog t.

Lemma same_shape_refl t : same_shape t t.
Proof. repeat split. Qed.
Lemma same_shape_trans a b c : same_shape a b -> same_shape b c -> same_shape a c.
Proof. intros (A1 & A2 & A3) (B1 & B2 & B3). repeat split; congruence. Qed.
Lemma same_shape_set_pc t p : same_shape t (set_pc t p).
Proof. repeat split. Qed.
Lemma same_shape_set_sh t d x : same_shape t (set_sh t d x).
Proof. repeat split. apply len_sh_set. Qed.
Lemma same_shape_set_wk t d x : same_shape t (set_wk t d x).
Proof. repeat split. apply len_wk_set. Qed.

Lemma op_wf_shape t t' o : same_shape t t' -> op_wf t o -> op_wf t' o.
Proof. intros (A & B & _). destruct o; simpl; rewrite ?A, ?B; auto. Qed.

(* ------------------------------------------------------------------ *)
(** * The global part of the invariant, as a predicate on the totals *)

(** [O] counted owners, [P] probing increments, [S] counted references,
    [W] threads inside the flag-protected window, [C] threads about to
    clear, [F] threads about to free the bookkeeping block *)
Definition ginv (gl : global) (O P S W C F : nat) : Prop :=
  hard gl = N.of_nat (O + P) /\
  soft gl = N.of_nat S /\
  W = (if lock gl then 1 else 0) /\
  C <= 1 /\ (mem gl = Live -> O + C > 0) /\ (mem gl = Dead -> O + C = 0) /\ (C > 0 -> O = 0) /\
  (P > 0 -> O = 0) /\
  F <= 1 /\ (data gl = Live -> S + F > 0) /\ (data gl = Dead -> S + F = 0) /\ (F > 0 -> S = 0) /\
  err gl = false.

Lemma touch_live gl : data gl = Live -> touch gl = (gl, []).
Proof. intros H. unfold touch. rewrite H. reflexivity. Qed.

Lemma ginv_data_live gl O P S W C F : ginv gl O P S W C F -> S + F > 0 -> data gl = Live.
Proof.
  intros (_ & _ & _ & _ & _ & _ & _ & _ & _ & _ & D & _) H.
  destruct (data gl); auto. specialize (D eq_refl). lia.
Qed.

(** [enter]: the pointer copy after the target was reset *)
Lemma enter_ok t o :
  op_wf t o -> sh_stable t -> wk_stable t ->
  match o with
  | Share _ d | Lock _ d => get_sh t d = SNull
  | WeakFrom _ d => get_wk t d = WNull
  | _ => True
  end ->
  let t' := enter t o in
  same_shape t t' /\ pc_ok t' o /\
  own t' = own t /\ probes t' = probes t /\ ssoft t' = ssoft t /\ wsoft t' = wsoft t /\
  win t' = 0 /\ clr t' = 0 /\ fre t' = 0.
Proof.
  intros Wf Ss Sw Hn. destruct o as [s d|i|s d|w d|i|i]; simpl in *.
  - destruct (s_null (get_sh t s)) eqn:Es.
    + repeat split; auto.
    + assert (Hs : get_sh t s = SFull) by (destruct (Ss s) as [E|E]; rewrite E in *; auto; discriminate).
      destruct Wf as (Ls & Ld).
      assert (Nsd : s <> d) by (intros ->; congruence).
      pose proof (own_set t d SRaw Ld) as H1. pose proof (probes_set t d SRaw Ld) as H2.
      pose proof (ssoft_set t d SRaw Ld) as H3. rewrite Hn in *. simpl in *.
      split; [eapply same_shape_trans; [apply same_shape_set_sh|apply same_shape_set_pc]|].
      split. { unfold pc_ok; simpl. split; [apply sh_stable_set_at; auto|]. split; auto.
               change (get_sh (set_sh t d SRaw) s = SFull). rewrite get_sh_set_other; auto. }
      autorewrite with cnt. repeat split; try lia.
  - repeat split; auto.
  - destruct (s_null (get_sh t s)) eqn:Es.
    + repeat split; auto.
    + assert (Hs : get_sh t s = SFull) by (destruct (Ss s) as [E|E]; rewrite E in *; auto; discriminate).
      destruct Wf as (Ls & Ld).
      pose proof (wsoft_set t d WRaw Ld) as H1. rewrite Hn in *. simpl in *.
      split; [eapply same_shape_trans; [apply same_shape_set_wk|apply same_shape_set_pc]|].
      split. { unfold pc_ok; simpl. split; auto. split; auto. apply wk_stable_set_at; auto. }
      autorewrite with cnt. repeat split; try lia.
  - destruct (w_null (get_wk t w)) eqn:Es.
    + repeat split; auto.
    + assert (Hs : get_wk t w = WFull) by (destruct (Sw w) as [E|E]; rewrite E in *; auto; discriminate).
      destruct Wf as (Ls & Ld).
      pose proof (own_set t d SRaw Ld) as H1. pose proof (probes_set t d SRaw Ld) as H2.
      pose proof (ssoft_set t d SRaw Ld) as H3. rewrite Hn in *. simpl in *.
      split; [eapply same_shape_trans; [apply same_shape_set_sh|apply same_shape_set_pc]|].
      split. { unfold pc_ok; simpl. split; [apply sh_stable_set_at; auto|]. split; auto. }
      autorewrite with cnt. repeat split; try lia.
  - repeat split; auto.
  - repeat split; auto.
Qed.

Lemma win_set_pc t p : win (set_pc t p) = win (mkT [] [] [] p). Proof. reflexivity. Qed.
Lemma clr_set_pc t p : clr (set_pc t p) = clr (mkT [] [] [] p). Proof. reflexivity. Qed.
Lemma fre_set_pc t p : fre (set_pc t p) = fre (mkT [] [] [] p). Proof. reflexivity. Qed.
#[local] Hint Rewrite win_set_pc clr_set_pc fre_set_pc : cnt.

(** the invariant on the totals, split into "the other threads" (capital
    letters) and the stepping thread *)
Definition sginv (gl : global) (t : thread) (O P S W C F : nat) : Prop :=
  ginv gl (O + own t) (P + probes t) (S + (ssoft t + wsoft t)) (W + win t) (C + clr t) (F + fre t).

Ltac pcconst Hpc HG :=
  unfold sginv in HG; unfold win, clr, fre in HG; rewrite Hpc in HG.

Ltac spec_hyps :=
  repeat match goal with
  | H : ?a = ?a -> _ |- _ => specialize (H eq_refl)
  | H : Live = Dead -> _ |- _ => clear H
  | H : Dead = Live -> _ |- _ => clear H
  | H : ?A -> _, H' : ?A |- _ => specialize (H H')
  end.

Ltac fin_ginv :=
  unfold sginv, ginv in *;
  cbn [hard soft lock mem data err set_hard set_soft set_lock set_mem set_data set_err r_g r_t] in *;
  autorewrite with cnt in *;
  cbn [win clr fre tpc set_pc] in *;
  repeat match goal with H : _ /\ _ |- _ => destruct H end;
  repeat split; try lia; try congruence; try (intros; spec_hyps; first [lia | congruence]).

Lemma sginv_data_live gl t O P S W C F :
  sginv gl t O P S W C F -> ssoft t + wsoft t + fre t > 0 -> data gl = Live.
Proof. intros H L. eapply ginv_data_live; eauto. lia. Qed.

Lemma exec_reset_hard gl t o d O P S W C F :
  tpc t = PResetHard -> d < length (sh t) -> target_sh o = d ->
  sh_at t d SFull -> wk_stable t -> P <= W ->
  sginv gl t O P S W C F ->
  let r := exec gl t o in
  same_shape t (r_t r) /\ sh_at (r_t r) d SSoft /\ wk_stable (r_t r) /\
  (tpc (r_t r) = PClear \/ tpc (r_t r) = PResetSoft) /\
  sginv (r_g r) (r_t r) O P S W C F.
Proof.
  intros Hpc L Ht At Sw HP HG r. subst r. unfold exec. rewrite Hpc, Ht.
  pose proof At as (_ & Ed & _).
  pose proof (own_ge t d) as G1. pose proof (ssoft_ge t d) as G2. rewrite Ed in *. simpl in G1, G2.
  pose proof (probes_at _ _ _ At) as Pt. simpl in Pt.
  assert (Hd : data gl = Live) by (eapply sginv_data_live; eauto; lia).
  rewrite (touch_live _ Hd). cbn iota beta.
  pose proof (own_set t d SSoft L) as H1. pose proof (ssoft_set t d SSoft L) as H3.
  pose proof (probes_at _ _ _ (sh_at_set t d SFull SSoft At)) as H2.
  rewrite Ed in *. simpl in H1, H2, H3.
  pcconst Hpc HG.
  assert (Hh : hard gl = N.of_nat (O + own t + (P + probes t))) by (destruct HG; auto).
  unfold dec. destruct (N.eqb_spec (hard gl) 0) as [Z|NZ]; [lia|].
  destruct (N.eqb_spec (hard gl) 1) as [E1|N1]; cbn [r_t r_g].
  - split; [eapply same_shape_trans; [apply same_shape_set_sh|apply same_shape_set_pc]|].
    split; [exact (sh_at_set t d SFull SSoft At)|]. split; [exact Sw|]. split; [left; reflexivity|].
    fin_ginv.
  - split; [eapply same_shape_trans; [apply same_shape_set_sh|apply same_shape_set_pc]|].
    split; [exact (sh_at_set t d SFull SSoft At)|]. split; [exact Sw|]. split; [right; reflexivity|].
    fin_ginv.
Qed.

Lemma shape_sh_pc t d x p : same_shape t (set_pc (set_sh t d x) p).
Proof. eapply same_shape_trans; [apply same_shape_set_sh|apply same_shape_set_pc]. Qed.
Lemma shape_wk_pc t d x p : same_shape t (set_pc (set_wk t d x) p).
Proof. eapply same_shape_trans; [apply same_shape_set_wk|apply same_shape_set_pc]. Qed.

Lemma full_counts t s : get_sh t s = SFull -> 1 <= own t /\ 1 <= ssoft t.
Proof.
  intros E. pose proof (own_ge t s) as A. pose proof (ssoft_ge t s) as B. rewrite E in *. simpl in *. lia.
Qed.
Lemma wfull_counts t w : get_wk t w = WFull -> 1 <= wsoft t.
Proof. intros E. pose proof (wsoft_ge t w) as A. rewrite E in *. simpl in *. lia. Qed.

(** clear step *)
Lemma exec_clear gl t o d O P S W C F :
  tpc t = PClear -> sh_at t d SSoft -> wk_stable t ->
  sginv gl t O P S W C F ->
  let r := exec gl t o in
  r_t r = set_pc t PResetSoft /\ mem gl = Live /\ r_evs r = [EClear; EFreeMem] /\
  sginv (r_g r) (r_t r) O P S W C F.
Proof.
  intros Hpc At Sw HG r. subst r. unfold exec. rewrite Hpc.
  pose proof At as (L & Ed & _).
  pose proof (ssoft_ge t d) as G2. rewrite Ed in G2. simpl in G2.
  assert (Hd : data gl = Live) by (eapply sginv_data_live; eauto; lia).
  rewrite (touch_live _ Hd). cbn iota beta.
  pcconst Hpc HG.
  assert (Hm : mem gl = Live).
  { destruct (mem gl) eqn:Em; auto. destruct HG as (_ & _ & _ & _ & _ & X & _). specialize (X Em). lia. }
  rewrite Hm. cbn [r_t r_g r_evs]. split; [reflexivity|]. split; [reflexivity|]. split; [reflexivity|]. fin_ginv.
Qed.

(** second half of a reset, shared target *)
Lemma exec_reset_soft_sh gl t o d O P S W C F :
  tpc t = PResetSoft -> target_is_weak o = false -> target_sh o = d ->
  op_wf t o ->
  match o with Share _ _ | Lock _ _ | Reset _ => True | _ => False end ->
  sh_at t d SSoft -> wk_stable t ->
  sginv gl t O P S W C F ->
  let r := exec gl t o in
  same_shape t (r_t r) /\ pc_ok (r_t r) o /\ sginv (r_g r) (r_t r) O P S W C F.
Proof.
  intros Hpc Hw Ht Wf Ho At Sw HG r. subst r. unfold exec. rewrite Hpc, Hw, Ht.
  pose proof At as (L & Ed & _).
  pose proof (ssoft_ge t d) as G2. rewrite Ed in G2. simpl in G2.
  assert (Hd : data gl = Live) by (eapply sginv_data_live; eauto; lia).
  rewrite (touch_live _ Hd). cbn iota beta.
  pose proof (own_set t d SNull L) as H1. pose proof (ssoft_set t d SNull L) as H3.
  pose proof (probes_at _ _ _ At) as Pt.
  pose proof (probes_at _ _ _ (sh_at_set t d SSoft SNull At)) as H2.
  rewrite Ed in *. simpl in H1, H2, H3, Pt.
  assert (St1 : sh_stable (set_sh t d SNull)) by (eapply sh_at_set_stable; eauto; left; auto).
  assert (Nd : get_sh (set_sh t d SNull) d = SNull) by (apply get_sh_set_same; auto).
  pcconst Hpc HG.
  assert (Hs : soft gl = N.of_nat (S + (ssoft t + wsoft t))) by (destruct HG as (_ & X & _); auto).
  unfold dec. destruct (N.eqb_spec (soft gl) 0) as [Z|NZ]; [lia|].
  destruct (N.eqb_spec (soft gl) 1) as [E1|N1]; cbn [r_t r_g].
  - split; [apply shape_sh_pc|]. split.
    { unfold pc_ok. cbn [tpc set_pc]. destruct o; try contradiction; simpl in Ht; subst; repeat split; auto. }
    fin_ginv.
  - assert (Wf1 : op_wf (set_sh t d SNull) o) by (eapply op_wf_shape; eauto; apply same_shape_set_sh).
    assert (Hn : match o with
                 | Share _ d0 | Lock _ d0 => get_sh (set_sh t d SNull) d0 = SNull
                 | WeakFrom _ d0 => get_wk (set_sh t d SNull) d0 = WNull
                 | _ => True end)
      by (destruct o; try contradiction; simpl in Ht; subst; auto).
    destruct (enter_ok (set_sh t d SNull) o Wf1 St1 Sw Hn) as (Sh & Pk & Eo & Ep & Es & Ews & Ew & Ec & Ef).
    split; [eapply same_shape_trans; [apply same_shape_set_sh|exact Sh]|]. split; [exact Pk|].
    unfold sginv. rewrite Eo, Ep, Es, Ews, Ew, Ec, Ef. fin_ginv.
Qed.

(** reset of a weak pointer object *)
Lemma exec_reset_soft_wk gl t o d O P S W C F :
  tpc t = PResetSoft -> target_is_weak o = true -> target_wk o = d ->
  op_wf t o ->
  match o with WeakFrom _ _ | WeakReset _ => True | _ => False end ->
  sh_stable t -> wk_at t d WFull ->
  sginv gl t O P S W C F ->
  let r := exec gl t o in
  same_shape t (r_t r) /\ pc_ok (r_t r) o /\ sginv (r_g r) (r_t r) O P S W C F.
Proof.
  intros Hpc Hw Ht Wf Ho Ss At HG r. subst r. unfold exec. rewrite Hpc, Hw, Ht.
  pose proof At as (L & Ed & _).
  pose proof (wsoft_ge t d) as G2. rewrite Ed in G2. simpl in G2.
  assert (Hd : data gl = Live) by (eapply sginv_data_live; eauto; lia).
  rewrite (touch_live _ Hd). cbn iota beta.
  pose proof (wsoft_set t d WNull L) as H3. rewrite Ed in H3. simpl in H3.
  assert (St1 : wk_stable (set_wk t d WNull)) by (eapply wk_at_set_stable; eauto; left; auto).
  assert (Nd : get_wk (set_wk t d WNull) d = WNull) by (apply get_wk_set_same; auto).
  pcconst Hpc HG.
  assert (Hs : soft gl = N.of_nat (S + (ssoft t + wsoft t))) by (destruct HG as (_ & X & _); auto).
  unfold dec. destruct (N.eqb_spec (soft gl) 0) as [Z|NZ]; [lia|].
  destruct (N.eqb_spec (soft gl) 1) as [E1|N1]; cbn [r_t r_g].
  - split; [apply shape_wk_pc|]. split.
    { unfold pc_ok. cbn [tpc set_pc]. destruct o; try contradiction; simpl in Ht; subst; repeat split; auto. }
    fin_ginv.
  - assert (Wf1 : op_wf (set_wk t d WNull) o) by (eapply op_wf_shape; eauto; apply same_shape_set_wk).
    assert (Hn : match o with
                 | Share _ d0 | Lock _ d0 => get_sh (set_wk t d WNull) d0 = SNull
                 | WeakFrom _ d0 => get_wk (set_wk t d WNull) d0 = WNull
                 | _ => True end)
      by (destruct o; try contradiction; simpl in Ht; subst; auto).
    destruct (enter_ok (set_wk t d WNull) o Wf1 Ss St1 Hn) as (Sh & Pk & Eo & Ep & Es & Ews & Ew & Ec & Ef).
    split; [eapply same_shape_trans; [apply same_shape_set_wk|exact Sh]|]. split; [exact Pk|].
    unfold sginv. rewrite Eo, Ep, Es, Ews, Ew, Ec, Ef. fin_ginv.
Qed.

(** free of the bookkeeping block *)
Lemma exec_free gl t o O P S W C F :
  tpc t = PFree -> op_wf t o -> pc_ok t o ->
  sginv gl t O P S W C F ->
  let r := exec gl t o in
  data gl = Live /\ r_evs r = [EFreeData] /\
  same_shape t (r_t r) /\ pc_ok (r_t r) o /\ sginv (r_g r) (r_t r) O P S W C F.
Proof.
  intros Hpc Wf Pk HG r. subst r. unfold exec. rewrite Hpc.
  assert (Hd : data gl = Live) by (eapply sginv_data_live; eauto; unfold fre; rewrite Hpc; lia).
  rewrite Hd. cbn [r_t r_g r_evs].
  assert (X : sh_stable t /\ wk_stable t /\
              match o with
              | Share _ d0 | Lock _ d0 => get_sh t d0 = SNull
              | WeakFrom _ d0 => get_wk t d0 = WNull
              | _ => True end).
  { unfold pc_ok in Pk. rewrite Hpc in Pk. destruct o; try contradiction; tauto. }
  destruct X as (Ss & Sw & Hn).
  destruct (enter_ok t o Wf Ss Sw Hn) as (Sh & Pk' & Eo & Ep & Es & Ews & Ew & Ec & Ef).
  split; auto. split; auto. split; [exact Sh|]. split; [exact Pk'|].
  unfold sginv. rewrite Eo, Ep, Es, Ews, Ew, Ec, Ef. pcconst Hpc HG. fin_ginv.
Qed.

Lemma exec_share_hard gl t s d O P S W C F :
  tpc t = PShareHard -> pc_ok t (Share s d) -> sginv gl t O P S W C F ->
  let r := exec gl t (Share s d) in
  same_shape t (r_t r) /\ pc_ok (r_t r) (Share s d) /\ sginv (r_g r) (r_t r) O P S W C F.
Proof.
  intros Hpc Pk HG r. subst r. unfold pc_ok in Pk. rewrite Hpc in Pk. destruct Pk as (At & Es & Sw).
  unfold exec. rewrite Hpc. cbn [target_sh].
  pose proof At as (L & Ed & _).
  destruct (full_counts _ _ Es) as (G1 & G2).
  assert (Hd : data gl = Live) by (eapply sginv_data_live; eauto; lia).
  rewrite (touch_live _ Hd). cbn iota beta. cbn [r_t r_g].
  pose proof (own_set t d SHard L) as H1. pose proof (ssoft_set t d SHard L) as H3.
  pose proof (probes_at _ _ _ At) as Pt.
  pose proof (probes_at _ _ _ (sh_at_set t d SRaw SHard At)) as H2.
  rewrite Ed in *. simpl in H1, H2, H3, Pt.
  assert (Nsd : s <> d) by (intros ->; congruence).
  split; [apply shape_sh_pc|]. split.
  { unfold pc_ok. cbn [tpc set_pc]. split; [exact (sh_at_set t d SRaw SHard At)|]. split; [|exact Sw].
    change (get_sh (set_sh t d SHard) s = SFull). rewrite get_sh_set_other; auto. }
  pcconst Hpc HG. fin_ginv.
Qed.

Lemma exec_share_soft gl t s d O P S W C F :
  tpc t = PShareSoft -> pc_ok t (Share s d) -> sginv gl t O P S W C F ->
  let r := exec gl t (Share s d) in
  same_shape t (r_t r) /\ pc_ok (r_t r) (Share s d) /\ sginv (r_g r) (r_t r) O P S W C F.
Proof.
  intros Hpc Pk HG r. subst r. unfold pc_ok in Pk. rewrite Hpc in Pk. destruct Pk as (At & Es & Sw).
  unfold exec. rewrite Hpc. cbn [target_sh].
  pose proof At as (L & Ed & _).
  destruct (full_counts _ _ Es) as (G1 & G2).
  assert (Hd : data gl = Live) by (eapply sginv_data_live; eauto; lia).
  rewrite (touch_live _ Hd). cbn iota beta. cbn [r_t r_g].
  pose proof (own_set t d SFull L) as H1. pose proof (ssoft_set t d SFull L) as H3.
  pose proof (probes_at _ _ _ At) as Pt.
  pose proof (probes_at _ _ _ (sh_at_set t d SHard SFull At)) as H2.
  rewrite Ed in *. simpl in H1, H2, H3, Pt.
  split; [apply shape_sh_pc|]. split.
  { unfold pc_ok. cbn [tpc set_pc]. split; [|exact Sw].
    eapply sh_at_set_stable; eauto. right; auto. }
  pcconst Hpc HG. fin_ginv.
Qed.

Lemma exec_weak_soft gl t s d O P S W C F :
  tpc t = PWeakSoft -> pc_ok t (WeakFrom s d) -> sginv gl t O P S W C F ->
  let r := exec gl t (WeakFrom s d) in
  same_shape t (r_t r) /\ pc_ok (r_t r) (WeakFrom s d) /\ sginv (r_g r) (r_t r) O P S W C F.
Proof.
  intros Hpc Pk HG r. subst r. unfold pc_ok in Pk. rewrite Hpc in Pk. destruct Pk as (Ss & Es & At).
  unfold exec. rewrite Hpc. cbn [target_wk].
  pose proof At as (L & Ed & _).
  destruct (full_counts _ _ Es) as (G1 & G2).
  assert (Hd : data gl = Live) by (eapply sginv_data_live; eauto; lia).
  rewrite (touch_live _ Hd). cbn iota beta. cbn [r_t r_g].
  pose proof (wsoft_set t d WFull L) as H3. rewrite Ed in H3. simpl in H3.
  split; [apply shape_wk_pc|]. split.
  { unfold pc_ok. cbn [tpc set_pc]. split; [exact Ss|].
    eapply wk_at_set_stable; eauto. right; auto. }
  pcconst Hpc HG. fin_ginv.
Qed.

Lemma exec_lock gl t w d O P S W C F :
  match tpc t with PLockSpin | PLockHard | PLockSoft | PLockUndo | PLockClear => True | _ => False end ->
  pc_ok t (Lock w d) -> P <= W -> sginv gl t O P S W C F ->
  let r := exec gl t (Lock w d) in
  same_shape t (r_t r) /\ pc_ok (r_t r) (Lock w d) /\ sginv (r_g r) (r_t r) O P S W C F.
Proof.
  intros Hp Pk HP HG r. subst r.
  destruct (tpc t) eqn:Hpc; try contradiction; unfold pc_ok in Pk; rewrite Hpc in Pk;
    unfold exec; rewrite Hpc; cbn [target_sh].
  - (* spin *)
    destruct Pk as (At & Sw & Ew). pose proof (wfull_counts _ _ Ew) as G.
    assert (Hd : data gl = Live) by (eapply sginv_data_live; eauto; lia).
    rewrite (touch_live _ Hd). cbn iota beta.
    destruct (lock gl) eqn:El; cbn [r_t r_g].
    + split; [apply same_shape_refl|]. split; [unfold pc_ok; rewrite Hpc; auto|]. exact HG.
    + split; [apply same_shape_set_pc|]. split; [unfold pc_ok; cbn [tpc set_pc]; auto|].
      pcconst Hpc HG. fin_ginv. rewrite El in *. lia.
  - (* add hard *)
    destruct Pk as (At & Sw & Ew). pose proof (wfull_counts _ _ Ew) as G.
    pose proof At as (L & Ed & _).
    assert (Hd : data gl = Live) by (eapply sginv_data_live; eauto; lia).
    rewrite (touch_live _ Hd). cbn iota beta.
    pose proof (probes_at _ _ _ At) as Pt. simpl in Pt.
    pcconst Hpc HG.
    assert (HW : W = 0 /\ P = 0) by (destruct HG as (_ & _ & X & _); destruct (lock gl); lia).
    destruct HW as (-> & ->).
    destruct (N.ltb_spec 0 (hard gl)) as [Pos|Zero]; cbn [r_t r_g].
    + pose proof (own_set t d SHard L) as H1. pose proof (ssoft_set t d SHard L) as H3.
      pose proof (probes_at _ _ _ (sh_at_set t d SRaw SHard At)) as H2.
      rewrite Ed in *. simpl in H1, H2, H3.
      split; [apply shape_sh_pc|]. split.
      { unfold pc_ok. cbn [tpc set_pc]. split; [exact (sh_at_set t d SRaw SHard At)|]. auto. }
      fin_ginv.
    + pose proof (own_set t d SProbe L) as H1. pose proof (ssoft_set t d SProbe L) as H3.
      pose proof (probes_at _ _ _ (sh_at_set t d SRaw SProbe At)) as H2.
      rewrite Ed in *. simpl in H1, H2, H3.
      split; [apply shape_sh_pc|]. split.
      { unfold pc_ok. cbn [tpc set_pc]. split; [exact (sh_at_set t d SRaw SProbe At)|]. auto. }
      fin_ginv.
  - (* add soft *)
    destruct Pk as (At & Sw & Ew). pose proof (wfull_counts _ _ Ew) as G.
    pose proof At as (L & Ed & _).
    assert (Hd : data gl = Live) by (eapply sginv_data_live; eauto; lia).
    rewrite (touch_live _ Hd). cbn iota beta. cbn [r_t r_g].
    pose proof (own_set t d SFull L) as H1. pose proof (ssoft_set t d SFull L) as H3.
    pose proof (probes_at _ _ _ At) as Pt.
    pose proof (probes_at _ _ _ (sh_at_set t d SHard SFull At)) as H2.
    rewrite Ed in *. simpl in H1, H2, H3, Pt.
    split; [apply shape_sh_pc|]. split.
    { unfold pc_ok. cbn [tpc set_pc]. split; [left; exact (sh_at_set t d SHard SFull At)|]. auto. }
    pcconst Hpc HG. fin_ginv.
  - (* undo *)
    destruct Pk as (At & Sw & Ew). pose proof (wfull_counts _ _ Ew) as G.
    pose proof At as (L & Ed & _).
    assert (Hd : data gl = Live) by (eapply sginv_data_live; eauto; lia).
    rewrite (touch_live _ Hd). cbn iota beta.
    pose proof (own_set t d SNull L) as H1. pose proof (ssoft_set t d SNull L) as H3.
    pose proof (probes_at _ _ _ At) as Pt.
    pose proof (probes_at _ _ _ (sh_at_set t d SProbe SNull At)) as H2.
    rewrite Ed in *. simpl in H1, H2, H3, Pt.
    pcconst Hpc HG.
    assert (Hh : hard gl = N.of_nat (O + own t + (P + probes t))) by (destruct HG; auto).
    unfold dec. destruct (N.eqb_spec (hard gl) 0) as [Z|NZ]; [lia|]. cbn [r_t r_g].
    split; [apply shape_sh_pc|]. split.
    { unfold pc_ok. cbn [tpc set_pc]. split; [right; exact (sh_at_set t d SProbe SNull At)|]. auto. }
    fin_ginv.
  - (* flag clear *)
    destruct Pk as (At & Sw & Ew). pose proof (wfull_counts _ _ Ew) as G.
    assert (Hd : data gl = Live) by (eapply sginv_data_live; eauto; lia).
    rewrite (touch_live _ Hd). cbn iota beta. cbn [r_t r_g].
    split; [apply same_shape_set_pc|]. split.
    { unfold pc_ok. cbn [tpc set_pc]. split; auto.
      destruct At as [At|At]; eapply sh_at_stable; eauto; [right|left]; auto. }
    pcconst Hpc HG. fin_ginv. destruct (lock gl); lia.
Qed.

(** every atomic step of a call in progress *)
Lemma exec_ok gl t o O P S W C F :
  op_wf t o -> tpc t <> PIdle -> pc_ok t o -> P <= W ->
  sginv gl t O P S W C F ->
  let r := exec gl t o in
  same_shape t (r_t r) /\ pc_ok (r_t r) o /\ sginv (r_g r) (r_t r) O P S W C F.
Proof.
  intros Wf Np Pk HP HG. destruct (tpc t) eqn:Hpc; try congruence.
  - (* PResetHard *)
    assert (X : exists d, target_sh o = d /\ sh_at t d SFull /\ wk_stable t /\
                match o with Share _ _ | Lock _ _ | Reset _ => True | _ => False end).
    { unfold pc_ok in Pk. rewrite Hpc in Pk. destruct o; try contradiction; simpl; eexists; repeat split; try apply Pk. }
    destruct X as (d & Ht & At & Sw & Ho).
    destruct (exec_reset_hard gl t o d O P S W C F Hpc (proj1 At) Ht At Sw HP HG) as (Sh & At' & Sw' & Hp' & HG').
    intros r. split; [exact Sh|]. split; [|exact HG'].
    unfold pc_ok. fold r in Hp'. destruct Hp' as [E|E]; rewrite E;
      destruct o; try contradiction; simpl in Ht; subst; auto.
  - (* PClear *)
    assert (X : exists d, sh_at t d SSoft /\ wk_stable t /\
                match o with Share _ d' | Lock _ d' | Reset d' => d' = d | _ => False end).
    { unfold pc_ok in Pk. rewrite Hpc in Pk. destruct o; try contradiction; simpl; eexists; repeat split; try apply Pk. }
    destruct X as (d & At & Sw & Ho).
    destruct (exec_clear gl t o d O P S W C F Hpc At Sw HG) as (Et & _ & _ & HG').
    intros r. subst r. split; [rewrite Et; apply same_shape_set_pc|]. split; [|exact HG'].
    rewrite Et. unfold pc_ok. cbn [tpc set_pc]. destruct o; try contradiction; subst; auto.
  - (* PResetSoft *)
    unfold pc_ok in Pk. rewrite Hpc in Pk.
    destruct o as [s d|d|s d|w d|d|d]; try contradiction; destruct Pk as (A & B).
    + apply (exec_reset_soft_sh gl t (Share s d) d); simpl; auto.
    + apply (exec_reset_soft_sh gl t (Reset d) d); simpl; auto.
    + apply (exec_reset_soft_wk gl t (WeakFrom s d) d); simpl; auto.
    + apply (exec_reset_soft_sh gl t (Lock w d) d); simpl; auto.
    + apply (exec_reset_soft_wk gl t (WeakReset d) d); simpl; auto.
  - (* PFree *)
    destruct (exec_free gl t o O P S W C F Hpc Wf Pk HG) as (_ & _ & X). exact X.
  - (* PShareHard *)
    destruct o; try (unfold pc_ok in Pk; rewrite Hpc in Pk; contradiction).
    apply exec_share_hard; auto.
  - destruct o; try (unfold pc_ok in Pk; rewrite Hpc in Pk; contradiction).
    apply exec_share_soft; auto.
  - destruct o; try (unfold pc_ok in Pk; rewrite Hpc in Pk; contradiction).
    apply exec_weak_soft; auto.
  - destruct o; try (unfold pc_ok in Pk; rewrite Hpc in Pk; contradiction).
    apply exec_lock; auto. rewrite Hpc; auto.
  - destruct o; try (unfold pc_ok in Pk; rewrite Hpc in Pk; contradiction).
    apply exec_lock; auto. rewrite Hpc; auto.
  - destruct o; try (unfold pc_ok in Pk; rewrite Hpc in Pk; contradiction).
    apply exec_lock; auto. rewrite Hpc; auto.
  - destruct o; try (unfold pc_ok in Pk; rewrite Hpc in Pk; contradiction).
    apply exec_lock; auto. rewrite Hpc; auto.
  - destruct o; try (unfold pc_ok in Pk; rewrite Hpc in Pk; contradiction).
    apply exec_lock; auto. rewrite Hpc; auto.
Qed.

Lemma Forall_op_wf_shape t t' l : same_shape t t' -> Forall (op_wf t) l -> Forall (op_wf t') l.
Proof. intros Sh H. eapply Forall_impl; [|exact H]. intros o. apply op_wf_shape; auto. Qed.

(** popping the finished call *)
Lemma finish_ok gl t o rest O P S W C F :
  prog t = o :: rest -> Forall (op_wf t) (prog t) -> pc_ok t o ->
  sginv gl t O P S W C F ->
  thread_ok (fst (finish t o)) /\ sginv gl (fst (finish t o)) O P S W C F.
Proof.
  intros Ep Wf Pk HG. unfold finish. destruct (tpc t) eqn:Hpc; cbn [fst];
    try (split; [unfold thread_ok; rewrite Ep; split; [rewrite <- Ep; exact Wf|exact Pk]|exact HG]).
  unfold pc_ok in Pk. rewrite Hpc in Pk. destruct Pk as (Ss & Sw).
  split.
  - unfold thread_ok. cbn [prog tpc]. rewrite Ep in *. cbn [tl]. inversion Wf as [|? ? _ Wr]; subst.
    split; [exact Wr|]. destruct rest as [|o' r']; [auto|]. unfold pc_ok. cbn [tpc]. auto.
  - unfold sginv, win, clr, fre in *. rewrite Hpc in HG. cbn [tpc]. exact HG.
Qed.

Lemma s_null_true o : s_null o = true -> o = SNull.
Proof. destruct o; simpl; congruence. Qed.
Lemma w_null_true o : w_null o = true -> o = WNull.
Proof. destruct o; simpl; congruence. Qed.
Lemma stable_s_nonnull o : stable_s o -> s_null o = false -> o = SFull.
Proof. intros [->| ->]; simpl; congruence. Qed.
Lemma stable_w_nonnull o : stable_w o -> w_null o = false -> o = WFull.
Proof. intros [->| ->]; simpl; congruence. Qed.

(** start of a call: thread-private, changes no counter *)
Lemma begin_ok t o :
  op_wf t o -> sh_stable t -> wk_stable t -> tpc t = PIdle ->
  (forall i, o <> Get i) ->
  let t1 := begin t o in
  same_shape t t1 /\ pc_ok t1 o /\
  own t1 = own t /\ probes t1 = probes t /\ ssoft t1 = ssoft t /\ wsoft t1 = wsoft t /\
  win t1 = 0 /\ clr t1 = 0 /\ fre t1 = 0.
Proof.
  intros Wf Ss Sw Hpc NG.
  assert (ShC : forall d, d < length (sh t) -> s_null (get_sh t d) = false ->
                 same_shape t (set_pc t PResetHard) /\ sh_at (set_pc t PResetHard) d SFull).
  { intros d L E. split; [apply same_shape_set_pc|]. split; [exact L|]. split; [|intros; apply Ss].
    change (get_sh t d = SFull). apply stable_s_nonnull; auto. }
  assert (WkC : forall d, d < length (wk t) -> w_null (get_wk t d) = false ->
                 same_shape t (set_pc t PResetSoft) /\ wk_at (set_pc t PResetSoft) d WFull).
  { intros d L E. split; [apply same_shape_set_pc|]. split; [exact L|]. split; [|intros; apply Sw].
    change (get_wk t d = WFull). apply stable_w_nonnull; auto. }
  destruct o as [s d|d|s d|w d|d|i]; cbn [begin].
  - destruct (s_null (get_sh t d)) eqn:E.
    + apply enter_ok; auto. apply s_null_true; auto.
    + destruct (ShC d (proj2 Wf) E) as (A & B). split; [exact A|]. split; [unfold pc_ok; cbn [tpc set_pc]; auto|].
      autorewrite with cnt. cbn. auto 10.
  - destruct (s_null (get_sh t d)) eqn:E.
    + apply enter_ok; auto.
    + destruct (ShC d Wf E) as (A & B). split; [exact A|]. split; [unfold pc_ok; cbn [tpc set_pc]; auto|].
      autorewrite with cnt. cbn. auto 10.
  - destruct (w_null (get_wk t d)) eqn:E.
    + apply enter_ok; auto. apply w_null_true; auto.
    + destruct (WkC d (proj2 Wf) E) as (A & B). split; [exact A|]. split; [unfold pc_ok; cbn [tpc set_pc]; auto|].
      autorewrite with cnt. cbn. auto 10.
  - destruct (s_null (get_sh t d)) eqn:E.
    + apply enter_ok; auto. apply s_null_true; auto.
    + destruct (ShC d (proj2 Wf) E) as (A & B). split; [exact A|]. split; [unfold pc_ok; cbn [tpc set_pc]; auto|].
      autorewrite with cnt. cbn. auto 10.
  - destruct (w_null (get_wk t d)) eqn:E.
    + apply enter_ok; auto.
    + destruct (WkC d Wf E) as (A & B). split; [exact A|]. split; [unfold pc_ok; cbn [tpc set_pc]; auto|].
      autorewrite with cnt. cbn. auto 10.
  - exfalso. eapply NG; eauto.
Qed.

(** * One step of one thread preserves the thread's local invariant and the
      global invariant on the totals *)
Lemma exec_finish_ok gl t o rest O P S W C F :
  prog t = o :: rest -> Forall (op_wf t) (prog t) -> tpc t <> PIdle -> pc_ok t o -> P <= W ->
  sginv gl t O P S W C F ->
  let r := exec gl t o in
  thread_ok (fst (finish (r_t r) o)) /\ sginv (r_g r) (fst (finish (r_t r) o)) O P S W C F.
Proof.
  intros Ep Wf Np Pk HP HG r.
  assert (Wo : op_wf t o) by (rewrite Ep in Wf; inversion Wf; auto).
  destruct (exec_ok gl t o O P S W C F Wo Np Pk HP HG) as (Sh & Pk' & HG'). fold r in Sh, Pk', HG'.
  pose proof Sh as (_ & _ & Ep').
  apply (finish_ok (r_g r) (r_t r) o rest); auto.
  - congruence.
  - rewrite Ep'. eapply Forall_op_wf_shape; eauto.
Qed.

Lemma step_thread_inv gl t ts O P S W C F :
  thread_ok t -> P <= W -> sginv gl t O P S W C F ->
  step_thread gl t = Some ts ->
  thread_ok (ts_t ts) /\ sginv (ts_g ts) (ts_t ts) O P S W C F.
Proof.
  intros (Wf & Ok) HP HG Hs. unfold step_thread in Hs.
  destruct (prog t) as [|o rest] eqn:Ep; [discriminate|].
  assert (Wo : op_wf t o) by (inversion Wf; auto).
  assert (Wf' : Forall (op_wf t) (prog t)) by (rewrite Ep; exact Wf).
  destruct (tpc t) eqn:Hpc.
  2-13: (assert (Np : tpc t <> PIdle) by congruence;
         pose proof (exec_finish_ok gl t o rest O P S W C F Ep Wf' Np Ok HP HG) as X; cbv zeta in X;
         destruct (finish (r_t (exec gl t o)) o) as (t2 & dn) eqn:Ef; injection Hs as <-; cbn [ts_t ts_g fst] in *; exact X).
  (* PIdle *)
  pose proof Ok as Ok'. unfold pc_ok in Ok'. rewrite Hpc in Ok'. destruct Ok' as (Ss & Sw).
  assert (FIN : forall g', sginv g' t O P S W C F ->
                thread_ok (mkT (sh t) (wk t) rest PIdle) /\ sginv g' (mkT (sh t) (wk t) rest PIdle) O P S W C F).
  { intros g' HG'. split.
    - unfold thread_ok. cbn [prog tpc]. inversion Wf as [|? ? _ Wr]; subst. split; [exact Wr|].
      destruct rest; [auto|]. unfold pc_ok; cbn [tpc]; auto.
    - unfold sginv, win, clr, fre in *. rewrite Hpc in HG'. exact HG'. }
  destruct o as [s d|d|s d|w d|d|i].
  6: { (* Get *)
    destruct (s_null (get_sh t i)) eqn:En.
    - injection Hs as <-. cbn [ts_t ts_g]. apply FIN; auto.
    - assert (Ei : get_sh t i = SFull) by (apply stable_s_nonnull; auto).
      destruct (full_counts _ _ Ei) as (G1 & G2).
      assert (Hd : data gl = Live) by (eapply sginv_data_live; eauto; lia).
      rewrite (touch_live _ Hd) in Hs. injection Hs as <-. cbn [ts_t ts_g]. apply FIN; auto. }
  all: match type of Hs with context [begin _ ?o] =>
    assert (NG : forall i, o <> Get i) by (intros; discriminate);
    destruct (begin_ok t o Wo Ss Sw Hpc NG) as (Sh & Pk & Eo & Epr & Es & Ews & Ew & Ec & Ef);
    set (t1 := begin t o) in *;
    assert (HG1 : sginv gl t1 O P S W C F)
      by (unfold sginv in *; rewrite Eo, Epr, Es, Ews, Ew, Ec, Ef; unfold win, clr, fre in HG; rewrite Hpc in HG; exact HG);
    pose proof Sh as (_ & _ & Ep1);
    assert (Wf1 : Forall (op_wf t1) (prog t1)) by (rewrite Ep1, Ep; eapply Forall_op_wf_shape; eauto);
    assert (Ep1' : prog t1 = o :: rest) by congruence;
    destruct (tpc t1) eqn:Hpc1;
    [ pose proof (finish_ok gl t1 o rest O P S W C F Ep1' Wf1 Pk HG1) as X;
      destruct (finish t1 o) as (t2 & dn) eqn:Efin; injection Hs as <-; cbn [ts_t ts_g fst] in *; exact X
    | .. ];
    (pose proof (exec_finish_ok gl t1 o rest O P S W C F Ep1' Wf1 ltac:(congruence) Pk HP HG1) as X; cbv zeta in X;
     destruct (finish (r_t (exec gl t1 o)) o) as (t2 & dn) eqn:Efin; injection Hs as <-; cbn [ts_t ts_g fst] in *; exact X)
  end.
Qed.

(* ------------------------------------------------------------------ *)
(** * The inductive invariant of the whole system *)

Definition tot (f : thread -> nat) (ts : list thread) : nat := nsum (map f ts).

Lemma tot_mid f l1 t l2 : tot f (l1 ++ t :: l2) = tot f (l1 ++ l2) + f t.
Proof. unfold tot. rewrite !map_app, !nsum_app. simpl. unfold nsum at 2. simpl. fold (nsum (map f l2)). lia. Qed.

Lemma tot_le f h l : Forall (fun t => f t <= h t) l -> tot f l <= tot h l.
Proof.
  induction 1 as [|x l Hx _ IH]; [auto|]. unfold tot, nsum in *; simpl. lia.
Qed.

Lemma tot_zero f l : Forall (fun t => f t = 0) l -> tot f l = 0.
Proof. induction 1 as [|x l Hx _ IH]; [auto|]. unfold tot, nsum in *; simpl. lia. Qed.

Lemma tot_ge f l i t : nth_error l i = Some t -> f t <= tot f l.
Proof.
  intros H. destruct (nth_split_upd _ _ _ H) as (l1 & l2 & -> & _). rewrite tot_mid. lia.
Qed.

Lemma nth_split_len {A} (l : list A) i t :
  nth_error l i = Some t -> exists l1 l2, l = l1 ++ t :: l2 /\ length l1 = i.
Proof.
  revert i; induction l as [|y r IH]; intros [|i] H; simpl in *; try discriminate.
  - injection H as ->. exists [], r. auto.
  - destruct (IH _ H) as (l1 & l2 & -> & E). exists (y :: l1), l2. simpl. auto.
Qed.

Lemma tot_ge2 f l i j a b :
  nth_error l i = Some a -> nth_error l j = Some b -> i <> j -> f a + f b <= tot f l.
Proof.
  intros Hi Hj N. destruct (nth_split_len _ _ _ Hi) as (l1 & l2 & -> & Li). rewrite tot_mid.
  assert (X : exists k, nth_error (l1 ++ l2) k = Some b).
  { subst i. destruct (Nat.lt_ge_cases j (length l1)) as [L|G].
    - exists j. rewrite nth_error_app1 in Hj by auto. rewrite nth_error_app1 by auto. auto.
    - exists (j - 1). rewrite nth_error_app2 in Hj by lia. rewrite nth_error_app2 by lia.
      destruct (j - length l1) as [|k] eqn:E; [lia|]. simpl in Hj.
      replace (j - 1 - length l1) with k by lia. auto. }
  destruct X as (k & Hk). pose proof (tot_ge f _ _ _ Hk). lia.
Qed.

Definition conc_inv (st : state) : Prop :=
  Forall thread_ok (ths st) /\
  ginv (g st) (tot own (ths st)) (tot probes (ths st)) (tot softc (ths st))
       (tot win (ths st)) (tot clr (ths st)) (tot fre (ths st)).

Lemma thread_ok_probes t : thread_ok t -> probes t <= win t.
Proof.
  intros (_ & Ok). destruct (prog t) as [|o r].
  - destruct Ok as (_ & Ss & _). rewrite probes_stable; auto. lia.
  - unfold pc_ok in Ok. unfold win.
    destruct (tpc t); destruct o; try contradiction;
      repeat match goal with H : _ /\ _ |- _ => destruct H end;
      try (rewrite probes_stable by assumption; lia);
      try match goal with H : sh_at _ _ _ |- _ => rewrite (probes_at _ _ _ H); simpl; lia end.
    match goal with H : _ \/ _ |- _ => destruct H as [H|H]; rewrite (probes_at _ _ _ H); simpl; lia end.
Qed.

(** * Every step of every thread preserves the invariant *)
Theorem conc_inv_step st tid st' :
  conc_inv st -> step st tid = Some st' -> conc_inv st'.
Proof.
  intros (Ft & HG) Hs. unfold step in Hs.
  destruct (nth_error (ths st) tid) as [t|] eqn:Et; [|discriminate].
  destruct (step_thread (g st) t) as [ts|] eqn:Es; [|discriminate].
  injection Hs as <-. unfold conc_inv. cbn [ths g].
  destruct (nth_split_upd _ _ _ Et) as (l1 & l2 & El & Eu). rewrite Eu. rewrite El in *. clear Eu El.
  rewrite !tot_mid in *.
  assert (Fo : Forall thread_ok (l1 ++ l2)).
  { apply Forall_app in Ft. destruct Ft as (A & B). inversion B; subst. apply Forall_app; auto. }
  assert (Tt : thread_ok t).
  { apply Forall_app in Ft. destruct Ft as (_ & B). inversion B; auto. }
  assert (HP : tot probes (l1 ++ l2) <= tot win (l1 ++ l2)).
  { apply tot_le. eapply Forall_impl; [|exact Fo]. apply thread_ok_probes. }
  destruct (step_thread_inv (g st) t ts _ _ _ _ _ _ Tt HP HG Es) as (Tk & HG').
  split; [|exact HG'].
  apply Forall_app in Fo. destruct Fo as (A & B). apply Forall_app; split; auto.
Qed.

(** ... hence after every schedule *)
Theorem conc_inv_run sched : forall st, conc_inv st -> conc_inv (run st sched).
Proof.
  induction sched as [|tid r IH]; intros st H; simpl; auto.
  destruct (step st tid) as [st'|] eqn:E; auto. apply IH. eapply conc_inv_step; eauto.
Qed.

(** * Initial configurations *)
Definition thread_init_ok (t : thread) : Prop :=
  tpc t = PIdle /\ sh_stable t /\ wk_stable t /\ Forall (op_wf t) (prog t).

Lemma thread_init_thread_ok t : thread_init_ok t -> thread_ok t.
Proof.
  intros (Hp & Ss & Sw & Wf). split; auto. destruct (prog t); auto. unfold pc_ok. rewrite Hp. auto.
Qed.

Lemma tot_hardc ts : tot hardc ts = tot own ts + tot probes ts.
Proof.
  induction ts as [|t r IH]; auto. unfold tot, nsum in *; simpl. rewrite hardc_split. lia.
Qed.

Theorem conc_inv_init ts : Forall thread_init_ok ts -> conc_inv (init_state ts).
Proof.
  intros H. split; cbn [ths g init_state].
  - eapply Forall_impl; [|exact H]. apply thread_init_thread_ok.
  - assert (Zp : tot probes ts = 0).
    { apply tot_zero. eapply Forall_impl; [|exact H]. intros t (_ & Ss & _). apply probes_stable; auto. }
    assert (Zw : tot win ts = 0 /\ tot clr ts = 0 /\ tot fre ts = 0).
    { repeat split; apply tot_zero; (eapply Forall_impl; [|exact H]); intros t (Hp & _);
        unfold win, clr, fre; rewrite Hp; auto. }
    destruct Zw as (Zw & Zc & Zf).
    fold (tot hardc ts). fold (tot softc ts). rewrite tot_hardc, Zp, Zw, Zc, Zf.
    unfold ginv; cbn [hard soft lock mem data err]. rewrite Nat.add_0_r.
    repeat split; auto; try lia; destruct (tot own ts); destruct (tot softc ts); intros; try lia; try discriminate.
Qed.

Lemma nth_repeat_in {A} (a d : A) n i : i < n -> nth i (repeat a n) d = a.
Proof. revert i; induction n as [|n IH]; intros [|i] H; simpl; try lia; auto. apply IH; lia. Qed.

Lemma repeat_nth_stable_s nf ne i : stable_s (nth i (repeat SFull nf ++ repeat SNull ne) SNull).
Proof.
  destruct (Nat.lt_ge_cases i nf) as [L|G].
  - rewrite app_nth1 by (rewrite repeat_length; auto). right. apply nth_repeat_in; auto.
  - rewrite app_nth2 by (rewrite repeat_length; auto). left.
    destruct (Nat.lt_ge_cases (i - length (repeat SFull nf)) ne).
    + apply nth_repeat.
    + apply nth_overflow. rewrite repeat_length; auto.
Qed.
Lemma repeat_nth_stable_w nf ne i : stable_w (nth i (repeat WFull nf ++ repeat WNull ne) WNull).
Proof.
  destruct (Nat.lt_ge_cases i nf) as [L|G].
  - rewrite app_nth1 by (rewrite repeat_length; auto). right. apply nth_repeat_in; auto.
  - rewrite app_nth2 by (rewrite repeat_length; auto). left.
    destruct (Nat.lt_ge_cases (i - length (repeat WFull nf)) ne).
    + apply nth_repeat.
    + apply nth_overflow. rewrite repeat_length; auto.
Qed.

(** the configurations built by [mk_thread] (those the drivers set up) *)
Lemma mk_thread_init_ok nf ne wf we p :
  Forall (op_wf (mk_thread nf ne wf we [])) p -> thread_init_ok (mk_thread nf ne wf we p).
Proof.
  intros H. split; [reflexivity|]. split; [intros i; apply repeat_nth_stable_s|].
  split; [intros i; apply repeat_nth_stable_w|]. exact H.
Qed.
