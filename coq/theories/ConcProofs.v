(** C06 — proofs about the interleaving model ConcModel.v: the inductive
    invariant [conc_inv] (DESIGN.md appendix A.2, adapted to the code) for any
    number of threads and any schedule, and its consequences. *)
From Cstl Require Import Prelude ConcModel.
Local Open Scope nat_scope.

(* ------------------------------------------------------------------ *)
(** * Sums over lists *)

Lemma nsum_app l1 l2 : nsum (l1 ++ l2) = nsum l1 + nsum l2.
Proof. induction l1 as [|x l IH]; simpl; auto. unfold nsum in *. simpl. lia. Qed.

Lemma nsum_map_upd {A} (f : A -> nat) (l : list A) i x d :
  i < length l ->
  nsum (map f (upd l i x)) + f (nth i l d) = nsum (map f l) + f x.
Proof.
  revert i; induction l as [|y r IH]; intros [|i] H; simpl in *; try lia.
  assert (Hi : i < length r) by lia. specialize (IH i Hi). unfold nsum in *; simpl. lia.
Qed.

Lemma nsum_map_nth_le {A} (f : A -> nat) (l : list A) i d :
  i < length l -> f (nth i l d) <= nsum (map f l).
Proof.
  revert i; induction l as [|y r IH]; intros [|i] H; simpl in *; try lia.
  assert (Hi : i < length r) by lia. specialize (IH i Hi). unfold nsum in *; simpl. lia.
Qed.

Lemma nsum_map_zero {A} (f : A -> nat) (l : list A) :
  (forall x, In x l -> f x = 0) -> nsum (map f l) = 0.
Proof.
  induction l as [|y r IH]; intros H; auto. unfold nsum in *; simpl.
  rewrite (H y), IH; auto; simpl; auto. intros; apply H; simpl; auto.
Qed.

Lemma nth_upd_same {A} (l : list A) i x d : i < length l -> nth i (upd l i x) d = x.
Proof. revert i; induction l as [|y r IH]; intros [|i] H; simpl in *; try lia; auto. apply IH; lia. Qed.

Lemma nth_upd_other {A} (l : list A) i j x d : i <> j -> nth j (upd l i x) d = nth j l d.
Proof. revert i j; induction l as [|y r IH]; intros [|i] [|j] H; simpl; auto; try congruence. Qed.

Lemma nth_split_upd {A} (l : list A) i t :
  nth_error l i = Some t ->
  exists l1 l2, l = l1 ++ t :: l2 /\ forall x, upd l i x = l1 ++ x :: l2.
Proof.
  revert i; induction l as [|y r IH]; intros [|i] H; simpl in *; try discriminate.
  - injection H as ->. exists [], r. auto.
  - destruct (IH _ H) as (l1 & l2 & -> & E). exists (y :: l1), l2. split; auto.
    intros x; simpl; rewrite E; auto.
Qed.

(* ------------------------------------------------------------------ *)
(** * Per-thread quantities of the invariant *)

Definition own_obj (o : sobj) : nat := match o with SHard | SFull => 1 | _ => 0 end.
Definition probe_obj (o : sobj) : nat := match o with SProbe => 1 | _ => 0 end.

(** counted owners of the managed memory held by the thread *)
Definition own (t : thread) : nat := nsum (map own_obj (sh t)).
(** transient increments of a failing weak lock *)
Definition probes (t : thread) : nat := nsum (map probe_obj (sh t)).
Definition ssoft (t : thread) : nat := nsum (map softc_obj (sh t)).
Definition wsoft (t : thread) : nat := nsum (map softc_wobj (wk t)).
(** inside the section protected by the spin flag *)
Definition win (t : thread) : nat :=
  match tpc t with PLockHard | PLockSoft | PLockUndo | PLockClear => 1 | _ => 0 end.
(** saw the owner count go 1 -> 0, about to clear and free the memory *)
Definition clr (t : thread) : nat := match tpc t with PClear => 1 | _ => 0 end.
(** saw the reference count go 1 -> 0, about to free the bookkeeping block *)
Definition fre (t : thread) : nat := match tpc t with PFree => 1 | _ => 0 end.

Lemma softc_split t : softc t = ssoft t + wsoft t.
Proof. reflexivity. Qed.

Lemma hardc_split t : hardc t = own t + probes t.
Proof.
  unfold hardc, own, probes. induction (sh t) as [|o r IH]; auto.
  unfold nsum in *; simpl. destruct o; simpl; lia.
Qed.

Definition stable_s (o : sobj) : Prop := o = SNull \/ o = SFull.
Definition stable_w (o : wobj) : Prop := o = WNull \/ o = WFull.

(** shared objects: object [d] is in state [x], every other one is stable *)
Definition sh_at (t : thread) (d : nat) (x : sobj) : Prop :=
  d < length (sh t) /\ get_sh t d = x /\ forall i, i <> d -> stable_s (get_sh t i).
Definition sh_stable (t : thread) : Prop := forall i, stable_s (get_sh t i).
Definition wk_at (t : thread) (d : nat) (x : wobj) : Prop :=
  d < length (wk t) /\ get_wk t d = x /\ forall i, i <> d -> stable_w (get_wk t i).
Definition wk_stable (t : thread) : Prop := forall i, stable_w (get_wk t i).

(** indices of a call are in range *)
Definition op_wf (t : thread) (o : op) : Prop :=
  match o with
  | Share s d => s < length (sh t) /\ d < length (sh t)
  | Reset i | Get i => i < length (sh t)
  | WeakFrom s d => s < length (sh t) /\ d < length (wk t)
  | Lock w d => w < length (wk t) /\ d < length (sh t)
  | WeakReset i => i < length (wk t)
  end.

(** what the program counter says about the thread's objects *)
Definition pc_ok (t : thread) (o : op) : Prop :=
  match tpc t, o with
  | PIdle, _ => sh_stable t /\ wk_stable t
  | PResetHard, (Share _ d | Lock _ d | Reset d) => sh_at t d SFull /\ wk_stable t
  | PClear, (Share _ d | Lock _ d | Reset d) => sh_at t d SSoft /\ wk_stable t
  | PResetSoft, (Share _ d | Lock _ d | Reset d) => sh_at t d SSoft /\ wk_stable t
  | PResetSoft, (WeakFrom _ d | WeakReset d) => sh_stable t /\ wk_at t d WFull
  | PFree, (Share _ d | Lock _ d | Reset d) => sh_stable t /\ wk_stable t /\ get_sh t d = SNull
  | PFree, (WeakFrom _ d | WeakReset d) => sh_stable t /\ wk_stable t /\ get_wk t d = WNull
  | PShareHard, Share s d => sh_at t d SRaw /\ get_sh t s = SFull /\ wk_stable t
  | PShareSoft, Share s d => sh_at t d SHard /\ get_sh t s = SFull /\ wk_stable t
  | PWeakSoft, WeakFrom s d => sh_stable t /\ get_sh t s = SFull /\ wk_at t d WRaw
  | (PLockSpin | PLockHard), Lock w d => sh_at t d SRaw /\ wk_stable t /\ get_wk t w = WFull
  | PLockSoft, Lock w d => sh_at t d SHard /\ wk_stable t /\ get_wk t w = WFull
  | PLockUndo, Lock w d => sh_at t d SProbe /\ wk_stable t /\ get_wk t w = WFull
  | PLockClear, Lock w d => (sh_at t d SFull \/ sh_at t d SNull) /\ wk_stable t /\ get_wk t w = WFull
  | _, _ => False
  end.

Definition thread_ok (t : thread) : Prop :=
  Forall (op_wf t) (prog t) /\
  match prog t with
  | [] => tpc t = PIdle /\ sh_stable t /\ wk_stable t
  | o :: _ => pc_ok t o
  end.

(* ------------------------------------------------------------------ *)
(** * Object-level lemmas *)

Lemma get_sh_set_same t d x : d < length (sh t) -> get_sh (set_sh t d x) d = x.
Proof. intros H. unfold get_sh, set_sh; simpl. apply nth_upd_same; auto. Qed.
Lemma get_sh_set_other t d x i : i <> d -> get_sh (set_sh t d x) i = get_sh t i.
Proof. intros H. unfold get_sh, set_sh; simpl. apply nth_upd_other; auto. Qed.
Lemma get_wk_set_same t d x : d < length (wk t) -> get_wk (set_wk t d x) d = x.
Proof. intros H. unfold get_wk, set_wk; simpl. apply nth_upd_same; auto. Qed.
Lemma get_wk_set_other t d x i : i <> d -> get_wk (set_wk t d x) i = get_wk t i.
Proof. intros H. unfold get_wk, set_wk; simpl. apply nth_upd_other; auto. Qed.

Lemma len_sh_set t d x : length (sh (set_sh t d x)) = length (sh t).
Proof. unfold set_sh; simpl. apply upd_length. Qed.
Lemma len_wk_set t d x : length (wk (set_wk t d x)) = length (wk t).
Proof. unfold set_wk; simpl. apply upd_length. Qed.

Lemma sh_at_set t d x y : sh_at t d x -> sh_at (set_sh t d y) d y.
Proof.
  intros (L & _ & O). split; [rewrite len_sh_set; auto|]. split; [apply get_sh_set_same; auto|].
  intros i Hi. rewrite get_sh_set_other; auto.
Qed.
Lemma sh_stable_set_at t d y : sh_stable t -> d < length (sh t) -> sh_at (set_sh t d y) d y.
Proof.
  intros S L. split; [rewrite len_sh_set; auto|]. split; [apply get_sh_set_same; auto|].
  intros i Hi. rewrite get_sh_set_other; auto.
Qed.
Lemma sh_at_set_stable t d x y : sh_at t d x -> stable_s y -> sh_stable (set_sh t d y).
Proof.
  intros (L & _ & O) Sy i. destruct (Nat.eq_dec i d) as [->|N].
  - rewrite get_sh_set_same; auto.
  - rewrite get_sh_set_other; auto.
Qed.
Lemma wk_at_set t d x y : wk_at t d x -> wk_at (set_wk t d y) d y.
Proof.
  intros (L & _ & O). split; [rewrite len_wk_set; auto|]. split; [apply get_wk_set_same; auto|].
  intros i Hi. rewrite get_wk_set_other; auto.
Qed.
Lemma wk_stable_set_at t d y : wk_stable t -> d < length (wk t) -> wk_at (set_wk t d y) d y.
Proof.
  intros S L. split; [rewrite len_wk_set; auto|]. split; [apply get_wk_set_same; auto|].
  intros i Hi. rewrite get_wk_set_other; auto.
Qed.
Lemma wk_at_set_stable t d x y : wk_at t d x -> stable_w y -> wk_stable (set_wk t d y).
Proof.
  intros (L & _ & O) Sy i. destruct (Nat.eq_dec i d) as [->|N].
  - rewrite get_wk_set_same; auto.
  - rewrite get_wk_set_other; auto.
Qed.

Lemma sh_at_stable t d x : sh_at t d x -> stable_s x -> sh_stable t.
Proof. intros (L & E & O) Sx i. destruct (Nat.eq_dec i d) as [->|N]; [rewrite E|]; auto. Qed.
Lemma wk_at_stable t d x : wk_at t d x -> stable_w x -> wk_stable t.
Proof. intros (L & E & O) Sx i. destruct (Nat.eq_dec i d) as [->|N]; [rewrite E|]; auto. Qed.

(** effect of an object update on the per-thread sums *)
Lemma own_set t d y : d < length (sh t) ->
  own (set_sh t d y) + own_obj (get_sh t d) = own t + own_obj y.
Proof. intros L. unfold own, set_sh, get_sh; simpl. apply nsum_map_upd; auto. Qed.
Lemma probes_set t d y : d < length (sh t) ->
  probes (set_sh t d y) + probe_obj (get_sh t d) = probes t + probe_obj y.
Proof. intros L. unfold probes, set_sh, get_sh; simpl. apply nsum_map_upd; auto. Qed.
Lemma ssoft_set t d y : d < length (sh t) ->
  ssoft (set_sh t d y) + softc_obj (get_sh t d) = ssoft t + softc_obj y.
Proof. intros L. unfold ssoft, set_sh, get_sh; simpl. apply nsum_map_upd; auto. Qed.
Lemma wsoft_set t d y : d < length (wk t) ->
  wsoft (set_wk t d y) + softc_wobj (get_wk t d) = wsoft t + softc_wobj y.
Proof. intros L. unfold wsoft, set_wk, get_wk; simpl. apply nsum_map_upd; auto. Qed.

Lemma get_sh_nondefault t i : get_sh t i <> SNull -> i < length (sh t).
Proof.
  intros H. destruct (Nat.lt_ge_cases i (length (sh t))); auto.
  exfalso; apply H. unfold get_sh. apply nth_overflow; auto.
Qed.
Lemma get_wk_nondefault t i : get_wk t i <> WNull -> i < length (wk t).
Proof.
  intros H. destruct (Nat.lt_ge_cases i (length (wk t))); auto.
  exfalso; apply H. unfold get_wk. apply nth_overflow; auto.
Qed.

Lemma own_ge t i : own_obj (get_sh t i) <= own t.
Proof.
  destruct (Nat.lt_ge_cases i (length (sh t))).
  - apply nsum_map_nth_le; auto.
  - unfold get_sh. rewrite nth_overflow; simpl; auto; lia.
Qed.
Lemma ssoft_ge t i : softc_obj (get_sh t i) <= ssoft t.
Proof.
  destruct (Nat.lt_ge_cases i (length (sh t))).
  - apply nsum_map_nth_le; auto.
  - unfold get_sh. rewrite nth_overflow; simpl; auto; lia.
Qed.
Lemma wsoft_ge t i : softc_wobj (get_wk t i) <= wsoft t.
Proof.
  destruct (Nat.lt_ge_cases i (length (wk t))).
  - apply nsum_map_nth_le; auto.
  - unfold get_wk. rewrite nth_overflow; simpl; auto; lia.
Qed.

Lemma probes_stable t : sh_stable t -> probes t = 0.
Proof.
  intros S. apply nsum_map_zero. intros x Hx. destruct (In_nth _ _ SNull Hx) as (i & _ & <-).
  destruct (S i) as [E|E]; unfold get_sh in E; rewrite E; auto.
Qed.
Lemma probes_at t d x : sh_at t d x -> probes t = probe_obj x.
Proof.
  intros (L & E & O).
  pose proof (probes_set t d SNull L) as H. rewrite E in H. simpl in H.
  assert (S0 : sh_stable (set_sh t d SNull)) by (eapply sh_at_set_stable; [split; eauto|left; auto]).
  rewrite (probes_stable _ S0) in H. lia.
Qed.

(* ------------------------------------------------------------------ *)
(** * Counters under the record updates *)

Lemma own_set_pc t p : own (set_pc t p) = own t. Proof. reflexivity. Qed.
Lemma probes_set_pc t p : probes (set_pc t p) = probes t. Proof. reflexivity. Qed.
Lemma ssoft_set_pc t p : ssoft (set_pc t p) = ssoft t. Proof. reflexivity. Qed.
Lemma wsoft_set_pc t p : wsoft (set_pc t p) = wsoft t. Proof. reflexivity. Qed.
Lemma own_set_wk t d x : own (set_wk t d x) = own t. Proof. reflexivity. Qed.
Lemma probes_set_wk t d x : probes (set_wk t d x) = probes t. Proof. reflexivity. Qed.
Lemma ssoft_set_wk t d x : ssoft (set_wk t d x) = ssoft t. Proof. reflexivity. Qed.
Lemma wsoft_set_sh t d x : wsoft (set_sh t d x) = wsoft t. Proof. reflexivity. Qed.
#[local] Hint Rewrite own_set_pc probes_set_pc ssoft_set_pc wsoft_set_pc
     own_set_wk probes_set_wk ssoft_set_wk wsoft_set_sh : cnt.

(** same lists lengths and same program *)
Definition same_shape (t t' : thread) : Prop :=
  length (sh t') = length (sh t) /\ length (wk t') = length (wk t) /\ prog t' = prog t.

Lemma same_shape_refl t : same_shape t t.
Proof. repeat split. Qed.
Lemma same_shape_trans a b c : same_shape a b -> same_shape b c -> same_shape a c.
Proof. intros (A1 & A2 & A3) (B1 & B2 & B3). repeat split; congruence. Qed.
Lemma same_shape_set_pc t p : same_shape t (set_pc t p).
Proof. repeat split. Qed.
Lemma same_shape_set_sh t d x : same_shape t (set_sh t d x).
Proof. repeat split. apply len_sh_set. Qed.
Lemma same_shape_set_wk t d x : same_shape t (set_wk t d x).
Proof. repeat split. apply len_wk_set. Qed.

Lemma op_wf_shape t t' o : same_shape t t' -> op_wf t o -> op_wf t' o.
Proof. intros (A & B & _). destruct o; simpl; rewrite ?A, ?B; auto. Qed.

(* ------------------------------------------------------------------ *)
(** * The global part of the invariant, as a predicate on the totals *)

(** [O] counted owners, [P] probing increments, [S] counted references,
    [W] threads inside the flag-protected window, [C] threads about to
    clear, [F] threads about to free the bookkeeping block *)
Definition ginv (gl : global) (O P S W C F : nat) : Prop :=
  hard gl = N.of_nat (O + P) /\
  soft gl = N.of_nat S /\
  W = (if lock gl then 1 else 0) /\
  C <= 1 /\ (mem gl = Live -> O + C > 0) /\ (mem gl = Dead -> O + C = 0) /\ (C > 0 -> O = 0) /\
  (P > 0 -> O = 0) /\
  F <= 1 /\ (data gl = Live -> S + F > 0) /\ (data gl = Dead -> S + F = 0) /\ (F > 0 -> S = 0) /\
  err gl = false.

Lemma touch_live gl : data gl = Live -> touch gl = (gl, []).
Proof. intros H. unfold touch. rewrite H. reflexivity. Qed.

Lemma ginv_data_live gl O P S W C F : ginv gl O P S W C F -> S + F > 0 -> data gl = Live.
Proof.
  intros (_ & _ & _ & _ & _ & _ & _ & _ & _ & _ & D & _) H.
  destruct (data gl); auto. specialize (D eq_refl). lia.
Qed.

(** [enter]: the pointer copy after the target was reset *)
Lemma enter_ok t o :
  op_wf t o -> sh_stable t -> wk_stable t ->
  match o with
  | Share _ d | Lock _ d => get_sh t d = SNull
  | WeakFrom _ d => get_wk t d = WNull
  | _ => True
  end ->
  let t' := enter t o in
  same_shape t t' /\ pc_ok t' o /\
  own t' = own t /\ probes t' = probes t /\ ssoft t' = ssoft t /\ wsoft t' = wsoft t /\
  win t' = 0 /\ clr t' = 0 /\ fre t' = 0.
Proof.
  intros Wf Ss Sw Hn. destruct o as [s d|i|s d|w d|i|i]; simpl in *.
  - destruct (s_null (get_sh t s)) eqn:Es.
    + repeat split; auto.
    + assert (Hs : get_sh t s = SFull) by (destruct (Ss s) as [E|E]; rewrite E in *; auto; discriminate).
      destruct Wf as (Ls & Ld).
      assert (Nsd : s <> d) by (intros ->; congruence).
      pose proof (own_set t d SRaw Ld) as H1. pose proof (probes_set t d SRaw Ld) as H2.
      pose proof (ssoft_set t d SRaw Ld) as H3. rewrite Hn in *. simpl in *.
      split; [eapply same_shape_trans; [apply same_shape_set_sh|apply same_shape_set_pc]|].
      split. { unfold pc_ok; simpl. split; [apply sh_stable_set_at; auto|]. split; auto.
               change (get_sh (set_sh t d SRaw) s = SFull). rewrite get_sh_set_other; auto. }
      autorewrite with cnt. repeat split; try lia.
  - repeat split; auto.
  - destruct (s_null (get_sh t s)) eqn:Es.
    + repeat split; auto.
    + assert (Hs : get_sh t s = SFull) by (destruct (Ss s) as [E|E]; rewrite E in *; auto; discriminate).
      destruct Wf as (Ls & Ld).
      pose proof (wsoft_set t d WRaw Ld) as H1. rewrite Hn in *. simpl in *.
      split; [eapply same_shape_trans; [apply same_shape_set_wk|apply same_shape_set_pc]|].
      split. { unfold pc_ok; simpl. split; auto. split; auto. apply wk_stable_set_at; auto. }
      autorewrite with cnt. repeat split; try lia.
  - destruct (w_null (get_wk t w)) eqn:Es.
    + repeat split; auto.
    + assert (Hs : get_wk t w = WFull) by (destruct (Sw w) as [E|E]; rewrite E in *; auto; discriminate).
      destruct Wf as (Ls & Ld).
      pose proof (own_set t d SRaw Ld) as H1. pose proof (probes_set t d SRaw Ld) as H2.
      pose proof (ssoft_set t d SRaw Ld) as H3. rewrite Hn in *. simpl in *.
      split; [eapply same_shape_trans; [apply same_shape_set_sh|apply same_shape_set_pc]|].
      split. { unfold pc_ok; simpl. split; [apply sh_stable_set_at; auto|]. split; auto. }
      autorewrite with cnt. repeat split; try lia.
  - repeat split; auto.
  - repeat split; auto.
Qed.

Lemma win_set_pc t p : win (set_pc t p) = win (mkT [] [] [] p). Proof. reflexivity. Qed.
Lemma clr_set_pc t p : clr (set_pc t p) = clr (mkT [] [] [] p). Proof. reflexivity. Qed.
Lemma fre_set_pc t p : fre (set_pc t p) = fre (mkT [] [] [] p). Proof. reflexivity. Qed.
#[local] Hint Rewrite win_set_pc clr_set_pc fre_set_pc : cnt.

(** the invariant on the totals, split into "the other threads" (capital
    letters) and the stepping thread *)
Definition sginv (gl : global) (t : thread) (O P S W C F : nat) : Prop :=
  ginv gl (O + own t) (P + probes t) (S + (ssoft t + wsoft t)) (W + win t) (C + clr t) (F + fre t).

Ltac pcconst Hpc HG :=
  unfold sginv in HG; unfold win, clr, fre in HG; rewrite Hpc in HG.

Ltac spec_hyps :=
  repeat match goal with
  | H : ?a = ?a -> _ |- _ => specialize (H eq_refl)
  | H : Live = Dead -> _ |- _ => clear H
  | H : Dead = Live -> _ |- _ => clear H
  | H : ?A -> _, H' : ?A |- _ => specialize (H H')
  end.

Ltac fin_ginv :=
  unfold sginv, ginv in *;
  cbn [hard soft lock mem data err set_hard set_soft set_lock set_mem set_data set_err r_g r_t] in *;
  autorewrite with cnt in *;
  cbn [win clr fre tpc set_pc] in *;
  repeat match goal with H : _ /\ _ |- _ => destruct H end;
  repeat split; try lia; try congruence; try (intros; spec_hyps; first [lia | congruence]).

Lemma sginv_data_live gl t O P S W C F :
  sginv gl t O P S W C F -> ssoft t + wsoft t + fre t > 0 -> data gl = Live.
Proof. intros H L. eapply ginv_data_live; eauto. lia. Qed.

Lemma exec_reset_hard gl t o d O P S W C F :
  tpc t = PResetHard -> d < length (sh t) -> target_sh o = d ->
  sh_at t d SFull -> wk_stable t -> P <= W ->
  sginv gl t O P S W C F ->
  let r := exec gl t o in
  same_shape t (r_t r) /\ sh_at (r_t r) d SSoft /\ wk_stable (r_t r) /\
  (tpc (r_t r) = PClear \/ tpc (r_t r) = PResetSoft) /\
  sginv (r_g r) (r_t r) O P S W C F.
Proof.
  intros Hpc L Ht At Sw HP HG r. subst r. unfold exec. rewrite Hpc, Ht.
  pose proof At as (_ & Ed & _).
  pose proof (own_ge t d) as G1. pose proof (ssoft_ge t d) as G2. rewrite Ed in *. simpl in G1, G2.
  pose proof (probes_at _ _ _ At) as Pt. simpl in Pt.
  assert (Hd : data gl = Live) by (eapply sginv_data_live; eauto; lia).
  rewrite (touch_live _ Hd). cbn iota beta.
  pose proof (own_set t d SSoft L) as H1. pose proof (ssoft_set t d SSoft L) as H3.
  pose proof (probes_at _ _ _ (sh_at_set t d SFull SSoft At)) as H2.
  rewrite Ed in *. simpl in H1, H2, H3.
  pcconst Hpc HG.
  assert (Hh : hard gl = N.of_nat (O + own t + (P + probes t))) by (destruct HG; auto).
  unfold dec. destruct (N.eqb_spec (hard gl) 0) as [Z|NZ]; [lia|].
  destruct (N.eqb_spec (hard gl) 1) as [E1|N1]; cbn [r_t r_g].
  - split; [eapply same_shape_trans; [apply same_shape_set_sh|apply same_shape_set_pc]|].
    split; [exact (sh_at_set t d SFull SSoft At)|]. split; [exact Sw|]. split; [left; reflexivity|].
    fin_ginv.
  - split; [eapply same_shape_trans; [apply same_shape_set_sh|apply same_shape_set_pc]|].
    split; [exact (sh_at_set t d SFull SSoft At)|]. split; [exact Sw|]. split; [right; reflexivity|].
    fin_ginv.
Qed.

Lemma shape_sh_pc t d x p : same_shape t (set_pc (set_sh t d x) p).
Proof. eapply same_shape_trans; [apply same_shape_set_sh|apply same_shape_set_pc]. Qed.
Lemma shape_wk_pc t d x p : same_shape t (set_pc (set_wk t d x) p).
Proof. eapply same_shape_trans; [apply same_shape_set_wk|apply same_shape_set_pc]. Qed.

Lemma full_counts t s : get_sh t s = SFull -> 1 <= own t /\ 1 <= ssoft t.
Proof.
  intros E. pose proof (own_ge t s) as A. pose proof (ssoft_ge t s) as B. rewrite E in *. simpl in *. lia.
Qed.
Lemma wfull_counts t w : get_wk t w = WFull -> 1 <= wsoft t.
Proof. intros E. pose proof (wsoft_ge t w) as A. rewrite E in *. simpl in *. lia. Qed.

(** clear step *)
Lemma exec_clear gl t o d O P S W C F :
  tpc t = PClear -> sh_at t d SSoft -> wk_stable t ->
  sginv gl t O P S W C F ->
  let r := exec gl t o in
  r_t r = set_pc t PResetSoft /\ mem gl = Live /\ r_evs r = [EClear; EFreeMem] /\
  sginv (r_g r) (r_t r) O P S W C F.
Proof.
  intros Hpc At Sw HG r. subst r. unfold exec. rewrite Hpc.
  pose proof At as (L & Ed & _).
  pose proof (ssoft_ge t d) as G2. rewrite Ed in G2. simpl in G2.
  assert (Hd : data gl = Live) by (eapply sginv_data_live; eauto; lia).
  rewrite (touch_live _ Hd). cbn iota beta.
  pcconst Hpc HG.
  assert (Hm : mem gl = Live).
  { destruct (mem gl) eqn:Em; auto. destruct HG as (_ & _ & _ & _ & _ & X & _). specialize (X Em). lia. }
  rewrite Hm. cbn [r_t r_g r_evs]. split; [reflexivity|]. split; [reflexivity|]. split; [reflexivity|]. fin_ginv.
Qed.

(** second half of a reset, shared target *)
Lemma exec_reset_soft_sh gl t o d O P S W C F :
  tpc t = PResetSoft -> target_is_weak o = false -> target_sh o = d ->
  op_wf t o ->
  match o with Share _ _ | Lock _ _ | Reset _ => True | _ => False end ->
  sh_at t d SSoft -> wk_stable t ->
  sginv gl t O P S W C F ->
  let r := exec gl t o in
  same_shape t (r_t r) /\ pc_ok (r_t r) o /\ sginv (r_g r) (r_t r) O P S W C F.
Proof.
  intros Hpc Hw Ht Wf Ho At Sw HG r. subst r. unfold exec. rewrite Hpc, Hw, Ht.
  pose proof At as (L & Ed & _).
  pose proof (ssoft_ge t d) as G2. rewrite Ed in G2. simpl in G2.
  assert (Hd : data gl = Live) by (eapply sginv_data_live; eauto; lia).
  rewrite (touch_live _ Hd). cbn iota beta.
  pose proof (own_set t d SNull L) as H1. pose proof (ssoft_set t d SNull L) as H3.
  pose proof (probes_at _ _ _ At) as Pt.
  pose proof (probes_at _ _ _ (sh_at_set t d SSoft SNull At)) as H2.
  rewrite Ed in *. simpl in H1, H2, H3, Pt.
  assert (St1 : sh_stable (set_sh t d SNull)) by (eapply sh_at_set_stable; eauto; left; auto).
  assert (Nd : get_sh (set_sh t d SNull) d = SNull) by (apply get_sh_set_same; auto).
  pcconst Hpc HG.
  assert (Hs : soft gl = N.of_nat (S + (ssoft t + wsoft t))) by (destruct HG as (_ & X & _); auto).
  unfold dec. destruct (N.eqb_spec (soft gl) 0) as [Z|NZ]; [lia|].
  destruct (N.eqb_spec (soft gl) 1) as [E1|N1]; cbn [r_t r_g].
  - split; [apply shape_sh_pc|]. split.
    { unfold pc_ok. cbn [tpc set_pc]. destruct o; try contradiction; simpl in Ht; subst; repeat split; auto. }
    fin_ginv.
  - assert (Wf1 : op_wf (set_sh t d SNull) o) by (eapply op_wf_shape; eauto; apply same_shape_set_sh).
    assert (Hn : match o with
                 | Share _ d0 | Lock _ d0 => get_sh (set_sh t d SNull) d0 = SNull
                 | WeakFrom _ d0 => get_wk (set_sh t d SNull) d0 = WNull
                 | _ => True end)
      by (destruct o; try contradiction; simpl in Ht; subst; auto).
    destruct (enter_ok (set_sh t d SNull) o Wf1 St1 Sw Hn) as (Sh & Pk & Eo & Ep & Es & Ews & Ew & Ec & Ef).
    split; [eapply same_shape_trans; [apply same_shape_set_sh|exact Sh]|]. split; [exact Pk|].
    unfold sginv. rewrite Eo, Ep, Es, Ews, Ew, Ec, Ef. fin_ginv.
Qed.

(** reset of a weak pointer object *)
Lemma exec_reset_soft_wk gl t o d O P S W C F :
  tpc t = PResetSoft -> target_is_weak o = true -> target_wk o = d ->
  op_wf t o ->
  match o with WeakFrom _ _ | WeakReset _ => True | _ => False end ->
  sh_stable t -> wk_at t d WFull ->
  sginv gl t O P S W C F ->
  let r := exec gl t o in
  same_shape t (r_t r) /\ pc_ok (r_t r) o /\ sginv (r_g r) (r_t r) O P S W C F.
Proof.
  intros Hpc Hw Ht Wf Ho Ss At HG r. subst r. unfold exec. rewrite Hpc, Hw, Ht.
  pose proof At as (L & Ed & _).
  pose proof (wsoft_ge t d) as G2. rewrite Ed in G2. simpl in G2.
  assert (Hd : data gl = Live) by (eapply sginv_data_live; eauto; lia).
  rewrite (touch_live _ Hd). cbn iota beta.
  pose proof (wsoft_set t d WNull L) as H3. rewrite Ed in H3. simpl in H3.
  assert (St1 : wk_stable (set_wk t d WNull)) by (eapply wk_at_set_stable; eauto; left; auto).
  assert (Nd : get_wk (set_wk t d WNull) d = WNull) by (apply get_wk_set_same; auto).
  pcconst Hpc HG.
  assert (Hs : soft gl = N.of_nat (S + (ssoft t + wsoft t))) by (destruct HG as (_ & X & _); auto).
  unfold dec. destruct (N.eqb_spec (soft gl) 0) as [Z|NZ]; [lia|].
  destruct (N.eqb_spec (soft gl) 1) as [E1|N1]; cbn [r_t r_g].
  - split; [apply shape_wk_pc|]. split.
    { unfold pc_ok. cbn [tpc set_pc]. destruct o; try contradiction; simpl in Ht; subst; repeat split; auto. }
    fin_ginv.
  - assert (Wf1 : op_wf (set_wk t d WNull) o) by (eapply op_wf_shape; eauto; apply same_shape_set_wk).
    assert (Hn : match o with
                 | Share _ d0 | Lock _ d0 => get_sh (set_wk t d WNull) d0 = SNull
                 | WeakFrom _ d0 => get_wk (set_wk t d WNull) d0 = WNull
                 | _ => True end)
      by (destruct o; try contradiction; simpl in Ht; subst; auto).
    destruct (enter_ok (set_wk t d WNull) o Wf1 Ss St1 Hn) as (Sh & Pk & Eo & Ep & Es & Ews & Ew & Ec & Ef).
    split; [eapply same_shape_trans; [apply same_shape_set_wk|exact Sh]|]. split; [exact Pk|].
    unfold sginv. rewrite Eo, Ep, Es, Ews, Ew, Ec, Ef. fin_ginv.
Qed.

(** free of the bookkeeping block *)
Lemma exec_free gl t o O P S W C F :
  tpc t = PFree -> op_wf t o -> pc_ok t o ->
  sginv gl t O P S W C F ->
  let r := exec gl t o in
  data gl = Live /\ r_evs r = [EFreeData] /\
  same_shape t (r_t r) /\ pc_ok (r_t r) o /\ sginv (r_g r) (r_t r) O P S W C F.
Proof.
  intros Hpc Wf Pk HG r. subst r. unfold exec. rewrite Hpc.
  assert (Hd : data gl = Live) by (eapply sginv_data_live; eauto; unfold fre; rewrite Hpc; lia).
  rewrite Hd. cbn [r_t r_g r_evs].
  assert (X : sh_stable t /\ wk_stable t /\
              match o with
              | Share _ d0 | Lock _ d0 => get_sh t d0 = SNull
              | WeakFrom _ d0 => get_wk t d0 = WNull
              | _ => True end).
  { unfold pc_ok in Pk. rewrite Hpc in Pk. destruct o; try contradiction; tauto. }
  destruct X as (Ss & Sw & Hn).
  destruct (enter_ok t o Wf Ss Sw Hn) as (Sh & Pk' & Eo & Ep & Es & Ews & Ew & Ec & Ef).
  split; auto. split; auto. split; [exact Sh|]. split; [exact Pk'|].
  unfold sginv. rewrite Eo, Ep, Es, Ews, Ew, Ec, Ef. pcconst Hpc HG. fin_ginv.
Qed.

Lemma exec_share_hard gl t s d O P S W C F :
  tpc t = PShareHard -> pc_ok t (Share s d) -> sginv gl t O P S W C F ->
  let r := exec gl t (Share s d) in
  same_shape t (r_t r) /\ pc_ok (r_t r) (Share s d) /\ sginv (r_g r) (r_t r) O P S W C F.
Proof.
  intros Hpc Pk HG r. subst r. unfold pc_ok in Pk. rewrite Hpc in Pk. destruct Pk as (At & Es & Sw).
  unfold exec. rewrite Hpc. cbn [target_sh].
  pose proof At as (L & Ed & _).
  destruct (full_counts _ _ Es) as (G1 & G2).
  assert (Hd : data gl = Live) by (eapply sginv_data_live; eauto; lia).
  rewrite (touch_live _ Hd). cbn iota beta. cbn [r_t r_g].
  pose proof (own_set t d SHard L) as H1. pose proof (ssoft_set t d SHard L) as H3.
  pose proof (probes_at _ _ _ At) as Pt.
  pose proof (probes_at _ _ _ (sh_at_set t d SRaw SHard At)) as H2.
  rewrite Ed in *. simpl in H1, H2, H3, Pt.
  assert (Nsd : s <> d) by (intros ->; congruence).
  split; [apply shape_sh_pc|]. split.
  { unfold pc_ok. cbn [tpc set_pc]. split; [exact (sh_at_set t d SRaw SHard At)|]. split; [|exact Sw].
    change (get_sh (set_sh t d SHard) s = SFull). rewrite get_sh_set_other; auto. }
  pcconst Hpc HG. fin_ginv.
Qed.

Lemma exec_share_soft gl t s d O P S W C F :
  tpc t = PShareSoft -> pc_ok t (Share s d) -> sginv gl t O P S W C F ->
  let r := exec gl t (Share s d) in
  same_shape t (r_t r) /\ pc_ok (r_t r) (Share s d) /\ sginv (r_g r) (r_t r) O P S W C F.
Proof.
  intros Hpc Pk HG r. subst r. unfold pc_ok in Pk. rewrite Hpc in Pk. destruct Pk as (At & Es & Sw).
  unfold exec. rewrite Hpc. cbn [target_sh].
  pose proof At as (L & Ed & _).
  destruct (full_counts _ _ Es) as (G1 & G2).
  assert (Hd : data gl = Live) by (eapply sginv_data_live; eauto; lia).
  rewrite (touch_live _ Hd). cbn iota beta. cbn [r_t r_g].
  pose proof (own_set t d SFull L) as H1. pose proof (ssoft_set t d SFull L) as H3.
  pose proof (probes_at _ _ _ At) as Pt.
  pose proof (probes_at _ _ _ (sh_at_set t d SHard SFull At)) as H2.
  rewrite Ed in *. simpl in H1, H2, H3, Pt.
  split; [apply shape_sh_pc|]. split.
  { unfold pc_ok. cbn [tpc set_pc]. split; [|exact Sw].
    eapply sh_at_set_stable; eauto. right; auto. }
  pcconst Hpc HG. fin_ginv.
Qed.

Lemma exec_weak_soft gl t s d O P S W C F :
  tpc t = PWeakSoft -> pc_ok t (WeakFrom s d) -> sginv gl t O P S W C F ->
  let r := exec gl t (WeakFrom s d) in
  same_shape t (r_t r) /\ pc_ok (r_t r) (WeakFrom s d) /\ sginv (r_g r) (r_t r) O P S W C F.
Proof.
  intros Hpc Pk HG r. subst r. unfold pc_ok in Pk. rewrite Hpc in Pk. destruct Pk as (Ss & Es & At).
  unfold exec. rewrite Hpc. cbn [target_wk].
  pose proof At as (L & Ed & _).
  destruct (full_counts _ _ Es) as (G1 & G2).
  assert (Hd : data gl = Live) by (eapply sginv_data_live; eauto; lia).
  rewrite (touch_live _ Hd). cbn iota beta. cbn [r_t r_g].
  pose proof (wsoft_set t d WFull L) as H3. rewrite Ed in H3. simpl in H3.
  split; [apply shape_wk_pc|]. split.
  { unfold pc_ok. cbn [tpc set_pc]. split; [exact Ss|].
    eapply wk_at_set_stable; eauto. right; auto. }
  pcconst Hpc HG. fin_ginv.
Qed.

Lemma exec_lock gl t w d O P S W C F :
  match tpc t with PLockSpin | PLockHard | PLockSoft | PLockUndo | PLockClear => True | _ => False end ->
  pc_ok t (Lock w d) -> P <= W -> sginv gl t O P S W C F ->
  let r := exec gl t (Lock w d) in
  same_shape t (r_t r) /\ pc_ok (r_t r) (Lock w d) /\ sginv (r_g r) (r_t r) O P S W C F.
Proof.
  intros Hp Pk HP HG r. subst r.
  destruct (tpc t) eqn:Hpc; try contradiction; unfold pc_ok in Pk; rewrite Hpc in Pk;
    unfold exec; rewrite Hpc; cbn [target_sh].
  - (* spin *)
    destruct Pk as (At & Sw & Ew). pose proof (wfull_counts _ _ Ew) as G.
    assert (Hd : data gl = Live) by (eapply sginv_data_live; eauto; lia).
    rewrite (touch_live _ Hd). cbn iota beta.
    destruct (lock gl) eqn:El; cbn [r_t r_g].
    + split; [apply same_shape_refl|]. split; [unfold pc_ok; rewrite Hpc; auto|]. exact HG.
    + split; [apply same_shape_set_pc|]. split; [unfold pc_ok; cbn [tpc set_pc]; auto|].
      pcconst Hpc HG. fin_ginv. rewrite El in *. lia.
  - (* add hard *)
    destruct Pk as (At & Sw & Ew). pose proof (wfull_counts _ _ Ew) as G.
    pose proof At as (L & Ed & _).
    assert (Hd : data gl = Live) by (eapply sginv_data_live; eauto; lia).
    rewrite (touch_live _ Hd). cbn iota beta.
    pose proof (probes_at _ _ _ At) as Pt. simpl in Pt.
    pcconst Hpc HG.
    assert (HW : W = 0 /\ P = 0) by (destruct HG as (_ & _ & X & _); destruct (lock gl); lia).
    destruct HW as (-> & ->).
    destruct (N.ltb_spec 0 (hard gl)) as [Pos|Zero]; cbn [r_t r_g].
    + pose proof (own_set t d SHard L) as H1. pose proof (ssoft_set t d SHard L) as H3.
      pose proof (probes_at _ _ _ (sh_at_set t d SRaw SHard At)) as H2.
      rewrite Ed in *. simpl in H1, H2, H3.
      split; [apply shape_sh_pc|]. split.
      { unfold pc_ok. cbn [tpc set_pc]. split; [exact (sh_at_set t d SRaw SHard At)|]. auto. }
      fin_ginv.
    + pose proof (own_set t d SProbe L) as H1. pose proof (ssoft_set t d SProbe L) as H3.
      pose proof (probes_at _ _ _ (sh_at_set t d SRaw SProbe At)) as H2.
      rewrite Ed in *. simpl in H1, H2, H3.
      split; [apply shape_sh_pc|]. split.
      { unfold pc_ok. cbn [tpc set_pc]. split; [exact (sh_at_set t d SRaw SProbe At)|]. auto. }
      fin_ginv.
  - (* add soft *)
    destruct Pk as (At & Sw & Ew). pose proof (wfull_counts _ _ Ew) as G.
    pose proof At as (L & Ed & _).
    assert (Hd : data gl = Live) by (eapply sginv_data_live; eauto; lia).
    rewrite (touch_live _ Hd). cbn iota beta. cbn [r_t r_g].
    pose proof (own_set t d SFull L) as H1. pose proof (ssoft_set t d SFull L) as H3.
    pose proof (probes_at _ _ _ At) as Pt.
    pose proof (probes_at _ _ _ (sh_at_set t d SHard SFull At)) as H2.
    rewrite Ed in *. simpl in H1, H2, H3, Pt.
    split; [apply shape_sh_pc|]. split.
    { unfold pc_ok. cbn [tpc set_pc]. split; [left; exact (sh_at_set t d SHard SFull At)|]. auto. }
    pcconst Hpc HG. fin_ginv.
  - (* undo *)
    destruct Pk as (At & Sw & Ew). pose proof (wfull_counts _ _ Ew) as G.
    pose proof At as (L & Ed & _).
    assert (Hd : data gl = Live) by (eapply sginv_data_live; eauto; lia).
    rewrite (touch_live _ Hd). cbn iota beta.
    pose proof (own_set t d SNull L) as H1. pose proof (ssoft_set t d SNull L) as H3.
    pose proof (probes_at _ _ _ At) as Pt.
    pose proof (probes_at _ _ _ (sh_at_set t d SProbe SNull At)) as H2.
    rewrite Ed in *. simpl in H1, H2, H3, Pt.
    pcconst Hpc HG.
    assert (Hh : hard gl = N.of_nat (O + own t + (P + probes t))) by (destruct HG; auto).
    unfold dec. destruct (N.eqb_spec (hard gl) 0) as [Z|NZ]; [lia|]. cbn [r_t r_g].
    split; [apply shape_sh_pc|]. split.
    { unfold pc_ok. cbn [tpc set_pc]. split; [right; exact (sh_at_set t d SProbe SNull At)|]. auto. }
    fin_ginv.
  - (* flag clear *)
    destruct Pk as (At & Sw & Ew). pose proof (wfull_counts _ _ Ew) as G.
    assert (Hd : data gl = Live) by (eapply sginv_data_live; eauto; lia).
    rewrite (touch_live _ Hd). cbn iota beta. cbn [r_t r_g].
    split; [apply same_shape_set_pc|]. split.
    { unfold pc_ok. cbn [tpc set_pc]. split; auto.
      destruct At as [At|At]; eapply sh_at_stable; eauto; [right|left]; auto. }
    pcconst Hpc HG. fin_ginv. destruct (lock gl); lia.
Qed.

(** every atomic step of a call in progress *)
Lemma exec_ok gl t o O P S W C F :
  op_wf t o -> tpc t <> PIdle -> pc_ok t o -> P <= W ->
  sginv gl t O P S W C F ->
  let r := exec gl t o in
  same_shape t (r_t r) /\ pc_ok (r_t r) o /\ sginv (r_g r) (r_t r) O P S W C F.
Proof.
  intros Wf Np Pk HP HG. destruct (tpc t) eqn:Hpc; try congruence.
  - (* PResetHard *)
    assert (X : exists d, target_sh o = d /\ sh_at t d SFull /\ wk_stable t /\
                match o with Share _ _ | Lock _ _ | Reset _ => True | _ => False end).
    { unfold pc_ok in Pk. rewrite Hpc in Pk. destruct o; try contradiction; simpl; eexists; repeat split; try apply Pk. }
    destruct X as (d & Ht & At & Sw & Ho).
    destruct (exec_reset_hard gl t o d O P S W C F Hpc (proj1 At) Ht At Sw HP HG) as (Sh & At' & Sw' & Hp' & HG').
    intros r. split; [exact Sh|]. split; [|exact HG'].
    unfold pc_ok. fold r in Hp'. destruct Hp' as [E|E]; rewrite E;
      destruct o; try contradiction; simpl in Ht; subst; auto.
  - (* PClear *)
    assert (X : exists d, sh_at t d SSoft /\ wk_stable t /\
                match o with Share _ d' | Lock _ d' | Reset d' => d' = d | _ => False end).
    { unfold pc_ok in Pk. rewrite Hpc in Pk. destruct o; try contradiction; simpl; eexists; repeat split; try apply Pk. }
    destruct X as (d & At & Sw & Ho).
    destruct (exec_clear gl t o d O P S W C F Hpc At Sw HG) as (Et & _ & _ & HG').
    intros r. subst r. split; [rewrite Et; apply same_shape_set_pc|]. split; [|exact HG'].
    rewrite Et. unfold pc_ok. cbn [tpc set_pc]. destruct o; try contradiction; subst; auto.
  - (* PResetSoft *)
    unfold pc_ok in Pk. rewrite Hpc in Pk.
    destruct o as [s d|d|s d|w d|d|d]; try contradiction; destruct Pk as (A & B).
    + apply (exec_reset_soft_sh gl t (Share s d) d); simpl; auto.
    + apply (exec_reset_soft_sh gl t (Reset d) d); simpl; auto.
    + apply (exec_reset_soft_wk gl t (WeakFrom s d) d); simpl; auto.
    + apply (exec_reset_soft_sh gl t (Lock w d) d); simpl; auto.
    + apply (exec_reset_soft_wk gl t (WeakReset d) d); simpl; auto.
  - (* PFree *)
    destruct (exec_free gl t o O P S W C F Hpc Wf Pk HG) as (_ & _ & X). exact X.
  - (* PShareHard *)
    destruct o; try (unfold pc_ok in Pk; rewrite Hpc in Pk; contradiction).
    apply exec_share_hard; auto.
  - destruct o; try (unfold pc_ok in Pk; rewrite Hpc in Pk; contradiction).
    apply exec_share_soft; auto.
  - destruct o; try (unfold pc_ok in Pk; rewrite Hpc in Pk; contradiction).
    apply exec_weak_soft; auto.
  - destruct o; try (unfold pc_ok in Pk; rewrite Hpc in Pk; contradiction).
    apply exec_lock; auto. rewrite Hpc; auto.
  - destruct o; try (unfold pc_ok in Pk; rewrite Hpc in Pk; contradiction).
    apply exec_lock; auto. rewrite Hpc; auto.
  - destruct o; try (unfold pc_ok in Pk; rewrite Hpc in Pk; contradiction).
    apply exec_lock; auto. rewrite Hpc; auto.
  - destruct o; try (unfold pc_ok in Pk; rewrite Hpc in Pk; contradiction).
    apply exec_lock; auto. rewrite Hpc; auto.
  - destruct o; try (unfold pc_ok in Pk; rewrite Hpc in Pk; contradiction).
    apply exec_lock; auto. rewrite Hpc; auto.
Qed.

Lemma Forall_op_wf_shape t t' l : same_shape t t' -> Forall (op_wf t) l -> Forall (op_wf t') l.
Proof. intros Sh H. eapply Forall_impl; [|exact H]. intros o. apply op_wf_shape; auto. Qed.

(** popping the finished call *)
Lemma finish_ok gl t o rest O P S W C F :
  prog t = o :: rest -> Forall (op_wf t) (prog t) -> pc_ok t o ->
  sginv gl t O P S W C F ->
  thread_ok (fst (finish t o)) /\ sginv gl (fst (finish t o)) O P S W C F.
Proof.
  intros Ep Wf Pk HG. unfold finish. destruct (tpc t) eqn:Hpc; cbn [fst];
    try (split; [unfold thread_ok; rewrite Ep; split; [rewrite <- Ep; exact Wf|exact Pk]|exact HG]).
  unfold pc_ok in Pk. rewrite Hpc in Pk. destruct Pk as (Ss & Sw).
  split.
  - unfold thread_ok. cbn [prog tpc]. rewrite Ep in *. cbn [tl]. inversion Wf as [|? ? _ Wr]; subst.
    split; [exact Wr|]. destruct rest as [|o' r']; [auto|]. unfold pc_ok. cbn [tpc]. auto.
  - unfold sginv, win, clr, fre in *. rewrite Hpc in HG. cbn [tpc]. exact HG.
Qed.

Lemma s_null_true o : s_null o = true -> o = SNull.
Proof. destruct o; simpl; congruence. Qed.
Lemma w_null_true o : w_null o = true -> o = WNull.
Proof. destruct o; simpl; congruence. Qed.
Lemma stable_s_nonnull o : stable_s o -> s_null o = false -> o = SFull.
Proof. intros [->| ->]; simpl; congruence. Qed.
Lemma stable_w_nonnull o : stable_w o -> w_null o = false -> o = WFull.
Proof. intros [->| ->]; simpl; congruence. Qed.

(** start of a call: thread-private, changes no counter *)
Lemma begin_ok t o :
  op_wf t o -> sh_stable t -> wk_stable t -> tpc t = PIdle ->
  (forall i, o <> Get i) ->
  let t1 := begin t o in
  same_shape t t1 /\ pc_ok t1 o /\
  own t1 = own t /\ probes t1 = probes t /\ ssoft t1 = ssoft t /\ wsoft t1 = wsoft t /\
  win t1 = 0 /\ clr t1 = 0 /\ fre t1 = 0.
Proof.
  intros Wf Ss Sw Hpc NG.
  assert (ShC : forall d, d < length (sh t) -> s_null (get_sh t d) = false ->
                 same_shape t (set_pc t PResetHard) /\ sh_at (set_pc t PResetHard) d SFull).
  { intros d L E. split; [apply same_shape_set_pc|]. split; [exact L|]. split; [|intros; apply Ss].
    change (get_sh t d = SFull). apply stable_s_nonnull; auto. }
  assert (WkC : forall d, d < length (wk t) -> w_null (get_wk t d) = false ->
                 same_shape t (set_pc t PResetSoft) /\ wk_at (set_pc t PResetSoft) d WFull).
  { intros d L E. split; [apply same_shape_set_pc|]. split; [exact L|]. split; [|intros; apply Sw].
    change (get_wk t d = WFull). apply stable_w_nonnull; auto. }
  destruct o as [s d|d|s d|w d|d|i]; cbn [begin].
  - destruct (s_null (get_sh t d)) eqn:E.
    + apply enter_ok; auto. apply s_null_true; auto.
    + destruct (ShC d (proj2 Wf) E) as (A & B). split; [exact A|]. split; [unfold pc_ok; cbn [tpc set_pc]; auto|].
      autorewrite with cnt. cbn. auto 10.
  - destruct (s_null (get_sh t d)) eqn:E.
    + apply enter_ok; auto.
    + destruct (ShC d Wf E) as (A & B). split; [exact A|]. split; [unfold pc_ok; cbn [tpc set_pc]; auto|].
      autorewrite with cnt. cbn. auto 10.
  - destruct (w_null (get_wk t d)) eqn:E.
    + apply enter_ok; auto. apply w_null_true; auto.
    + destruct (WkC d (proj2 Wf) E) as (A & B). split; [exact A|]. split; [unfold pc_ok; cbn [tpc set_pc]; auto|].
      autorewrite with cnt. cbn. auto 10.
  - destruct (s_null (get_sh t d)) eqn:E.
    + apply enter_ok; auto. apply s_null_true; auto.
    + destruct (ShC d (proj2 Wf) E) as (A & B). split; [exact A|]. split; [unfold pc_ok; cbn [tpc set_pc]; auto|].
      autorewrite with cnt. cbn. auto 10.
  - destruct (w_null (get_wk t d)) eqn:E.
    + apply enter_ok; auto.
    + destruct (WkC d Wf E) as (A & B). split; [exact A|]. split; [unfold pc_ok; cbn [tpc set_pc]; auto|].
      autorewrite with cnt. cbn. auto 10.
  - exfalso. eapply NG; eauto.
Qed.

(** * One step of one thread preserves the thread's local invariant and the
      global invariant on the totals *)
Lemma exec_finish_ok gl t o rest O P S W C F :
  prog t = o :: rest -> Forall (op_wf t) (prog t) -> tpc t <> PIdle -> pc_ok t o -> P <= W ->
  sginv gl t O P S W C F ->
  let r := exec gl t o in
  thread_ok (fst (finish (r_t r) o)) /\ sginv (r_g r) (fst (finish (r_t r) o)) O P S W C F.
Proof.
  intros Ep Wf Np Pk HP HG r.
  assert (Wo : op_wf t o) by (rewrite Ep in Wf; inversion Wf; auto).
  destruct (exec_ok gl t o O P S W C F Wo Np Pk HP HG) as (Sh & Pk' & HG'). fold r in Sh, Pk', HG'.
  pose proof Sh as (_ & _ & Ep').
  apply (finish_ok (r_g r) (r_t r) o rest); auto.
  - congruence.
  - rewrite Ep'. eapply Forall_op_wf_shape; eauto.
Qed.

Lemma step_thread_inv gl t ts O P S W C F :
  thread_ok t -> P <= W -> sginv gl t O P S W C F ->
  step_thread gl t = Some ts ->
  thread_ok (ts_t ts) /\ sginv (ts_g ts) (ts_t ts) O P S W C F.
Proof.
  intros (Wf & Ok) HP HG Hs. unfold step_thread in Hs.
  destruct (prog t) as [|o rest] eqn:Ep; [discriminate|].
  assert (Wo : op_wf t o) by (inversion Wf; auto).
  assert (Wf' : Forall (op_wf t) (prog t)) by (rewrite Ep; exact Wf).
  destruct (tpc t) eqn:Hpc.
  2-13: (assert (Np : tpc t <> PIdle) by congruence;
         pose proof (exec_finish_ok gl t o rest O P S W C F Ep Wf' Np Ok HP HG) as X; cbv zeta in X;
         destruct (finish (r_t (exec gl t o)) o) as (t2 & dn) eqn:Ef; injection Hs as <-; cbn [ts_t ts_g fst] in *; exact X).
  (* PIdle *)
  pose proof Ok as Ok'. unfold pc_ok in Ok'. rewrite Hpc in Ok'. destruct Ok' as (Ss & Sw).
  assert (FIN : forall g', sginv g' t O P S W C F ->
                thread_ok (mkT (sh t) (wk t) rest PIdle) /\ sginv g' (mkT (sh t) (wk t) rest PIdle) O P S W C F).
  { intros g' HG'. split.
    - unfold thread_ok. cbn [prog tpc]. inversion Wf as [|? ? _ Wr]; subst. split; [exact Wr|].
      destruct rest; [auto|]. unfold pc_ok; cbn [tpc]; auto.
    - unfold sginv, win, clr, fre in *. rewrite Hpc in HG'. exact HG'. }
  destruct o as [s d|d|s d|w d|d|i].
  6: { (* Get *)
    destruct (s_null (get_sh t i)) eqn:En.
    - injection Hs as <-. cbn [ts_t ts_g]. apply FIN; auto.
    - assert (Ei : get_sh t i = SFull) by (apply stable_s_nonnull; auto).
      destruct (full_counts _ _ Ei) as (G1 & G2).
      assert (Hd : data gl = Live) by (eapply sginv_data_live; eauto; lia).
      rewrite (touch_live _ Hd) in Hs. injection Hs as <-. cbn [ts_t ts_g]. apply FIN; auto. }
  all: match type of Hs with context [begin _ ?o] =>
    assert (NG : forall i, o <> Get i) by (intros; discriminate);
    destruct (begin_ok t o Wo Ss Sw Hpc NG) as (Sh & Pk & Eo & Epr & Es & Ews & Ew & Ec & Ef);
    set (t1 := begin t o) in *;
    assert (HG1 : sginv gl t1 O P S W C F)
      by (unfold sginv in *; rewrite Eo, Epr, Es, Ews, Ew, Ec, Ef; unfold win, clr, fre in HG; rewrite Hpc in HG; exact HG);
    pose proof Sh as (_ & _ & Ep1);
    assert (Wf1 : Forall (op_wf t1) (prog t1)) by (rewrite Ep1, Ep; eapply Forall_op_wf_shape; eauto);
    assert (Ep1' : prog t1 = o :: rest) by congruence;
    destruct (tpc t1) eqn:Hpc1;
    [ pose proof (finish_ok gl t1 o rest O P S W C F Ep1' Wf1 Pk HG1) as X;
      destruct (finish t1 o) as (t2 & dn) eqn:Efin; injection Hs as <-; cbn [ts_t ts_g fst] in *; exact X
    | .. ];
    (pose proof (exec_finish_ok gl t1 o rest O P S W C F Ep1' Wf1 ltac:(congruence) Pk HP HG1) as X; cbv zeta in X;
     destruct (finish (r_t (exec gl t1 o)) o) as (t2 & dn) eqn:Efin; injection Hs as <-; cbn [ts_t ts_g fst] in *; exact X)
  end.
Qed.

(* ------------------------------------------------------------------ *)
(** * The inductive invariant of the whole system *)

Definition tot (f : thread -> nat) (ts : list thread) : nat := nsum (map f ts).

Lemma tot_mid f l1 t l2 : tot f (l1 ++ t :: l2) = tot f (l1 ++ l2) + f t.
Proof. unfold tot. rewrite !map_app, !nsum_app. simpl. unfold nsum at 2. simpl. fold (nsum (map f l2)). lia. Qed.

Lemma tot_le f h l : Forall (fun t => f t <= h t) l -> tot f l <= tot h l.
Proof.
  induction 1 as [|x l Hx _ IH]; [auto|]. unfold tot, nsum in *; simpl. lia.
Qed.

Lemma tot_zero f l : Forall (fun t => f t = 0) l -> tot f l = 0.
Proof. induction 1 as [|x l Hx _ IH]; [auto|]. unfold tot, nsum in *; simpl. lia. Qed.

Lemma tot_ge f l i t : nth_error l i = Some t -> f t <= tot f l.
Proof.
  intros H. destruct (nth_split_upd _ _ _ H) as (l1 & l2 & -> & _). rewrite tot_mid. lia.
Qed.

Lemma nth_split_len {A} (l : list A) i t :
  nth_error l i = Some t -> exists l1 l2, l = l1 ++ t :: l2 /\ length l1 = i.
Proof.
  revert i; induction l as [|y r IH]; intros [|i] H; simpl in *; try discriminate.
  - injection H as ->. exists [], r. auto.
  - destruct (IH _ H) as (l1 & l2 & -> & E). exists (y :: l1), l2. simpl. auto.
Qed.

Lemma tot_ge2 f l i j a b :
  nth_error l i = Some a -> nth_error l j = Some b -> i <> j -> f a + f b <= tot f l.
Proof.
  intros Hi Hj N. destruct (nth_split_len _ _ _ Hi) as (l1 & l2 & -> & Li). rewrite tot_mid.
  assert (X : exists k, nth_error (l1 ++ l2) k = Some b).
  { subst i. destruct (Nat.lt_ge_cases j (length l1)) as [L|G].
    - exists j. rewrite nth_error_app1 in Hj by auto. rewrite nth_error_app1 by auto. auto.
    - exists (j - 1). rewrite nth_error_app2 in Hj by lia. rewrite nth_error_app2 by lia.
      destruct (j - length l1) as [|k] eqn:E; [lia|]. simpl in Hj.
      replace (j - 1 - length l1) with k by lia. auto. }
  destruct X as (k & Hk). pose proof (tot_ge f _ _ _ Hk). lia.
Qed.

Definition conc_inv (st : state) : Prop :=
  Forall thread_ok (ths st) /\
  ginv (g st) (tot own (ths st)) (tot probes (ths st)) (tot softc (ths st))
       (tot win (ths st)) (tot clr (ths st)) (tot fre (ths st)).

Lemma thread_ok_probes t : thread_ok t -> probes t <= win t.
Proof.
  intros (_ & Ok). destruct (prog t) as [|o r].
  - destruct Ok as (_ & Ss & _). rewrite probes_stable; auto. lia.
  - unfold pc_ok in Ok. unfold win.
    destruct (tpc t); destruct o; try contradiction;
      repeat match goal with H : _ /\ _ |- _ => destruct H end;
      try (rewrite probes_stable by assumption; lia);
      try match goal with H : sh_at _ _ _ |- _ => rewrite (probes_at _ _ _ H); simpl; lia end.
    match goal with H : _ \/ _ |- _ => destruct H as [H|H]; rewrite (probes_at _ _ _ H); simpl; lia end.
Qed.

(** * Every step of every thread preserves the invariant *)
Theorem conc_inv_step st tid st' :
  conc_inv st -> step st tid = Some st' -> conc_inv st'.
Proof.
  intros (Ft & HG) Hs. unfold step in Hs.
  destruct (nth_error (ths st) tid) as [t|] eqn:Et; [|discriminate].
  destruct (step_thread (g st) t) as [ts|] eqn:Es; [|discriminate].
  injection Hs as <-. unfold conc_inv. cbn [ths g].
  destruct (nth_split_upd _ _ _ Et) as (l1 & l2 & El & Eu). rewrite Eu. rewrite El in *. clear Eu El.
  rewrite !tot_mid in *.
  assert (Fo : Forall thread_ok (l1 ++ l2)).
  { apply Forall_app in Ft. destruct Ft as (A & B). inversion B; subst. apply Forall_app; auto. }
  assert (Tt : thread_ok t).
  { apply Forall_app in Ft. destruct Ft as (_ & B). inversion B; auto. }
  assert (HP : tot probes (l1 ++ l2) <= tot win (l1 ++ l2)).
  { apply tot_le. eapply Forall_impl; [|exact Fo]. apply thread_ok_probes. }
  destruct (step_thread_inv (g st) t ts _ _ _ _ _ _ Tt HP HG Es) as (Tk & HG').
  split; [|exact HG'].
  apply Forall_app in Fo. destruct Fo as (A & B). apply Forall_app; split; auto.
Qed.

(** ... hence after every schedule *)
Theorem conc_inv_run sched : forall st, conc_inv st -> conc_inv (run st sched).
Proof.
  induction sched as [|tid r IH]; intros st H; simpl; auto.
  destruct (step st tid) as [st'|] eqn:E; auto. apply IH. eapply conc_inv_step; eauto.
Qed.

(** * Initial configurations *)
Definition thread_init_ok (t : thread) : Prop :=
  tpc t = PIdle /\ sh_stable t /\ wk_stable t /\ Forall (op_wf t) (prog t).

Lemma thread_init_thread_ok t : thread_init_ok t -> thread_ok t.
Proof.
  intros (Hp & Ss & Sw & Wf). split; auto. destruct (prog t); auto. unfold pc_ok. rewrite Hp. auto.
Qed.

Lemma tot_hardc ts : tot hardc ts = tot own ts + tot probes ts.
Proof.
  induction ts as [|t r IH]; auto. unfold tot, nsum in *; simpl. rewrite hardc_split. lia.
Qed.

Theorem conc_inv_init ts : Forall thread_init_ok ts -> conc_inv (init_state ts).
Proof.
  intros H. split; cbn [ths g init_state].
  - eapply Forall_impl; [|exact H]. apply thread_init_thread_ok.
  - assert (Zp : tot probes ts = 0).
    { apply tot_zero. eapply Forall_impl; [|exact H]. intros t (_ & Ss & _). apply probes_stable; auto. }
    assert (Zw : tot win ts = 0 /\ tot clr ts = 0 /\ tot fre ts = 0).
    { repeat split; apply tot_zero; (eapply Forall_impl; [|exact H]); intros t (Hp & _);
        unfold win, clr, fre; rewrite Hp; auto. }
    destruct Zw as (Zw & Zc & Zf).
    fold (tot hardc ts). fold (tot softc ts). rewrite tot_hardc, Zp, Zw, Zc, Zf.
    unfold ginv; cbn [hard soft lock mem data err]. rewrite Nat.add_0_r.
    repeat split; auto; try lia; destruct (tot own ts); destruct (tot softc ts); intros; try lia; try discriminate.
Qed.

Lemma nth_repeat_in {A} (a d : A) n i : i < n -> nth i (repeat a n) d = a.
Proof. revert i; induction n as [|n IH]; intros [|i] H; simpl; try lia; auto. apply IH; lia. Qed.

Lemma repeat_nth_stable_s nf ne i : stable_s (nth i (repeat SFull nf ++ repeat SNull ne) SNull).
Proof.
  destruct (Nat.lt_ge_cases i nf) as [L|G].
  - rewrite app_nth1 by (rewrite repeat_length; auto). right. apply nth_repeat_in; auto.
  - rewrite app_nth2 by (rewrite repeat_length; auto). left.
    destruct (Nat.lt_ge_cases (i - length (repeat SFull nf)) ne).
    + apply nth_repeat.
    + apply nth_overflow. rewrite repeat_length; auto.
Qed.
Lemma repeat_nth_stable_w nf ne i : stable_w (nth i (repeat WFull nf ++ repeat WNull ne) WNull).
Proof.
  destruct (Nat.lt_ge_cases i nf) as [L|G].
  - rewrite app_nth1 by (rewrite repeat_length; auto). right. apply nth_repeat_in; auto.
  - rewrite app_nth2 by (rewrite repeat_length; auto). left.
    destruct (Nat.lt_ge_cases (i - length (repeat WFull nf)) ne).
    + apply nth_repeat.
    + apply nth_overflow. rewrite repeat_length; auto.
Qed.

(** the configurations built by [mk_thread] (those the drivers set up) *)
Lemma mk_thread_init_ok nf ne wf we p :
  Forall (op_wf (mk_thread nf ne wf we [])) p -> thread_init_ok (mk_thread nf ne wf we p).
Proof.
  intros H. split; [reflexivity|]. split; [intros i; apply repeat_nth_stable_s|].
  split; [intros i; apply repeat_nth_stable_w|]. exact H.
Qed.

(* ------------------------------------------------------------------ *)
(** * Event ledger (holds unconditionally, for every state and schedule) *)

Definition lv (m : life) : nat := match m with Live => 1 | Dead => 0 end.
Definition is_clear (e : event) : bool := match e with EClear => true | _ => false end.
Definition is_freemem (e : event) : bool := match e with EFreeMem => true | _ => false end.
Definition is_freedata (e : event) : bool := match e with EFreeData => true | _ => false end.
(** access to a freed bookkeeping block, second clear/free, counter underflow *)
Definition is_bad (e : event) : bool :=
  match e with EUaf | EDouble | EUnderflow => true | _ => false end.
Definition nev (p : event -> bool) (evs : list event) : nat := length (filter p evs).
Definition log_count (p : event -> bool) (l : list info) : nat := nsum (map (fun i => nev p (i_evs i)) l).

Lemma log_count_snoc p l i : log_count p (l ++ [i]) = log_count p l + nev p (i_evs i).
Proof. unfold log_count. rewrite map_app, nsum_app. unfold nsum; simpl. lia. Qed.

Definition ledger (gl : global) (evs : list event) (gl' : global) : Prop :=
  nev is_clear evs + lv (mem gl') = lv (mem gl) /\
  nev is_freemem evs + lv (mem gl') = lv (mem gl) /\
  nev is_freedata evs + lv (data gl') = lv (data gl) /\
  (err gl' = false -> err gl = false /\ nev is_bad evs = 0).

Ltac case_ifs :=
  repeat match goal with
  | |- context [if ?b then _ else _] => destruct b
  end.

Lemma exec_ledger gl t o : ledger gl (r_evs (exec gl t o)) (r_g (exec gl t o)).
Proof.
  unfold ledger, exec, touch, dec.
  destruct (tpc t); destruct (data gl) eqn:Ed; destruct (mem gl) eqn:Em; destruct (err gl) eqn:Ee;
    cbn -[N.eqb N.ltb N.sub N.add]; case_ifs; cbn -[N.eqb N.ltb N.sub N.add];
    rewrite ?Ed, ?Em, ?Ee; cbn; repeat split; auto; try discriminate; intros; try discriminate.
Qed.

Lemma ledger_refl gl : ledger gl [] gl.
Proof. unfold ledger; cbn. repeat split; auto. Qed.

Lemma step_thread_ledger gl t ts :
  step_thread gl t = Some ts -> ledger gl (ts_evs ts) (ts_g ts).
Proof.
  unfold step_thread. destruct (prog t) as [|o rest]; [discriminate|].
  assert (EX : forall t0 ts0, (let r := exec gl t0 o in
                 let '(t2, dn) := finish (r_t r) o in
                 Some (mkTS (r_g r) t2 (r_lab r) (r_ret r) (r_evs r) dn)) = Some ts0 ->
               ledger gl (ts_evs ts0) (ts_g ts0)).
  { intros t0 ts0. cbv zeta. destruct (finish (r_t (exec gl t0 o)) o). intros [= <-]. cbn [ts_evs ts_g].
    apply exec_ledger. }
  destruct (tpc t); try apply EX.
  destruct o; try (destruct (tpc (begin t _)); try apply EX;
                   destruct (finish _ _); intros [= <-]; apply ledger_refl).
  destruct (s_null (get_sh t i)).
  - intros [= <-]. apply ledger_refl.
  - unfold touch. destruct (data gl) eqn:Ed; intros [= <-]; cbn [ts_evs ts_g].
    + apply ledger_refl.
    + unfold ledger; cbn. rewrite Ed. repeat split; auto; discriminate.
Qed.

Lemma step_ledger st tid st' :
  step st tid = Some st' ->
  exists i, log st' = log st ++ [i] /\ i_tid i = tid /\ ledger (g st) (i_evs i) (g st').
Proof.
  unfold step. destruct (nth_error (ths st) tid) as [t|]; [|discriminate].
  destruct (step_thread (g st) t) as [ts|] eqn:E; [|discriminate]. intros [= <-].
  eexists; split; [reflexivity|]. split; [reflexivity|]. cbn [i_evs g]. apply step_thread_ledger with t; auto.
Qed.

(** over a whole schedule: events logged + what is still alive = what was alive *)
Lemma run_ledger sched : forall st,
  let st' := run st sched in
  log_count is_clear (log st') + lv (mem (g st')) = log_count is_clear (log st) + lv (mem (g st)) /\
  log_count is_freemem (log st') + lv (mem (g st')) = log_count is_freemem (log st) + lv (mem (g st)) /\
  log_count is_freedata (log st') + lv (data (g st')) = log_count is_freedata (log st) + lv (data (g st)) /\
  (err (g st') = false -> err (g st) = false /\ log_count is_bad (log st') = log_count is_bad (log st)).
Proof.
  induction sched as [|tid r IH]; intros st; cbn [run]; [repeat split; auto|].
  destruct (step st tid) as [s1|] eqn:E; [|apply IH].
  destruct (step_ledger _ _ _ E) as (i & El & _ & (L1 & L2 & L3 & L4)).
  specialize (IH s1). cbv zeta in *. destruct IH as (I1 & I2 & I3 & I4).
  rewrite El, !log_count_snoc in *. repeat split; try lia.
  - apply I4 in H. destruct H as (H & _). apply L4 in H. tauto.
  - pose proof H as H'. apply I4 in H'. destruct H' as (H1 & H2). apply L4 in H1. lia.
Qed.

(** a thread that has let go of everything *)
Definition released (t : thread) : Prop :=
  prog t = [] /\ (forall i, get_sh t i = SNull) /\ (forall i, get_wk t i = WNull).

Lemma released_zero t : thread_ok t -> released t ->
  own t = 0 /\ softc t = 0 /\ clr t = 0 /\ fre t = 0.
Proof.
  intros (_ & Ok) (Ep & Hs & Hw). rewrite Ep in Ok. destruct Ok as (Hp & _).
  unfold clr, fre. rewrite Hp. repeat split; auto.
  - apply nsum_map_zero. intros x Hx. destruct (In_nth _ _ SNull Hx) as (i & _ & <-).
    specialize (Hs i). unfold get_sh in Hs. rewrite Hs. auto.
  - rewrite softc_split. unfold ssoft, wsoft. rewrite !nsum_map_zero; auto.
    + intros x Hx. destruct (In_nth _ _ WNull Hx) as (i & _ & <-).
      specialize (Hw i). unfold get_wk in Hw. rewrite Hw. auto.
    + intros x Hx. destruct (In_nth _ _ SNull Hx) as (i & _ & <-).
      specialize (Hs i). unfold get_sh in Hs. rewrite Hs. auto.
Qed.

Lemma all_released_dead st :
  conc_inv st -> Forall released (ths st) -> mem (g st) = Dead /\ data (g st) = Dead.
Proof.
  intros (Ft & HG) Hr.
  assert (Z : tot own (ths st) = 0 /\ tot softc (ths st) = 0 /\ tot clr (ths st) = 0 /\ tot fre (ths st) = 0).
  { repeat split; apply tot_zero; rewrite Forall_forall in *; intros t Ht;
      destruct (released_zero t (Ft t Ht) (Hr t Ht)) as (A & B & C & D); auto. }
  destruct Z as (Z1 & Z2 & Z3 & Z4). rewrite Z1, Z2, Z3, Z4 in HG.
  destruct HG as (_ & _ & _ & _ & M1 & _ & _ & _ & _ & D1 & _).
  split; [destruct (mem (g st)); auto; specialize (M1 eq_refl); lia
         |destruct (data (g st)); auto; specialize (D1 eq_refl); lia].
Qed.

(* ------------------------------------------------------------------ *)
(** * Which step a thread takes next *)

Definition lab_of_pc (p : pc) : label :=
  match p with
  | PIdle => LNop | PResetHard => LSubHard | PClear => LClear | PResetSoft => LSubSoft
  | PFree => LFreeData | PShareHard => LAddHard | PShareSoft => LAddSoft | PWeakSoft => LAddSoft
  | PLockSpin => LTas | PLockHard => LAddHard | PLockSoft => LAddSoft | PLockUndo => LSubHard
  | PLockClear => LFlagClear
  end.

Lemma exec_lab gl t o : r_lab (exec gl t o) = lab_of_pc (tpc t).
Proof.
  unfold exec, touch, dec. destruct (tpc t); destruct (data gl); destruct (mem gl);
    cbn -[N.eqb N.ltb N.sub N.add]; case_ifs; reflexivity.
Qed.

(** the thread at the moment it performs its step: a call that has not
    started performs its thread-private prelude first *)
Definition started (t : thread) (o : op) : thread :=
  match tpc t with PIdle => begin t o | _ => t end.

(** inversion of [step_thread] *)
Lemma step_thread_cases gl t ts :
  step_thread gl t = Some ts ->
  exists o rest, prog t = o :: rest /\
  ((exists i, tpc t = PIdle /\ o = Get i /\ ts_lab ts = LGet (negb (s_null (get_sh t i))) /\
              ts_t ts = mkT (sh t) (wk t) rest PIdle /\
              ts_g ts = (if s_null (get_sh t i) then gl else fst (touch gl))) \/
   ((forall i, tpc t = PIdle -> o <> Get i) /\
    let t1 := started t o in
    (tpc t1 = PIdle /\ ts_lab ts = LNop /\ ts_g ts = gl /\ ts_evs ts = [] /\ ts_t ts = fst (finish t1 o)) \/
    (tpc t1 <> PIdle /\ ts_lab ts = lab_of_pc (tpc t1) /\
     ts_g ts = r_g (exec gl t1 o) /\ ts_evs ts = r_evs (exec gl t1 o) /\ ts_ret ts = r_ret (exec gl t1 o) /\
     ts_t ts = fst (finish (r_t (exec gl t1 o)) o)))).
Proof.
  unfold step_thread. destruct (prog t) as [|o rest]; [discriminate|]. intros H. exists o, rest. split; auto.
  assert (EX : forall t0, tpc t0 <> PIdle ->
               (let r := exec gl t0 o in
                 let '(t2, dn) := finish (r_t r) o in
                 Some (mkTS (r_g r) t2 (r_lab r) (r_ret r) (r_evs r) dn)) = Some ts ->
               tpc t0 <> PIdle /\ ts_lab ts = lab_of_pc (tpc t0) /\
     ts_g ts = r_g (exec gl t0 o) /\ ts_evs ts = r_evs (exec gl t0 o) /\ ts_ret ts = r_ret (exec gl t0 o) /\
     ts_t ts = fst (finish (r_t (exec gl t0 o)) o)).
  { intros t0 N0. cbv zeta. destruct (finish (r_t (exec gl t0 o)) o). intros [= <-]. cbn [ts_lab ts_g ts_evs ts_ret ts_t fst].
    rewrite exec_lab. repeat split; auto. }
  unfold started.
  remember (tpc t) as p eqn:Hpc. destruct p;
    try (right; split; [intros; discriminate|]; right; apply EX; [congruence|exact H]).
  destruct o as [s d|d|s d|w d|d|i].
  6: { left. exists i. split; auto. split; auto. destruct (s_null (get_sh t i)).
       - injection H as <-. auto.
       - destruct (touch gl) as (g1 & ev). injection H as <-. auto. }
  all: right; (split; [intros; discriminate|]); cbv zeta iota beta;
    match type of H with context [begin _ ?o] => remember (tpc (begin t o)) as q eqn:Hb in H; destruct q end;
    try (right; apply EX; [congruence|exact H]);
    left; destruct (finish _ _) eqn:Ef; injection H as <-; cbn [fst ts_lab ts_g ts_evs ts_t]; auto.
Qed.

Lemma pc_ok_softc t o : pc_ok t o -> tpc t <> PIdle -> tpc t <> PFree -> ssoft t + wsoft t >= 1.
Proof.
  intros Ok N1 N2. unfold pc_ok in Ok. destruct (tpc t); try congruence; destruct o; try contradiction;
    repeat match goal with H : _ /\ _ |- _ => destruct H end;
    repeat match goal with
    | H : sh_at _ ?d ?x |- _ => let L := fresh in let E := fresh in destruct H as (L & E & _);
         pose proof (ssoft_ge t d); pose proof (own_ge t d); rewrite E in *
    | H : wk_at _ ?d ?x |- _ => let L := fresh in let E := fresh in destruct H as (L & E & _);
         pose proof (wsoft_ge t d); rewrite E in *
    | H : get_sh _ ?s = SFull |- _ => pose proof (ssoft_ge t s); rewrite H in *; clear H
    | H : get_wk _ ?s = WFull |- _ => pose proof (wsoft_ge t s); rewrite H in *; clear H
    end; simpl in *; lia.
Qed.

(** the started thread: same counters, locally consistent *)
Lemma started_ok t o rest :
  thread_ok t -> prog t = o :: rest -> (forall i, tpc t = PIdle -> o <> Get i) ->
  let t1 := started t o in
  same_shape t t1 /\ pc_ok t1 o /\
  own t1 = own t /\ probes t1 = probes t /\ ssoft t1 = ssoft t /\ wsoft t1 = wsoft t /\
  win t1 = win t /\ clr t1 = clr t /\ fre t1 = fre t.
Proof.
  intros (Wf & Ok) Ep NG. rewrite Ep in *. unfold started.
  destruct (tpc t) eqn:Hpc; try (split; [apply same_shape_refl|]; repeat split; auto).
  pose proof Ok as Ok'. unfold pc_ok in Ok'. rewrite Hpc in Ok'. destruct Ok' as (Ss & Sw).
  assert (Wo : op_wf t o) by (inversion Wf; auto).
  destruct (begin_ok t o Wo Ss Sw Hpc (fun i => NG i eq_refl)) as (A & B & C & D & E & F & G & H & I).
  unfold win, clr, fre in *. rewrite Hpc. split; [exact A|]. repeat split; auto.
Qed.

(** what the label of the next step says about the thread *)
Lemma step_thread_access gl t ts :
  thread_ok t -> step_thread gl t = Some ts ->
  (access (ts_lab ts) = 4 -> fre t = 1) /\
  (access (ts_lab ts) = 3 -> clr t = 1) /\
  (access (ts_lab ts) = 2 -> own t >= 1) /\
  (access (ts_lab ts) >= 1 -> softc t + fre t >= 1).
Proof.
  intros Tk Hs. destruct (step_thread_cases _ _ _ Hs) as (o & rest & Ep & [(i & Hpc & -> & El & _)|(NG & Hc)]).
  - rewrite El. destruct (s_null (get_sh t i)) eqn:En; cbn; repeat split; intros; try lia.
    + destruct Tk as (_ & Ok). rewrite Ep in Ok. unfold pc_ok in Ok. rewrite Hpc in Ok.
      destruct Ok as (Ss & _). pose proof (stable_s_nonnull _ (Ss i) En) as E.
      destruct (full_counts _ _ E). lia.
    + destruct Tk as (_ & Ok). rewrite Ep in Ok. unfold pc_ok in Ok. rewrite Hpc in Ok.
      destruct Ok as (Ss & _). pose proof (stable_s_nonnull _ (Ss i) En) as E.
      destruct (full_counts _ _ E). rewrite softc_split. lia.
  - destruct (started_ok t o rest Tk Ep NG) as (Sh & Pk & Eo & _ & Es & Ews & _ & Ec & Ef).
    cbv zeta in Hc. set (t1 := started t o) in *.
    destruct Hc as [(_ & -> & _)|(Np & -> & _)]; [cbn; repeat split; intros; lia|].
    rewrite softc_split, <- Es, <- Ews, <- Ec, <- Ef, <- Eo.
    pose proof (pc_ok_softc t1 o Pk Np) as SC. unfold clr, fre.
    destruct (tpc t1); cbn; repeat split; intros; try lia; try congruence;
      try (specialize (SC ltac:(discriminate)); lia).
Qed.

(* ------------------------------------------------------------------ *)
(** * Consequences: destruction of the managed memory *)

Lemma exec_clear_lab gl t o :
  nev is_clear (r_evs (exec gl t o)) > 0 -> r_lab (exec gl t o) = LClear.
Proof.
  unfold exec, touch, dec. destruct (tpc t); destruct (data gl); destruct (mem gl);
    cbn -[N.eqb N.ltb N.sub N.add]; case_ifs; cbn; intros; auto; lia.
Qed.

Lemma step_thread_clear_lab gl t ts :
  step_thread gl t = Some ts -> nev is_clear (ts_evs ts) > 0 -> ts_lab ts = LClear.
Proof.
  unfold step_thread. destruct (prog t) as [|o rest]; [discriminate|].
  assert (EX : forall t0 ts0, (let r := exec gl t0 o in
                 let '(t2, dn) := finish (r_t r) o in
                 Some (mkTS (r_g r) t2 (r_lab r) (r_ret r) (r_evs r) dn)) = Some ts0 ->
               nev is_clear (ts_evs ts0) > 0 -> ts_lab ts0 = LClear).
  { intros t0 ts0. cbv zeta. destruct (finish (r_t (exec gl t0 o)) o). intros [= <-]. cbn [ts_evs ts_lab].
    apply exec_clear_lab. }
  destruct (tpc t); try apply EX.
  destruct o; try (destruct (tpc (begin t _)); try apply EX;
                   destruct (finish _ _); intros [= <-]; cbn; lia).
  destruct (s_null (get_sh t i)).
  - intros [= <-]. cbn; lia.
  - unfold touch. destruct (data gl); intros [= <-]; cbn; lia.
Qed.

Lemma step_inv st tid st' :
  step st tid = Some st' ->
  exists t ts, nth_error (ths st) tid = Some t /\ step_thread (g st) t = Some ts /\
    g st' = ts_g ts /\ ths st' = upd (ths st) tid (ts_t ts) /\
    log st' = log st ++ [mkI tid (ts_lab ts) (ts_ret ts) (ts_evs ts) (ts_done ts)].
Proof.
  unfold step. destruct (nth_error (ths st) tid) as [t|]; [|discriminate].
  destruct (step_thread (g st) t) as [ts|] eqn:E; [|discriminate]. intros [= <-].
  exists t, ts. auto.
Qed.

Lemma conc_inv_thread st tid t : conc_inv st -> nth_error (ths st) tid = Some t -> thread_ok t.
Proof. intros (Ft & _) H. rewrite Forall_forall in Ft. apply Ft. eapply nth_error_In; eauto. Qed.

(** the step that clears and frees the managed memory is taken in a state
    with NO counted owner, and the memory is alive until then *)
Theorem clear_only_without_owner st tid st' i :
  conc_inv st -> step st tid = Some st' -> log st' = log st ++ [i] ->
  nev is_clear (i_evs i) > 0 ->
  tot own (ths st) = 0 /\ mem (g st) = Live /\ mem (g st') = Dead /\ i_lab i = LClear.
Proof.
  intros Inv Hs El Hc. destruct (step_inv _ _ _ Hs) as (t & ts & Et & Es & Eg & _ & El').
  rewrite El' in El. apply app_inv_head in El. injection El as <-. cbn [i_evs i_lab] in *.
  pose proof (step_thread_clear_lab _ _ _ Es Hc) as Lab.
  pose proof (conc_inv_thread _ _ _ Inv Et) as Tk.
  destruct (step_thread_access _ _ _ Tk Es) as (_ & A3 & _). rewrite Lab in A3. specialize (A3 eq_refl).
  pose proof (tot_ge clr _ _ _ Et) as Gc.
  destruct Inv as (_ & HG). destruct HG as (_ & _ & _ & _ & M1 & M2 & M3 & _).
  assert (O0 : tot own (ths st) = 0) by (apply M3; lia).
  assert (ML : mem (g st) = Live) by (destruct (mem (g st)); auto; specialize (M2 eq_refl); lia).
  destruct (step_thread_ledger _ _ _ Es) as (L1 & _). rewrite ML in L1. cbn in L1.
  repeat split; auto. rewrite Eg. destruct (mem (ts_g ts)); auto. cbn in L1. lia.
Qed.

(** at most once, whatever the schedule and the initial state *)
Theorem clear_at_most_once ts sched :
  let st := run (init_state ts) sched in
  log_count is_clear (log st) <= 1 /\ log_count is_freemem (log st) <= 1 /\
  log_count is_freedata (log st) <= 1.
Proof.
  destruct (run_ledger sched (init_state ts)) as (A & B & C & _). cbv zeta in *.
  cbn [log init_state] in *. unfold log_count at 2 in A. unfold log_count at 2 in B. unfold log_count at 2 in C.
  cbn in A, B, C.
  destruct (nsum (map hardc ts)), (nsum (map softc ts)), (mem (g (run (init_state ts) sched))),
    (data (g (run (init_state ts) sched))); cbn in *; lia.
Qed.

(** exactly once in every execution that ends with everything released *)
Theorem destroyed_exactly_once ts sched :
  Forall thread_init_ok ts ->
  let st := run (init_state ts) sched in
  Forall released (ths st) ->
  (tot hardc ts > 0 -> log_count is_clear (log st) = 1 /\ log_count is_freemem (log st) = 1) /\
  (tot softc ts > 0 -> log_count is_freedata (log st) = 1).
Proof.
  intros Hi st Hr.
  assert (Inv : conc_inv st) by (apply conc_inv_run, conc_inv_init; auto).
  destruct (all_released_dead _ Inv Hr) as (Md & Dd).
  destruct (run_ledger sched (init_state ts)) as (A & B & C & _). fold st in A, B, C.
  rewrite Md, Dd in *. cbn [log init_state g mem data lv] in *.
  unfold log_count at 2 in A. unfold log_count at 2 in B. unfold log_count at 2 in C. cbn in A, B, C.
  fold (tot hardc ts) in *. fold (tot softc ts) in *.
  split; intros P; [destruct (tot hardc ts); [lia|]|destruct (tot softc ts); [lia|]]; cbn in *; lia.
Qed.

(** * Consequences: owners see live memory *)

Theorem owner_live st tid t i :
  conc_inv st -> nth_error (ths st) tid = Some t -> own_obj (get_sh t i) = 1 -> mem (g st) = Live.
Proof.
  intros (_ & HG) Et Ho. pose proof (tot_ge own _ _ _ Et) as G. pose proof (own_ge t i) as G'.
  destruct HG as (_ & _ & _ & _ & _ & M2 & _).
  destruct (mem (g st)); auto. specialize (M2 eq_refl). lia.
Qed.

(** the weak lock's increment reads exactly the number of counted owners:
    no other thread's transient increment can be included *)
Theorem lock_reads_owner_count st tid t :
  conc_inv st -> nth_error (ths st) tid = Some t -> tpc t = PLockHard ->
  hard (g st) = N.of_nat (tot own (ths st)) /\ lock (g st) = true.
Proof.
  intros Inv Et Hpc. pose proof (conc_inv_thread _ _ _ Inv Et) as Tk.
  destruct Inv as (Ft & HG).
  assert (HP : tot probes (ths st) <= tot win (ths st)).
  { apply tot_le. eapply Forall_impl; [|exact Ft]. apply thread_ok_probes. }
  pose proof (tot_ge win _ _ _ Et) as Gw. unfold win at 1 in Gw. rewrite Hpc in Gw.
  destruct (nth_split_upd _ _ _ Et) as (l1 & l2 & El & _). rewrite El in *. rewrite !tot_mid in *.
  assert (Fo : Forall thread_ok (l1 ++ l2)).
  { apply Forall_app in Ft. destruct Ft as (A & B). inversion B; subst. apply Forall_app; auto. }
  assert (HPo : tot probes (l1 ++ l2) <= tot win (l1 ++ l2)).
  { apply tot_le. eapply Forall_impl; [|exact Fo]. apply thread_ok_probes. }
  assert (Pt : probes t = 0).
  { destruct Tk as (_ & Ok). destruct (prog t) as [|o r]; [destruct Ok; congruence|].
    unfold pc_ok in Ok. rewrite Hpc in Ok. destruct o; try contradiction. destruct Ok as (At & _).
    rewrite (probes_at _ _ _ At). auto. }
  destruct HG as (Hh & _ & Hw & _). unfold win at 2 in Hw. rewrite Hpc in Hw.
  destruct (lock (g st)); [|lia]. split; auto. rewrite Hh. f_equal. lia.
Qed.

(** ... and when it is non-zero the destination becomes a counted owner of
    live memory in that very step *)
Theorem lock_success_live st tid t w d rest st' :
  conc_inv st -> nth_error (ths st) tid = Some t -> tpc t = PLockHard -> prog t = Lock w d :: rest ->
  step st tid = Some st' ->
  (tot own (ths st) > 0 ->
     exists t', nth_error (ths st') tid = Some t' /\ get_sh t' d = SHard /\ tpc t' = PLockSoft /\
                mem (g st') = Live) /\
  (tot own (ths st) = 0 ->
     exists t', nth_error (ths st') tid = Some t' /\ get_sh t' d = SProbe /\ tpc t' = PLockUndo).
Proof.
  intros Inv Et Hpc Ep Hs.
  destruct (lock_reads_owner_count _ _ _ Inv Et Hpc) as (Hh & _).
  pose proof (conc_inv_step _ _ _ Inv Hs) as Inv'.
  pose proof (conc_inv_thread _ _ _ Inv Et) as Tk.
  assert (Ld : d < length (sh t)).
  { destruct Tk as (Wf & _). rewrite Ep in Wf. inversion Wf as [|? ? Hw _]. destruct Hw; auto. }
  assert (Hd : data (g st) = Live).
  { destruct Tk as (_ & Ok). rewrite Ep in Ok. unfold pc_ok in Ok. rewrite Hpc in Ok. destruct Ok as (_ & _ & Ew).
    pose proof (wfull_counts _ _ Ew). pose proof (tot_ge softc _ _ _ Et) as G. rewrite softc_split in G.
    destruct Inv as (_ & HG). eapply ginv_data_live; eauto. lia. }
  destruct (step_inv _ _ _ Hs) as (t0 & ts & Et0 & Es & Eg & Eth & _). rewrite Et in Et0. injection Et0 as <-.
  unfold step_thread in Es. rewrite Ep, Hpc in Es. unfold exec in Es. rewrite Hpc, (touch_live _ Hd) in Es.
  cbn iota beta in Es. cbn [target_sh] in Es.
  assert (Lt : tid < length (ths st)) by (apply nth_error_Some; congruence).
  split; intros Ho.
  - destruct (N.ltb_spec 0 (hard (g st))) as [Pos|Z]; [|lia].
    unfold finish in Es. cbn [r_t r_g tpc set_pc] in Es. injection Es as <-.
    eexists. split; [rewrite Eth; apply nth_error_upd_same; auto|]. cbn [ts_t].
    split; [apply get_sh_set_same; auto|]. split; [reflexivity|].
    eapply (owner_live st' tid _ d Inv').
    + rewrite Eth. apply nth_error_upd_same; auto.
    + cbn [ts_t]. change (own_obj (get_sh (set_sh t d SHard) d) = 1). rewrite get_sh_set_same; auto.
  - destruct (N.ltb_spec 0 (hard (g st))) as [Pos|Z]; [lia|].
    unfold finish in Es. cbn [r_t r_g tpc set_pc] in Es. injection Es as <-.
    eexists. split; [rewrite Eth; apply nth_error_upd_same; auto|]. cbn [ts_t].
    split; [apply get_sh_set_same; auto|]. reflexivity.
Qed.

(** an owner stays an owner until its own thread starts a call on it *)
Lemma enter_frame t o i : i <> target_sh o -> get_sh (enter t o) i = get_sh t i.
Proof.
  intros H. destruct o; cbn [enter target_sh] in *; case_ifs; auto;
    change (get_sh (set_sh t d SRaw) i = get_sh t i); apply get_sh_set_other; auto.
Qed.

Ltac frame_simpl :=
  repeat match goal with
  | |- context [get_sh (set_pc ?x ?p) ?i] => change (get_sh (set_pc x p) i) with (get_sh x i)
  | |- context [get_sh (set_wk ?x ?d ?v) ?i] => change (get_sh (set_wk x d v) i) with (get_sh x i)
  end.

Lemma exec_frame gl t o i :
  i <> target_sh o -> get_sh (r_t (exec gl t o)) i = get_sh t i.
Proof.
  intros H. unfold exec, touch, dec.
  destruct (tpc t); destruct (data gl); destruct (mem gl); cbn [r_t fst snd];
    case_ifs; cbn [r_t]; rewrite ?enter_frame by auto; frame_simpl;
    rewrite ?get_sh_set_other by auto; auto.
Qed.

(** the shared object a call works on *)
Definition touches_sh (o : op) (i : nat) : Prop :=
  match o with Share _ d | Lock _ d | Reset d => i = d | _ => False end.

Lemma enter_frame_weak t o i : target_is_weak o = true -> get_sh (enter t o) i = get_sh t i.
Proof. destruct o; cbn [enter target_is_weak]; try discriminate; intros _; case_ifs; auto. Qed.

Lemma exec_frame_weak gl t o i :
  target_is_weak o = true -> pc_ok t o -> get_sh (r_t (exec gl t o)) i = get_sh t i.
Proof.
  intros Hw Ok. unfold pc_ok in Ok. unfold exec, touch, dec.
  destruct (tpc t); destruct o; try discriminate; try contradiction;
    destruct (data gl); destruct (mem gl); cbn [r_t fst snd target_is_weak];
    case_ifs; cbn [r_t]; rewrite ?enter_frame_weak by auto; frame_simpl; auto.
Qed.

Lemma begin_frame t o i : ~ touches_sh o i -> get_sh (begin t o) i = get_sh t i.
Proof.
  intros H. destruct o; cbn [begin touches_sh] in *; case_ifs; auto;
    first [ apply enter_frame_weak; reflexivity | apply enter_frame; cbn [target_sh]; auto ].
Qed.

Lemma finish_frame t o i : get_sh (fst (finish t o)) i = get_sh t i.
Proof. unfold finish. destruct (tpc t); auto. Qed.

Lemma step_thread_frame gl t ts o rest i :
  thread_ok t -> step_thread gl t = Some ts -> prog t = o :: rest -> ~ touches_sh o i ->
  get_sh (ts_t ts) i = get_sh t i.
Proof.
  intros Tk Hs Ep Nt.
  destruct (step_thread_cases _ _ _ Hs) as (o' & rest' & Ep' & [(j & _ & _ & _ & Et & _)|(NG & Hc)]).
  - rewrite Et. reflexivity.
  - rewrite Ep in Ep'. injection Ep' as <- <-.
    destruct (started_ok t o rest Tk Ep NG) as (_ & Pk & _).
    cbv zeta in Hc.
    assert (E1 : get_sh (started t o) i = get_sh t i).
    { unfold started. destruct (tpc t); auto. apply begin_frame; auto. }
    destruct Hc as [(_ & _ & _ & _ & Et)|(Np & _ & _ & _ & _ & Et)]; rewrite Et, finish_frame; auto.
    rewrite <- E1. destruct (target_is_weak o) eqn:Ew.
    + apply exec_frame_weak; auto.
    + apply exec_frame. intros ->. apply Nt. destruct o; simpl in *; auto; try discriminate.
      unfold pc_ok in Pk. destruct (tpc (started t _)); try contradiction; congruence.
Qed.

(** Whatever the other threads do, and whatever its own thread does on OTHER
    objects, an object keeps its state.  In particular the owner produced by
    a successful lock stays a counted owner - hence (owner_live) its memory
    stays alive - until its own thread starts a call that targets it. *)
Theorem object_kept st tid st' tid' t i :
  conc_inv st -> step st tid = Some st' -> nth_error (ths st) tid' = Some t ->
  (tid' <> tid \/ exists o rest, prog t = o :: rest /\ ~ touches_sh o i) ->
  exists t', nth_error (ths st') tid' = Some t' /\ get_sh t' i = get_sh t i.
Proof.
  intros Inv Hs Et H. destruct (step_inv _ _ _ Hs) as (t0 & ts & Et0 & Es & _ & Eth & _).
  destruct (Nat.eq_dec tid' tid) as [->|N].
  - destruct H as [H|(o & rest & Ep & Nt)]; [congruence|].
    rewrite Et in Et0. injection Et0 as <-.
    exists (ts_t ts). split.
    + rewrite Eth. apply nth_error_upd_same. apply nth_error_Some. congruence.
    + eapply step_thread_frame; eauto. eapply conc_inv_thread; eauto.
  - exists t. split; auto. rewrite Eth, nth_error_upd_other; auto.
Qed.

(* ------------------------------------------------------------------ *)
(** * Consequences: the bookkeeping block *)

(** once it is freed no thread has an enabled step that accesses it *)
Theorem no_access_after_free st tid l :
  conc_inv st -> data (g st) = Dead -> next_label st tid = Some l -> access l = 0.
Proof.
  intros Inv Hd Hl. unfold next_label in Hl.
  destruct (nth_error (ths st) tid) as [t|] eqn:Et; [|discriminate].
  destruct (step_thread (g st) t) as [ts|] eqn:Es; [|discriminate]. injection Hl as <-.
  pose proof (conc_inv_thread _ _ _ Inv Et) as Tk.
  destruct (step_thread_access _ _ _ Tk Es) as (_ & _ & _ & A).
  destruct (access (ts_lab ts)) eqn:Ea; auto. exfalso.
  specialize (A ltac:(lia)).
  pose proof (tot_ge softc _ _ _ Et). pose proof (tot_ge fre _ _ _ Et).
  destruct Inv as (_ & HG). destruct HG as (_ & _ & _ & _ & _ & _ & _ & _ & _ & _ & D & _).
  specialize (D Hd). lia.
Qed.

(** the error flag (access to a freed block, second clear or free, counter
    underflow) is never set and no such event is ever logged *)
Theorem never_err ts sched :
  Forall thread_init_ok ts ->
  let st := run (init_state ts) sched in
  err (g st) = false /\ log_count is_bad (log st) = 0.
Proof.
  intros Hi st. assert (Inv : conc_inv st) by (apply conc_inv_run, conc_inv_init; auto).
  assert (E : err (g st) = false) by (destruct Inv as (_ & HG); destruct HG as (_&_&_&_&_&_&_&_&_&_&_&_&X); exact X).
  split; auto. destruct (run_ledger sched (init_state ts)) as (_ & _ & _ & L). fold st in L.
  destruct (L E) as (_ & ->). reflexivity.
Qed.

(* ------------------------------------------------------------------ *)
(** * Data-race freedom at the SC level *)

Theorem no_race_at st i j : conc_inv st -> race_at st i j = false.
Proof.
  intros Inv. unfold race_at, next_label.
  destruct (nth_error (ths st) i) as [ti|] eqn:Ei; auto.
  destruct (step_thread (g st) ti) as [tsi|] eqn:Si; auto. cbn [option_map].
  destruct (nth_error (ths st) j) as [tj|] eqn:Ej; auto.
  destruct (step_thread (g st) tj) as [tsj|] eqn:Sj; auto. cbn [option_map].
  destruct (Nat.eqb_spec i j) as [->|N]; auto. cbn [negb andb].
  destruct (step_thread_access _ _ _ (conc_inv_thread _ _ _ Inv Ei) Si) as (A4 & A3 & A2 & A1).
  destruct (step_thread_access _ _ _ (conc_inv_thread _ _ _ Inv Ej) Sj) as (B4 & B3 & B2 & B1).
  pose proof (tot_ge2 fre _ _ _ _ _ Ei Ej N) as Gf.
  pose proof (tot_ge2 clr _ _ _ _ _ Ei Ej N) as Gc.
  pose proof (tot_ge2 own _ _ _ _ _ Ei Ej N) as Go.
  pose proof (tot_ge2 softc _ _ _ _ _ Ei Ej N) as Gs.
  destruct Inv as (_ & HG). destruct HG as (_ & _ & _ & C1 & _ & _ & C3 & _ & F1 & _ & _ & F3 & _).
  unfold conflict.
  destruct (access (ts_lab tsi)) as [|[|[|[|[|a]]]]] eqn:Ea; destruct (access (ts_lab tsj)) as [|[|[|[|[|b]]]]] eqn:Eb;
    auto; exfalso;
    repeat match goal with H : ?n = ?n -> _ |- _ => specialize (H eq_refl) end;
    repeat match goal with H : ?a >= 1 -> _ |- _ => specialize (H ltac:(lia)) end; try lia.
  all: try (unfold access in *; destruct (ts_lab tsi) as [| [|] | | | | | | | |]; discriminate).
  all: try (unfold access in *; destruct (ts_lab tsj) as [| [|] | | | | | | | |]; discriminate).
Qed.

Theorem race_free st : conc_inv st -> has_race st = false.
Proof.
  intros Inv. unfold has_race.
  destruct (existsb _ _) eqn:E; auto. apply existsb_exists in E. destruct E as (i & _ & E).
  apply existsb_exists in E. destruct E as (j & _ & E). rewrite no_race_at in E; auto.
Qed.

(* ------------------------------------------------------------------ *)
(** * Progress *)

(** remaining non-spin steps of the current call, at most *)
Definition wpc (p : pc) : nat :=
  match p with
  | PIdle => 9 | PResetHard => 8 | PClear => 7 | PResetSoft => 6 | PFree => 5
  | PShareHard | PWeakSoft | PLockSpin => 4 | PShareSoft | PLockHard => 3
  | PLockSoft | PLockUndo => 2 | PLockClear => 1
  end.
Definition measure (t : thread) : nat :=
  match prog t with [] => 0 | _ :: r => wpc (tpc t) + 9 * length r end.

Lemma prog_enter t o : prog (enter t o) = prog t.
Proof. destruct o; cbn [enter]; case_ifs; reflexivity. Qed.
Lemma prog_begin t o : prog (begin t o) = prog t.
Proof. destruct o; cbn [begin]; case_ifs; try apply prog_enter; reflexivity. Qed.
Lemma wpc_enter t o : tpc (enter t o) = PIdle \/ wpc (tpc (enter t o)) = 4.
Proof. destruct o; cbn [enter]; case_ifs; auto. Qed.
Lemma wpc_le p : 1 <= wpc p <= 9.
Proof. destruct p; cbn; lia. Qed.

Lemma exec_measure gl t o :
  tpc t <> PIdle ->
  let r := exec gl t o in
  prog (r_t r) = prog t /\
  ((r_lab r = LTas /\ r_ret r = 1%N /\ r_t r = t /\ r_g r = fst (touch gl)) \/
   ((r_lab r <> LTas \/ r_ret r = 0%N) /\
    (tpc (r_t r) = PIdle \/ wpc (tpc (r_t r)) < wpc (tpc t)))).
Proof.
  intros Np. unfold exec, touch, dec.
  destruct (tpc t) eqn:Hpc; try congruence; destruct (data gl); destruct (mem gl);
    cbn [r_t r_lab r_ret r_g fst snd]; case_ifs; cbn [r_t r_lab r_ret r_g fst snd];
    (split; [rewrite ?prog_enter; reflexivity|]);
    try (left; repeat split; auto; fail);
    right; (split; [first [left; discriminate | right; reflexivity]|]);
    try match goal with |- context [enter ?x ?o] => destruct (wpc_enter x o) as [E|E]; [left; exact E|right; rewrite E; cbn; lia] end;
    cbn [tpc set_pc set_sh set_wk wpc]; try (left; reflexivity); right; lia.
Qed.

Lemma measure_pop t o rest p :
  prog t = o :: rest -> 1 <= wpc p ->
  measure (mkT (sh t) (wk t) rest PIdle) < wpc p + 9 * length rest.
Proof. intros Ep Hp. unfold measure. cbn [prog tpc]. destruct rest; cbn [length wpc]; lia. Qed.

Lemma measure_finish t o rest :
  prog t = o :: rest -> tpc t = PIdle -> forall p, 1 <= wpc p -> measure (fst (finish t o)) < wpc p + 9 * length rest.
Proof.
  intros Ep Hp p Lp. unfold finish. rewrite Hp. cbn [fst]. rewrite Ep. cbn [tl].
  eapply measure_pop; eauto.
Qed.

(** every step is either a spin (failed test-and-set: nothing changes) or
    strictly decreases the thread's measure *)
Lemma step_thread_measure gl t ts :
  step_thread gl t = Some ts ->
  (ts_lab ts = LTas /\ ts_ret ts = 1%N /\ ts_t ts = started t (hd (Get 0) (prog t)) /\
   ts_g ts = fst (touch gl) /\ tpc (ts_t ts) = PLockSpin /\ lock (fst (touch gl)) = true /\
   measure (ts_t ts) <= measure t) \/
  ((ts_lab ts <> LTas \/ ts_ret ts = 0%N) /\ measure (ts_t ts) < measure t).
Proof.
  intros Hs. destruct (step_thread_cases _ _ _ Hs) as (o & rest & Ep & [(i & Hpc & -> & El & Et & _)|(NG & Hc)]).
  - right. split; [left; rewrite El; discriminate|]. rewrite Et. unfold measure at 2. rewrite Ep, Hpc.
    eapply measure_pop; eauto. cbn; lia.
  - cbv zeta in Hc. rewrite Ep. cbn [hd].
    assert (Ep1 : prog (started t o) = o :: rest).
    { unfold started. destruct (tpc t); auto. rewrite prog_begin; auto. }
    assert (M1 : wpc (tpc (started t o)) + 9 * length rest <= measure t).
    { unfold measure. rewrite Ep. unfold started. destruct (tpc t) eqn:Hpc; try (rewrite Hpc; lia).
      pose proof (wpc_le (tpc (begin t o))). cbn [wpc]. lia. }
    destruct Hc as [(Hp1 & El & _ & _ & Et)|(Np & El & Eg & _ & Er & Et)].
    + right. split; [left; rewrite El; discriminate|]. rewrite Et.
      pose proof (measure_finish _ _ _ Ep1 Hp1 _ (proj1 (wpc_le (tpc (started t o))))). lia.
    + destruct (exec_measure gl (started t o) o Np) as (Epr & [(L1 & L2 & L3 & L4)|(L1 & L2)]).
      * left. rewrite exec_lab in L1.
        assert (Hsp : tpc (started t o) = PLockSpin) by (destruct (tpc (started t o)); cbn in L1; congruence).
        rewrite Et, L3. unfold finish. rewrite Hsp. cbn [fst]. rewrite El, Er, L2, Eg, L4, Hsp.
        repeat split; auto.
        -- unfold exec in L2. rewrite Hsp in L2. destruct (touch gl) as (g1 & ev); cbn [fst].
           destruct (lock g1); auto. cbn in L2. discriminate.
        -- unfold measure at 1. rewrite Ep1. lia.
      * right. split; [rewrite El, Er; rewrite exec_lab in L1; exact L1|]. rewrite Et.
        destruct L2 as [L2|L2].
        -- assert (Ep2 : prog (r_t (exec gl (started t o) o)) = o :: rest) by congruence.
           pose proof (measure_finish _ _ _ Ep2 L2 _ (proj1 (wpc_le (tpc (started t o))))). lia.
        -- unfold finish. destruct (tpc (r_t (exec gl (started t o) o))) eqn:Hq; cbn [fst];
             try (unfold measure at 1; rewrite Epr, Ep1, Hq; lia).
           cbn in L2. pose proof (wpc_le (tpc (started t o))). lia.
Qed.

Definition nonspin (l : list info) : nat := length (filter (fun i => negb (is_spin i)) l).

Lemma nonspin_snoc l i : nonspin (l ++ [i]) = nonspin l + (if is_spin i then 0 else 1).
Proof. unfold nonspin. rewrite filter_app, app_length. cbn. destruct (is_spin i); cbn; lia. Qed.

Lemma tot_upd f l i t t' :
  nth_error l i = Some t -> tot f (upd l i t') + f t = tot f l + f t'.
Proof.
  intros H. destruct (nth_split_upd _ _ _ H) as (l1 & l2 & -> & E). rewrite E, !tot_mid. lia.
Qed.

(** every step: the number of non-spin steps logged plus the global measure
    does not grow; so the measure bounds the non-spin steps of ANY schedule *)
Lemma step_nonspin st tid st' :
  step st tid = Some st' ->
  nonspin (log st') + tot measure (ths st') <= nonspin (log st) + tot measure (ths st).
Proof.
  intros Hs. destruct (step_inv _ _ _ Hs) as (t & ts & Et & Es & _ & Eth & El).
  rewrite El, Eth, nonspin_snoc. pose proof (tot_upd measure _ _ _ (ts_t ts) Et) as U.
  unfold is_spin. cbn [i_lab i_ret].
  destruct (step_thread_measure _ _ _ Es) as [(L1 & L2 & _ & _ & _ & _ & M)|([L1|L1] & M)].
  - rewrite L1, L2. lia.
  - destruct (ts_lab ts); try congruence; lia.
  - rewrite L1. destruct (ts_lab ts); lia.
Qed.

Theorem nonspin_bounded sched : forall st,
  nonspin (log (run st sched)) + tot measure (ths (run st sched)) <= nonspin (log st) + tot measure (ths st).
Proof.
  induction sched as [|tid r IH]; intros st; cbn [run]; [lia|].
  destruct (step st tid) as [s1|] eqn:E; [|apply IH].
  pose proof (step_nonspin _ _ _ E). specialize (IH s1). lia.
Qed.

Lemma measure_le_prog t : measure t <= 9 * length (prog t).
Proof. unfold measure. destruct (prog t); cbn [length]; [lia|]. pose proof (wpc_le (tpc t)). lia. Qed.

(** in any schedule at most 9 non-spin steps are taken per library call *)
Theorem nonspin_le_calls ts sched :
  nonspin (log (run (init_state ts) sched)) <= 9 * tot (fun t => length (prog t)) ts.
Proof.
  pose proof (nonspin_bounded sched (init_state ts)) as H. cbn [log init_state ths nonspin] in H.
  assert (B : tot measure ts <= 9 * tot (fun t => length (prog t)) ts).
  { clear H. induction ts as [|t r IH]; [cbn; lia|]. unfold tot, nsum in *. cbn [map fold_right].
    pose proof (measure_le_prog t). lia. }
  unfold nonspin at 2 in H. cbn in H. lia.
Qed.

Lemma tot_pos_exists f l : tot f l > 0 -> exists i t, nth_error l i = Some t /\ f t > 0.
Proof.
  induction l as [|x r IH]; intros H; [cbn in H; lia|].
  destruct (f x) eqn:E.
  - unfold tot, nsum in *. cbn [map fold_right] in H. rewrite E in H.
    destruct (IH H) as (i & t & A & B). exists (S i), t. auto.
  - exists 0, x. split; auto. lia.
Qed.

(** distance of the flag holder from releasing the flag, in its own steps *)
Definition wdist (p : pc) : nat :=
  match p with PLockHard => 3 | PLockSoft | PLockUndo => 2 | PLockClear => 1 | _ => 0 end.

(** the holder of the flag always has an enabled non-spin step; each of its
    own steps brings it one closer to the release, which happens at the third
    at the latest *)
Lemma holder_step gl t :
  thread_ok t -> win t = 1 ->
  exists ts, step_thread gl t = Some ts /\ ts_lab ts <> LTas /\
    ((wdist (tpc t) = 1 /\ lock (ts_g ts) = false /\ win (ts_t ts) = 0) \/
     (wdist (tpc (ts_t ts)) + 1 = wdist (tpc t) /\ win (ts_t ts) = 1)).
Proof.
  intros (_ & Ok) Hw. unfold win in Hw.
  destruct (prog t) as [|o rest] eqn:Ep.
  { destruct Ok as (Hp & _). rewrite Hp in Hw. discriminate. }
  unfold step_thread. rewrite Ep. unfold pc_ok in Ok.
  destruct (tpc t) eqn:Hpc; try discriminate; destruct o; try contradiction;
    unfold exec, dec; rewrite Hpc; destruct (touch gl) as (g1 & ev); cbn [target_sh];
    case_ifs; unfold finish; cbn [r_t r_g r_lab tpc set_pc set_sh];
    eexists; (split; [reflexivity|]); cbn [ts_lab ts_g ts_t]; (split; [discriminate|]);
    unfold win; cbn [tpc wdist set_lock lock]; auto.
Qed.

Theorem lock_holder_progress st :
  conc_inv st -> lock (g st) = true ->
  exists tid t ts, nth_error (ths st) tid = Some t /\ win t = 1 /\
    step_thread (g st) t = Some ts /\ ts_lab ts <> LTas /\
    ((wdist (tpc t) = 1 /\ lock (ts_g ts) = false) \/
     (wdist (tpc (ts_t ts)) + 1 = wdist (tpc t) /\ win (ts_t ts) = 1)) /\
    wdist (tpc t) <= 3.
Proof.
  intros Inv Hl. pose proof Inv as (Ft & HG). destruct HG as (_ & _ & W & _). rewrite Hl in W.
  destruct (tot_pos_exists win (ths st)) as (tid & t & Et & Hw); [lia|].
  assert (Hw1 : win t = 1) by (unfold win in *; destruct (tpc t); lia).
  destruct (holder_step (g st) t (conc_inv_thread _ _ _ Inv Et) Hw1) as (ts & Es & Nl & D).
  exists tid, t, ts. repeat split; auto.
  - destruct D as [(A & B & _)|D]; auto.
  - destruct (tpc t); cbn; lia.
Qed.

(** a spinning thread implies that another thread holds the flag and has an
    enabled non-spin step *)
Theorem spinner_not_alone st tid st' i :
  conc_inv st -> step st tid = Some st' -> log st' = log st ++ [i] -> is_spin i = true ->
  exists tid' t' ts', tid' <> tid /\ nth_error (ths st) tid' = Some t' /\ win t' = 1 /\
    step_thread (g st) t' = Some ts' /\ ts_lab ts' <> LTas.
Proof.
  intros Inv Hs El Hsp. destruct (step_inv _ _ _ Hs) as (t & ts & Et & Es & _ & _ & El').
  rewrite El' in El. apply app_inv_head in El. injection El as <-.
  unfold is_spin in Hsp. cbn [i_lab i_ret] in Hsp.
  pose proof (conc_inv_thread _ _ _ Inv Et) as Tk.
  assert (Hd : data (g st) = Live).
  { destruct (step_thread_access _ _ _ Tk Es) as (_ & _ & _ & A).
    destruct (ts_lab ts) eqn:L; try discriminate. specialize (A ltac:(cbn; lia)).
    pose proof (tot_ge softc _ _ _ Et). pose proof (tot_ge fre _ _ _ Et).
    destruct Inv as (_ & HG). eapply ginv_data_live; eauto. lia. }
  destruct (step_thread_measure _ _ _ Es) as [(L1 & L2 & L3 & L4 & L5 & L6 & _)|([L1|L1] & _)].
  2: { destruct (ts_lab ts); congruence. }
  2: { rewrite L1 in Hsp. destruct (ts_lab ts); discriminate. }
  rewrite (touch_live _ Hd) in L6. cbn [fst] in L6.
  destruct (lock_holder_progress st Inv L6) as (tid' & t' & ts' & Et' & Hw' & Es' & Nl & _).
  exists tid', t', ts'. repeat split; auto. intros ->. rewrite Et in Et'. injection Et' as <-.
  (* the spinner is not inside the window *)
  assert (W0 : win t = 0).
  { unfold win. unfold started in L3. destruct (tpc t) eqn:Hpc; auto; exfalso;
      rewrite L3 in L5; cbn [hd] in L5; destruct (prog t); cbn in L5; congruence. }
  lia.
Qed.

(** no deadlock: while some thread has not finished, some thread has an
    enabled non-spin step *)
Theorem some_thread_runs st tid t :
  conc_inv st -> nth_error (ths st) tid = Some t -> prog t <> [] ->
  exists tid' t' ts', nth_error (ths st) tid' = Some t' /\ step_thread (g st) t' = Some ts' /\
    (ts_lab ts' <> LTas \/ ts_ret ts' = 0%N).
Proof.
  intros Inv Et Np.
  assert (X : exists ts, step_thread (g st) t = Some ts).
  { unfold step_thread. destruct (prog t) as [|o r]; [congruence|].
    destruct (tpc t); cbv zeta; try (destruct (finish _ _); eauto; fail).
    destruct o as [a b|a|a b|a b|a|a]; cbv zeta;
      try (match goal with |- context [begin t ?o] => destruct (tpc (begin t o)) end; destruct (finish _ _); eauto; fail).
    destruct (s_null (get_sh t a)); [eauto|]. destruct (touch (g st)); eauto. }
  destruct X as (ts & Es).
  destruct (step_thread_measure _ _ _ Es) as [(L1 & L2 & _ & _ & _ & L6 & _)|(L1 & _)].
  - assert (Hd : data (g st) = Live).
    { destruct (step_thread_access _ _ _ (conc_inv_thread _ _ _ Inv Et) Es) as (_ & _ & _ & A).
      rewrite L1 in A. specialize (A ltac:(cbn; lia)).
      pose proof (tot_ge softc _ _ _ Et). pose proof (tot_ge fre _ _ _ Et).
      destruct Inv as (_ & HG). eapply ginv_data_live; eauto. lia. }
    rewrite (touch_live _ Hd) in L6. cbn [fst] in L6.
    destruct (lock_holder_progress st Inv L6) as (tid' & t' & ts' & Et' & _ & Es' & Nl & _).
    exists tid', t', ts'. auto.
  - exists tid, t, ts. auto.
Qed.
