(** C18 -- public headers are usable by client programs that link the library.

    Statements only.  The generic model is Cstl.LinkSpec, the generic proofs
    are in Cstl.LinkProofs; [LinkFacts.facts] is REGENERATED from
    $REPO/include/cstl/*.h and from nm of the freshly built libcstl.a /
    libcstl.so by gen/headers.py on every run of ./check C18, and this file is
    re-checked against it (coqc -Q ../theories Cstl -Q . CstlLink).  When the
    code no longer satisfies the property, [C18_facts_ok] stops compiling. *)
From Coq Require Import List String.
From Cstl Require Import LinkSpec LinkProofs.
From CstlLink Require Import LinkFacts.
Import ListNotations.

(** The finite obligation, decided by the kernel on the generated facts:
    every header guarded, self-contained and closed under #include; no header
    defines a function with external linkage; no function defined by two
    headers; linkage used consistently; every external prototype provided by
    libcstl.a and by libcstl.so, every static prototype by its own header; no
    symbol defined twice inside a library. *)
Theorem C18_facts_ok : facts_ok facts = true.
Proof. vm_compute. reflexivity. Qed.

(** Every program -- any number of translation units, each including any
    public headers in any order, any number of times -- compiles and links
    against the static and against the shared library without duplicate or
    undefined symbols. *)
Theorem C18_link_ok : forall prog, valid_prog facts prog -> link_ok facts prog.
Proof. exact (facts_ok_link_ok facts C18_facts_ok). Qed.

(** The headers put no external symbol into any client object: that is why
    the same header can be used in any number of translation units. *)
Theorem C18_clients_export_nothing :
  forall prog, valid_prog facts prog -> all_exports facts prog = [].
Proof. exact (facts_ok_exports_nil facts C18_facts_ok). Qed.

(** Every function a header declares is provided: by both libraries when it
    has external linkage, inline ([static]) by the same header otherwise; and
    everything a header defines is [static]. *)
Theorem C18_every_declared_function_provided :
  forall h, In h (headers facts) ->
    (forall n, In (n, true) (hdecls h) -> In n (lib_a facts) /\ In n (lib_so facts)) /\
    (forall n, In (n, false) (hdecls h) -> In (n, false) (hdefs h)) /\
    (forall n b, In (n, b) (hdefs h) -> b = false).
Proof. exact (facts_ok_provided facts C18_facts_ok). Qed.

(** Non-vacuity: the program whose first TU includes every public header in
    directory order and whose second TU includes them all in reverse order and
    then all again is a valid program, there are headers, and the program
    really imports library functions. *)
Example C18_example_program :
  let all := names (headers facts) in
  valid_prog facts [all; rev all ++ all] /\ all <> [] /\ obj_imports facts all <> [].
Proof.
  cbv zeta. split; [|split].
  - apply valid_prog_b_iff. vm_compute. reflexivity.
  - vm_compute. discriminate.
  - vm_compute. discriminate.
Qed.

Print Assumptions C18_facts_ok.
Print Assumptions C18_link_ok.
Print Assumptions C18_clients_export_nothing.
Print Assumptions C18_every_declared_function_provided.
