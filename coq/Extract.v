(** Extraction of the executable models for the correspondence check.
    ExtrOcamlBasic only: bool, option, unit, list, prod, sumbool map to the
    OCaml types; nat, positive, N, Z stay Coq datatypes. No Extract Constant. *)
Require Extraction.
Require Import ExtrOcamlBasic.
From Cstl Require Import Prelude SListModel.
Extraction Language OCaml.
Separate Extraction SListModel.
