"""C05 - shared memory is destroyed exactly once, exactly when its last owner lets go."""
import random
from lib.engine import Spec
from lib.core import Case
from checks import memref


class MemSpec(Spec):
    """common part of the three checks on the "mem" system (C05, C14, C20)"""
    component = 'mem'
    driver = 'mem'
    lib_srcs = []        # harness/drv_mem.c #includes $REPO/src/memory.c and array.c
    driver_extra = '-Wl,--wrap=malloc,--wrap=realloc,--wrap=free,--wrap=calloc'
    header_words = memref.HEADER_WORDS

    def oracle(self, case, impl):
        r = memref.oracle(case, impl)
        if r is None:
            return None
        # hits that can be produced by machine load (time-outs, truncated
        # output) must reproduce on a fresh run of the single case
        if r[0].endswith((':timeout', ':no-output', ':garbled')) or r[0].startswith('final:missing'):
            key = (case.key(), r[0])
            if key not in self._confirmed:
                self._confirmed[key] = self.rerun(case, r[0])
            return r if self._confirmed[key] else None
        return r

    _confirmed = {}

    def rerun(self, case, key):
        import os
        import subprocess
        from lib import core
        exe = os.path.join(core.BUILD, 'c', 'drv_' + self.driver)
        p = os.path.join(core.BUILD, 'work', 'confirm.%d.script' % os.getpid())
        os.makedirs(os.path.dirname(p), exist_ok=True)
        with open(p, 'w') as f:
            f.write(Case('x', case.header, case.ops).text())
        for _ in range(2):
            try:
                out = subprocess.run([exe, p], stdout=subprocess.PIPE, stderr=subprocess.DEVNULL, text=True,
                                     timeout=120).stdout
            except subprocess.TimeoutExpired:
                out = 'case x\ntimeout\nend\n'
            r = memref.oracle(case, core.parse_trace(out).get('x', []))
            if r is None or r[0] != key:
                return False
        return True

    def closures(self, scopes):
        cases, st = [], dict(states=0, transitions=0, closed=True)
        for sc, budget in scopes:
            c, s = self.bfs([sc, budget])
            cases += c
            st = dict(states=st['states'] + s.get('states', 0), transitions=st['transitions'] + s.get('transitions', 0),
                      closed=st['closed'] and s.get('closed', False))
            st['scope_' + sc] = s
        return cases, st


W_PTR = dict(ualloc=3, uget=1, urelease=2, uswap=2, ureset=2,
             salloc=4, sget=2, sunique=2, sshare=5, sswap=2, sreset=4,
             wfrom=4, wlock=4, wswap=1, wreset=2)


def probe_variants(cases, every=2):
    """Re-entrancy: with the header `cbprobe w` the driver's clear callback tries to lock weak pointer w into a
    private shared pointer (and undoes it).  No owner exists while a clear callback runs, so the lock must fail for
    the memory being destroyed; in a correct library the probe leaves every counter as it was, so the model (whose
    callback is a pure logger) is unaffected.  Cases with stray copies are left out (the probe would trip the guard)."""
    out = []
    n = 0
    for c in cases:
        kinds = []
        for h in c.header:
            w = h.split()
            if w[0] == 'pool':
                kinds = w[1:]
            if w[0] == 'cbprobe':
                kinds = []
        ws = [i for i, k in enumerate(kinds) if k == 'W']
        if not ws or any(o.split()[0] == 'straycopy' for o in c.ops):
            continue
        if not any(o.split()[0] in ('wfrom', 'wswap') for o in c.ops):
            continue
        n += 1
        if n % every:
            continue
        # probe through the weak object that the case last made refer to something
        tgt = ws[0]
        for o in c.ops:
            w = o.split()
            if w[0] == 'wfrom' and len(w) >= 3 and w[1].isdigit() and int(w[1]) in ws:
                tgt = int(w[1])
        out.append(Case(c.name + 'p', c.header + ['cbprobe %d' % tgt], c.ops, c.origin))
    return out


def wreset_variants(cases, every=3):
    """Re-entrancy with a net effect: with the header `cbwreset w` the driver's clear callback resets weak pointer w
    (an object that keeps a weak reference - typically to its own allocation - and drops it when destroyed).  The Coq
    model's callback is a logger, so these replays are outside the model (the runner answers `precond`); they are judged
    by the reference oracle and the sanitizers only."""
    out = []
    n = 0
    for c in cases:
        kinds = []
        for h in c.header:
            w = h.split()
            if w[0] == 'pool':
                kinds = w[1:]
            if w[0] in ('cbprobe', 'cbwreset', 'constapi'):
                kinds = []
        ws = [i for i, k in enumerate(kinds) if k == 'W']
        if not ws or any(o.split()[0] == 'straycopy' for o in c.ops):
            continue
        froms = [int(o.split()[1]) for o in c.ops if o.split()[0] == 'wfrom' and o.split()[1].isdigit() and int(o.split()[1]) in ws]
        if not froms:
            continue
        n += 1
        if n % every:
            continue
        out.append(Case(c.name + 'w', c.header + ['cbwreset %d' % froms[n // every % len(froms)]], c.ops, c.origin))
    return out


class C05(MemSpec):
    pid = 'C05'
    rule = ('cases = corpus + one case per edge of the breadth-first closure of the Coq model (scopes: 3 shared + 2 weak '
            'objects; 2 unique objects; block ids canonicalised, allocation failures as per-call relative ordinals) + '
            'seeded random histories over 2 unique + 4 shared + 3 weak objects with failing allocations by ordinal; every second '
            'case with uget / sget is replayed through cstl_unique_ptr_get_const / cstl_shared_ptr_get_const (header constapi 1); '
            'non-trivial = at least two completed operations; distinct = distinct (header, operations) text')
    trusted = ['modelled, not verified: src/memory.c and the inline functions of include/cstl/memory.h are transcribed by hand '
               'into MemModel.v; the atomic_flag spin lock is not modelled (single thread); counters are unbounded naturals',
               'the clear callback is the harness logger (it does not touch the library); cstl_unique_ptr_release is followed '
               'at once by the caller freeing the memory']
    assumptions_text = ['objects are used at their C type (a weak pointer is not passed to shared-pointer functions); *_init is '
                        'applied only to empty objects or stray copies; cstl_unique_ptr_swap(p, p) is outside the domain',
                        'fewer than 2^32 pointer objects refer to one allocation (unique() converts the count to int)']

    def closure(self, tier):
        if tier == 'quick':
            cases, st = self.closures([('shared', 400), ('unique', 1000)])
        else:
            cases, st = self.closures([('shared', 100000), ('unique', 1000)])
        pv = probe_variants(cases, every=2)
        st['cbprobe_replays'] = len(pv)
        kv = memref.const_variants(cases, every=2)
        st['constapi_replays'] = len(kv)
        wv = wreset_variants(cases, every=3)
        st['cbwreset_replays'] = len(wv)
        return cases + pv + kv + wv, st

    def oracle_only(self, c):
        return any(h.split()[0] == 'cbwreset' for h in c.header)

    def random_cases(self, tier, seed):
        rnd = random.Random(seed * 7919 + 5)
        n = 400 if tier == 'quick' else 6000
        kinds = ['U', 'U', 'S', 'S', 'S', 'S', 'W', 'W', 'W']
        cases = [memref.gen_case(rnd, 'rnd%d' % i, kinds, [], rnd.choice([8, 20, 40, 80]), W_PTR) for i in range(n)]
        return cases + probe_variants(cases, every=2) + memref.const_variants(cases, every=2) + wreset_variants(cases, every=3)


SPEC = C05()

MANIFEST = dict(
    text='Coq theorems (Properties_C05.v) over an executable, statement-level model of src/memory.c: for every history of '
         'unique/shared/weak operations from initialised objects and every allocator behaviour, the owner and reference counters '
         'equal the numbers of shared and shared+weak objects referring to the block, the clear callback and the release of the '
         'managed memory happen exactly once in the call that removes the last owner, the bookkeeping block is released exactly '
         'once with the last reference, lock yields an owner iff one exists, unique() iff no other reference, nothing leaks, '
         'nothing is freed twice. The model is tied to the C code on every run by differential execution (closure of the model '
         'state space in a small scope + seeded random histories, allocator and callback events compared) under ASan/UBSan.',
    note='trusted: Coq kernel; hand transcription of memory.c/memory.h into MemModel.v validated only by the correspondence run; '
         'extraction (ExtrOcamlBasic) + OCaml runner; C driver with --wrap allocator; single thread (C06 covers interleavings)',
    technique='Coq proof (counting invariant by induction over operations) + model/code differential correspondence',
    design='6 (C05)')


# ---------------------------------------------------------------- C16 support
# Base scripts for the allocation-failure aggregator (checks/c16.py): no fail /
# failfrom headers (the aggregator adds them); every case ends with the
# automatic "final <live blocks> ;; <events>" line printed after every object has
# been reset.  Allocation requests of a trace line = events with code 1 or 2
# (malloc ok / malloc failed) in its ";;" section (codes 3-5 are realloc, never
# used by memory.c / array.c).

class C16Mem(MemSpec):
    pid = 'C16'
    rule = 'base scripts of checks/c05.py and checks/c14.py under the fault sets chosen by checks/c16.py'
    trusted = C05.trusted
    assumptions_text = C05.assumptions_text


def c16_spec():
    return C16Mem()


def c16_base_cases(tier, seed):
    hdr = ['pool U U S S S W W']
    base = [
        ('unique_alloc_realloc', ['ualloc 0 8 3', 'uget 0', 'ualloc 0 16 4', 'uget 0', 'ualloc 1 8 5', 'uswap 0 1',
                                  'ualloc 1 32 -1', 'urelease 0', 'ualloc 0 8 6', 'ureset 1', 'uget 0']),
        ('shared_alloc_twice', ['salloc 2 8 1', 'sget 2', 'sunique 2', 'salloc 2 16 1', 'sget 2', 'salloc 3 8 0',
                                'sshare 2 4', 'sunique 2', 'sreset 2', 'sget 4']),
        ('shared_realloc_while_shared', ['salloc 2 8 1', 'sshare 2 3', 'wfrom 5 2', 'salloc 2 24 1', 'wlock 5 4', 'sget 4',
                                         'sget 2', 'salloc 3 8 1', 'wlock 5 2', 'sunique 3']),
        ('weak_outlives', ['salloc 2 8 1', 'wfrom 5 2', 'wfrom 6 2', 'salloc 2 8 1', 'wlock 5 3', 'sget 3', 'wfrom 5 2',
                           'sreset 2', 'wlock 5 4', 'wlock 6 3', 'salloc 4 40 0', 'wreset 5']),
        ('alloc_into_failed_object', ['salloc 2 8 1', 'salloc 2 8 1', 'salloc 2 8 1', 'sget 2', 'sshare 2 3', 'salloc 3 8 1',
                                      'sswap 2 3', 'sunique 2', 'sunique 3']),
        ('mixed', ['ualloc 0 8 1', 'salloc 2 8 1', 'ualloc 1 8 2', 'salloc 3 8 1', 'wfrom 5 3', 'uswap 0 1', 'sswap 2 3',
                   'salloc 4 8 1', 'ureset 0', 'sshare 4 2', 'wlock 5 3', 'ualloc 0 64 7', 'sget 2', 'sget 3']),
    ]
    if tier != 'quick':
        import random
        rnd = random.Random(seed * 31 + 16)
        w = dict(W_PTR)
        kinds = hdr[0].split()[1:]
        for i in range(12):
            c = memref.gen_case(rnd, 'c16rnd%d' % i, kinds, [], 14, w, p_relfail=0.0, p_header_fail=0.0, p_keep_abort=0.0)
            base.append((c.name, c.ops))
    return [Case('c16_' + n, hdr, ops, 'c16') for n, ops in base]
