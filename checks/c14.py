"""C14 - array views never reach outside their buffer, which lives as long as any view."""
import random
from lib.core import Case
from checks import memref
from checks.c05 import MemSpec

W_ARR = dict(aalloc=5, aset=2, arelease=2, adata=1, aat=5, asize=1, aslice=8, aunslice=3, areset=2)


class C14(MemSpec):
    pid = 'C14'
    rule = ('cases = corpus (minimised witnesses of F6, F7) + one case per edge of the breadth-first closure of the Coq model '
            'over 2 array objects, 2 external buffers, element counts {0,3,5,10} and boundary bounds up to SIZE_MAX (state budget '
            'per tier) + seeded random histories over 4 array objects aimed at the bounds of the current view; every second case '
            'with aat / adata is replayed through cstl_array_at_const / cstl_array_data_const (header constapi 1); non-trivial = at '
            'least two completed operations; distinct = distinct (header, operations) text')
    trusted = ['modelled, not verified: the cstl_array functions of src/array.c are transcribed by hand into ArrayViewModel.v on top '
               'of MemModel.v; addresses are (block, byte offset) pairs; pointer arithmetic is modelled on byte offsets']
    assumptions_text = ['cstl_array_set is given a buffer that really holds nm elements of sz bytes (documented precondition)',
                        'array objects are only accessed through the cstl_array functions']

    def more_variants(self, cases, tier, seed):
        return memref.relnull_variants(cases, every=2)

    def closure(self, tier):
        if tier == 'quick':
            cases, st = self.closures([('array', 120)])
        else:
            cases, st = self.closures([('array', 1200), ('array3', 300)])
        kv = memref.const_variants(cases, every=2)
        st['constapi_replays'] = len(kv)
        return cases + kv, st

    def random_cases(self, tier, seed):
        rnd = random.Random(seed * 7919 + 14)
        n = 500 if tier == 'quick' else 8000
        kinds = ['A', 'A', 'A', 'A']
        cases = [memref.gen_case(rnd, 'rnd%d' % i, kinds, [40, 64], rnd.choice([6, 12, 25, 50]), W_ARR) for i in range(n)]
        return cases + memref.const_variants(cases, every=2)


SPEC = C14()

MANIFEST = dict(
    text='Coq theorems (Properties_C14.v) over an executable model of the array views of src/array.c on top of the shared-pointer '
         'model: in every reachable state an empty object has offset = length = 0 and otherwise offset + length <= element count '
         '(no wrap-around) with the block large enough; at returns a place inside the live buffer iff index < size and aborts '
         'otherwise; slice aborts iff end < beg or offset + end exceeds the element count as natural numbers; the buffer is alive '
         'while referenced and released once afterwards; release semantics; failed or unrepresentable allocations leave the object '
         'empty. The model is tied to the C code on every run by differential execution under ASan/UBSan.',
    note='trusted: Coq kernel; hand transcription of array.c into ArrayViewModel.v validated only by the correspondence run; '
         'extraction + OCaml runner; C driver; the model follows the code as repaired by fixes/F6-*.patch and fixes/F7-*.patch',
    technique='Coq proof (view invariant by induction over operations, on top of the C05 counting invariant) + model/code '
              'differential correspondence',
    design='6 (C14)')


# ---------------------------------------------------------------- C16 support (see checks/c05.py)
def c16_spec():
    from checks.c05 import C16Mem
    return C16Mem()


def c16_base_cases(tier, seed):
    """Array scripts for the allocation-failure aggregator.  cstl_array_alloc makes
    two requests (bookkeeping block, then header + elements), cstl_array_set two
    (bookkeeping block, header).  at / slice / unslice of an object left empty by a
    failed allocation abort by specification (index >= size 0; empty source): the
    model and the oracle expect exactly those aborts, the case then ends there."""
    hdr = ['pool A A A', 'ext 40 64']
    base = [
        ('alloc_realloc', ['aalloc 0 5 4', 'asize 0', 'adata 0', 'aalloc 0 3 8', 'asize 0', 'aalloc 1 2 4', 'areset 0',
                           'aalloc 0 7 1', 'adata 0', 'asize 1']),
        ('alloc_on_slice', ['aalloc 0 5 4', 'aalloc 1 0 4', 'asize 0', 'aalloc 0 6 4', 'asize 0', 'adata 0', 'aalloc 0 2 4',
                            'asize 0', 'arelease 0']),
        ('set_release', ['aset 0 0 10 4', 'asize 0', 'adata 0', 'arelease 0', 'aset 0 1 8 8', 'aset 1 0 5 4', 'arelease 1',
                         'aalloc 1 3 4', 'arelease 0', 'asize 0', 'asize 1']),
        ('set_over_alloc', ['aalloc 0 4 4', 'aset 0 0 10 4', 'asize 0', 'aalloc 0 4 4', 'adata 0', 'aset 1 1 16 4', 'aalloc 1 1 1',
                            'arelease 1', 'arelease 0']),
        ('slices_share', ['aalloc 0 5 4', 'aalloc 1 5 4', 'aalloc 2 5 4', 'asize 0', 'asize 1', 'asize 2', 'aalloc 0 3 4',
                          'aalloc 1 3 4', 'areset 2', 'aalloc 2 1 4']),
        # requests whose size in bytes cannot be represented, on objects that already manage something
        ('unrepresentable_on_owner', ['aalloc 0 5 4', 'aalloc 0 9223372036854775808 4', 'asize 0', 'adata 0', 'aalloc 0 2 4',
                                      'aset 1 0 10 4', 'aalloc 1 18446744073709551615 2', 'asize 1', 'adata 1', 'arelease 1',
                                      'aalloc 2 4 4', 'aslice 2 1 3 1', 'aalloc 1 4611686018427387904 8', 'asize 1', 'asize 2',
                                      'adata 1']),
        ('slice_after_alloc', ['aalloc 0 5 4', 'aslice 0 1 4 1', 'aalloc 0 6 4', 'asize 1', 'aat 1 0', 'aunslice 1 2',
                               'aalloc 1 2 4', 'asize 2', 'areset 0']),
    ]
    if tier != 'quick':
        rnd = random.Random(seed * 31 + 14)
        w = dict(aalloc=5, aset=3, arelease=2, adata=1, asize=2, areset=1)
        for i in range(12):
            c = memref.gen_case(rnd, 'c16rnd%d' % i, ['A', 'A', 'A'], [40, 64], 12, w, p_relfail=0.0, p_header_fail=0.0,
                                p_keep_abort=0.0, benign=True)
            base.append((c.name, c.ops))
    return [Case('c16_' + n, hdr, ops, 'c16') for n, ops in base]
