"""Reference semantics of the smart pointers and array views, written from the
property texts of C05 / C14 / C20 and the header documentation, independent of
the Coq model: an owner-set / reference-set model for shared and weak pointers,
a buffer-bounds + lifetime model for array views, a stray-copy tracker, and an
audit of the intercepted allocator log.  Used by checks/c05.py, c14.py, c20.py
(a) as the property oracle on the implementation's trace and (b) with a
simulated allocator, to steer the random script generators."""

M64 = 1 << 64
SMAX = M64 - 1
LIMIT = 1 << 32
HDR = 24          # sizeof(struct cstl_raw_array): sz, nm, buf


class Violation(Exception):
    def __init__(self, key, msg):
        Exception.__init__(self, msg)
        self.key = key
        self.msg = msg


class Skip(Exception):
    """the script leaves the documented domain"""


class Alloc:
    """one managed allocation: memory block m, bookkeeping block d"""

    def __init__(self, d, m, cb):
        self.d = d
        self.m = m
        self.cb = cb            # None or tag
        self.owners = set()
        self.weaks = set()
        self.arr = None         # dict(nm, sz, ext) for array buffers


# argument positions (word indices) holding pool slots, per entry point
SLOTS = {
    'uinit': [1], 'ualloc': [1], 'uget': [1], 'urelease': [1], 'uswap': [1, 2], 'ureset': [1],
    'sinit': [1], 'salloc': [1], 'sget': [1], 'sunique': [1], 'sshare': [1, 2], 'sswap': [1, 2], 'sreset': [1],
    'winit': [1], 'wfrom': [1, 2], 'wlock': [1, 2], 'wswap': [1, 2], 'wreset': [1],
    'ainit': [1], 'aalloc': [1], 'aset': [1], 'arelease': [1], 'adata': [1], 'aat': [1], 'asize': [1],
    'aslice': [1, 4], 'aunslice': [1, 2], 'areset': [1], 'straycopy': [1, 2],
    # the guarded pointer used directly as an object (kind G); gcopy dst src
    'ginit': [1], 'gset': [1], 'gget': [1], 'ggetc': [1], 'gcopy': [1, 2], 'gswap': [1, 2],
}
KINDS = {
    'uinit': 'U', 'ualloc': 'U', 'uget': 'U', 'urelease': 'U', 'uswap': 'UU', 'ureset': 'U',
    'sinit': 'S', 'salloc': 'S', 'sget': 'S', 'sunique': 'S', 'sshare': 'SS', 'sswap': 'SS', 'sreset': 'S',
    'winit': 'W', 'wfrom': 'WS', 'wlock': 'WS', 'wswap': 'WW', 'wreset': 'W',
    'ainit': 'A', 'aalloc': 'A', 'aset': 'A', 'arelease': 'A', 'adata': 'A', 'aat': 'A', 'asize': 'A',
    'aslice': 'AA', 'aunslice': 'AA', 'areset': 'A',
    'ginit': 'G', 'gset': 'G', 'gget': 'G', 'ggetc': 'G', 'gcopy': 'GG', 'gswap': 'GG',
}
# entry points that never read the pointer (no guard expected)
UNGUARDED = ('uinit', 'sinit', 'winit', 'ainit', 'asize', 'straycopy', 'ginit', 'gset')
# entry points that read only some of their objects through the guard (positions in SLOTS order): the
# destination of cstl_guarded_ptr_copy is overwritten and re-stamped, "regardless of its current state"
GUARDED_ARGS = {'gcopy': [1]}
# accessors that have a *_const variant with the same specification (header `constapi 1` selects it)
CONST_OPS = ('uget', 'sget', 'aat', 'adata', 'gget')


class SimAllocator:
    """the harness' allocator policy, for script generation only"""

    def __init__(self, fails=(), failfrom=None):
        self.ord = 0
        self.next = 0
        self.fails = set(fails)
        self.failfrom = failfrom
        self.rel = set()
        self.base = 0

    def begin(self, rel):
        self.rel = set(rel)
        self.base = self.ord

    def malloc(self, sz):
        o = self.ord
        self.ord += 1
        if o in self.fails or (self.failfrom is not None and o >= self.failfrom) or (o - self.base) in self.rel \
                or sz > LIMIT:
            return None
        b = self.next
        self.next += 1
        return b


class TraceAllocator:
    """allocation outcomes read from the implementation's own event log"""

    def __init__(self):
        self.reqs = []

    def begin_events(self, evs):
        self.reqs = [e for e in evs if e[0] in (1, 2)]

    def malloc(self, sz):
        if not self.reqs:
            raise Violation('alloc:no-request', 'expected an allocation request of %d bytes, none was made' % sz)
        e = self.reqs.pop(0)
        got = e[2] if e[0] == 1 else e[1]
        if got < sz:
            raise Violation('alloc:request-too-small',
                            'allocation request of %d bytes where at least %d are needed' % (got, sz))
        return e[1] if e[0] == 1 else None


def parse_line(line):
    """'ok <out> | S0 self=0 p=1 ... ;; ; 1 0 56' -> (status, out, slots, events)"""
    head, _, evs = line.partition(';;')
    parts = head.split('|')
    w = parts[0].split()
    status = w[0] if w else ''
    try:
        out = [int(x) for x in w[1:]] if status in ('ok', 'final') else []
    except ValueError:
        status, out = 'garbled', []
    slots = []
    for p in parts[1:]:
        d = {}
        ws = p.split()
        d['name'] = ws[0]
        for kv in ws[1:]:
            if '=' in kv:
                k, v = kv.split('=', 1)
                d[k] = v
            else:
                d[kv] = True
        slots.append(d)
    events = []
    for e in evs.split(';'):
        t = e.split()
        if t:
            events.append(tuple(int(x) for x in t))
    return status, out, slots, events


class RefMem:
    def __init__(self, kinds, exts):
        n = len(kinds)
        self.kind = list(kinds)
        self.exts = list(exts)
        self.stray = [False] * n
        self.ref = [None] * n         # S/W/A: Alloc or None; U: (m, cb) or None; G: the stored value (int) or None
        self.off = [0] * n
        self.len = [0] * n
        self.live = {}                # allocator audit: block -> size
        self.freed = set()
        self.cleared = set()
        self.stray_self = [None] * n  # slot whose address a stray copy carries
        self.unrepresentable = False  # the last array allocation asked for more than SIZE_MAX bytes
        self.cbw = None               # header `cbwreset w`: every clear callback resets weak pointer w

    # ------------------------------------------------------------ domain
    def disposable(self, i):
        # a guarded pointer object owns nothing: it may be overwritten in any state
        return self.stray[i] or self.ref[i] is None or self.kind[i] == 'G'

    def check_domain(self, w):
        o = w[0]
        if o not in SLOTS:
            raise Skip()
        idx = [int(w[p]) for p in SLOTS[o]]
        if any(not (0 <= i < len(self.kind)) for i in idx):
            raise Skip()
        if o == 'straycopy':
            s, d = idx
            if s == d or self.kind[s] != self.kind[d] or not self.disposable(d):
                raise Skip()
            # the copy must not land on the address stored in it
            if self.stray[s] and self.stray_self[s] == d:
                raise Skip()
            return idx
        ks = KINDS[o]
        if any(self.kind[i] != k for i, k in zip(idx, ks)):
            raise Skip()
        if o.endswith('init') and not self.disposable(idx[0]):
            raise Skip()
        if o == 'uswap' and idx[0] == idx[1] and not self.stray[idx[0]]:
            raise Skip()            # (on a stray copy the guarded read aborts before anything is copied)
        if o == 'aset':
            e = int(w[2])
            if not (0 <= e < len(self.exts)) or int(w[3]) * int(w[4]) > self.exts[e]:
                raise Skip()
        return idx

    # ------------------------------------------------------------ reference moves
    def leave(self, i, exp):
        """owner i (shared pointer or array) lets go"""
        a = self.ref[i]
        self.ref[i] = None
        if a is None:
            return
        a.owners.discard(i)
        if not a.owners:
            if a.cb is not None:
                exp.append(('clear', a.m, a.cb))
                self.cb_fire(exp, a)
            exp.append(('free', a.m))
            if not a.weaks:
                exp.append(('free', a.d))

    def cb_fire(self, exp, cur):
        """what the harness's clear callback does besides logging (header cbwreset): reset weak pointer w.  The
        resetting owner of `cur` still counts as a reference of its bookkeeping block while the callback runs."""
        w = self.cbw
        if w is None:
            return
        aw = self.ref[w]
        self.ref[w] = None
        if aw is None:
            return
        aw.weaks.discard(w)
        if aw is not cur and not aw.owners and not aw.weaks:
            exp.append(('free', aw.d))

    def leave_weak(self, i, exp):
        a = self.ref[i]
        self.ref[i] = None
        if a is None:
            return
        a.weaks.discard(i)
        if not a.owners and not a.weaks:
            exp.append(('free', a.d))

    def new_alloc(self, i, sz, cb, al, exp):
        """two-level allocation; -> Alloc or None (object stays empty)"""
        if sz == 0:
            return None
        d = al.malloc(1)
        if d is None:
            return None
        m = al.malloc(sz)
        if m is None:
            exp.append(('free', d))
            return None
        a = Alloc(d, m, cb)
        a.owners.add(i)
        self.ref[i] = a
        return a

    def swap_refs(self, a, b):
        ra, rb = self.ref[a], self.ref[b]
        for (r, frm) in ((ra, a), (rb, b)):
            if r is not None and not isinstance(r, tuple):
                s = r.owners if frm in r.owners else r.weaks
                s.discard(frm)
        self.ref[a], self.ref[b] = rb, ra
        owner = self.kind[a] in 'SA'
        for (r, to) in ((rb, a), (ra, b)):
            if r is not None and not isinstance(r, tuple):
                (r.owners if owner else r.weaks).add(to)

    # ------------------------------------------------------------ one call
    def apply(self, w, al):
        """-> dict(abort=bool, out=list|None, exp=[('clear',m,tag)|('free',b)])
        raises Skip outside the domain"""
        o = w[0]
        idx = self.check_domain(w)
        self.unrepresentable = False
        exp = []
        out = []
        if o not in UNGUARDED:
            for pos, i in enumerate(idx):
                if pos not in GUARDED_ARGS.get(o, range(len(idx))):
                    continue
                if self.stray[i]:
                    return dict(abort=True, why='stray copy in argument %d' % (pos + 1), out=None, exp=[], stray=pos + 1)
        a = idx[0]
        if o.endswith('init'):
            self.stray[a] = False
            self.ref[a] = None
            self.off[a] = self.len[a] = 0
        elif o == 'straycopy':
            s, d = idx
            self.stray[d] = True
            self.stray_self[d] = self.stray_self[s] if self.stray[s] else s
            self.ref[d] = None            # the bytes carry a pointer, not a reference
            self.off[d], self.len[d] = self.off[s], self.len[s]
        elif o == 'gset':
            self.stray[a] = False             # stamped with its own address, whatever it was
            self.ref[a] = int(w[2]) or None
        elif o in ('gget', 'ggetc'):
            out = [self.ref[a] if self.ref[a] is not None else -1]
        elif o == 'gcopy':
            dst, src = idx
            v = self.ref[src]
            self.stray[dst] = False           # the destination is overwritten and re-stamped
            self.ref[dst] = v
        elif o == 'gswap':
            b = idx[1]
            self.ref[a], self.ref[b] = self.ref[b], self.ref[a]
        elif o == 'ualloc':
            sz, cb = int(w[2]), int(w[3])
            self.u_destroy(a, exp)
            if sz > 0:
                m = al.malloc(sz)
                if m is not None:
                    self.ref[a] = (m, cb if cb >= 0 else None)
        elif o == 'uget':
            out = [self.ref[a][0] if self.ref[a] else -1]
        elif o == 'urelease':
            r = self.ref[a]
            out = [r[0], -1 if r[1] is None else r[1]] if r else [-1, -1]
            if r:
                exp.append(('free', r[0]))      # freed by the caller at once, never cleared
            self.ref[a] = None
        elif o == 'uswap':
            b = idx[1]
            self.ref[a], self.ref[b] = self.ref[b], self.ref[a]
        elif o == 'ureset':
            self.u_destroy(a, exp)
        elif o == 'salloc':
            self.leave(a, exp)
            self.new_alloc(a, int(w[2]), 0 if int(w[3]) else None, al, exp)
        elif o == 'sget':
            r = self.ref[a]
            out = [r.m if r else -1]
        elif o == 'sunique':
            r = self.ref[a]
            out = [1 if (r is None or len(r.owners) + len(r.weaks) == 1) else 0]
        elif o == 'sshare':
            e, n = idx
            self.leave(n, exp)
            r = self.ref[e]
            if r is not None:
                r.owners.add(n)
                self.ref[n] = r
        elif o in ('sswap', 'wswap'):
            if idx[0] != idx[1]:
                self.swap_refs(idx[0], idx[1])
        elif o == 'sreset':
            self.leave(a, exp)
        elif o == 'wfrom':
            wk, s = idx
            self.leave_weak(wk, exp)
            r = self.ref[s]
            if r is not None:
                r.weaks.add(wk)
                self.ref[wk] = r
        elif o == 'wlock':
            wk, s = idx
            self.leave(s, exp)
            r = self.ref[wk]
            if r is not None and r.owners:
                r.owners.add(s)
                self.ref[s] = r
        elif o == 'wreset':
            self.leave_weak(a, exp)
        elif o == 'aalloc':
            nm, sz = int(w[2]), int(w[3])
            self.array_new(a, nm, sz, None, al, exp)
        elif o == 'aset':
            self.array_new(a, int(w[3]), int(w[4]), int(w[2]), al, exp)
        elif o == 'areset':
            self.leave(a, exp)
            self.off[a] = self.len[a] = 0
        elif o == 'arelease':
            r = self.ref[a]
            if r is not None and r.arr['ext'] is not None and len(r.owners) + len(r.weaks) == 1:
                out = [r.arr['ext']]
                self.leave(a, exp)
                self.off[a] = self.len[a] = 0
            else:
                out = [-1]
        elif o == 'asize':
            out = [self.len[a]]
        elif o == 'adata':
            r = self.ref[a]
            if r is None:
                out = [-1]
            elif r.arr['ext'] is not None:
                out = [1, r.arr['ext'], 0]
            else:
                out = [0, r.m, HDR]
        elif o == 'aat':
            i = int(w[2])
            if i >= self.len[a]:
                return dict(abort=True, why='index %d >= size %d' % (i, self.len[a]), out=None, exp=[], stray=0)
            r = self.ref[a]
            byte = (self.off[a] + i) * r.arr['sz']
            out = [1, r.arr['ext'], byte] if r.arr['ext'] is not None else [0, r.m, HDR + byte]
        elif o == 'aslice':
            b, e, t = int(w[2]), int(w[3]), idx[1]
            r = self.ref[a]
            if r is None or e < b or self.off[a] + e > r.arr['nm']:
                return dict(abort=True, why='slice [%d,%d) of a view at offset %d over %s elements' % (
                    b, e, self.off[a], r.arr['nm'] if r else 'no'), out=None, exp=[], stray=0)
            no, nl = self.off[a] + b, e - b
            if t != a:
                self.leave(t, exp)
                r.owners.add(t)
                self.ref[t] = r
            self.off[t], self.len[t] = no, nl
        elif o == 'aunslice':
            s, t = idx
            r = self.ref[s]
            if r is None:
                return dict(abort=True, why='unslice of an empty object', out=None, exp=[], stray=0)
            if t != s:
                self.leave(t, exp)
                r.owners.add(t)
                self.ref[t] = r
            self.off[t], self.len[t] = 0, r.arr['nm']
        else:
            raise Skip()
        return dict(abort=False, out=out, exp=exp, stray=0)

    def u_destroy(self, a, exp):
        r = self.ref[a]
        self.ref[a] = None
        if r:
            if r[1] is not None:
                exp.append(('clear', r[0], r[1]))
                self.cb_fire(exp, None)
            exp.append(('free', r[0]))

    def array_new(self, a, nm, sz, ext, al, exp):
        """the object first lets go of what it had (offset and length included);
        a failed or unrepresentable allocation leaves it empty"""
        self.leave(a, exp)
        self.off[a] = self.len[a] = 0
        inline = 0 if ext is not None else nm
        if HDR + inline * sz > SMAX:
            self.unrepresentable = True
            return
        r = self.new_alloc(a, HDR + inline * sz, None, al, exp)
        if r is not None:
            r.arr = dict(nm=nm, sz=sz, ext=ext)
            self.len[a] = nm

    # ------------------------------------------------------------ cleanup at the end of a case
    def cleanup(self):
        exp = []
        for i, k in enumerate(self.kind):
            if self.stray[i]:
                self.stray[i] = False
                self.ref[i] = None
            elif k == 'G':
                self.ref[i] = None
            elif k == 'U':
                self.u_destroy(i, exp)
            elif k == 'W':
                self.leave_weak(i, exp)
            else:
                self.leave(i, exp)
            self.off[i] = self.len[i] = 0
        return exp

    # ------------------------------------------------------------ audit of the allocator / callback log
    def audit(self, events, opname):
        for e in events:
            if e[0] == 1:
                if e[1] in self.live or e[1] in self.freed:
                    raise Violation('%s:block-id-reused' % opname, 'block %d allocated twice' % e[1])
                self.live[e[1]] = e[2]
            elif e[0] == 2:
                pass
            elif e[0] == 6:
                if e[1] not in self.live:
                    raise Violation('%s:double-free' % opname, 'block %d released although it is not live' % e[1])
                del self.live[e[1]]
                self.freed.add(e[1])
            elif e[0] == 7:
                raise Violation('%s:bad-free' % opname, 'free of a pointer that is not a live block')
            elif e[0] == 8:
                if e[1] not in self.live:
                    raise Violation('%s:clear-of-dead-memory' % opname,
                                    'clear callback called with %d which is not live memory' % e[1])
                if e[1] in self.cleared:
                    raise Violation('%s:cleared-twice' % opname, 'clear callback ran twice for block %d' % e[1])
                self.cleared.add(e[1])
            else:
                raise Violation('%s:unexpected-allocator-event' % opname, 'event %s' % (e,))

    def check_events(self, events, exp, opname):
        """the destroy events of this call are exactly the expected ones (as a
        multiset), each clear before the free of the same block"""
        got = []
        for e in events:
            if e[0] == 6:
                got.append(('free', e[1]))
            elif e[0] == 8:
                got.append(('clear', e[1], e[2]))
        for x in exp:
            if x not in got:
                what = 'clear callback for' if x[0] == 'clear' else 'release of'
                raise Violation('%s:missing-%s' % (opname, x[0]),
                                '%s block %d expected in this call (last %s let go), events %s' % (
                                    what, x[1], 'owner' if x[0] == 'clear' else 'reference', events))
            got.remove(x)
        if got:
            x = got[0]
            raise Violation('%s:unexpected-%s' % (opname, x[0]),
                            '%s of block %d in this call although %s' % (
                                'clear callback' if x[0] == 'clear' else 'release', x[1],
                                'it still has an owner / reference or was never owned here'))
        order = [(e[0], e[1]) for e in events if e[0] in (6, 8)]
        for x in exp:
            if x[0] == 'clear' and order.index((8, x[1])) > order.index((6, x[1])):
                raise Violation('%s:free-before-clear' % opname, 'block %d released before its clear callback ran' % x[1])

    def check_dump(self, slots, opname):
        if len(slots) != len(self.kind):
            raise Violation('%s:garbled' % opname, 'dump has %d slots' % len(slots))
        for i, d in enumerate(slots):
            if self.stray[i]:
                continue
            k = self.kind[i]
            r = self.ref[i]
            p = int(d.get('p', '-9'))
            if d.get('self') != str(i):
                raise Violation('%s:self-address-lost' % opname, 'object %d no longer carries its own address' % i)
            if k == 'G':
                if p != (r if r is not None else -1):
                    raise Violation('%s:guarded-value' % opname, 'guarded pointer %d holds %d, reference %s' % (i, p, r))
                continue
            if k == 'U':
                if p != (r[0] if r else -1) or int(d.get('c', '-9')) != (-1 if not r or r[1] is None else r[1]):
                    raise Violation('%s:unique-state' % opname, 'unique pointer %d holds %s, reference %s' % (i, d, r))
                continue
            if r is None:
                if p != -1:
                    raise Violation('%s:not-empty' % opname, 'object %d should be empty but points at block %d' % (i, p))
            else:
                if p != r.d:
                    raise Violation('%s:wrong-target' % opname,
                                    'object %d refers to bookkeeping block %d, reference %d' % (i, p, r.d))
                h, s, m = int(d.get('h', '-9')), int(d.get('s', '-9')), int(d.get('m', '-9'))
                if h != len(r.owners) or s != len(r.owners) + len(r.weaks):
                    raise Violation('%s:wrong-counts' % opname,
                                    'block %d: owner count %d reference count %d; %d shared and %d weak objects refer to it' % (
                                        r.d, h, s, len(r.owners), len(r.weaks)))
                if m != (r.m if r.owners else -1):
                    raise Violation('%s:wrong-memory' % opname, 'block %d manages %d, reference %s' % (
                        r.d, m, r.m if r.owners else -1))
            if k == 'A':
                off, ln = int(d.get('off', '-9')), int(d.get('len', '-9'))
                if r is None and (off, ln) != (0, 0):
                    raise Violation('%s:empty-object-not-reset' % opname,
                                    'array object %d is empty but has offset %d length %d' % (i, off, ln))
                if r is not None:
                    if (off, ln) != (self.off[i], self.len[i]):
                        raise Violation('%s:wrong-view' % opname,
                                        'array object %d: offset %d length %d, reference offset %d length %d' % (
                                            i, off, ln, self.off[i], self.len[i]))
                    nm = int(d.get('nm', '-9'))
                    if off + ln > nm:
                        raise Violation('%s:view-exceeds-buffer' % opname,
                                        'array object %d: offset %d + length %d > %d elements' % (i, off, ln, nm))
                    if nm != r.arr['nm'] or int(d.get('sz', '-9')) != r.arr['sz']:
                        raise Violation('%s:wrong-descriptor' % opname, 'array object %d descriptor %s' % (i, d))
                    need = HDR + (0 if r.arr['ext'] is not None else r.arr['nm'] * r.arr['sz'])
                    if self.live.get(r.m, -1) < need:
                        raise Violation('%s:buffer-too-small' % opname,
                                        'array object %d reports %d elements of %d bytes but its block %d has %d bytes' % (
                                            i, r.arr['nm'], r.arr['sz'], r.m, self.live.get(r.m, -1)))


def split_op(op):
    w = op.split()
    if '!' in w:
        k = w.index('!')
        return w[:k], [int(x) for x in w[k + 1:]]
    return w, []


def header_of(case):
    kinds, exts, fails, ffrom = [], [], [], None
    for h in case.header:
        w = h.split()
        if w[0] == 'pool':
            kinds = w[1:]
        elif w[0] == 'ext':
            exts = [int(x) for x in w[1:]]
        elif w[0] == 'fail':
            fails = [int(x) for x in w[1:]]
        elif w[0] == 'failfrom':
            ffrom = int(w[1])
    return kinds, exts, fails, ffrom


def oracle(case, impl):
    """Property oracle over the implementation's trace of one case.
    -> None or (key, message)"""
    kinds, exts, _, _ = header_of(case)
    ref = RefMem(kinds, exts)
    for h in case.header:
        if h.split()[0] == 'cbwreset':
            ref.cbw = int(h.split()[1])
    al = TraceAllocator()
    try:
        for i, op in enumerate(case.ops):
            w, _ = split_op(op)
            name = w[0]
            if i >= len(impl):
                return ('%s:no-output' % name, 'no output for operation %d (%s)' % (i, op))
            status, out, slots, events = parse_line(impl[i])
            if any(e and e[0] == 9 for e in events):
                return ('clear:reentrant-lock-owner', 'operation %d (%s): a weak-pointer lock issued from inside the clear callback '
                        'yielded an owner of the memory that is being destroyed' % (i, op))
            events = [e for e in events if not (e and e[0] == 9)]
            if status not in ('ok', 'abort', 'fault', 'timeout'):
                return ('%s:garbled' % name, 'unparsable line %r' % impl[i])
            al.begin_events(events)
            try:
                r = ref.apply(w, al)
            except Skip:
                return None
            where = 'operation %d (%s)' % (i, op)
            if r['abort']:
                if status != 'abort':
                    if r['stray']:
                        return ('%s:stray-copy-not-caught:arg%d' % (name, r['stray']),
                                '%s must abort (%s) but ended in: %s' % (where, r['why'], impl[i][:80]))
                    return ('%s:no-abort' % name, '%s must abort (%s) but ended in: %s' % (where, r['why'], impl[i][:80]))
                return None
            if status != 'ok':
                return ('%s:%s' % (name, status), '%s ended in %s; expected a normal return' % (where, status))
            ref.audit(events, name)
            if ref.unrepresentable and slots and int(w[1]) < len(slots) and slots[int(w[1])].get('p') != '-1':
                return ('%s:unrepresentable-size-accepted' % name,
                        '%s: %s elements of %s bytes cannot be represented, yet the object is not empty: %s' % (
                            where, w[2], w[3], slots[int(w[1])]))
            if out != r['out']:
                return ('%s:wrong-result' % name, '%s returned %s, reference %s' % (where, out, r['out']))
            ref.check_events(events, r['exp'], name)
            if name == 'aat':
                blk = out[1]
                a = int(w[1])
                rr = ref.ref[a]
                size = ref.exts[blk] if out[0] == 1 else ref.live.get(blk, -1)
                if out[2] + rr.arr['sz'] > size:
                    return ('aat:outside-buffer', '%s: byte %d + %d of a %d-byte buffer' % (where, out[2], rr.arr['sz'], size))
            ref.check_dump(slots, name)
            # an allocation that succeeded must be owned by somebody afterwards
            owned = set()
            for x in ref.ref:
                if isinstance(x, tuple):
                    owned.add(x[0])
                elif isinstance(x, int):
                    pass                     # the value of a guarded pointer object: owns nothing
                elif x is not None:
                    owned.add(x.d)
                    if x.owners:
                        owned.add(x.m)
            for b in ref.live:
                if b not in owned:
                    return ('%s:leak' % name, '%s: block %d is live but no object owns it' % (where, b))
        if len(impl) > len(case.ops):
            status, out, slots, events = parse_line(impl[len(case.ops)])
            if status != 'final':
                return ('final:%s' % status, 'resetting every object ended in %s' % status)
            exp = ref.cleanup()
            ref.audit(events, 'final')
            ref.check_events(events, exp, 'final')
            if out != [0] or ref.live:
                return ('final:leak', 'after resetting every object %s blocks are still live: %s' % (out, sorted(ref.live)))
        else:
            return ('final:missing', 'the case did not reach its end')
    except Violation as v:
        return (v.key, 'operation %d (%s): %s' % (i, case.ops[i] if i < len(case.ops) else 'final', v.msg))
    return None


class Sim:
    """reference + simulated allocator, for generators: tells whether an
    operation is inside the domain and whether it would abort"""

    def __init__(self, kinds, exts, fails=(), failfrom=None):
        self.ref = RefMem(kinds, exts)
        self.al = SimAllocator(fails, failfrom)

    def apply(self, op):
        """-> 'skip' | 'abort' | 'ok'"""
        w, rel = split_op(op)
        self.al.begin(rel)
        try:
            r = self.ref.apply(w, self.al)      # Skip is raised before anything is changed
        except Skip:
            return 'skip'
        return 'abort' if r['abort'] else 'ok'


# ---------------------------------------------------------------- generators

HEADER_WORDS = ('pool', 'ext', 'fail', 'failfrom', 'cbprobe', 'cbwreset', 'constapi', 'relnull', 'farslots')


def slots_of(kinds, k):
    return [i for i, x in enumerate(kinds) if x == k]


def draw_op(rnd, sim, kinds, exts, weights, p_relfail, benign=False):
    """one candidate operation aimed at the case-split boundaries"""
    ref = sim.ref
    names = [n for n in weights if all(slots_of(kinds, k) for k in KINDS.get(n, ''))]
    name = rnd.choices(names, [weights[n] for n in names])[0]

    def pick(k):
        return rnd.choice(slots_of(kinds, k))
    rel = ''
    if name in ('ualloc', 'salloc', 'aalloc', 'aset') and rnd.random() < p_relfail:
        rel = ' ! %d' % rnd.choice([0, 0, 1, 1, 2])
    if name == 'straycopy':
        k = rnd.choice(sorted(set(kinds)))
        c = slots_of(kinds, k)
        return 'straycopy %d %d' % (rnd.choice(c), rnd.choice(c))
    ks = KINDS[name]
    args = [pick(k) for k in ks]
    if name == 'gset':
        return 'gset %d %d' % (args[0], rnd.choice([0, 1, 2, 3]))
    if name == 'ualloc':
        return 'ualloc %d %d %d%s' % (args[0], rnd.choice([0, 1, 8, 8, 100, 1 << 20, LIMIT + 1]), rnd.choice([-1, 0, 3, 7]), rel)
    if name == 'salloc':
        return 'salloc %d %d %d%s' % (args[0], rnd.choice([0, 1, 8, 8, 64, LIMIT + 1]), rnd.choice([0, 1, 1]), rel)
    if benign and name in ('aalloc', 'aset') and (ref.off[args[0]] or ref.len[args[0]]):
        return 'areset %d' % args[0]          # re-allocating a live view is C14's business (F6)
    if benign and name == 'aalloc':
        return 'aalloc %d %d %d%s' % (args[0], rnd.choice([0, 1, 3, 5, 10]), rnd.choice([1, 4, 8]), rel)
    if benign and name == 'aslice':
        a, t = args
        ln = ref.len[a]
        b, e = sorted([rnd.randrange(0, ln + 2), rnd.randrange(0, ln + 2)])
        return 'aslice %d %d %d %d' % (a, b, e, rnd.choice([a, t]))
    if benign and name == 'aat':
        return 'aat %d %d' % (args[0], rnd.randrange(0, ref.len[args[0]] + 2))
    if name == 'aalloc':
        sz = rnd.choice([0, 1, 4, 4, 4, 8, 1 << 32, SMAX])
        nms = [0, 1, 3, 5, 10, (1 << 62) + 1, SMAX, SMAX - 23, SMAX - 24, 1 << 20, 1 << 30]
        if sz:
            nms += [(SMAX - HDR) // sz, (SMAX - HDR) // sz + 1, M64 // sz, M64 // sz + 1]
            # products in (SIZE_MAX - header, SIZE_MAX]: representable alone, not together with the header
            nms += [(SMAX - 8) // sz, (SMAX - 15) // sz, (SMAX - 22) // sz, (SMAX - 1) // sz, SMAX // sz]
        nm = rnd.choice(nms)
        if (1 << 24) < HDR + nm * sz <= LIMIT:
            nm = 5                   # do not really allocate gigabytes
        return 'aalloc %d %d %d%s' % (args[0], nm, sz, rel)
    if name == 'aset':
        e = rnd.randrange(len(exts))
        sz = rnd.choice([1, 4, 4, 8])
        nm = rnd.choice([0, 1, exts[e] // sz, exts[e] // sz // 2])
        return 'aset %d %d %d %d%s' % (args[0], e, nm, sz, rel)
    if name == 'aat':
        a = args[0]
        ln = ref.len[a]
        return 'aat %d %d' % (a, rnd.choice([0, 0, max(ln, 1) - 1, max(ln, 1) - 1, ln // 2, ln, ln + 1, SMAX, SMAX - ref.off[a]]) % M64)
    if name == 'aslice':
        a, t = args
        if rnd.random() < 0.3:
            t = a
        ln, off = ref.len[a], ref.off[a]
        r = ref.ref[a] if not ref.stray[a] else None
        nm = r.arr['nm'] if r is not None and r.arr else 0
        cand = [0, 0, 1, ln // 2, max(ln, 1) - 1, ln, ln, ln + 1, max(nm - off, 0), max(nm - off, 0) + 1, nm, nm + 1,
                SMAX, SMAX - 1, SMAX - off, (SMAX - off + 1) % M64, 1 << 63]
        b, e = rnd.choice(cand) % M64, rnd.choice(cand) % M64
        if rnd.random() < 0.6 and b > e:
            b, e = e, b
        return 'aslice %d %d %d %d' % (a, b, e, t)
    return ' '.join([name] + [str(x) for x in args])


def gen_case(rnd, name, kinds, exts, nops, weights, p_relfail=0.08, p_header_fail=0.3, p_keep_abort=0.15,
             benign=False):
    from lib.core import Case
    header = ['pool ' + ' '.join(kinds)]
    if exts:
        header.append('ext ' + ' '.join(str(x) for x in exts))
    fails, ffrom = [], None
    if rnd.random() < p_header_fail:
        if rnd.random() < 0.7:
            fails = sorted(set(rnd.randrange(0, 2 * nops + 2) for _ in range(rnd.choice([1, 2, 4, 8]))))
            header.append('fail ' + ' '.join(str(x) for x in fails))
        else:
            ffrom = rnd.randrange(0, 2 * nops + 2)
            header.append('failfrom %d' % ffrom)
    sim = Sim(kinds, exts, fails, ffrom)
    ops = []
    tries = 0
    while len(ops) < nops and tries < 40 * nops:
        tries += 1
        op = draw_op(rnd, sim, kinds, exts, weights, p_relfail, benign)
        # would it abort?  decide on a scratch copy whether to keep it
        import copy
        probe = copy.deepcopy(sim)
        r = probe.apply(op)
        if r == 'skip':
            continue
        if r == 'abort':
            if rnd.random() < p_keep_abort:
                ops.append(op)
                break
            continue
        sim = probe
        ops.append(op)
    return Case(name, header, ops, 'random')


def const_variants(cases, every=2):
    """The *_const accessors (cstl_unique_ptr_get_const, cstl_shared_ptr_get_const, cstl_array_at_const,
    cstl_array_data_const, cstl_guarded_ptr_get_const) have the specification of their non-const twins: every
    second case that uses one of uget / sget / aat / adata / gget is replayed with the header `constapi 1`, which
    makes the driver call the const variant instead.  Model and oracle ignore the header."""
    from lib.core import Case
    out = []
    n = 0
    for c in cases:
        if any(h.split()[0] == 'constapi' for h in c.header):
            continue
        if not any(o.split()[0] in CONST_OPS for o in c.ops):
            continue
        n += 1
        if n % every:
            continue
        out.append(Case(c.name + 'k', c.header + ['constapi 1'], c.ops, c.origin))
    return out


def relnull_variants(cases, every=2):
    """Every `every`-th case with an arelease (and no stray copies) once more with NULL as the out-parameter of
    cstl_array_release (header relnull 1): the driver reconstructs what would have been handed back from the object's data
    pointer before and after the call, so model and oracle see the same trace."""
    from lib.core import Case
    out, n = [], 0
    for c in cases:
        if any(h.split()[0] == 'relnull' for h in c.header):
            continue
        if not any(o.split()[0] == 'arelease' for o in c.ops) or any(o.split()[0] == 'straycopy' for o in c.ops):
            continue
        n += 1
        if n % every == 0:
            out.append(Case(c.name + 'r', c.header + ['relnull 1'], c.ops, c.origin))
    return out
