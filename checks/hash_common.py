"""Shared parts of the hash-table checks (C03, C04, C19; reusable for C17(b)
and C16): Spec base class, trace parser, script generators and the
model-independent reference used by the property oracles.

Script syntax and trace format: notes/C17b.md."""
import random
import struct
from lib.engine import Spec
from lib.core import Case

WRAP = '-Wl,--wrap=malloc,--wrap=realloc,--wrap=free,--wrap=calloc'
BAD_FNS = (4, 5, 6, 7)
KEYED = ('insert', 'find', 'erase')


def f32bits(num, den):
    """bit pattern of (float)num / (float)den in IEEE single precision"""
    a = struct.unpack('f', struct.pack('f', float(num)))[0]
    b = struct.unpack('f', struct.pack('f', float(den)))[0]
    return struct.unpack('i', struct.pack('f', a / b))[0]


class Line:
    """One 'ok ...' line of a trace."""
    __slots__ = ('res', 'H', 'C', 'O', 'V', 'X', 'tabs', 'events')


def parse_line(line):
    if not line.startswith('ok'):
        return None
    main, _, evs = line.partition(';;')
    segs = main.split('|')
    parts = segs[0].split('#')
    r = Line()
    r.res = [int(x) for x in parts[0].split()[1:]]
    h = [int(x) for x in parts[1].split()[1:]]
    r.H = [tuple(h[i:i + 3]) for i in range(0, len(h), 3)]
    c = parts[2].split()[1]
    r.C = None if c == '-' else int(c)
    r.O = [int(x) for x in parts[3].split()[1:]]
    r.V = [int(x) for x in parts[4].split()[1:]]
    r.X = [int(x) for x in parts[5].split()[1:]]
    r.tabs = []
    for s in segs[1:]:
        bs = s.split('/')
        w = bs[0].split()[1:]
        f = [int(x) for x in w]
        t = dict(size=f[0], count=f[1], cap=f[2], hash=f[3], cst=f[4], rcount=f[5], rclean=f[6],
                 rhash=f[7], at=f[8], buckets=[])
        for b in bs[1:]:
            ww = b.split()
            t['buckets'].append((int(ww[0]), [x if x == '?' else int(x) for x in ww[1:]]))
        r.tabs.append(t)
    r.events = [[int(x) for x in e.split()] for e in evs.split(';') if e.strip()]
    return r


def header_of(case):
    keys, nt, bad = [], 1, False
    for h in case.header:
        w = h.split()
        if w[0] == 'keys':
            keys += [int(x) for x in w[1:]]
        elif w[0] == 'ntabs':
            nt = int(w[1])
    return keys, nt


class Ref:
    """Reference bookkeeping that follows a script using only the script and
    the implementation's own output: membership per table keyed by element
    id, requested geometry, cleared flag.  No knowledge of buckets."""

    def __init__(self, keys, nt):
        self.keys = keys
        self.mem = [set() for _ in range(nt)]        # live element ids per table
        self.tgt = [None for _ in range(nt)]         # (n, f) most recently requested and satisfiable
        self.cleared = [False for _ in range(nt)]
        self.since = [0 for _ in range(nt)]          # keyed ops since the table was last seen settled
        self.budget = [0 for _ in range(nt)]         # buckets there were when the pending rehash was first seen
        self.bad_fn = False

    def key(self, e):
        return self.keys[e] if e < len(self.keys) else 0

    def where(self, e):
        for i, m in enumerate(self.mem):
            if e in m:
                return i
        return None


def domain_ok(op, ref):
    """False when the operation is outside the documented domain (the model
    answers Precond for these; generators do not emit them)."""
    w = op.split()
    t = int(w[1])
    if not (0 <= t < len(ref.mem)):
        return False
    if w[0] == 'insert':
        return ref.where(int(w[2])) is None and ref.tgt[t] is not None
    if w[0] in ('find', 'erase', 'load'):
        return ref.tgt[t] is not None
    if w[0] == 'swap':
        return 0 <= int(w[2]) < len(ref.mem)
    if w[0] == 'resize':
        return int(w[2]) <= 1152921504606846975
    return True


class HashSpec(Spec):
    component = 'hash'
    driver = 'hash'
    extra_models = ('hashl',)   # pointer-level model (HashLinksModel.v): must print the same trace
    lib_srcs = []
    driver_extra = WRAP
    header_words = ('keys', 'ntabs', 'fail', 'failfrom', 'vsign')
    vsign_every = 2
    vsign_find = True
    prop = 'C03'
    trusted = ['modelled, not verified: the C statements of src/hash.c and the inline functions of include/cstl/hash.h '
               'are transcribed by hand into HashModel.v (bucket array with per-bucket clean bits, sweep index, pending '
               'geometry, chains in link order); hash functions are a parameter of the model, the scripted ones are '
               're-implemented in the driver (C) and in HashModel.script_hf; cstl_hash_mul is evaluated outside Coq '
               '(single-precision emulation in the runner, keys and sizes < 2^53)',
               'calls of the built-in cstl_hash_mul installed by the library itself (function id 0) cannot be '
               'intercepted without source hooks and are left out of the compared hash-call log',
               'malloc/realloc/free wrapper harness/halloc.h with the policy of AllocModel.v (LIMIT 2^32 bytes)']
    assumptions_text = ['hash functions are pure and return a value below the table size (C03/C04/C19 theorems; '
                        'C17(b) theorem no_oob has no such assumption)',
                        'an element is inserted into at most one table at a time and its key does not change while '
                        'it is in a table; keyed operations only on a table that has been resized (documented)',
                        'requested bucket count <= SIZE_MAX/16 (sizeof(bucket)*n is not overflow-checked by the '
                        'library: observation outside the properties)',
                        'the element counter h->count does not wrap (fewer than 2^64 elements)']
    rule = ('cases = corpus + one case per edge of budgeted breadth-first explorations of the Coq model from several '
            'start states (fresh table; four elements with keys 0,0,1,2 in a settled table; pending grow; pending '
            'shrink; two tables) over bucket counts {1,2,3,5} and two hash functions, every operation incl. every '
            'enumeration entry point applied in every explored state + seeded random histories (up to ~100 elements, '
            'resizes at every stage of the sweep, allocation failures); a case is non-trivial when its model trace '
            'has at least two completed operations; distinct = distinct (header, operations) text')

    # ---------------------------------------------------------------- cases
    def closure(self, tier):
        q = tier == 'quick'
        k = 1 if q else 6
        keys = '0,0,1,2'
        ins = 'insert 0 0; insert 0 1; insert 0 2; insert 0 3'
        runs = [
            (1, 5000 * k, '1,2,3,5', 'null,1,2', keys, 'A', ''),
            (1, 7000 * k, '1,2,3,5', 'null,1,2', keys, 'B', 'resize 0 2 1; ' + ins),
            (1, 5000 * k, '1,2,3,5', 'null,1,2', keys, 'C', 'resize 0 5 2; ' + ins + '; resize 0 3 1'),
            (1, 5000 * k, '1,2,3,5', 'null,1,2', keys, 'D', 'resize 0 1 1; ' + ins + '; resize 0 5 2'),
            (1, 3000 * k, '1,2,3,5', 'null,1,2', keys, 'E', 'resize 0 3 2; ' + ins + '; resize 0 5 null; find 0 1 null'),
            (2, 5000 * k, '2,5', 'null,2', keys, 'F',
             'resize 0 2 1; insert 0 0; insert 0 1; resize 1 3 2; insert 1 2; insert 1 3; resize 0 5 2'),
        ]
        if not q:
            runs.append((1, 60000, '1,2,3,5,8', 'null,1,2', '0,0,1,2,5,7', 'G',
                         'resize 0 3 1; insert 0 0; insert 0 1; insert 0 2; insert 0 3; insert 0 4; insert 0 5'))
        cases, st = [], dict(states=0, transitions=0, closed=True)
        for (nt, budget, counts, fns, ks, tag, prefix) in runs:
            c, s = self.bfs([nt, budget, counts, fns, ks, 'bfs' + tag, prefix])
            cases += c
            st['states'] += s.get('states', 0)
            st['transitions'] += s.get('transitions', 0)
            st['closed'] = st['closed'] and s.get('closed', False)
        return cases, st

    def random_cases(self, tier, seed):
        return gen_random(seed, 350 if tier == 'quick' else 3000, self.prop)

    def nontrivial(self, case, model):
        return sum(1 for l in model if l.startswith('ok')) >= 2


# -------------------------------------------------------------------- random

COUNTS = [1, 2, 3, 5, 7, 9, 16, 23, 40, 64]
BIG = [268435457, 1 << 40, 1152921504606846975]     # cannot be allocated (LIMIT), still inside the domain


def gen_random(seed, n, prop):
    rnd = random.Random(seed * 1000003 + {'C03': 3, 'C04': 4, 'C19': 19}.get(prop, 0))
    cases = []
    for ci in range(n):
        nt = rnd.choice([1, 1, 1, 2])
        ne = rnd.choice([4, 8, 20, 50, 100])
        use_mul = rnd.random() < 0.25
        kr = rnd.choice([3, 8, 50, 1000, 1 << 20])
        keys = [rnd.randrange(kr) for _ in range(ne)]
        if not use_mul and rnd.random() < 0.2:
            keys = [rnd.choice([k, (1 << 64) - 1 - k, (1 << 63) + k]) for k in keys]
        fns = ['null', '1', '2'] + (['3'] if use_mul else [])
        hdr = ['keys ' + ' '.join(map(str, keys[j:j + 40])) for j in range(0, ne, 40)] + ['ntabs %d' % nt]
        fails, failfrom = set(), None
        if rnd.random() < 0.25:
            fails = set(rnd.sample(range(nt, 14), rnd.choice([1, 2, 4])))
            hdr.append('fail ' + ' '.join(str(x) for x in sorted(fails)))
        elif rnd.random() < 0.05:
            failfrom = rnd.randrange(nt, 8)
            hdr.append('failfrom %d' % failfrom)
        mem = [set() for _ in range(nt)]
        # approximate replay of the allocator so that the generator knows which tables are usable
        ready = [False] * nt
        capa = [0] * nt
        tgt = [0] * nt
        ordinal = [0]
        ops = []
        length = rnd.choice([10, 30, 80, 200])
        burst = 0

        def granted(nbuckets):
            o = ordinal[0]
            ordinal[0] += 1
            return not (o in fails or (failfrom is not None and o >= failfrom) or nbuckets * 16 > (1 << 32))

        def free_elems():
            used = set().union(*mem)
            return [e for e in range(ne) if e not in used]

        def resize_op(t, small=False):
            n_ = rnd.choice(COUNTS) if (small or rnd.random() < 0.93) else rnd.choice(BIG)
            f = rnd.choice(fns) if (ready[t] or use_mul) else rnd.choice(fns[1:])
            ops.append('resize %d %d %s' % (t, n_, f))
            if n_ > capa[t]:
                if granted(n_):
                    capa[t] = n_
                else:
                    return
            tgt[t] = n_
            ready[t] = True

        for t in range(nt):
            if rnd.random() < 0.95:
                resize_op(t, True)
        if rnd.random() < 0.5:
            # fill phase: a good part of the pool goes in right away
            for e in rnd.sample(range(ne), rnd.randrange(ne + 1)):
                t = rnd.randrange(nt)
                if ready[t]:
                    ops.append('insert %d %d' % (t, e))
                    mem[t].add(e)
            length += len(ops)
        while len(ops) < length:
            t = rnd.randrange(nt)
            x = rnd.random()
            fr = free_elems()
            if burst > 0:
                burst -= 1
                x = rnd.random() * 0.55
            if not ready[t] and x < 0.55:
                x = 0.6
            if x < 0.25 and fr:
                e = rnd.choice(fr)
                ops.append('insert %d %d' % (t, e))
                mem[t].add(e)
            elif x < 0.40:
                k = keys[rnd.randrange(ne)]
                same = [e for e in mem[t] if keys[e] == k]
                y = rnd.random()
                if y < 0.3:
                    ops.append('find %d %d null' % (t, k))
                elif y < 0.5:
                    ops.append('find %d %d acc' % (t, k))
                elif same:
                    ops.append('find %d %d acc %s' % (t, k, ' '.join(str(e) for e in rnd.sample(same, rnd.choice([1, min(2, len(same))])))))
                else:
                    ops.append('find %d %d acc %d' % (t, k, rnd.randrange(ne)))
            elif x < 0.55:
                if mem[t] and rnd.random() < 0.8:
                    e = rnd.choice(sorted(mem[t]))
                else:
                    e = rnd.randrange(ne)
                mem[t].discard(e)
                ops.append('erase %d %d' % (t, e))
            elif x < 0.70:
                resize_op(t)
                burst = rnd.choice([0, 0, 1, 2, 3, 5, 8, 20])
            elif x < 0.74:
                ops.append('rehash %d' % t)
            elif x < 0.78:
                ops.append('shrink %d' % t)
                if capa[t] > tgt[t] and granted(tgt[t]):
                    capa[t] = tgt[t]
            elif x < 0.81 and nt > 1:
                u = rnd.randrange(nt)
                ops.append('swap %d %d' % (t, u))
                for arr in (mem, ready, capa, tgt):
                    arr[t], arr[u] = arr[u], arr[t]
            elif x < 0.86:
                ops.append('foreach_const %d %d' % (t, rnd.choice([0, 0, 0, 1, 2, 5, 1000])))
            elif x < 0.89:
                ops.append('foreach %d %d' % (t, rnd.choice([0, 0, 1, 3])))
            elif x < 0.91:
                stop = rnd.choice([0, 0, 1, 2, 4])
                ops.append('foreach_erase %d %d' % (t, stop))
                if stop == 0 or stop > len(mem[t]):
                    mem[t] = set()
                else:
                    # which elements went is decided by the walk order, unknown here: start over
                    mem[t] = set()
                    ops.append('clear %d 1' % t)
                    ready[t] = False
                    capa[t] = tgt[t] = 0
                    resize_op(t, True)
            elif x < 0.93:
                ops.append('clear %d %d' % (t, rnd.choice([1, 1, 0])))
                mem[t] = set()
                ready[t] = False
                capa[t] = tgt[t] = 0
                if rnd.random() < 0.8:
                    resize_op(t, True)
            elif x < 0.97 and ready[t]:
                ops.append('load %d' % t)
            else:
                ops.append('size %d' % t)
        # final sweep: every element is looked up by its key, accepting only itself
        for t in range(nt):
            if ready[t]:
                for e in rnd.sample(range(ne), min(ne, 12)):
                    ops.append('find %d %d acc %d' % (t, keys[e], e))
            ops.append('foreach_const %d 0' % t)
        for t in range(nt):
            ops.append('clear %d 1' % t)
        cases.append(Case('rnd%d' % ci, hdr, ops, 'random'))
    return cases


# -------------------------------------------------------------------- oracle

def coarse(prop, key):
    """Few, stable oracle keys (the engine shrinks one replay per key): what
    kind of property violation, not which operation showed it."""
    name, _, kind = key.partition(':')
    if 'timeout' in kind:
        return 'timeout'
    if kind.split(':')[0] in ('fault', 'abort', 'no-output', 'garbled'):
        return 'crash' + (':after-clear' if kind.endswith('after-clear') else '')
    if prop == 'C04':
        return 'clear' if name == 'clear' else 'enumeration'
    if prop == 'C19':
        return {'load': 'lands', 'geometry': 'lands', 'hash-calls': 'hash-calls'}.get(kind, 'work')
    if prop == 'C16':
        return kind
    return name if name in ('find', 'size') else ('size' if kind == 'size' else 'contents')


def oracle(prop, case, impl):
    r = oracle_fine(prop, case, impl)
    return None if r is None else (coarse(prop, r[0]), r[1])


def oracle_fine(prop, case, impl):
    """Check the texts of C03 / C04 / C19 on the implementation trace alone.
    -> None or (key, message).  Stops silently where the script leaves the
    domain (Precond in the model) or once a deliberately bad hash function is
    installed (C17)."""
    keys, nt = header_of(case)
    ref = Ref(keys, nt)
    prev = None          # previous parsed line (table dumps before the operation)
    for i, op in enumerate(case.ops):
        w = op.split()
        name = w[0]
        if not domain_ok(op, ref):
            return None
        t = int(w[1])
        if name == 'resize' and w[3] != 'null' and int(w[3]) in BAD_FNS:
            return None
        if i >= len(impl):
            return ('%s:no-output' % name, 'no output for operation %d (%s)' % (i, op)) if prop in ('C03', 'C16') else None
        line = impl[i]
        if not line.startswith('ok'):
            st = line.split()[0]
            after_clear = ref.cleared[t]
            owner = 'C04' if (after_clear or name in ('foreach', 'foreach_erase', 'foreach_const', 'clear')) else 'C03'
            # a resize request that does not return normally is also C19's business
            if prop != owner and prop != 'C16' and not (prop == 'C19' and name == 'resize'):
                return None
            return ('%s:%s%s' % (name, st, ':after-clear' if after_clear else ''),
                    'operation %d (%s) ended in %s; expected normal return%s' % (
                        i, op, st, ' (table was cleared and resized again before)' if after_clear else ''))
        try:
            L = parse_line(line)
        except Exception:
            return ('%s:garbled' % name, 'unparsable line %r' % line) if prop == 'C03' else None
        if len(L.tabs) != nt:
            return ('%s:garbled' % name, 'wrong number of tables in %r' % line) if prop == 'C03' else None
        before = prev.tabs[t] if prev is not None else dict(size=0, count=0, cap=0, hash=-1, cst=0, rcount=0,
                                                            rclean=0, rhash=-1, at=0, buckets=[])
        after = L.tabs[t]
        live = ref.mem[t]
        v = None

        # ---- per-operation expectations
        if name == 'insert':
            e = int(w[2])
            live.add(e)
        elif name == 'find':
            k = int(w[2])
            novisit = (w[3] == 'null')
            acc = set(int(x) for x in w[4:])
            cands = set(e for e in live if ref.key(e) == k)
            got = L.res[0] if L.res else None
            if prop == 'C03':
                if len(set(L.O)) != len(L.O):
                    v = ('find:offered-twice', 'find offered an element more than once: %s' % L.O)
                elif not set(L.O) <= cands:
                    v = ('find:offered-foreign', 'find(%d) offered %s, live elements with that key: %s' % (k, L.O, sorted(cands)))
                elif novisit:
                    if L.O:
                        v = ('find:offered-without-visit', 'no visit function given but elements were offered')
                    elif cands and got not in cands:
                        v = ('find:missed', 'find(%d) returned %s, live elements with that key: %s' % (k, got, sorted(cands)))
                    elif not cands and got != -1:
                        v = ('find:ghost', 'find(%d) returned %s but no live element has that key' % (k, got))
                else:
                    okset = cands & acc
                    if got == -1:
                        if okset:
                            v = ('find:missed', 'find(%d) returned NULL although %s are live and acceptable (offered %s)' % (k, sorted(okset), L.O))
                        elif set(L.O) != cands:
                            v = ('find:not-all-offered', 'find(%d) accepted none, offered %s, live with that key %s' % (k, L.O, sorted(cands)))
                    else:
                        if got not in okset:
                            v = ('find:ghost', 'find(%d) returned %s which is not a live acceptable element %s' % (k, got, sorted(okset)))
                        elif not L.O or L.O[-1] != got or any(x in acc for x in L.O[:-1]):
                            v = ('find:not-first-accepted', 'find(%d) returned %s, offered %s, accept set %s' % (k, got, L.O, sorted(acc)))
        elif name == 'erase':
            live.discard(int(w[2]))
        elif name == 'swap':
            u = int(w[2])
            for arr in (ref.mem, ref.tgt, ref.cleared, ref.since, ref.budget):
                arr[t], arr[u] = arr[u], arr[t]
            live = ref.mem[t]
        elif name in ('foreach', 'foreach_const', 'foreach_erase'):
            stop = int(w[2])
            ret = L.res[0] if L.res else None
            if prop == 'C04':
                cnt = {}
                for e in L.V:
                    cnt[e] = cnt.get(e, 0) + 1
                if any(c > 1 for c in cnt.values()):
                    v = ('%s:visited-twice' % name, '%s visited an element more than once: %s' % (name, L.V))
                elif not set(L.V) <= live:
                    v = ('%s:visited-foreign' % name, '%s visited %s, live %s' % (name, L.V, sorted(live)))
                elif stop == 0 or stop > len(live):
                    if set(L.V) != live:
                        v = ('%s:missed' % name, '%s visited %d of %d live elements (missing %s)' % (
                            name, len(L.V), len(live), sorted(live - set(L.V))[:8]))
                    elif ret != 0:
                        v = ('%s:wrong-result' % name, '%s returned %s, expected 0' % (name, ret))
                else:
                    if len(L.V) != stop or ret != stop:
                        v = ('%s:early-stop' % name, '%s with stop at visit %d: %d visits, returned %s' % (name, stop, len(L.V), ret))
            if name == 'foreach_erase':
                live -= set(L.V)
        elif name == 'clear':
            cb = w[2] != '0'
            if prop == 'C04':
                if cb:
                    if len(set(L.X)) != len(L.X):
                        v = ('clear:called-twice', 'clear handed an element to the callback twice: %s' % L.X)
                    elif set(L.X) != live:
                        v = ('clear:missed', 'clear called back %d of %d live elements (missing %s, foreign %s)' % (
                            len(L.X), len(live), sorted(live - set(L.X))[:8], sorted(set(L.X) - live)[:8]))
                elif L.X:
                    v = ('clear:callback-without-function', 'clear without callback reported callbacks')
                # (whether bucket.hash is reset is not looked at here: what matters is that the table is
                # usable after a fresh resize, which shows as a crash or a wrong answer further down the script)
                if v is None and (after['size'] != 0 or after['at'] != 0 or after['count'] != 0 or after['cap'] != 0
                                  or after['rhash'] != -1):
                    v = ('clear:not-reinitialised', 'after clear the table is not as initialised: size %d count %d capacity %d hash %d rh.hash %d' % (
                        after['size'], after['count'], after['cap'], after['hash'], after['rhash']))
            live.clear()
            ref.cleared[t] = True
            ref.tgt[t] = None
        elif name == 'resize':
            n = int(w[2])
            ref.prev_tgt = ref.tgt[t]
            failed = any(e and e[0] == 4 for e in L.events)
            if n >= 1 and not failed and (n <= after['cap']):
                f = ref.tgt[t][1] if ref.tgt[t] else 0
                if w[3] != 'null':
                    f = int(w[3])
                ref.tgt[t] = (n, f)
        elif name == 'size':
            if prop == 'C03' and L.res != [len(live)]:
                v = ('size:wrong', 'size reported %s, %d live elements' % (L.res, len(live)))
        elif name == 'load':
            if prop == 'C19' and ref.tgt[t]:
                exp = f32bits(len(live), ref.tgt[t][0])
                if L.res != [exp]:
                    v = ('load:wrong', 'load bits %s, expected %d = %d/%d (most recent satisfiable request)' % (
                        L.res, exp, len(live), ref.tgt[t][0]))
        if v:
            return v

        # ---- after every operation
        live = ref.mem[t]
        if prop == 'C16':
            if any(e and e[0] == 7 for e in L.events):
                return ('%s:bad-free' % name, 'operation %d (%s) freed a block that is not live' % (i, op))
            if name == 'resize' and any(e and e[0] == 4 for e in L.events):
                # realloc is the first thing resize does: on failure nothing at all may have changed
                if L.res != [0] or after != before:
                    return ('resize:failed-not-noop', 'operation %d (%s): the allocation failed but the table changed: %s -> %s' % (
                        i, op, before, after))
            if name == 'shrink' and any(e and e[0] == 4 for e in L.events):
                # shrink_to_fit completes a pending rehash before it reallocates: on failure the bucket
                # array stays as large as it was and the table keeps heading for the same geometry
                # (the contents are compared with the membership model below)
                tg = lambda d: (d['rcount'], d['rhash']) if d['rhash'] != -1 else (d['count'], d['hash'])
                if after['cap'] != before['cap'] or after['at'] != before['at'] or tg(after) != tg(before):
                    return ('shrink:failed-not-noop', 'operation %d (%s): the allocation failed but capacity/geometry changed: %s -> %s' % (
                        i, op, before, after))
        if prop in ('C03', 'C16'):
            if after['size'] != len(live):
                return ('%s:size' % name, 'after operation %d (%s) size is %d, %d live elements' % (i, op, after['size'], len(live)))
            for ti in range(nt):
                inside = [x for (_, ch) in L.tabs[ti]['buckets'] for x in ch]
                if '?' in inside or sorted(inside) != sorted(ref.mem[ti]):
                    return ('%s:contents' % name, 'after operation %d (%s) table %d links %s, live %s' % (
                        i, op, ti, sorted(map(str, inside)), sorted(ref.mem[ti])))
        if prop == 'C19':
            pend_b = before['rhash'] != -1
            pend_a = after['rhash'] != -1
            if ref.tgt[t] is not None:
                g = (after['rcount'], after['rhash']) if pend_a else (after['count'], after['hash'])
                if g != ref.tgt[t]:
                    return ('%s:geometry' % name, 'after operation %d (%s) the table is heading for (%d buckets, function %d); '
                            'most recent satisfiable request: (%d, %d)' % (i, op, g[0], g[1], ref.tgt[t][0], ref.tgt[t][1]))
            if name == 'resize' and pend_b and not pend_a and ref.tgt[t] is not None and getattr(ref, 'prev_tgt', None) == ref.tgt[t] \
                    and before['count'] - before['rclean'] > 3:
                # the request repeats the geometry the table is already heading for: nothing to do, in particular not the
                # whole remaining rehash in one call
                return ('resize:noop-forced-rehash', 'operation %d (%s) repeats the pending geometry but completed the pending rehash '
                        '(%d buckets were still to be swept) in one call' % (i, op, before['count'] - before['rclean']))
            if name in KEYED:
                k = int(w[2]) if name == 'find' else ref.key(int(w[2]))
                if not pend_b:
                    exp = [] if before['hash'] == 0 else [(before['hash'], k, before['count'])]
                    if L.H != exp:
                        return ('%s:hash-calls' % name, 'no rehash pending: operation %d (%s) made hash calls %s, expected %s' % (i, op, L.H, exp))
                    ref.since[t] = 0
                else:
                    if L.C is None or L.C > 3:
                        return ('%s:work' % name, 'operation %d (%s) relocated %s buckets during a pending rehash' % (i, op, L.C))
                    if pend_a and not after['rclean'] > before['rclean']:
                        return ('%s:no-progress' % name, 'operation %d (%s): sweep index %d -> %d, rehash still pending' % (
                            i, op, before['rclean'], after['rclean']))
                    if ref.since[t] == 0:
                        ref.budget[t] = before['count']
                    ref.since[t] += 1
                    if pend_a and ref.since[t] >= ref.budget[t]:
                        return ('%s:unbounded' % name, 'rehash of %d buckets still pending after %d keyed operations' % (
                            ref.budget[t], ref.since[t]))
                    if not pend_a:
                        ref.since[t] = 0
            elif name in ('resize', 'rehash', 'shrink', 'foreach', 'foreach_erase', 'clear', 'swap'):
                ref.since[t] = 0
                if name == 'swap':
                    ref.since[int(w[2])] = 0
            # a lookup's hash calls are also checked inside foreach_erase (one erase per visited element)
            if name == 'foreach_erase' and not pend_b and after['hash'] not in (0, -1):
                exp = [(after['hash'], ref.key(e), after['count']) for e in L.V]
                if L.H != exp:
                    return ('foreach_erase:hash-calls', 'erase inside foreach made hash calls %s, expected %s' % (L.H, exp))
        prev = L
    if prop == 'C16' and prev is not None and len(impl) > len(case.ops):
        # leak audit: one block per table that still owns a bucket array, nothing else
        exp = sum(1 for tb in prev.tabs if tb['at'])
        if impl[len(case.ops)] != 'live %d' % exp:
            return ('end:leak', 'at the end of the script: %s, %d tables own a bucket array' % (impl[len(case.ops)], exp))
    return None



# -------------------------------------------------------------------- C16

def c16_base_cases(tier, seed):
    """Base scripts for the allocation-failure aggregator (checks/c16.py): no
    fail/failfrom headers; every allocating operation of the component
    (first resize, grow, shrink, function change, resize during a pending
    rehash, rehash, shrink_to_fit, swap) interleaved with use of the table,
    continued use afterwards, then cleanup.  The trace ends with the line
    'live <n>' (number of live allocator blocks).  The first resize of a table
    is issued twice so that a single injected failure leaves the table usable
    (the second request is a no-op when the first succeeded)."""
    k8 = ['keys 0 0 1 2 5 7 8 13', 'ntabs 1']
    k8b = ['keys 0 0 1 2 5 7 8 13', 'ntabs 2']
    ins = lambda t, es: ['insert %d %d' % (t, e) for e in es]
    look = lambda t: ['find %d 0 acc 1' % t, 'find %d 13 null' % t, 'find %d 5 acc' % t, 'size %d' % t, 'foreach_const %d 0' % t]
    cases = [
        Case('c16_grow_shrink', k8, ['resize 0 2 1', 'resize 0 2 1'] + ins(0, range(6)) + ['resize 0 7 null', 'find 0 0 null',
             'insert 0 6', 'resize 0 16 2'] + look(0) + ['erase 0 0', 'resize 0 3 null', 'insert 0 7', 'shrink 0'] + look(0) +
             ['erase 0 5', 'insert 0 0', 'rehash 0', 'shrink 0'] + look(0) + ['clear 0 1']),
        Case('c16_pending_resizes', k8, ['resize 0 3 2', 'resize 0 3 2'] + ins(0, range(8)) + ['resize 0 5 1', 'find 0 1 null',
             'resize 0 9 null', 'erase 0 3', 'resize 0 23 2', 'resize 0 2 null'] + look(0) + ['shrink 0', 'insert 0 3'] + look(0) +
             ['foreach 0 0', 'clear 0 1']),
        Case('c16_function_change', k8, ['resize 0 5 1', 'resize 0 5 1'] + ins(0, range(5)) + ['resize 0 5 2', 'find 0 2 null',
             'resize 0 5 1', 'resize 0 8 2', 'insert 0 5', 'rehash 0'] + look(0) + ['shrink 0', 'resize 0 40 null', 'shrink 0',
             'erase 0 1'] + look(0) + ['clear 0 0']),
        Case('c16_swap', k8b, ['resize 0 2 1', 'resize 0 2 1', 'resize 1 3 2', 'resize 1 3 2'] + ins(0, [0, 1, 2]) + ins(1, [3, 4, 5]) +
             ['resize 0 9 null', 'swap 0 1', 'resize 0 7 1', 'insert 1 6', 'resize 1 1 null', 'shrink 0', 'shrink 1'] + look(0) + look(1) +
             ['swap 0 1', 'erase 0 6', 'resize 1 16 2', 'insert 1 7'] + look(1) + ['clear 0 1', 'clear 1 1']),
        Case('c16_clear_reuse', k8, ['resize 0 4 1', 'resize 0 4 1'] + ins(0, range(4)) + ['resize 0 9 2', 'clear 0 1', 'resize 0 3 null',
             'resize 0 3 null'] + ins(0, range(4)) + ['resize 0 6 1'] + look(0) + ['foreach_erase 0 0', 'shrink 0', 'insert 0 2'] +
             look(0) + ['clear 0 1']),
        Case('c16_foreach_erase', k8, ['resize 0 3 1', 'resize 0 3 1'] + ins(0, range(8)) + ['resize 0 16 2', 'foreach_erase 0 3',
             'resize 0 2 null', 'shrink 0', 'size 0', 'foreach_const 0 0', 'resize 0 5 1', 'foreach_erase 0 0', 'shrink 0',
             'insert 0 0'] + look(0) + ['clear 0 1']),
        Case('c16_huge_request', k8, ['resize 0 2 2', 'resize 0 2 2'] + ins(0, range(4)) + ['resize 0 268435457 null'] + look(0) +
             ['resize 0 1152921504606846975 1', 'insert 0 4', 'resize 0 5 null'] + look(0) + ['shrink 0', 'clear 0 1']),
        Case('c16_shrink_only', k8, ['resize 0 16 1', 'resize 0 16 1'] + ins(0, range(8)) + ['resize 0 4 null', 'shrink 0', 'shrink 0'] +
             look(0) + ['resize 0 2 2', 'find 0 7 null', 'shrink 0'] + look(0) + ['resize 0 1 null', 'shrink 0'] + look(0) + ['clear 0 1']),
    ]
    if tier != 'quick':
        for c in gen_random(seed, 40, 'C16'):
            c.header = [h for h in c.header if h.split()[0] not in ('fail', 'failfrom')]
            cases.append(c)
    return cases


def alloc_requests(trace_lines):
    """Number of allocation requests (numbered by the failure injection) in a
    trace: events 1/2 (malloc ok/failed) and 3/4 (realloc ok/failed)."""
    n = 0
    for line in trace_lines:
        L = parse_line(line) if line.startswith('ok') else None
        if L:
            n += sum(1 for e in L.events if e and e[0] in (1, 2, 3, 4))
    return n
