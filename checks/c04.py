"""C04 - hash enumeration and clear reach every element exactly once, even mid-rehash."""
from checks import hash_common as hc


class C04(hc.HashSpec):
    pid = 'C04'
    prop = 'C04'

    def oracle(self, case, impl):
        return hc.oracle('C04', case, impl)


SPEC = C04()

MANIFEST = dict(
    text='Coq theorems (Properties_C04.v) over the executable transcription of src/hash.c (HashModel.v): in every state satisfying '
         'the table invariant (in particular with a grow or shrink rehash pending and elements already relocated into added '
         'buckets) foreach_const and foreach visit exactly the live elements, each once, up to the first non-zero answer, which is '
         'returned; foreach reads the successor link before the visit and stays correct when the visit erases the element; clear '
         'hands every live element to the callback exactly once, leaves the object as initialised, and clear followed by a '
         'satisfiable resize yields an empty settled table on which all C03 theorems hold again. The pre-fix code is refuted '
         '(FindingsHash.v: F2 walk bound, F3 stale hash pointer). Tie to the C code: differential execution with every enumeration '
         'entry point applied in every explored state, per-element callback counters as independent oracle.',
    note='trusted: Coq kernel; hand transcription of hash.c into HashModel.v validated only by the correspondence run; visit functions '
         'modelled as "answer j at the j-th call" and "erase+free the visited element"; freeing is observed by ASan on explored runs only',
    technique='Coq proof (invariant, permutation/exactly-once by NoDup) + refutation witnesses for the code as found + differential correspondence',
    design='6 (C04), 7 (F2, F3)')
