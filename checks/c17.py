"""C17 - bucket selection is fail-stop: built-in hashes stay in range, bad ones abort.

(a) cstl_hash_div / cstl_hash_mul: Coq theorems about the Flocq binary32 model
    (coq/theories/HashMul.v, Properties_C17.v); the model is tied to the C
    functions on every run by evaluating the same (k, m) pairs inside Coq with
    vm_compute (generated cases_<i>.v, DESIGN.md 5.2) and in harness/drv_hashfn.c.
(b) caller-supplied hash returning m, m+1, SIZE_MAX at every keyed entry
    point, before and during a pending rehash: harness/drv_hashoob.c must die
    with SIGABRT (never return, never a sanitizer report).  The theorem about
    the full table model (no_oob, Properties_C17b.v) is counted when present.

The generic engine flow (scripts of operations on a state machine) does not fit
a pure function of two integers, so this module defines main()."""
import os
import random
import re
import subprocess
import time
from concurrent.futures import ThreadPoolExecutor

from lib import core
from lib.core import Case

PID = 'C17'
U64 = (1 << 64) - 1

RULE = ('(a) one evaluation = one (k, m) pair computed by cstl_hash_mul/cstl_hash_div (ASan/UBSan -O1 build and a '
        '-std=c99 -O2 build of $REPO/src/hash.c) and by the Coq model (vm_compute of HashMul.hash_mul_checked / hash_div '
        'inside coqc), results compared as integers; non-trivial = distinct (k, m) pairs whose model result is not 0 '
        '(the fraction M - floorf(M) is non-zero and survives the scaling). sweep_calls are additional C-only calls '
        'checked by the range oracle r < m. (b) one evaluation = one forked table scenario with an out-of-range hash; '
        'non-trivial = the armed hash was really invoked (badcall line present)')

TRUSTED = [
    'modelled, not verified: the C expression of cstl_hash_mul is transcribed by hand into Flocq operations '
    '(HashMul.v); the transcription is validated only by the correspondence run',
    'Flocq 4.1.0 (IEEE754.BinarySingleNaN: binary_normalize, Bmult, Bminus, Bnearbyint, Btrunc and their *_correct '
    'lemmas) as installed under coq/user-contrib; the model is evaluated by the Coq VM, not extracted',
    'target facts checked by harness/drv_hashfn.c on every run: FLT_EVAL_METHOD == 0, rounding direction '
    'FE_TONEAREST, float is binary32, size_t is 64 bits, gcc converts the literal 1.61803398875f to 0x3FCF1BBD',
    'gcc/glibc: floorf and the size_t<->float conversions are correctly rounded/exact as IEEE-754 and C99 require '
    '(validated only by the correspondence run)',
    'harness/drv_hashoob.c + hcommon.h classify SIGABRT vs sanitizer report (ASan exit code 77, UBSan 78) vs normal return',
]

ASSUMPTIONS = ['keys and table sizes are size_t values (< 2^64) and the table size is at least 1 '
               '(cstl_hash_resize ignores 0; k % 0 is outside the property)',
               'the floating-point environment is the default one (round-to-nearest) when the table is used']


# ------------------------------------------------------------------ (a) inputs

def binade_ms():
    """Table sizes at which (float)m changes behaviour: powers of two and their
    neighbours, and for every binade the smallest/largest m rounding to the
    boundary and the m with the largest relative round-up / round-down."""
    ms = set(range(1, 18))
    for e in range(1, 65):
        p = 1 << e
        for v in (p - 1, p, p + 1):
            ms.add(v)
        if e >= 25:
            half_below = 1 << (e - 25)      # half a spacing below 2^e
            half_above = 1 << (e - 24)      # half a spacing above 2^e
            ms.add(p - half_below)          # smallest m with (float)m == 2^e (tie to even)
            ms.add(p - half_below - 1)      # largest m rounding to the predecessor of 2^e
            ms.add(p + half_above)          # tie, rounds DOWN to 2^e (largest relative round-down)
            ms.add(p + half_above + 1)      # smallest m rounding UP to 2^e + ulp (largest relative round-up)
            ms.add(p + 3 * half_above - 1)  # largest m below the next tie
            ms.add(p + 3 * half_above)      # tie, rounds UP to even
    return sorted(m for m in ms if 1 <= m <= U64)


M_BASE = [1, 2, 3, 7, (1 << 24) - 1, 1 << 24, (1 << 24) + 1, 1 << 32, 1 << 63, U64]


def rand_m(rnd):
    c = rnd.random()
    if c < 0.3:
        return rnd.choice(M_BASE)
    if c < 0.5:
        return rnd.choice(BINADE)
    return max(1, rnd.getrandbits(rnd.randint(1, 64)))


def rand_k(rnd):
    c = rnd.random()
    if c < 0.45:   # keys whose product with phi still has a fraction (k < 5.2e6)
        return rnd.getrandbits(rnd.randint(1, 23))
    if c < 0.6:
        return rnd.getrandbits(rnd.randint(24, 64))
    return rnd.getrandbits(64)


BINADE = binade_ms()


def pow2_keys(wide):
    ks = set()
    for e in range(0, 65):
        p = 1 << e
        ds = list(range(-3, 4)) if wide else [-2, -1, 0, 1, 2]
        if e >= 25:
            h = 1 << (e - 25)
            ds += [-h - 1, -h, -h + 1, 2 * h - 1, 2 * h, 2 * h + 1, 6 * h - 1, 6 * h, 6 * h + 1]
        for d in ds:
            if 0 <= p + d <= U64:
                ks.add(p + d)
    return sorted(ks)


def gen_a(tier, seed):
    """-> (grids, pairs, divpairs, sweeps)
    grids: cross products evaluated inside Coq, k-major: (('range', klo, n), [m...]) = every k in
           [klo, klo+n) x every m;  (('list', [k...]), [m...]) = every listed k x every m
    pairs: explicit (k, m) for cstl_hash_mul; divpairs: for cstl_hash_div
    sweeps: [(klo, khi, [m...])] C-only range sweeps"""
    rnd = random.Random(seed * 1000003 + 17)
    quick = tier == 'quick'
    grids, pairs, divpairs = [], [], []
    kmax = 1 << 12 if quick else 1 << 16
    gm = [7, 1000, (1 << 24) + 1, U64] if quick else \
        [3, 1000, (1 << 24) + 1, (1 << 32) + 1, U64]
    gm = gm + [rand_m(rnd)]
    step = 256
    for lo in range(0, kmax, step):
        grids.append((('range', lo, step), gm))
    # keys around every power of two (and the rounding boundaries of (float)k)
    pk = pow2_keys(not quick)
    pm = M_BASE + [rand_m(rnd), rand_m(rnd)]
    for i in range(0, len(pk), 200):
        grids.append((('list', pk[i:i + 200]), pm))
    # keys with a fraction x every binade boundary of m
    special = [987, 1, 2, 3, 5, 610, 1597, 2584, 4181, 5184443, 5184444, 5184445, (1 << 23) - 1]
    nb = 3 if quick else 500
    sk = special + [rnd.getrandbits(rnd.randint(2, 22)) for _ in range(nb)]
    for i in range(0, len(sk), 6):
        grids.append((('list', sk[i:i + 6]), BINADE))
    # seeded random keys
    for _ in range(3000 if quick else 50000):
        k = rand_k(rnd)
        for _j in range(2):
            pairs.append((k, rand_m(rnd)))
    # division hash
    for _ in range(1500 if quick else 20000):
        divpairs.append((rand_k(rnd), rand_m(rnd)))
    for k in pow2_keys(False)[::3]:
        for m in M_BASE:
            divpairs.append((k, m))
    for k in range(0, 40):
        for m in range(1, 13):
            divpairs.append((k, m))
    # C-only sweeps: every key with a non-zero fraction lives below 2^23
    top = 1 << 22 if quick else 1 << 23
    sm = BINADE if quick else BINADE + list(range(18, 130)) + [1000, 4096, 65535, 1000003]
    nchunk = 64
    sweeps = []
    for i in range(nchunk):
        lo, hi = top * i // nchunk, top * (i + 1) // nchunk
        for j in range(0, len(sm), 56):
            sweeps.append((lo, hi, sm[j:j + 56]))
    return grids, pairs, divpairs, sweeps


def grid_keys(spec):
    return range(spec[1], spec[1] + spec[2]) if spec[0] == 'range' else spec[1]


def grid_size(g):
    return len(grid_keys(g[0])) * len(g[1])


def flatten(grids, pairs):
    out = []
    for spec, ms in grids:
        for k in grid_keys(spec):
            for m in ms:
                out.append((k, m))
    return out + list(pairs)


# ------------------------------------------------------------------ (a) model side (inside Coq)

COQ_HEAD = ('From Coq Require Import ZArith NArith List.\nImport ListNotations.\nFrom Cstl Require Import HashMul.\n'
            'Set Printing Depth 100000000.\nSet Printing Width 200.\nOpen Scope Z_scope.\n'
            'Definition f (k m : Z) : Z := match hash_mul_checked k m with Some t => t | None => (-1) end.\n'
            'Definition g (k m : Z) : Z := Z.of_N (hash_div (Z.to_N k) (Z.to_N m)).\n'
            'Definition cross (ks ms : list Z) : list Z := flat_map (fun k => map (fun m => f k m) ms) ks.\n'
            'Definition range (lo : Z) (n : nat) : list Z := map (fun i => lo + Z.of_nat i) (seq 0 n).\n')


def coq_eval(work, idx, grids, pairs, divpairs):
    """One coqc run; returns (list of ints for grids+pairs, list for divpairs, phi_bits, log)"""
    name = 'cases_%d' % idx
    path = os.path.join(work, name + '.v')
    with open(path, 'w') as f:
        f.write('(* generated by checks/c17.py; evaluated with vm_compute on every run *)\n' + COQ_HEAD)
        f.write('Eval vm_compute in phi_bits.\n')
        f.write('Eval vm_compute in (%s\n  map (fun km => f (fst km) (snd km)) [%s]).\n' % (
            ''.join('cross (%s) [%s] ++\n  ' % (
                ('range %d %d' % (spec[1], spec[2])) if spec[0] == 'range' else '[%s]' % '; '.join(map(str, spec[1])),
                '; '.join(map(str, ms))) for spec, ms in grids),
            '; '.join('(%d, %d)' % p for p in pairs)))
        f.write('Eval vm_compute in (map (fun km => g (fst km) (snd km)) [%s]).\n' %
                '; '.join('(%d, %d)' % p for p in divpairs))
    rc, out = core.sh(['timeout', '900', 'coqc', '-Q', os.path.join(core.COQ, 'theories'), 'Cstl', path],
                      cwd=work, timeout=1000)
    for ext in ('.vo', '.glob', '.vok', '.vos'):
        try:
            os.unlink(os.path.join(work, name + ext))
        except OSError:
            pass
    if rc != 0:
        return None, None, None, out
    blocks = re.findall(r'=\s*(\[.*?\]|-?\d+)\s*:\s*(?:list Z|Z)\b', out, flags=re.S)
    if len(blocks) != 3:
        return None, None, None, 'unexpected coqc output (%d blocks)\n%s' % (len(blocks), out[-2000:])

    def lst(b):
        b = b.strip()[1:-1].strip()
        return [int(x) for x in b.replace('\n', ' ').split(';')] if b else []
    return lst(blocks[1]), lst(blocks[2]), int(blocks[0]), out


def model_run(work, grids, pairs, divpairs):
    """Shard and run in parallel. -> (mul results aligned with flatten(grids, pairs), div results, phi_bits, errors)"""
    units = []       # (kind, payload, cost)
    for g in grids:
        units.append(('g', g, grid_size(g)))
    CH = 500
    for i in range(0, len(pairs), CH):
        units.append(('p', pairs[i:i + CH], 2 * len(pairs[i:i + CH])))
    for i in range(0, len(divpairs), 2000):
        units.append(('d', divpairs[i:i + 2000], len(divpairs[i:i + 2000]) // 2))
    # shards of bounded cost (about two waves of NPROC processes), keeping order
    limit = min(8000, max(1500, sum(u[2] for u in units) // (2 * core.NPROC) + 1))
    shards, cur, cost = [], [], 0
    for u in units:
        if cur and cost + u[2] > limit:
            shards.append(cur)
            cur, cost = [], 0
        cur.append(u)
        cost += u[2]
    if cur:
        shards.append(cur)

    def one(args):
        i, sh = args
        gs = [u[1] for u in sh if u[0] == 'g']
        ps = [x for u in sh if u[0] == 'p' for x in u[1]]
        ds = [x for u in sh if u[0] == 'd' for x in u[1]]
        r = coq_eval(work, i, gs, ps, ds)
        return gs, ps, ds, r

    with ThreadPoolExecutor(max_workers=core.NPROC) as ex:
        outs = list(ex.map(one, enumerate(shards)))
    gres, pres, dres, errors, phi = {}, [], [], [], None
    gridvals = []
    for gs, ps, ds, (mul, div, pb, log) in outs:
        if mul is None:
            errors.append(log[-1500:])
            ng = sum(grid_size(g) for g in gs)
            gridvals.append([None] * ng)
            pres += [None] * len(ps)
            dres += [None] * len(ds)
            continue
        ng = sum(grid_size(g) for g in gs)
        if len(mul) != ng + len(ps) or len(div) != len(ds):
            errors.append('result count mismatch in a shard: %d vs %d' % (len(mul), ng + len(ps)))
            gridvals.append([None] * ng)
            pres += [None] * len(ps)
            dres += [None] * len(ds)
            continue
        gridvals.append(mul[:ng])
        pres += mul[ng:]
        dres += div
        phi = pb if phi is None or phi == pb else -2
    return [x for gv in gridvals for x in gv] + pres, dres, phi, errors, len(shards)


# ------------------------------------------------------------------ (a) implementation side

def run_parallel(exe, cases, work, tag, nshard=core.NPROC):
    """Like core.run_sharded, but always spreads the cases over nshard processes
    (the cases here are few and heavy)."""
    os.makedirs(work, exist_ok=True)
    n = max(1, min(nshard, len(cases)))
    shards = [cases[i::n] for i in range(n)]

    def one(args):
        i, cs = args
        p = os.path.join(work, '%s.%d.script' % (tag, i))
        with open(p, 'w') as f:
            for c in cs:
                f.write(c.text())
        try:
            r = subprocess.run([exe, p], stdout=subprocess.PIPE, stderr=subprocess.DEVNULL, timeout=3000,
                               text=True, errors='replace')
            out = r.stdout
        except subprocess.TimeoutExpired as ex:
            out = ex.stdout.decode(errors='replace') if isinstance(ex.stdout, bytes) else (ex.stdout or '')
        os.unlink(p)
        return out
    with ThreadPoolExecutor(max_workers=n) as ex:
        outs = list(ex.map(one, enumerate(shards)))
    res = {}
    for o in outs:
        res.update(core.parse_trace(o))
    return res


def impl_run(exe, work, tag, flat, divpairs, sweeps):
    """-> (mul results, div results, env dict, sweep stats, errors)"""
    cases = []
    CH = 4000
    for i in range(0, len(flat), CH):
        cases.append(Case('fnm%d' % (i // CH), [], ['mul %d %d' % p for p in flat[i:i + CH]]))
    for i in range(0, len(divpairs), CH):
        cases.append(Case('fnd%d' % (i // CH), [], ['div %d %d' % p for p in divpairs[i:i + CH]]))
    cases.append(Case('fnenv', [], ['env']))
    for i, (lo, hi, ms) in enumerate(sweeps):
        cases.append(Case('fns%d' % i, [], ['sweep %d %d %s' % (lo, hi, ' '.join(map(str, ms)))]))
    res = run_parallel(exe, cases, work, tag)
    errors = []
    died = []       # (case prefix, index of the pair whose call did not return, how the process ended)

    def vals(prefix, n):
        out = []
        i = 0
        while len(out) < n:
            lines = res.get('%s%d' % (prefix, i))
            if lines is None:
                errors.append('no output for case %s%d' % (prefix, i))
                out += [None] * min(CH, n - len(out))
            else:
                want = min(CH, n - len(out))
                got = []
                for l in lines[:want]:
                    w = l.split()
                    got.append(int(w[1]) if len(w) == 2 and w[0] == 'ok' else None)
                if len(lines) > want or len(got) < want:
                    # the case died (abort/fault/timeout) part way
                    errors.append('case %s%d ended with %r after %d of %d calls' % (
                        prefix, i, lines[-1] if lines else '', len(got), want))
                    bad_at = next((j for j, v in enumerate(got) if v is None), len(got))
                    if lines and lines[-1].split()[0] in ('fault', 'abort', 'timeout') and bad_at < want:
                        died.append((prefix, len(out) + bad_at, lines[-1].split()[0]))
                got += [None] * (want - len(got))
                out += got
            i += 1
        return out
    mul = vals('fnm', len(flat))
    div = vals('fnd', len(divpairs))
    env = {}
    for l in res.get('fnenv', []):
        for tok in l.split()[1:]:
            if '=' in tok:
                a, b = tok.split('=')
                env[a] = int(b)
    calls = top = 0
    viol = []
    for i in range(len(sweeps)):
        lines = res.get('fns%d' % i, [])
        if not lines or not lines[0].startswith('ok'):
            errors.append('sweep %d: %r' % (i, lines[-1:] or 'no output'))
            continue
        w = lines[0].split()
        d = dict(t.split('=') for t in w[1:4])
        calls += int(d['calls'])
        top += int(d['top'])
        for t in w[4:]:
            k, m, r = (int(x) for x in t.split(':'))
            viol.append((k, m, r))
        if int(d['viol']) and not w[4:]:
            errors.append('sweep %d reports violations without witnesses' % i)
    return mul, div, env, dict(calls=calls, top=top, viol=viol, died=died), errors


# ------------------------------------------------------------------ (b) scenarios

def gen_b(tier, seed):
    """-> list of (Case, meta) ; meta = dict(op, phase, val, expect_bad)"""
    rnd = random.Random(seed * 7919 + 171)
    out = []

    def add(name, lines, **meta):
        out.append((Case('oob_%s_%d' % (name, len(out)), [], lines), meta))

    vals = [('m', 'plus 0'), ('m+1', 'plus 1'), ('max', 'max'), ('2^32+k%m', 'hi'), ('(k%m+1)<<32', 'hi2')]
    for op in ('insert', 'find', 'erase'):
        for vname, vtxt in vals:
            for n0 in (1, 4, 7):
                for fill in (0, 3, 2 * n0 + 1):
                    keys = list(range(fill))
                    if op == 'erase' and fill == 0:
                        continue
                    key = 2 if (op != 'insert' and fill > 2) else (0 if op != 'insert' else fill + 5)
                    base = ['init %d' % n0] + ['ins %d' % k for k in keys]
                    # before any rehash: only the current geometry exists
                    add('before', base + ['arm %d %s %d' % (n0, vtxt, key), 'x%s %d' % (op, key)],
                        op=op, phase='before', val=vname, bad=True)
                    add('before_any', base + ['arm 0 %s -1' % vtxt, 'x%s %d' % (op, key)],
                        op=op, phase='before', val=vname, bad=True)
                    # a hash function that misbehaves intermittently: only every second call answers out of range
                    # (an operation that consults the hash once returns normally; one that consults it again must abort)
                    add('before_flip', base + ['every 2', 'arm 0 %s -1' % vtxt, 'x%s %d' % (op, key)],
                        op=op, phase='before', val=vname, bad=True, maybe_done=True)
                    # after a completed rehash (the new function/geometry became the current one)
                    add('after', base + ['resize %d' % (n0 + 3), 'rehash', 'arm %d %s %d' % (n0 + 3, vtxt, key),
                                         'x%s %d' % (op, key)], op=op, phase='after-rehash', val=vname, bad=True)
                    for n1 in sorted(set([2 * n0 + 1, n0 + 1, max(1, n0 // 2), max(1, n0 - 1)]) - {n0}):
                        # one in-range lookup moves the sweep along; with fewer than 4 old buckets it would complete it
                        for adv in ((0, 1) if n0 >= 4 else (0,)):
                            pend = base + ['resize %d' % n1] + ['good %d' % (n0 + 11)] * adv
                            kind = 'grow' if n1 > n0 else 'shrink'
                            # out of range under the current (old) geometry
                            add('pend_cur', pend + ['arm %d %s %d' % (n0, vtxt, key), 'x%s %d' % (op, key)],
                                op=op, phase='pending-%s:old-geometry' % kind, val=vname, bad=True, pending=True)
                            add('pend_flip', pend + ['every 2', 'arm 0 %s -1' % vtxt, 'x%s %d' % (op, key)],
                                op=op, phase='pending-%s:intermittent' % kind, val=vname, bad=True, pending=True, maybe_done=True)
                            # out of range under the pending (new) geometry
                            add('pend_new', pend + ['arm %d %s %d' % (n1, vtxt, key), 'x%s %d' % (op, key)],
                                op=op, phase='pending-%s:new-geometry' % kind, val=vname, bad=True, pending=True)
                            # out of range for ANOTHER key that the operation has to move while cleaning
                            if fill > 0 and adv == 0:
                                other = [k for k in keys if k != key and k % n0 == key % n0]
                                if other:
                                    add('pend_other', pend + ['arm %d %s %d' % (n1, vtxt, other[0]),
                                                              'x%s %d' % (op, key)],
                                        op=op, phase='pending-%s:moved-node' % kind, val=vname, bad=True, pending=True)
    # controls: the armed size is never consulted -> the operation must return normally
    for op in ('insert', 'find', 'erase'):
        add('control', ['init 4', 'ins 0', 'ins 1', 'ins 2', 'arm 999 plus 0 -1', 'x%s %d' % (op, 9 if op == 'insert' else 1)],
            op=op, phase='control', val='none', bad=False)
        add('control_p', ['init 4', 'ins 0', 'ins 1', 'ins 2', 'resize 9', 'arm 999 max -1',
                          'x%s %d' % (op, 9 if op == 'insert' else 1)],
            op=op, phase='control-pending', val='none', bad=False, pending=True)
    # seeded random scenarios
    for _ in range(150 if tier == 'quick' else 3000):
        n0 = rnd.randint(1, 12)
        nk = rnd.randint(1, 20)
        keys = [rnd.randrange(0, 40) for _ in range(nk)]
        lines = ['init %d' % n0] + ['ins %d' % k for k in keys]
        pending = rnd.random() < 0.7
        n1 = n0
        if pending:
            n1 = rnd.choice([x for x in range(1, 20) if x != n0])
            lines.append('resize %d' % n1)
            # a few in-range lookups move the sweep along; stop before it completes
            for _j in range(rnd.randint(0, max(0, n0 // 2 - 1))):
                lines.append('good %d' % rnd.randrange(0, 40))
        op = rnd.choice(['insert', 'find', 'erase'])
        key = rnd.choice(keys) if op != 'insert' else rnd.randrange(0, 60)
        vname, vtxt = rnd.choice(vals)
        geo = rnd.choice([n0, n1]) if pending else n0
        lines += ['arm %d %s %d' % (geo, vtxt, key), 'x%s %d' % (op, key)]
        add('rnd', lines, op=op, phase=('random-pending' if pending else 'random-before'), val=vname, bad=True,
            maybe_done=pending)
    return out


def judge_b(case, meta, lines):
    """Property oracle for one scenario, on the implementation's trace only.
    -> (kind, key, message) ; kind in ok | violation | vacuous"""
    bad = [l for l in lines if l.startswith('badcall')]
    pre = [l for l in lines if l.startswith('pre ')]
    last = lines[-1] if lines else '<no output>'
    tag = '%s:%s:%s' % (meta['op'], meta['phase'].split(':')[0].replace('random-', ''), meta['val'])
    if any(l.startswith('badop') for l in lines) or not pre:
        return 'vacuous', tag, 'scenario did not reach the operation under test: %r' % lines[-2:]
    if bad:
        # the armed hash was invoked: the operation must abort - not return, not fault
        if last == 'abort':
            return 'ok', tag, ''
        if last.startswith('ok'):
            return 'violation', 'oob:%s:returned' % meta['val'], \
                'hash returned %s (>= table size) and the operation RETURNED instead of aborting' % bad[0].split('ret=')[1]
        return 'violation', 'oob:%s:%s' % (meta['val'], last.split()[0]), \
            'hash returned %s (>= table size): the process ended with %r (sanitizer report or crash) instead of abort()' % (
                bad[0].split('ret=')[1], last)
    # hash never out of range: nothing may abort
    if last.startswith('ok'):
        if meta.get('bad') and not meta.get('maybe_done'):
            return 'vacuous', tag, 'the armed hash function was never called (%s)' % pre[0]
        return 'ok', tag, ''
    return 'violation', 'inrange:%s:%s' % (meta['op'], last.split()[0]), \
        'all hash values in range but the operation ended with %r' % last


# ------------------------------------------------------------------ main

def source_literal():
    try:
        src = open(os.path.join(core.REPO, 'src', 'hash.c')).read()
    except OSError:
        return None
    m = re.search(r'phi\s*=\s*([^;]+);', src)
    return m.group(1).strip() if m else None


def audit(p):
    """Re-derive the Print Assumptions blocks, discharged and axioms from the raw coqc
    output.  lib.core.assumptions drops block lines that neither start with a blank nor
    contain ':' - that is exactly the name of an axiom whose type is wrapped onto the next
    line ("name\n  : type", e.g. sig_forall_dec) - so its blocks are not verbatim and such
    an axiom would not be compared with the allowed list.  Properties_C17*.v print nothing
    but Print Assumptions output, so a block is everything up to the next marker."""
    blocks, cur = [], None
    for line in p['log'].splitlines():
        if line.startswith('Closed under the global context'):
            blocks.append(['Closed under the global context'])
            cur = None
        elif line.startswith('Axioms:'):
            cur = [line]
            blocks.append(cur)
        elif cur is not None and line.strip():
            cur.append(line)
    blocks = ['\n'.join(b) for b in blocks]
    names_printed = [n for n, _ in p['printed']]
    p['printed'] = [(n, blocks[i] if i < len(blocks) else 'MISSING') for i, n in enumerate(names_printed)]
    bd = dict(p['printed'])
    used, discharged = set(), 0
    for t in p['theorems']:
        b = bd.get(t)
        if b is None or b == 'MISSING':
            continue
        if b.startswith('Closed under the global context'):
            discharged += 1
            continue
        names = [n for n in re.findall(r"^([A-Za-z_][\w\.']*)", b, flags=re.M) if n != 'Axioms']
        if names and all(n in core.ALLOWED_AXIOMS for n in names):
            discharged += 1
        used.update(names)
    p['discharged'] = discharged if p['ok'] else 0
    p['axioms'] = sorted(used)
    return p


def main(tier, seed, replay=None):
    t0 = time.time()
    work = os.path.join(core.BUILD, 'work', PID)
    os.makedirs(work, exist_ok=True)
    notes, violations, known_hits = [], [], []
    known = dict(core.load_known(PID))
    nrep = [0]

    def new_replay(text):
        rp = core.replay_path(PID, nrep[0])
        nrep[0] += 1
        with open(rp, 'w') as f:
            f.write(text)
        return rp

    # ---- 1. proofs
    ok_build, blog = core.coq_build()
    proof = audit(core.assumptions(PID))
    have_b = os.path.exists(os.path.join(core.COQ, 'theories', 'Properties_C17b.v'))
    proofs = [proof]
    if have_b:
        pb = audit(core.assumptions('C17b'))
        proofs.append(pb)
    else:
        notes.append('Properties_C17b.v (no_oob for the full table model) not present in this revision; '
                     'part (b) is covered by C17_get_bucket_failstop and the driver scenarios')
    bad = core.hygiene()
    theorems = [t for p in proofs for t in p['theorems']]
    discharged = sum(p['discharged'] for p in proofs)
    proof_ok = all(p['ok'] and p['discharged'] == len(p['theorems']) and len(p['printed']) >= len(p['theorems'])
                   for p in proofs) and len(proof['theorems']) > 0 and not bad and core.coq_vo_ok('HashMul')
    if not proof_ok:
        notes.append('proof audit failed: build_ok=%s coqc_ok=%s discharged=%d/%d hygiene=%s' % (
            ok_build, [p['ok'] for p in proofs], discharged, len(theorems), bad))
    merged = dict(theorems=theorems, discharged=discharged,
                  printed=[x for p in proofs for x in p['printed']],
                  axioms=sorted(set(a for p in proofs for a in p['axioms'])),
                  cmd=' ; '.join(p['cmd'] for p in proofs), log='\n'.join(p['log'] for p in proofs))

    # ---- 2. drivers
    specs = [('hashfn', '', '', True), ('hashfn', '-std=c99 -O2', '_o2', True), ('hashoob', '', '', True)]
    if tier == 'thorough':
        specs.append(('hashoob', '', '_assert', False))
    built = {}
    for name, extra, tag, nd in specs:
        exe, logd = core.build_driver(name, ['hash.c'], extra, nd, tag)
        if exe is None:
            rp = new_replay('driver harness/drv_%s.c does not build against %s\n%s\n' % (name, core.REPO, logd[-4000:]))
            print(logd[-2000:])
            print('VIOLATION property=%s replay=%s no-failing-input-found' % (PID, rp))
            finish(tier, seed, t0, merged, bad, {}, 1, notes + ['driver build failed'], [])
            return 1
        built[name + tag] = exe

    # ---- 3. inputs
    if replay:
        rc = core.parse_script(open(replay).read(), origin='replay')
        pairs, divpairs, bcases = [], [], []
        for c in rc:
            if c.name.startswith('oob'):
                bcases.append((c, dict(op=next((o.split()[0][1:] for o in c.ops if o.startswith('x')), '?'),
                                       phase='replay', val='?', bad=any(o.startswith('arm') for o in c.ops),
                                       maybe_done=True)))
            else:
                for o in c.ops:
                    w = o.split()
                    if w[0] == 'mul':
                        pairs.append((int(w[1]), int(w[2])))
                    elif w[0] == 'div':
                        divpairs.append((int(w[1]), int(w[2])))
        grids, sweeps = [], []
    else:
        grids, pairs, divpairs, sweeps = gen_a(tier, seed)
        bcases = gen_b(tier, seed)
    flat = flatten(grids, pairs)

    # ---- 4. part (a): run both sides
    ta = time.time()
    with ThreadPoolExecutor(max_workers=3) as ex:
        fm = ex.submit(model_run, work, grids, pairs, divpairs) if core.coq_vo_ok('HashMul') else None
        f1 = ex.submit(impl_run, built['hashfn'], work, 'ia', flat, divpairs, sweeps)
        f2 = ex.submit(impl_run, built['hashfn_o2'], work, 'ib', flat, divpairs, [])
        i_mul, i_div, env, sweep, ierr = f1.result()
        o_mul, o_div, env2, sweep_o2, ierr2 = f2.result()
        if fm is not None:
            m_mul, m_div, phi_model, merr, nshards = fm.result()
        else:
            m_mul, m_div, phi_model, merr, nshards = [None] * len(flat), [None] * len(divpairs), None, ['HashMul.vo missing'], 0
    wall_a = time.time() - ta

    range_viol = []       # (fn, k, m, r, driver)
    for nm, mul, div in (('drv_hashfn', i_mul, i_div), ('drv_hashfn_o2', o_mul, o_div)):
        for (k, m), r in zip(flat, mul):
            if r is not None and r >= m:
                range_viol.append(('mul', k, m, r, nm))
        for (k, m), r in zip(divpairs, div):
            if r is not None and r >= m:
                range_viol.append(('div', k, m, r, nm))
    for k, m, r in sweep['viol']:
        range_viol.append(('mul', k, m, r, 'drv_hashfn(sweep)'))
    ndiff = 0
    first_diff = None
    nontrivial = set()
    for fn, ps, mod, impls in (('mul', flat, m_mul, (i_mul, o_mul)), ('div', divpairs, m_div, (i_div, o_div))):
        for idx, (k, m) in enumerate(ps):
            mv = mod[idx]
            if mv:
                nontrivial.add((fn, k, m))
            for di, im in enumerate(impls):
                if im[idx] != mv or mv is None:
                    ndiff += 1
                    cand = (m.bit_length() + k.bit_length(), fn, k, m, mv, im[idx], ('drv_hashfn', 'drv_hashfn_o2')[di])
                    if first_diff is None or cand < first_diff:
                        first_diff = cand
    env_expect = dict(flt_eval_method=0, round_nearest=1, size_t_bits=64, float_bits=32)
    env_bad = [(k, env.get(k), v) for k, v in env_expect.items() if env.get(k) != v or env2.get(k) != v]
    if phi_model is not None and (env.get('phi_bits') != phi_model or env2.get('phi_bits') != phi_model):
        env_bad.append(('phi_bits', env.get('phi_bits'), phi_model))
    lit = source_literal()
    if lit != '1.61803398875f':
        notes.append('the literal assigned to phi in %s/src/hash.c is %r; the model was written for 1.61803398875f' % (core.REPO, lit))
    for e in merr + ierr + ierr2:
        notes.append('run error: ' + e.strip().replace('\n', ' | ')[:600])

    # a call of a built-in hash function that does not return at all (trap, abort, endless loop)
    for drv, sw_ in (('drv_hashfn', sweep), ('drv_hashfn_o2', sweep_o2)):
        for prefix, idx, how in sw_.get('died', [])[:1]:
            fn = 'mul' if prefix == 'fnm' else 'div'
            k, m = (flat if fn == 'mul' else divpairs)[idx]
            key = '%s:does-not-return' % fn
            if key in known:
                known_hits.append((key, known[key], 1))
                continue
            if any(v[1].startswith('cstl_hash_%s(' % fn) and 'did not return' in v[1] for v in violations):
                continue
            rp = new_replay(
                '# property %s violated on the implementation (%s): cstl_hash_%s(%d, %d) did not return a value: the process ended in %s\n'
                '# key: %s\n# replay: ./check %s --replay %s\ncase fn_violation\n%s %d %d\nend\n' % (
                    PID, drv, fn, k, m, how, key, PID, core.replay_path(PID, nrep[0]), fn, k, m))
            violations.append((rp, 'cstl_hash_%s(%d, %d) did not return (%s)' % (fn, k, m, how), True))

    # property violations of part (a)
    if range_viol:
        fnname = {'mul': 'cstl_hash_mul', 'div': 'cstl_hash_div'}
        byfn = {}
        for v in range_viol:
            byfn.setdefault(v[0], []).append(v)
        for fn, vs in sorted(byfn.items()):
            key = '%s:out-of-range' % fn
            if key in known:
                known_hits.append((key, known[key], len(vs)))
                continue
            fn_, k, m, r, drv = min(vs, key=lambda v: (v[2].bit_length() + v[1].bit_length(), v[2], v[1]))
            rp = new_replay(
                '# property %s violated on the implementation (%s): %s(%d, %d) returned %d, which is not below the table size %d\n'
                '# key: %s   (%d failing pairs seen in this run)\n# replay: ./check %s --replay %s\n'
                'case fn_violation\n%s %d %d\nend\n' % (PID, drv, fnname[fn], k, m, r, m, key, len(vs), PID,
                                                        core.replay_path(PID, nrep[0]), fn, k, m))
            violations.append((rp, '%s(%d, %d) = %d >= m' % (fnname[fn], k, m, r), True))

    # correspondence of part (a)
    corr_a_broken = bool(ndiff or env_bad or merr or ierr or ierr2)
    if corr_a_broken and not any(v[2] for v in violations):
        # the model no longer describes the code: search harder for a range violation before giving up
        extra_found = None
        if not replay and ndiff:
            ms = BINADE + list(range(18, 130)) + [1000, 4096, 65535, 1000003]
            sw = []
            top, nchunk = 1 << 23, 64
            for i in range(nchunk):
                for j in range(0, len(ms), 56):
                    sw.append((top * i // nchunk, top * (i + 1) // nchunk, ms[j:j + 56]))
            # a changed function may keep fractional bits for much larger keys (e.g. a double product):
            # every 32-bit key with two table sizes, then a sparse scan of the 64-bit range
            lo, hi, nchunk = 1 << 23, 1 << 32, 512
            for i in range(nchunk):
                sw.append((lo + (hi - lo) * i // nchunk, lo + (hi - lo) * (i + 1) // nchunk, [16, 7]))
            _, _, _, sweep2, _ = impl_run(built['hashfn_o2'], work, 'ic', [], [], sw)
            sweep['calls'] += sweep2['calls']
            if sweep2['viol']:
                k, m, r = min(sweep2['viol'], key=lambda v: (v[1], v[0]))
                extra_found = (k, m, r)
        if extra_found and 'mul:out-of-range' not in known:
            k, m, r = extra_found
            rp = new_replay(
                '# property %s violated on the implementation: cstl_hash_mul(%d, %d) returned %d, not below the table size\n'
                '# found by the extended sweep after the model/implementation correspondence broke\n# key: mul:out-of-range\n'
                '# replay: ./check %s --replay %s\ncase fn_violation\nmul %d %d\nend\n' % (
                    PID, k, m, r, PID, core.replay_path(PID, nrep[0]), k, m))
            violations.append((rp, 'cstl_hash_mul(%d, %d) = %d >= m' % (k, m, r), True))
        else:
            txt = '# correspondence between the Coq model (HashMul.v, theorems of Properties_C17.v) and $REPO/src/hash.c no longer checks\n'
            if first_diff:
                _, fn, k, m, mv, iv, drv = first_diff
                txt += '# %d of %d evaluations differ; smallest: %s %d %d -> model %s, %s %s\n' % (
                    ndiff, 2 * (len(flat) + len(divpairs)), fn, k, m, mv, drv, iv)
            for k_, got, want in env_bad:
                txt += '# target fact %s = %s, the model assumes %s\n' % (k_, got, want)
            for e in (merr + ierr + ierr2)[:5]:
                txt += '# error: %s\n' % e.strip().replace('\n', ' | ')[:500]
            txt += ('# the range oracle (result < m) found no failing pair among %d calls\n# replay: ./check %s --replay %s\n' % (
                2 * len(flat) + sweep['calls'], PID, core.replay_path(PID, nrep[0])))
            if first_diff:
                txt += 'case fn_correspondence\n%s %d %d\nend\n' % (first_diff[1], first_diff[2], first_diff[3])
            rp = new_replay(txt)
            violations.append((rp, 'model/implementation correspondence broken for the built-in hash functions', False))

    # ---- 5. part (b)
    tb = time.time()
    bstats = dict(scenarios=len(bcases), badcall=0, aborted=0, by_phase={})
    b_viol = {}
    b_vacuous = []
    bsamples = []
    for dname in [d for d in ('hashoob', 'hashoob_assert') if d in built]:
        cs = [c for c, _ in bcases]
        res = run_parallel(built[dname], cs, work, 'ob') if cs else {}
        for c, meta in bcases:
            lines = res.get(c.name, [])
            kind, key, msg = judge_b(c, meta, lines)
            if dname == 'hashoob':
                if any(l.startswith('badcall') for l in lines):
                    bstats['badcall'] += 1
                if lines and lines[-1] == 'abort':
                    bstats['aborted'] += 1
                ph = '%s/%s/%s' % (meta['op'], meta['phase'], meta['val'])
                bstats['by_phase'][ph] = bstats['by_phase'].get(ph, 0) + 1
                if len(bsamples) < 3 and meta.get('pending') and kind == 'ok':
                    bsamples.append(c.text().split('\n') + ['# trace:'] + lines)
            if kind == 'violation':
                b_viol.setdefault(key, []).append((c, dname, msg, lines))
            elif kind == 'vacuous':
                if meta.get('pending') or not replay:
                    b_vacuous.append((c, dname, msg, lines))
            if kind != 'violation' and meta.get('pending') and lines and 'pending=1' not in ' '.join(lines):
                b_vacuous.append((c, dname, 'no rehash was pending when the operation started', lines))
    wall_b = time.time() - tb
    for key, hits in sorted(b_viol.items()):
        if key in known:
            known_hits.append((key, known[key], len(hits)))
            continue
        c, dname, msg, lines = min(hits, key=lambda h: (len(h[0].ops), h[0].ops))
        rp = new_replay('# property %s violated on the implementation (drv_%s): %s\n# key: %s   (%d scenarios)\n'
                        '# replay: ./check %s --replay %s\n%s# implementation trace:\n%s' % (
                            PID, dname, msg, key, len(hits), PID, core.replay_path(PID, nrep[0]),
                            c.text(), ''.join('#   %s\n' % l for l in lines)))
        violations.append((rp, msg, True))
    if b_vacuous and not b_viol:
        c, dname, msg, lines = b_vacuous[0]
        rp = new_replay('# fail-stop scenarios of %s no longer exercise the range check as intended (drv_%s): %s\n'
                        '# %d scenarios affected; no scenario violated the property\n# replay: ./check %s --replay %s\n%s'
                        '# implementation trace:\n%s' % (PID, dname, msg, len(b_vacuous), PID, core.replay_path(PID, nrep[0]),
                                                         c.text(), ''.join('#   %s\n' % l for l in lines)))
        violations.append((rp, 'fail-stop scenarios do not reach the range check: ' + msg, False))

    # ---- 6. proofs broken
    if not proof_ok and not violations:
        rp = new_replay('# proof obligations of Properties_C17.v%s no longer check\n# %s\n%s' % (
            ' / Properties_C17b.v' if have_b else '', '; '.join(notes), merged['log'][-6000:]))
        violations.append((rp, 'theorems of Properties_C17*.v do not check', False))

    for key, text, n in known_hits:
        print('KNOWN-FINDING: property=%s %s (key=%s, %d cases)' % (PID, text, key, n))
    for rp, msg, found in violations:
        print('# %s' % msg)
        print('VIOLATION property=%s replay=%s%s' % (PID, rp, '' if found else ' no-failing-input-found'))

    n_eval = len(flat) + len(divpairs)
    cov = dict(
        evaluations=n_eval + len(bcases),
        distinct_nontrivial=len(nontrivial) + bstats['badcall'],
        builtin_pairs_both_sides=n_eval,
        builtin_pairs_nontrivial=len(nontrivial),
        mul_pairs=len(flat), div_pairs=len(divpairs),
        coq_shards=nshards,
        sweep_calls_range_oracle_only=sweep['calls'],
        sweep_calls_returning_m_minus_1=sweep['top'],
        mismatching_evaluations=ndiff,
        range_violations=len(range_viol),
        target_facts=env, target_facts_o2=env2, model_phi_bits=phi_model, source_phi_literal=lit,
        failstop=bstats,
        failstop_violations={k: len(v) for k, v in b_viol.items()},
        drivers=sorted(built),
        wall_builtin_s=round(wall_a, 2), wall_failstop_s=round(wall_b, 2),
        samples=[['mul %d %d -> model %s impl %s' % (k, m, mv, iv)
                  for (k, m), mv, iv in list(zip(flat, m_mul, i_mul))[::max(1, len(flat) // 12)][:12]]] + bsamples,
    )
    finish(tier, seed, t0, merged, bad, cov, len(violations), notes, known_hits)
    return 1 if violations else 0


def finish(tier, seed, t0, proof, bad, cov, nviol, notes, known_hits):
    cov = dict(cov)
    cov.setdefault('evaluations', 0)
    cov.setdefault('distinct_nontrivial', 0)
    cov.setdefault('samples', [])
    cov['obligations'] = len(proof['theorems'])
    cov['discharged'] = proof['discharged']
    cov['theorems'] = proof['theorems']
    cov['checker_cmd'] = proof['cmd'] + ' ; coqc cases_<i>.v (generated, vm_compute of the model on every pair)'
    cov['print_assumptions'] = ['%s: %s' % (n, b) for n, b in proof['printed']]
    cov['hygiene_hits'] = bad
    cov['rule'] = RULE
    cov['trusted_base'] = [
        'Coq 8.16.1 kernel (coqc, vm_compute); no native_compute',
        'axioms per Print Assumptions: %s' % (', '.join(proof['axioms']) if proof['axioms'] else 'none (closed under the global context)'),
        'no extraction is involved in C17: the model is run by coqc itself',
        'correspondence check: harness/drv_hashfn.c, harness/drv_hashoob.c, hcommon.h, checks/c17.py, lib/core.py '
        '(hand-written), gcc -fsanitize=address,undefined',
    ] + TRUSTED
    cov['notes'] = notes
    cov['known_findings_hit'] = [k for k, _, _ in known_hits]
    ev = dict(property_id=PID, tier=tier, seed=seed, level='proof', coverage=cov,
              assumptions=ASSUMPTIONS, wall_s=round(time.time() - t0, 2), violations=nviol)
    core.write_evidence(PID, ev)


MANIFEST = dict(
    text='Coq theorems (Properties_C17.v): the IEEE-754 binary32 model of cstl_hash_mul (Flocq, round-to-nearest-even, '
         'every C operation transcribed) returns a value in [0, m) for EVERY key < 2^64 and EVERY table size 1 <= m < 2^64, '
         'with no overflow/NaN and a defined float->size_t conversion; k mod m < m; the range check in front of every bucket '
         'access either aborts or yields an index below the bucket count, for an arbitrary hash function (plus no_oob for the '
         'whole table model in Properties_C17b.v when present). The model is tied to the C functions on every run by '
         'evaluating the same key/size pairs with vm_compute inside Coq and in the sanitizer-built library; the fail-stop '
         'behaviour is exercised on the real table (insert/find/erase x hash result m, m+1, SIZE_MAX x before/during a '
         'pending rehash) and must end in SIGABRT.',
    note='trusted: Coq kernel + VM; Flocq; stdlib real-number axioms (sig_forall_dec, sig_not_dec, functional_extensionality_dep, '
         'classic); hand transcription of the C expression into Flocq operations validated only by the correspondence run; '
         'FLT_EVAL_METHOD==0, round-to-nearest, binary32 float, 64-bit size_t and the bits of the phi literal are checked by the '
         'driver on every run; gcc/glibc conversions and floorf',
    technique='Coq proof on reals via Flocq *_correct lemmas (grid argument for the fraction + two relative-error bounds) + '
              'in-Coq evaluation of the model vs the C function + C-only range sweep + forked abort/fault classification',
    design='6 (C17)')
