"""C06 - reference counting under every thread interleaving.

Flow (DESIGN.md section 6, C06): proof audit of Properties_C06.v; the Coq
interleaving model (ConcModel.v, extracted) enumerates ALL interleavings of
every scenario with visited-state pruning and emits complete schedules that
cover every (state, thread) edge; each schedule is replayed on the REAL
src/memory.c (compiled unmodified against harness/shadow/*.h, deterministic
coroutine scheduler in harness/drv_conc.c) and on the model; traces are
compared line by line and an independent ownership oracle (below) judges the
implementation's trace alone.  Thorough tier adds bigger scenarios and a
real-thread ThreadSanitizer soak (supporting evidence)."""
import os
import random
import subprocess
import time
from concurrent.futures import ThreadPoolExecutor

from lib import core
from lib.core import Case

PID = 'C06'
LIB_SRCS = ['memory.c']
DRV_EXTRA = '-I%s/harness/shadow -Wl,--wrap=malloc,--wrap=free' % core.ROOT

# ------------------------------------------------------------------ scenarios

def scen(name, threads, progs):
    """threads: [(nf, ne, wf, we)], progs: [[op text]] -> Case (no schedule)"""
    hdr = ['thread %d %d %d %d' % t for t in threads]
    for i, p in enumerate(progs):
        hdr += ['op %d %s' % (i, o) for o in p]
    return Case(name, hdr, [], 'closure')


CFGS = [(nf, 2 - nf, wf, 1 - wf) for nf in (0, 1, 2) for wf in (0, 1)]
OPS1 = ['share 0 1', 'share 1 0', 'share 0 0', 'reset 0', 'reset 1', 'weakfrom 0 0', 'weakfrom 1 0',
        'lock 0 0', 'lock 0 1', 'weakreset 0', 'get 0', 'get 1']
PROGS2 = [
    ['lock 0 0', 'get 0', 'reset 0'],
    ['lock 0 1', 'reset 1', 'lock 0 1'],
    ['share 0 1', 'reset 0', 'reset 1'],
    ['weakfrom 0 0', 'reset 0', 'lock 0 0', 'reset 0', 'weakreset 0'],
    ['reset 0', 'weakreset 0'],
    ['weakreset 0', 'reset 0'],
    ['lock 0 0', 'weakreset 0', 'reset 0'],
    ['reset 0', 'reset 1'],
    ['get 0', 'reset 0'],
    ['lock 0 1', 'share 1 0', 'reset 1', 'reset 0'],
]


def refs(cfg):
    return cfg[0] + cfg[2]


def pair_scenarios(variants, prefix):
    res = []
    n = 0
    for i, (ca, pa) in enumerate(variants):
        for (cb, pb) in variants[i:]:
            if refs(ca) + refs(cb) == 0:
                continue
            n += 1
            res.append(scen('%s%d' % (prefix, n), [ca, cb], [pa, pb]))
    return res


def two_thread_all_pairs():
    """all pairs of single operations x initial reference configurations"""
    return pair_scenarios([(c, [o]) for c in CFGS for o in OPS1], 'p')


def two_thread_sequences():
    return pair_scenarios([(c, p) for c in CFGS for p in PROGS2], 'q')


LOCKER = ['lock 0 0', 'get 0', 'reset 0', 'weakreset 0']


def multi_thread_selected(tier):
    """selected 3- and 4-thread scenarios: the situations the spin flag exists for"""
    W = (0, 1, 1, 0)       # one counted weak, one empty shared
    O = (1, 1, 0, 1)       # one owner
    OW = (1, 1, 1, 0)      # owner + weak
    S = []
    S.append(scen('m3a', [O, W, W], [['reset 0'], LOCKER, LOCKER]))
    S.append(scen('m3b', [OW, W, W], [['reset 0', 'lock 0 0', 'reset 0', 'weakreset 0'], LOCKER, LOCKER]))
    S.append(scen('m3c', [W, W, W], [LOCKER, LOCKER, LOCKER]))
    S.append(scen('m3d', [O, O, W], [['share 0 1', 'reset 0', 'reset 1'], ['reset 0'], LOCKER]))
    S.append(scen('m3e', [OW, OW, OW], [['reset 0', 'lock 0 0', 'weakreset 0', 'reset 0']] * 3))
    S.append(scen('m3f', [O, W, (2, 0, 0, 1)], [['weakfrom 0 0', 'reset 0', 'weakreset 0'], LOCKER,
                                                ['reset 0', 'get 1', 'reset 1']]))
    S.append(scen('m4a', [O, W, W, W], [['reset 0'], ['lock 0 0', 'reset 0'], ['lock 0 0', 'reset 0'], ['weakreset 0']]))
    S.append(scen('m4b', [O, O, W, W], [['reset 0'], ['reset 0'], ['lock 0 0', 'reset 0', 'weakreset 0'],
                                       ['lock 0 0', 'reset 0', 'weakreset 0']]))
    if tier == 'thorough':
        S.append(scen('m4c', [OW, OW, W, W], [['reset 0', 'lock 0 0', 'reset 0', 'weakreset 0']] * 2 + [LOCKER, LOCKER]))
        S.append(scen('m4d', [W, W, W, W], [LOCKER] * 4))
        S.append(scen('m5a', [O, W, W, W, W], [['reset 0']] + [['lock 0 0', 'reset 0']] * 4))
    return S


def explore(cases, max_states, max_scheds, work):
    """run the model's exhaustive interleaving enumeration; -> (schedule cases, stats)"""
    exe = os.path.join(core.BUILD, 'ocaml', 'runner')
    os.makedirs(work, exist_ok=True)
    n = max(1, min(core.NPROC, len(cases)))
    # interleave so that heavy scenarios spread over the shards
    shards = [cases[i::n] for i in range(n)]

    def one(i):
        p = os.path.join(work, 'explore.%d.script' % i)
        with open(p, 'w') as f:
            for c in shards[i]:
                f.write(c.text())
        r = subprocess.run([exe, 'conc-explore', p, str(max_states), str(max_scheds)],
                           stdout=subprocess.PIPE, stderr=subprocess.PIPE, text=True, timeout=3000)
        os.unlink(p)
        return r.stdout, r.stderr

    with ThreadPoolExecutor(max_workers=n) as ex:
        outs = list(ex.map(one, range(n)))
    st = dict(states=0, transitions=0, closed=True, races=0, errs=0, schedules=0)
    res = []
    for out, err in outs:
        for c in core.parse_script(out, origin='closure'):
            c.header = [o for o in c.ops if not o.startswith('sched')]
            c.ops = [o for o in c.ops if o.startswith('sched')]
            res.append(c)
        w = err.split()
        if len(w) >= 12 and w[0] == 'states':
            st['states'] += int(w[1])
            st['transitions'] += int(w[3])
            st['closed'] = st['closed'] and w[5] == 'true'
            st['races'] += int(w[7])
            st['errs'] += int(w[9])
            st['schedules'] += int(w[11])
        else:
            st['closed'] = False
            st['explore_error'] = err[-500:]
    return res, st


def random_cases(tier, seed):
    """seeded random schedules of larger scenarios (too big to enumerate)"""
    rnd = random.Random(seed * 104729 + 6)
    n = 1500 if tier == 'quick' else 20000
    cases = []
    for ci in range(n):
        nt = rnd.choice([3, 4, 5, 6])
        threads, progs = [], []
        for t in range(nt):
            ns = rnd.choice([2, 3])
            nw = rnd.choice([1, 2])
            nf = rnd.randrange(0, ns + 1)
            wf = rnd.randrange(0, nw + 1)
            threads.append((nf, ns - nf, wf, nw - wf))
            p = []
            for _ in range(rnd.choice([2, 4, 6, 8])):
                k = rnd.choice(['share', 'reset', 'reset', 'weakfrom', 'lock', 'lock', 'weakreset', 'get'])
                if k in ('share',):
                    p.append('share %d %d' % (rnd.randrange(ns), rnd.randrange(ns)))
                elif k == 'reset':
                    p.append('reset %d' % rnd.randrange(ns))
                elif k == 'weakfrom':
                    p.append('weakfrom %d %d' % (rnd.randrange(ns), rnd.randrange(nw)))
                elif k == 'lock':
                    p.append('lock %d %d' % (rnd.randrange(nw), rnd.randrange(ns)))
                elif k == 'weakreset':
                    p.append('weakreset %d' % rnd.randrange(nw))
                else:
                    p.append('get %d' % rnd.randrange(ns))
            if rnd.random() < 0.5:   # end by letting go of everything
                p += ['reset %d' % i for i in range(ns)] + ['weakreset %d' % i for i in range(nw)]
            progs.append(p)
        if sum(refs(t) for t in threads) == 0:
            threads[0] = (1, threads[0][0] + threads[0][1] - 1, threads[0][2], threads[0][3])
        c = scen('rnd%d' % ci, threads, progs)
        c.origin = 'random'
        # bursty random schedule: short runs of one thread, so that both
        # fine-grained interleavings and long uninterrupted stretches occur
        sched = []
        total = sum(len(p) for p in progs) * 8
        while len(sched) < total:
            t = rnd.randrange(nt)
            sched += [t] * rnd.choice([1, 1, 1, 2, 3, 5])
        c.ops = ['sched ' + ' '.join(map(str, sched[i:i + 60])) for i in range(0, len(sched), 60)]
        cases.append(c)
    return cases


# ------------------------------------------------------------------ oracle

TOUCHING = ('get1', 'subhard', 'addhard', 'subsoft', 'addsoft', 'tas', 'flagclear', 'clear', 'freedata', 'load', 'other')
BAD_EVENTS = ('ev:uaf', 'ev:double', 'ev:underflow', 'ev:weakorder', 'ev:strayfree')


def parse_scenario(case):
    threads, progs = [], {}
    for h in case.header:
        w = h.split()
        if w[0] == 'thread':
            threads.append(tuple(int(x) for x in w[1:5]))
        elif w[0] == 'op':
            progs.setdefault(int(w[1]), []).append((w[2], [int(x) for x in w[3:]]))
    return threads, [progs.get(i, []) for i in range(len(threads))]


def oracle(case, impl):
    """Ownership oracle over the IMPLEMENTATION's trace only (no reference to
    the Coq model).  -> None or (key, message)."""
    threads, progs = parse_scenario(case)
    owners = set()      # (tid, shared index): objects that currently own the memory
    srefs = set()       # shared objects holding a reference on the bookkeeping block
    wrefs = set()       # weak objects holding one
    for t, (nf, ne, wf, we) in enumerate(threads):
        for i in range(nf):
            owners.add((t, i))
            srefs.add((t, i))
        for i in range(wf):
            wrefs.add((t, i))
    mem_live0 = len(owners) > 0
    data_live0 = len(owners) + len(wrefs) > 0
    opidx = [0] * len(threads)
    started = [False] * len(threads)
    src_ok = [False] * len(threads)       # the source of the current call held a reference when the call began
    saw_no_owner = [False] * len(threads)  # during the current lock call, at some point no owner existed
    nclear = nfreemem = nfreedata = 0
    data_dead = not data_live0
    fin = False
    for ln, line in enumerate(impl):
        w = line.split()
        if not w:
            continue
        if w[0] == 'init':
            if [int(w[1]), int(w[2])] != [len(owners), len(owners) + len(wrefs)]:
                return ('init-counts', 'initial counters %s %s, expected %d %d' % (w[1], w[2], len(owners), len(owners) + len(wrefs)))
            continue
        if w[0] == 'race':
            return ('data-race', 'two conflicting accesses to the bookkeeping block enabled together: ' + line)
        if w[0] == 'stuck':
            return ('no-progress', 'the scenario did not complete within the step bound (a thread waits forever)')
        if w[0] in ('fault', 'abort', 'timeout', 'badcase'):
            return ('crash:' + w[0], 'the run ended in ' + w[0])
        if w[0] == 'fin':
            fin = True
            continue
        if w[0] != 's':
            return ('garbled', 'unparsable line %r' % line)
        t, lab = int(w[1]), w[2]
        if t >= len(progs) or opidx[t] >= len(progs[t]):
            return ('extra-step', 'thread %d steps after its program ended: %s' % (t, line))
        op, a = progs[t][opidx[t]]
        if not started[t]:
            started[t] = True
            saw_no_owner[t] = False
            # the first thing a call does is let go of what its target holds
            if op in ('reset', 'share', 'lock'):
                d = a[-1]
                src_ok[t] = ((t, a[0]) in owners and a[0] != d) if op == 'share' else ((t, a[0]) in wrefs) if op == 'lock' else False
                owners.discard((t, d))      # released by this very step (its decrement of the owner count)
            elif op in ('weakfrom', 'weakreset'):
                d = a[-1]
                src_ok[t] = (t, a[0]) in owners if op == 'weakfrom' else False
            elif op == 'get':
                src_ok[t] = (t, a[0]) in owners
        if lab == 'subsoft':
            # the reference of the call's target on the bookkeeping block is dropped here
            d = a[-1]
            if op in ('weakfrom', 'weakreset'):
                wrefs.discard((t, d))
            else:
                srefs.discard((t, d))
        if data_dead and lab in TOUCHING:
            return ('touch-after-free', 'line %d: %s accesses the bookkeeping block after it was freed' % (ln, line))
        for e in w[3:]:
            if e in BAD_EVENTS:
                return (e[3:], 'line %d: %s' % (ln, line))
            if e == 'ev:clear':
                nclear += 1
                if nclear > 1 or not mem_live0:
                    return ('clear-twice', 'line %d: managed memory cleared more than once' % ln)
                if owners:
                    return ('clear-with-owner', 'line %d: managed memory cleared while %s still own(s) it' % (ln, sorted(owners)))
            elif e == 'ev:freemem':
                nfreemem += 1
                if nfreemem > 1 or nclear != 1:
                    return ('free-mem-wrong', 'line %d: managed memory freed twice or without clear' % ln)
            elif e == 'ev:freedata':
                nfreedata += 1
                if nfreedata > 1 or not data_live0:
                    return ('free-data-twice', 'line %d: bookkeeping block freed twice' % ln)
                if srefs or wrefs:
                    return ('free-data-with-refs', 'line %d: bookkeeping block freed while referenced by %s' % (ln, sorted(srefs) + sorted(wrefs)))
                data_dead = True
        for u in range(len(threads)):
            if started[u] and not owners:
                saw_no_owner[u] = True
        if 'done' in w:
            k = w.index('done')
            res = int(w[k + 2])
            if w[k + 1] != op:
                return ('wrong-call', 'line %d: completed %s, program says %s' % (ln, w[k + 1], op))
            if op == 'share':
                if res != (1 if src_ok[t] else 0):
                    return ('share-result', 'line %d: share result %d' % (ln, res))
                if res:
                    owners.add((t, a[1]))
                    srefs.add((t, a[1]))
            elif op == 'weakfrom':
                if res != (1 if src_ok[t] else 0):
                    return ('weakfrom-result', 'line %d: weak_from result %d' % (ln, res))
                if res:
                    wrefs.add((t, a[1]))
            elif op == 'lock':
                if res:
                    if not src_ok[t]:
                        return ('lock-from-null', 'line %d: lock of an empty weak pointer produced an owner' % ln)
                    if nclear > 0 or not mem_live0:
                        return ('lock-dead', 'line %d: lock produced an owner of memory that was already destroyed' % ln)
                    owners.add((t, a[1]))
                    srefs.add((t, a[1]))
                elif src_ok[t] and not saw_no_owner[t]:
                    return ('lock-failed-with-owner', 'line %d: lock failed although an owner existed throughout' % ln)
            elif op == 'get':
                if res == 2:
                    return ('get-dead', 'line %d: get returned a pointer to destroyed memory' % ln)
                if src_ok[t] and res != 1:
                    return ('get-owner-null', 'line %d: get through an owner returned NULL' % ln)
                if not src_ok[t] and res != 0:
                    return ('get-nonowner', 'line %d: get through an empty object returned memory' % ln)
            opidx[t] += 1
            started[t] = False
    if not fin:
        return ('crash:incomplete', 'the run did not reach its end')
    if any(opidx[t] < len(progs[t]) for t in range(len(threads))):
        return ('no-progress', 'some thread did not finish its program')
    if mem_live0:
        if not owners and (nclear, nfreemem) != (1, 1):
            return ('not-destroyed', 'no owner remains but the memory was cleared %d and freed %d times' % (nclear, nfreemem))
        if owners and nclear:
            return ('clear-with-owner', 'memory destroyed although %s still own it' % sorted(owners))
    if data_live0:
        if not srefs and not wrefs and nfreedata != 1:
            return ('data-leak', 'no reference remains but the bookkeeping block was freed %d times' % nfreedata)
    return None


# ------------------------------------------------------------------ real-thread soak (thorough)

def soak(seconds, work):
    """memory.c compiled normally with -fsanitize=thread; N pthreads hammer
    share/lock/reset on one allocation.  -> (ok, log)"""
    exe = os.path.join(core.BUILD, 'c', 'soak_conc')
    cmd = ('gcc -std=gnu11 -O2 -g -fsanitize=thread -DNDEBUG -I%s/include -o %s %s/harness/soak_conc.c %s/src/memory.c -lpthread'
           % (core.REPO, exe, core.ROOT, core.REPO))
    rc, out = core.sh(cmd, timeout=300)
    if rc:
        return None, 'soak build failed:\n' + out[-3000:]
    rc, out = core.sh([exe, str(seconds)], timeout=seconds * 4 + 120,
                      env={'TSAN_OPTIONS': 'halt_on_error=0 exitcode=66 report_signal_unsafe=0'})
    ok = rc == 0 and 'SOAK-OK' in out and 'ThreadSanitizer' not in out
    return ok, out[-6000:]


# ------------------------------------------------------------------ main

def run_both(cases, drv, work):
    model = core.run_sharded(core.runner_cmd('conc'), cases, work, 'm')
    impl = core.run_sharded(core.driver_cmd(drv), cases, work, 'i')
    return model, impl


def single(case, drv, work):
    c = Case('x', case.header, case.ops)
    m, i = run_both([c], drv, work)
    return m.get('x', []), i.get('x', [])


def sched_of(case):
    return [x for o in case.ops for x in o.split()[1:]]


def with_sched(case, sched):
    return Case(case.name, case.header, ['sched ' + ' '.join(sched)] if sched else ['sched'], case.origin)


def main(tier, seed, replay=None):
    t0 = time.time()
    work = os.path.join(core.BUILD, 'work', PID)
    os.makedirs(work, exist_ok=True)
    notes = []
    timing = {}

    ok_build, log = core.coq_build()
    proof = core.assumptions(PID)
    bad = core.hygiene()
    proof_ok = proof['ok'] and proof['discharged'] == len(proof['theorems']) and not bad \
        and len(proof['theorems']) > 0 and len(proof['printed']) >= len(proof['theorems'])
    if not proof_ok:
        notes.append('proof audit failed: build_ok=%s coqc_ok=%s discharged=%d/%d hygiene=%s' % (
            ok_build, proof['ok'], proof['discharged'], len(proof['theorems']), bad))
    timing['proofs_s'] = round(time.time() - t0, 1)

    okr, logr = core.build_runner()
    if not okr:
        print(logr[-3000:])
        notes.append('runner build failed')
    drv, logd = core.build_driver('conc', LIB_SRCS, DRV_EXTRA, ndebug=True)
    if drv is None:
        rp = core.replay_path(PID, 0)
        with open(rp, 'w') as f:
            f.write('driver build failed against %s (memory.c must compile unmodified against harness/shadow)\n%s\n' % (core.REPO, logd[-4000:]))
        print(logd[-2000:])
        print('VIOLATION property=%s replay=%s no-failing-input-found' % (PID, rp))
        finish(tier, seed, t0, proof, bad, {}, 1, notes + ['driver build failed'], timing)
        return 1

    st = {}
    soak_res = None
    if replay:
        cases = core.parse_script(open(replay).read(), origin='replay')
        for c in cases:
            c.header = [o for o in c.ops if not o.startswith('sched')]
            c.ops = [o for o in c.ops if o.startswith('sched')]
    elif okr:
        t1 = time.time()
        sc = two_thread_all_pairs() + two_thread_sequences() + multi_thread_selected(tier)
        nscen = len(sc)
        if tier == 'quick':
            cases, st = explore(sc, 200000, 4000, work)
        else:
            cases, st = explore(sc, 2000000, 200000, work)
        st['scenarios'] = nscen
        timing['explore_s'] = round(time.time() - t1, 1)
        cases += random_cases(tier, seed)
    else:
        cases = []
    for i, c in enumerate(cases):
        c.name = '%s_%d' % (c.name, i)

    t1 = time.time()
    model, impl = run_both(cases, drv, work) if okr else ({}, {})
    timing['replay_s'] = round(time.time() - t1, 1)

    mism = []
    hits = {}
    nontrivial = set()
    hist = {}
    for c in cases:
        m = model.get(c.name, ['<no model output>'])
        im = impl.get(c.name, ['<no impl output>'])
        if sum(1 for l in m if l.startswith('s ')) >= 2:
            nontrivial.add(c.key())
        for l in im:
            w = l.split()
            if w and w[0] == 's':
                hist[w[2]] = hist.get(w[2], 0) + 1
        d = core.first_diff(m, im)
        if d is not None:
            mism.append((c, d))
        r = oracle(c, im)
        if r is not None:
            hits.setdefault(r[0], []).append((c, r[1]))

    violations = []
    known = dict(core.load_known(PID))
    known_hits = []
    nrep = 0
    for key, hs in sorted(hits.items()):
        if key in known:
            known_hits.append((key, known[key], len(hs)))
            continue
        c, msg = min(hs, key=lambda h: (len(h[0].header), len(sched_of(h[0]))))

        def still(s, _c=c, _key=key):
            cc = with_sched(_c, s)
            _, im = single(cc, drv, work)
            r = oracle(cc, im)
            return r is not None and r[0] == _key
        s = sched_of(c)
        small = core.ddmin(s, still) if len(s) > 1 and still(s) else s
        cc = with_sched(Case('violation', c.header, []), small)
        mm, im = single(cc, drv, work)
        r = oracle(cc, im)
        rp = core.replay_path(PID, nrep)
        nrep += 1
        with open(rp, 'w') as f:
            f.write('# property %s violated on the implementation (src/memory.c under the deterministic scheduler)\n' % PID)
            f.write('# oracle: %s\n# key: %s\n' % (r[1] if r else msg, key))
            f.write('# the schedule below (thread ids, then round-robin) reproduces it: ./check %s --replay %s\n' % (PID, rp))
            f.write(cc.text())
            f.write('# implementation trace:\n' + ''.join('#   %s\n' % l for l in im))
            f.write('# model trace:\n' + ''.join('#   %s\n' % l for l in mm))
        violations.append((rp, msg, True))
    explained = set()
    for key, hs in hits.items():
        for c, _ in hs:
            explained.add(c.name)
    unexplained = [(c, d) for (c, d) in mism if c.name not in explained]
    if unexplained:
        c, d = min(unexplained, key=lambda h: (len(h[0].header), len(sched_of(h[0]))))

        def still2(s, _c=c):
            cc = with_sched(_c, s)
            mm, im = single(cc, drv, work)
            return core.first_diff(mm, im) is not None
        s = sched_of(c)
        small = core.ddmin(s, still2) if len(s) > 1 and still2(s) else s
        cc = with_sched(Case('correspondence', c.header, []), small)
        mm, im = single(cc, drv, work)
        rp = core.replay_path(PID, nrep)
        nrep += 1
        with open(rp, 'w') as f:
            f.write('# correspondence between the Coq interleaving model (ConcModel.v, theorems of Properties_C06.v) and src/memory.c no longer checks\n')
            f.write('# %d of %d schedules differ; smallest after shrinking below. first difference (line, model, impl): %s\n' % (
                len(unexplained), len(cases), (core.first_diff(mm, im),)))
            f.write('# the ownership oracle found no schedule on which the implementation itself violates %s\n' % PID)
            f.write('# replay: ./check %s --replay %s\n' % (PID, rp))
            f.write(cc.text())
            f.write('# implementation trace:\n' + ''.join('#   %s\n' % l for l in im))
            f.write('# model trace:\n' + ''.join('#   %s\n' % l for l in mm))
        violations.append((rp, 'model/implementation correspondence broken', False))
    # model-side race detector / error flag over the explored state space
    if st.get('races', 0) or st.get('errs', 0):
        rp = core.replay_path(PID, nrep)
        nrep += 1
        with open(rp, 'w') as f:
            f.write('# the exhaustive exploration of the MODEL reached %d states with a data race and %d with the error flag set\n'
                    '# (contradicts Properties_C06.v: the model or the proofs are out of date)\n' % (st.get('races', 0), st.get('errs', 0)))
        violations.append((rp, 'model-side race detector fired', False))
    if (not proof_ok or not okr) and not violations:
        rp = core.replay_path(PID, nrep)
        nrep += 1
        with open(rp, 'w') as f:
            f.write('# proof obligations of Properties_%s.v no longer check\n# %s\n' % (PID, '; '.join(notes)))
            f.write(proof['log'][-6000:])
        violations.append((rp, 'theorems of Properties_%s.v do not check' % PID, False))

    if tier == 'thorough' and not replay:
        t1 = time.time()
        ok, out = soak(40, work)
        timing['soak_s'] = round(time.time() - t1, 1)
        soak_res = dict(ok=ok, tail=out[-1500:].split('\n'))
        if ok is False:
            rp = core.replay_path(PID, nrep)
            nrep += 1
            with open(rp, 'w') as f:
                f.write('# real-thread soak (memory.c built with -fsanitize=thread, harness/soak_conc.c): race report or ownership error\n')
                f.write(out)
            violations.append((rp, 'real-thread ThreadSanitizer soak failed', True))
        elif ok is None:
            notes.append('soak not run: ' + out[-300:])

    for key, text, n in known_hits:
        print('KNOWN-FINDING: property=%s %s (key=%s, %d cases)' % (PID, text, key, n))
    for rp, msg, found in violations:
        print('# %s' % msg)
        print('VIOLATION property=%s replay=%s%s' % (PID, rp, '' if found else ' no-failing-input-found'))

    cov = dict(
        evaluations=len(cases),
        distinct_nontrivial=len(nontrivial),
        mismatching_cases=len(mism),
        oracle_violations={k: len(v) for k, v in hits.items()},
        step_histogram=hist,
        drivers=[os.path.basename(drv)],
        samples=[c.text().split('\n') for c in (cases[:1] + cases[len(cases) // 2:len(cases) // 2 + 1] + cases[-1:])],
        random_schedules=sum(1 for c in cases if c.origin == 'random'),
        soak=soak_res,
    )
    if st:
        cov.update({('closure_' + k): v for k, v in st.items()})
        cov['states'] = st.get('states', 0)
        cov['transitions'] = st.get('transitions', 0)
        cov['traces_validated_against_impl'] = len(cases)
        cov['exhaustive'] = bool(st.get('closed', False))
        cov['model_race_states'] = st.get('races', 0)
    finish(tier, seed, t0, proof, bad, cov, len(violations), notes, timing, known_hits)
    return 1 if violations else 0


RULE = ('scenario = initial reference configuration + one program per thread; the extracted Coq model enumerates every '
        'interleaving of each scenario with visited-state pruning and emits complete schedules covering every (state, thread) '
        'edge; cases = those schedules + seeded random schedules of larger scenarios, each replayed on src/memory.c under the '
        'deterministic scheduler and on the model; a case is non-trivial when it has at least two steps; distinct = distinct text')


def finish(tier, seed, t0, proof, bad, cov, nviol, notes, timing, known_hits=()):
    cov = dict(cov)
    cov.setdefault('evaluations', 0)
    cov.setdefault('distinct_nontrivial', 0)
    cov.setdefault('samples', [])
    cov['obligations'] = len(proof['theorems'])
    cov['discharged'] = proof['discharged']
    cov['theorems'] = proof['theorems']
    cov['checker_cmd'] = proof['cmd']
    cov['print_assumptions'] = ['%s: %s' % (n, b) for n, b in proof['printed']]
    cov['hygiene_hits'] = bad
    cov['rule'] = RULE
    cov['timing'] = timing
    cov['trusted_base'] = [
        'Coq 8.16.1 kernel (coqc, vm_compute); no native_compute',
        'axioms per Print Assumptions: %s' % (', '.join(proof['axioms']) if proof['axioms'] else 'none (closed under the global context)'),
        'extraction: ExtrOcamlBasic directives only; OCaml 4.13.1; used only to run the model',
        'correspondence check: harness/drv_conc.c + harness/shadow/{stdatomic,sched}.h (ucontext scheduler, quarantine), runner/run_conc.ml, checks/c06.py (hand-written); gcc -fsanitize=address,undefined',
        'modelled, not verified: the hand transcription of src/memory.c into ConcModel.v (one step per atomic operation), validated by replaying every model edge on the real code',
        'sequential consistency: every atomic in memory.c is a seq_cst operation (the shadow header reports any _explicit weaker order); '
        'C11 DRF=>SC, the compiler and the hardware are trusted; data-race freedom is proved at the SC level only',
        'real scheduler fairness is outside the model (progress theorems are about weakly fair schedules)',
    ]
    cov['notes'] = notes
    cov['known_findings_hit'] = [k for k, _, _ in known_hits]
    ev = dict(property_id=PID, tier=tier, seed=seed, level='proof', coverage=cov,
              assumptions=['every thread uses only its own shared/weak pointer objects; a weak pointer object is never passed where a '
                           'shared pointer is expected (same C type); objects are initialised',
                           'one allocation; programs are finite'],
              wall_s=round(time.time() - t0, 2), violations=nviol)
    core.write_evidence(PID, ev)


MANIFEST = dict(
    text='Coq theorems (Properties_C06.v) about an interleaving model of the shared/weak pointer code of src/memory.c (one small step per '
         'atomic operation, any number of threads, any schedule): an inductive invariant gives clear/free of the managed memory at most '
         'once and only with no counted owner (exactly once when everything is reset), live memory for every owner obtained by a lock '
         'until its reset, the bookkeeping block freed at most once and never touched afterwards, no two conflicting non-atomic accesses '
         'enabled together (SC-level data-race freedom), bounded non-spin steps and a runnable non-spinning thread whenever someone spins. '
         'Level: proof for the interleaving model; PARTIAL for the runtime: the tie to the C code is differential replay of every model edge '
         '(all 2-thread operation pairs x reference configurations, selected 3/4-thread scenarios, random schedules) on the unmodified '
         'memory.c under a deterministic scheduler, plus a real-thread ThreadSanitizer soak in the thorough tier.',
    note='trusted: Coq kernel; hand transcription of memory.c into ConcModel.v validated only by the correspondence run; shadow '
         '<stdatomic.h>/<sched.h> and the ucontext scheduler; sequential consistency of seq_cst atomics and C11 DRF=>SC (weak-memory and '
         'compiler behaviours are outside the model); real scheduler fairness; extraction + OCaml runner',
    technique='Coq proof (inductive invariant over small-step interleaving semantics, any number of threads) + exhaustive model-driven '
              'schedule enumeration replayed on the real code + independent ownership oracle + TSan soak',
    design='6 (C06), appendix A.2')
