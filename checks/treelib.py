"""Shared pieces of the tree checks (C01, C02): parser of the driver's tree
dump, script generators.  Nothing here looks at the Coq model."""
import random
from lib.core import Case

ORD = {0: 'PRE', 1: 'MID', 2: 'POST', 3: 'LEAF'}


class Malformed(Exception):
    pass


def parse_line(line):
    """'ok <out> | <size> <tree>' -> (out ints, size, tree, malformed tokens)
    tree = None | (id, colour or None, left, right)"""
    head, _, tail = line.partition('|')
    out = [int(x) for x in head.split()[1:]]
    tok = tail.split()
    size = int(tok[0])
    bad = [t for t in tok if t.startswith('MALFORMED')]
    pos = [1]

    def node():
        if pos[0] >= len(tok):
            raise Malformed('truncated dump')
        t = tok[pos[0]]
        pos[0] += 1
        if t == '.':
            return None
        if t.startswith('MALFORMED'):
            return None
        if t != '(':
            raise Malformed('unexpected token %r' % t)
        i = int(tok[pos[0]])
        pos[0] += 1
        c = None
        while tok[pos[0]] in ('R', 'B') or tok[pos[0]].startswith('MALFORMED'):
            if tok[pos[0]] in ('R', 'B'):
                c = tok[pos[0]]
            pos[0] += 1
        l = node()
        r = node()
        if tok[pos[0]] != ')':
            raise Malformed('missing )')
        pos[0] += 1
        return (i, c, l, r)
    tree = node()
    return out, size, tree, bad


def inorder(t, acc=None):
    acc = [] if acc is None else acc
    # iterative to survive degenerate shapes
    stack = []
    cur = t
    while stack or cur is not None:
        while cur is not None:
            stack.append(cur)
            cur = cur[2]
        cur = stack.pop()
        acc.append(cur[0])
        cur = cur[3]
    return acc


def height(t):
    """(min leaf depth, max leaf depth) counted in nodes; (0, 0) for the empty tree"""
    if t is None:
        return 0, 0
    mn, mx = None, 0
    stack = [(t, 1)]
    while stack:
        n, d = stack.pop()
        if n[2] is None and n[3] is None:
            mn = d if mn is None or d < mn else mn
            mx = max(mx, d)
        if n[2] is not None:
            stack.append((n[2], d + 1))
        if n[3] is not None:
            stack.append((n[3], d + 1))
    return mn, mx


def events(t, rev):
    """the visit sequence the header documents, computed on a decoded tree"""
    ev = []

    def go(n):
        a, b = (n[3], n[2]) if rev else (n[2], n[3])
        if a is None and b is None:
            ev.append((3, n[0]))
            return
        ev.append((0, n[0]))
        if a is not None:
            go(a)
        ev.append((1, n[0]))
        if b is not None:
            go(b)
        ev.append((2, n[0]))
    if t is not None:
        go(t)
    return ev


def rb_rules(t):
    """-> None or (key, message) for the first broken red-black rule"""
    if t is None:
        return None
    if t[1] != 'B':
        return ('root-red', 'the root (element %d) is not black' % t[0])

    def go(n):
        """-> black height or raises"""
        if n is None:
            return 0
        for ch in (n[2], n[3]):
            if n[1] == 'R' and ch is not None and ch[1] == 'R':
                raise Malformed('red-red|red element %d has red child %d' % (n[0], ch[0]))
        a = go(n[2])
        b = go(n[3])
        if a != b:
            raise Malformed('black-height|paths below element %d cross %d and %d black nodes' % (n[0], a, b))
        return a + (1 if n[1] == 'B' else 0)
    try:
        go(t)
    except Malformed as ex:
        k, m = str(ex).split('|', 1)
        return (k, m)
    return None


def keys_of(case):
    keys, kind = [], 'bin'
    for h in case.header:
        w = h.split()
        if w[0] == 'keys':
            keys += [int(x) for x in w[1:]]
        elif w[0] == 'kind':
            kind = w[1]
    return keys, kind


class Gen:
    """Random histories.  Which of several equal elements an erase removes
    depends on the tree shape, which the generator does not know; it keeps
    per-key counts and re-uses the ids of a key only when no element of that
    key is held, otherwise takes a fresh id."""

    def __init__(self, rnd, kind, nkeys, maxid=250):
        self.rnd = rnd
        self.kind = kind
        self.nkeys = nkeys
        self.keys = []          # id -> key
        self.count = {}         # key -> held count
        self.free = {}          # key -> ids known to be free
        self.used = {}          # key -> ids possibly held
        self.total = 0
        self.maxid = maxid
        self.ops = []

    def insert(self, k, hinted=None):
        if self.free.get(k):
            i = self.free[k].pop()
        else:
            if len(self.keys) >= self.maxid:
                return False
            i = len(self.keys)
            self.keys.append(k)
        self.used.setdefault(k, []).append(i)
        self.count[k] = self.count.get(k, 0) + 1
        self.total += 1
        h = self.rnd.random() < 0.4 if hinted is None else hinted
        self.ops.append('%s %d' % ('inserth' if h else 'insert', i))
        return True

    def erase(self, k):
        self.ops.append('erase %d' % k)
        if self.count.get(k, 0) > 0:
            self.count[k] -= 1
            self.total -= 1
            if self.count[k] == 0:
                self.free.setdefault(k, []).extend(self.used.get(k, []))
                self.used[k] = []

    def held_key(self):
        ks = [k for k, c in self.count.items() if c > 0]
        return self.rnd.choice(ks) if ks else None

    def clear(self):
        self.ops.append('clear')
        for k in list(self.count):
            if self.count[k] > 0:
                self.free.setdefault(k, []).extend(self.used.get(k, []))
                self.used[k] = []
            self.count[k] = 0
        self.total = 0

    def case(self, name):
        hdr = ['keys ' + ' '.join(map(str, self.keys[i:i + 40])) for i in range(0, max(len(self.keys), 1), 40)]
        return Case(name, hdr + ['kind ' + self.kind, 'cmpmode %d' % self.rnd.choice([0, 1, 2])], self.ops, 'random')


def random_history(rnd, kind, name, target, length, nkeys, readers=True, pattern=None):
    g = Gen(rnd, kind, nkeys)
    pattern = pattern or rnd.choice(['mixed', 'mixed', 'asc', 'desc', 'grow-drain', 'zigzag'])
    nxt = [0]

    def newkey():
        if pattern == 'asc':
            nxt[0] += rnd.choice([0, 0, 1])
            return nxt[0]
        if pattern == 'desc':
            nxt[0] -= rnd.choice([0, 0, 1])
            return nxt[0]
        if pattern == 'zigzag':
            nxt[0] += 1
            return (nxt[0] // 2) * (1 if nxt[0] % 2 else -1) // rnd.choice([1, 1, 2])
        return rnd.randrange(nkeys)
    phase = 'grow'
    for _ in range(length):
        if phase == 'grow' and g.total >= target:
            phase = rnd.choice(['churn', 'drain']) if pattern != 'grow-drain' else 'drain'
        elif phase == 'drain' and g.total == 0:
            phase = 'grow'
        elif phase == 'churn' and rnd.random() < 0.02:
            phase = rnd.choice(['grow', 'drain'])
        p_ins = dict(grow=0.8, churn=0.5, drain=0.15)[phase]
        r = rnd.random()
        if readers and r < 0.12:
            c = rnd.choice(['find', 'find', 'foreach', 'foreach', 'height', 'size', 'clear', 'erase-miss'])
            if c == 'find':
                g.ops.append('find %d' % (g.held_key() if rnd.random() < 0.6 and g.held_key() is not None
                                          else rnd.randrange(-2, nkeys + 2)))
            elif c == 'foreach':
                n_ev = 3 * max(g.total, 1)
                g.ops.append('foreach %s %d' % (rnd.choice(['fwd', 'rev']),
                                                rnd.choice([0, 0, 1, rnd.randrange(1, n_ev + 2), n_ev])))
            elif c == 'clear':
                if rnd.random() < 0.15:
                    g.clear()
            elif c == 'erase-miss':
                g.erase(nkeys + 5)
            else:
                g.ops.append(c)
        elif rnd.random() < p_ins:
            if not g.insert(newkey()):
                k = g.held_key()
                if k is not None:
                    g.erase(k)
        else:
            k = g.held_key()
            if k is not None:
                g.erase(k)
            else:
                g.insert(newkey())
    return g.case(name)


def with_cmpmodes(cases, modes=(1,)):
    """the closure cases once more for other magnitudes of the comparator's results"""
    extra = []
    for m in modes:
        for c in cases:
            extra.append(Case('%s_cm%d' % (c.name, m), c.header + ['cmpmode %d' % m], c.ops, c.origin))
    return cases + extra


def swap_variants(cases, seed, every=3):
    """Every `every`-th case with at least three operations is replayed with the header `swapobj i j`: before its
    operations number i and j the driver exchanges the tree object with a second (empty) tree object whose elements
    embed the node at another offset (cstl_bintree_swap / cstl_rbtree_swap) and carries on with that one.  Everything
    the tree is made of travels with it, so model and oracles are unaffected."""
    rnd = random.Random(seed * 7919 + 77)
    out = []
    n = 0
    for c in cases:
        if len(c.ops) < 3 or any(h.split()[0] == 'swapobj' for h in c.header):
            continue
        n += 1
        if n % every:
            continue
        i = rnd.randrange(1, len(c.ops))
        j = rnd.randrange(i, len(c.ops) + 1)
        out.append(Case(c.name + 's', c.header + ['swapobj %d %d' % (i, j) if j > i and j < len(c.ops) else 'swapobj %d' % i],
                        c.ops, c.origin))
    return out


def deep_cases(n=220):
    """Deep, unbalanced plain binary trees (a chain, a comb whose long left spine has a right child at every node, a
    zigzag): deeper than any balanced tree and than the number of bits of a size_t; traversed, searched, partly
    erased, cleared and used again."""
    def deep(name, keys, kind='bin'):
        hdr = ['keys ' + ' '.join(map(str, keys[i:i + 50])) for i in range(0, len(keys), 50)]
        m = len(keys)
        ops = ['insert %d' % i for i in range(m)]
        ops += ['size', 'height', 'foreach fwd 0', 'foreach rev 0', 'foreach fwd %d' % (m + 7), 'find %d' % keys[m // 2],
                'find %d' % keys[-1], 'erase %d' % keys[m // 2], 'erase %d' % keys[0], 'erase %d' % keys[-1],
                'foreach fwd 0', 'size', 'clear', 'size', 'insert 0', 'insert 1', 'foreach rev 0', 'clear']
        return Case(name, hdr + ['kind ' + kind, 'cmpmode 0'], ops, 'random')
    out = [deep('deep_chain_up', list(range(n))), deep('deep_chain_down', list(range(n, 0, -1)))]
    comb = []
    for i in range(100):
        comb += [10 * (100 - i), 10 * (100 - i) + 5]
    out.append(deep('deep_comb_left', comb))
    out.append(deep('deep_comb_right', [-k for k in comb]))
    zig = []
    lo, hi = 0, 2 * n
    for i in range(n):
        zig.append(lo if i % 2 == 0 else hi)
        lo, hi = (lo + 1, hi) if i % 2 == 0 else (lo, hi - 1)
    out.append(deep('deep_zigzag', zig))
    out.append(deep('deep_chain_rb', list(range(n)), 'rb'))
    return out


def nestwalk_variants(cases, every=4):
    """Every `every`-th case with a traversal once more with a visitor that itself walks another tree (header nestwalk 1)."""
    out, n = [], 0
    for c in cases:
        if any(h.split()[0] == 'nestwalk' for h in c.header) or not any(o.startswith('foreach') for o in c.ops):
            continue
        n += 1
        if n % every == 0:
            out.append(Case(c.name + 'w', c.header + ['nestwalk 1'], c.ops, c.origin))
    return out
