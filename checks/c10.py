"""C10 - strings equal a reference string and stay NUL-terminated (char and wchar_t)."""
import os
import random
from lib.engine import Spec
from lib.core import Case
from checks.vecstr_common import (LIMIT, SIZE_MAX, W64, parse_header, split_line, AllocLog,
                                  storage_problem)

# ASan reports are only classified (exit code), never read: skip symbolisation
os.environ.setdefault('ASAN_OPTIONS', 'symbolize=0')

LITOPS = {'set': 2, 'insert_str': 3, 'insert_str_n': 3, 'append_str': 2, 'find_str': 3, 'compare_str': 2,
          'append_str_n': 3}


def char_ok(w, c):
    return 0 <= c < (128 if w == 1 else 2 ** 31)


def cstr(l):
    """contents up to the first NUL"""
    return l[:l.index(0)] if 0 in l else list(l)


def find_sub(h, n):
    for k in range(len(h) - len(n) + 1):
        if h[k:k + len(n)] == n:
            return k
    return -1


def sgn(x):
    return (x > 0) - (x < 0)


def cmp_list(a, b):
    return sgn((a > b) - (a < b))


def parse_str(tok):
    d = dict(size=int(tok[0]), cap=int(tok[1]), nul=int(tok[2]), vcount=int(tok[3]), vcap=int(tok[4]),
             blk=int(tok[5]), bsz=int(tok[6]))
    d['chars'] = [int(x) for x in tok[7:]]
    return d


class Grow:
    """Would the vector-level growth demanded by an operation be satisfiable?  Mirrors only the
    documented policy: a request is made when more than the current capacity is needed; it is
    refused when its byte count is not representable, exceeds the wrapper's limit, or its ordinal
    is scheduled to fail."""

    def __init__(self, alog, w, vcap):
        self.alog, self.w, self.vcap, self.ahead = alog, w, vcap, 0

    def need(self, d):
        """-> False if the growth to d vector elements cannot be satisfied"""
        if d <= self.vcap:
            return True
        if d >= SIZE_MAX or (d + 1) * self.w >= W64:
            return False
        if self.alog.would_fail((d + 1) * self.w, self.ahead):
            return False
        self.ahead += 1
        self.vcap = d
        return True


class C10(Spec):
    pid = 'C10'
    component = 'string'
    driver = 'string'
    lib_srcs = ['string.c', 'vector.c', 'array.c', 'memory.c']
    # memcpy(NULL + 0, src, 0) in insert_str_n on a never-assigned string is outside C10 (see notes/C10.md)
    driver_extra = '-Wl,--wrap=malloc,--wrap=realloc,--wrap=free,--wrap=calloc -fno-sanitize=nonnull-attribute'
    header_words = ('width', 'nstr', 'fail', 'failfrom')
    rule = ('cases = corpus + one case per edge of the breadth-first exploration of the Coq model (two string objects, '
            'alphabet {a, b, NUL}, lengths within the scope, positions/counts {0..scope, SIZE_MAX and neighbours, '
            'SIZE_MAX/width}), both character widths, within a state budget + seeded random histories with allocation '
            'failures by ordinal; every case ends with clear of every string and a live-block count; non-trivial = at '
            'least two completed operations in the model trace; distinct = distinct (header, operations) text')
    trusted = ['modelled, not verified: the C statements of src/_string.c and the inline functions of include/cstl/_string.h '
               'are transcribed by hand into StrModel.v on top of VectorModel.v; memmove/memcpy and strchr/strstr/strcmp '
               '(wcs*) are list functions (StrModel.strchr/strstr/strcmp) compared with libc on every explored input',
               'allocator: harness/halloc.h wrapper with the policy of AllocModel.v']
    assumptions_text = ['source and destination of insert/append/substr/swap are distinct objects',
                        'character codes are non-negative values of the character type (0..127 / 0..2^31-1)',
                        'literals passed to *_str functions are NUL-terminated; insert_str_n / append_str_n are given at least n characters '
                        '(a larger n is in the domain only when the growth cannot be satisfied: the abort precedes the read)']

    # ---------------------------------------------------------------- oracle
    def oracle(self, case, impl):
        h = parse_header(case)
        w = 1 if h['width'] == 1 else 4
        ns = h['nstr']
        alog = AllocLog(h['fails'], h['failfrom'])
        ref = [[] for _ in range(ns)]
        vcap = [0] * ns
        ops = list(case.ops) + ['clear %d' % i for i in range(ns)]
        for i, op in enumerate(ops):
            t = op.split()
            name = t[0]
            a = int(t[1])
            if not (0 <= a < ns):
                return None
            lit = None
            if name in LITOPS:
                lit = [int(x) for x in t[LITOPS[name]:]]
                if not all(char_ok(w, c) for c in lit):
                    return None
                if name not in ('insert_str_n', 'append_str_n') and 0 in lit:
                    return None
            num = [int(x) for x in t[2:]] if name not in LITOPS else [int(x) for x in t[2:LITOPS[name]]]
            s = ref[a]
            size = len(s)
            g = Grow(alog, w, vcap[a])
            exp_abort = False
            why = ''
            other = None
            # ---- expected abort / new reference value
            new = None          # (index, new contents)
            exp_out = None
            if name == 'set':
                exp_abort = not g.need(1) or (len(lit) > 0 and not g.need(len(lit) + 1))
                why = 'growth cannot be satisfied'
                new = (a, list(lit))
            elif name in ('insert_ch', 'insert_str', 'insert_str_n', 'insert', 'append', 'append_ch', 'append_str',
                          'append_str_n'):
                beyond = False
                if name == 'insert_ch':
                    pos, cnt, c = num
                    if not char_ok(w, c):
                        return None
                    ins = None
                elif name == 'append_ch':
                    pos, cnt, c = size, num[0], num[1]
                    if not char_ok(w, c):
                        return None
                    ins = None
                elif name in ('insert_str', 'insert_str_n'):
                    pos, ins = num[0], lit
                elif name == 'append_str':
                    pos, ins = size, lit
                elif name == 'append_str_n':
                    # exactly n characters of the source, NULs included; a count beyond the source is the caller's
                    # error unless the growth cannot be satisfied (the abort precedes the read of the source)
                    pos, n = size, num[0]
                    beyond = n > len(lit)
                    ins = lit[:n] if not beyond else None
                    cnt, c = n, 0
                else:
                    other = num[1] if name == 'insert' else num[0]
                    pos = num[0] if name == 'insert' else size
                    if not (0 <= other < ns) or other == a:
                        return None
                    ins = list(ref[other])
                if ins is not None:
                    cnt = len(ins)
                if pos > size:
                    exp_abort, why = True, 'position %d is beyond the end (size %d)' % (pos, size)
                elif cnt > 0 and not g.need(size + cnt + 1):
                    exp_abort, why = True, 'growth to %d characters cannot be satisfied' % (size + cnt)
                elif beyond:
                    return None
                elif cnt > 0:
                    new = (a, s[:pos] + (ins if ins is not None else [c] * cnt) + s[pos:])
            elif name == 'erase':
                pos, ln = num
                if pos >= size:
                    exp_abort, why = True, 'position %d is not below size %d' % (pos, size)
                else:
                    l = min(ln, size - pos)
                    new = (a, s[:pos] + s[pos + l:])
            elif name == 'substr':
                pos, ln, other = num
                if not (0 <= other < ns) or other == a:
                    return None
                if pos >= size:
                    exp_abort, why = True, 'position %d is not below size %d' % (pos, size)
                else:
                    l = min(ln, size - pos)
                    g = Grow(alog, w, vcap[other])
                    if not g.need(l + 1):
                        exp_abort, why = True, 'growth cannot be satisfied'
                    new = (other, s[pos:pos + l])
            elif name == 'resize':
                n = num[0]
                if not g.need(n + 1):
                    exp_abort, why = True, 'growth to %d characters cannot be satisfied' % n
                else:
                    new = (a, s[:n] + [0] * (n - size))
            elif name == 'reserve':
                pass
            elif name == 'swap':
                other = num[0]
                if not (0 <= other < ns) or other == a:
                    return None
            elif name == 'clear':
                new = (a, [])
            elif name == 'data':
                pass                # checked below against the string's own dump line
            elif name in ('at', 'at_const'):
                if num[0] >= size:
                    exp_abort, why = True, 'index %d is not below size %d' % (num[0], size)
                else:
                    exp_out = [num[0] * w, s[num[0]]]
            elif name == 'find_ch':
                c, pos = num
                if not char_ok(w, c):
                    return None
                if pos >= size:
                    exp_abort, why = True, 'position %d is not below size %d' % (pos, size)
                else:
                    r = -1
                    for k in range(pos, size):
                        if s[k] == c:
                            r = k
                            break
                        if s[k] == 0:
                            break
                    exp_out = [r, r]
            elif name in ('find_str', 'find'):
                pos = num[0]
                if name == 'find':
                    other = num[1]
                    if not (0 <= other < ns):
                        return None
                    ndl = cstr(ref[other])
                else:
                    ndl = lit
                if pos >= size:
                    exp_abort, why = True, 'position %d is not below size %d' % (pos, size)
                else:
                    k = find_sub(cstr(s[pos:]), ndl)
                    r = pos + k if k >= 0 else -1
                    exp_out = [r, r]
            elif name in ('compare', 'compare_str'):
                if name == 'compare':
                    other = num[0]
                    if not (0 <= other < ns):
                        return None
                    b = cstr(ref[other])
                else:
                    b = lit
                r = cmp_list(cstr(s), b)
                exp_out = [r, r]
            else:
                return None
            # ---- what the implementation did
            if i >= len(impl):
                return ('%s:no-output' % name, 'no output for operation %d (%s)' % (i, op))
            line = impl[i]
            if line == 'precond':
                return None
            if line == 'abort':
                if exp_abort:
                    return None
                return ('%s:unexpected-abort' % name, 'operation %d (%s) aborted on %s (size %d)' % (i, op, s, size))
            if not line.startswith('ok'):
                return ('%s:%s' % (name, line.split()[0]), 'operation %d (%s) on %s ended in %s' % (i, op, s, line))
            if exp_abort:
                return ('%s:missing-abort' % name, 'operation %d (%s) returned although %s' % (i, op, why))
            try:
                out, objs, events = split_line(line)
                got = [parse_str(x) for x in objs]
                outi = [int(x) for x in out]
            except Exception:
                return ('%s:garbled' % name, 'unparsable line %r' % line)
            alog.feed(events)
            if alog.problem:
                return ('%s:bad-free' % name, 'operation %d (%s): %s' % (i, op, alog.problem))
            if len(got) != ns:
                return ('%s:garbled' % name, 'expected %d strings in %r' % (ns, line))
            if name == 'swap':
                ref[a], ref[other] = ref[other], ref[a]
            if new is not None:
                ref[new[0]] = new[1]
            if exp_out is not None and outi != exp_out:
                return ('%s:wrong-result' % name, 'operation %d (%s) on %s: library and libc say %s, reference %s' % (
                    i, op, s, outi, exp_out))
            used = set()
            for k, (gs, rs) in enumerate(zip(got, ref)):
                p = storage_problem('string %d' % k, gs['vcount'], gs['vcap'], w, gs['blk'], gs['bsz'], alog, used)
                if p:
                    return ('%s:capacity-without-storage' % name, 'after operation %d (%s): %s' % (i, op, p))
                if gs['nul'] != 1:
                    return ('%s:not-terminated' % name, 'after operation %d (%s): string %d (size %d) is not followed by NUL%s' % (
                        i, op, k, gs['size'], ' (str() is not readable)' if gs['nul'] < 0 else ''))
                if gs['size'] != len(rs) or gs['chars'] != rs[:256]:
                    return ('%s:wrong-contents' % name, 'after operation %d (%s): string %d is %s (size %d), reference %s' % (
                        i, op, k, gs['chars'], gs['size'], rs))
                if gs['cap'] < gs['size']:
                    return ('%s:capacity-below-size' % name, 'after operation %d (%s): string %d capacity %d < size %d' % (
                        i, op, k, gs['cap'], gs['size']))
                if not (gs['vcount'] == gs['size'] + 1 or (gs['vcount'] == 0 and gs['size'] == 0)):
                    return ('%s:wrong-contents' % name, 'after operation %d (%s): string %d vector count %d, size %d' % (
                        i, op, k, gs['vcount'], gs['size']))
                vcap[k] = gs['vcap']
            if name == 'data':
                p = self._data_problem(outi, got[a], ref[a])
                if p:
                    return ('data:' + p[0], 'operation %d (%s) on %s: %s' % (i, op, s, p[1]))
        fin = impl[len(ops)] if len(impl) > len(ops) else '<missing>'
        if fin.split()[:1] != ['fin']:
            return ('fin:no-output', 'no final live-block count (%s)' % fin)
        if fin.split()[1] != '0':
            return ('fin:leak', '%s blocks still live after every string was cleared' % fin.split()[1])
        return None

    @staticmethod
    def _data_problem(out, gs, rs):
        """data(): `1` (NULL) or `0 <block> <offset> [<nul> <chars>]`.  A non-empty string must give a pointer; a
        pointer must be the start of the string's own storage, where - once the vector holds elements - the reference
        characters followed by NUL are read."""
        if not out or out[0] not in (0, 1) or (out[0] == 1 and len(out) != 1) or (out[0] == 0 and len(out) < 3):
            return ('garbled', 'unparsable result %s' % out)
        if out[0] == 1:
            # "If the string is empty, the function may or may not return NULL" (_string.h); that the code returns
            # NULL exactly when the string owns no storage is checked by the comparison with the model
            if rs:
                return ('null-with-contents', 'data() is NULL although the string holds %d characters' % len(rs))
            return None
        blk, off = out[1], out[2]
        if blk < 0:
            return ('wrong-pointer', 'data() is neither NULL nor inside a live block (the string\'s storage is %s)' % (
                'block %d' % gs['blk'] if gs['blk'] >= 0 else 'absent'))
        if blk != gs['blk'] or off != 0:
            return ('wrong-pointer', 'data() points at offset %d of block %d, the string\'s storage is block %d' % (
                off, blk, gs['blk']))
        if gs['vcount'] > 0:
            if len(out) < 4 or out[3] != 1:
                return ('not-terminated', 'the %d characters at data() are not followed by NUL%s' % (
                    len(rs), '' if len(out) > 3 and out[3] == 0 else ' (not readable)'))
            if out[4:] != rs[:256]:
                return ('wrong-contents', 'the characters at data() are %s, reference %s' % (out[4:], rs))
        elif len(out) != 3:
            return ('garbled', 'unexpected result %s for a string without contents' % out)
        return None

    # ---------------------------------------------------------------- generators
    def closure(self, tier):
        if tier == 'quick':
            cfgs = [[1, 3, 110], [4, 3, 110]]
        else:
            cfgs = [[1, 4, 350], [4, 4, 350]]
        cases, st = [], dict(states=0, transitions=0, closed=True)
        for c in cfgs:
            cs, s = self.bfs(c)
            for x in cs:
                x.name = 'bfs%d_%s' % (len(cases), x.name)
            cases += cs
            st['states'] += s.get('states', 0)
            st['transitions'] += s.get('transitions', 0)
            st['closed'] = st['closed'] and s.get('closed', False)
        return cases, st

    def random_cases(self, tier, seed):
        rnd = random.Random(seed * 130003 + 10)
        ncases = 3000 if tier == 'quick' else 50000
        cases = []
        for ci in range(ncases):
            w = rnd.choice([1, 4])
            ns = rnd.choice([1, 2, 2, 3])
            fails, failfrom = set(), None
            r = rnd.random()
            if r < 0.3:
                fails = set(rnd.sample(range(0, 10), rnd.choice([1, 1, 2, 3])))
            elif r < 0.4:
                failfrom = rnd.randrange(0, 8)
            header = ['width %d' % w, 'nstr %d' % ns]
            if fails:
                header.append('fail ' + ' '.join(map(str, sorted(fails))))
            if failfrom is not None:
                header.append('failfrom %d' % failfrom)
            alpha = [97, 98, 0] if rnd.random() < 0.7 else [97, 98, 99, 1, 127, 0]
            nz = [c for c in alpha if c != 0]
            ref = [[] for _ in range(ns)]
            vcap = [0] * ns
            alog = AllocLog(fails, failfrom)

            def lit(maxlen=4):
                return [rnd.choice(nz) for _ in range(rnd.choice([0, 1, 1, 2, 3, maxlen]))]

            def nums(a, extra=()):
                size = len(ref[a])
                pool = [0, 1, 2, size - 1, size, size + 1, size // 2, SIZE_MAX, SIZE_MAX - 1, SIZE_MAX - 2,
                        SIZE_MAX - size, SIZE_MAX - size + 1, SIZE_MAX - size - 1, SIZE_MAX // w, SIZE_MAX // w - 1,
                        SIZE_MAX // w - 2, 2 ** 63, 2 ** 62] + list(extra)
                return [x for x in pool if 0 <= x <= SIZE_MAX]

            ops = []
            length = rnd.choice([3, 6, 12, 25, 40])
            dead = False
            for _ in range(length):
                if dead:
                    break
                a = rnd.randrange(ns)
                size = len(ref[a])
                b = rnd.choice([x for x in range(ns) if x != a]) if ns > 1 else None
                k = rnd.choice(['set', 'set', 'insert_ch', 'insert_ch', 'insert_str', 'insert_str_n', 'insert', 'append',
                                'append_ch', 'append_str', 'erase', 'erase', 'substr', 'substr', 'resize', 'resize',
                                'reserve', 'swap', 'clear', 'at', 'find_ch', 'find_str', 'find', 'compare', 'compare_str',
                                'append_str_n', 'append_str_n', 'at_const', 'data', 'data'])
                inrange = rnd.random() < 0.75
                pos = rnd.randrange(0, size + 1) if inrange else rnd.choice(nums(a))
                posr = rnd.randrange(0, max(1, size)) if inrange else rnd.choice(nums(a))
                small = rnd.randrange(0, 5)
                cnt = small if rnd.random() < 0.65 else rnd.choice(nums(a))
                if k == 'set':
                    op = 'set %d %s' % (a, ' '.join(map(str, lit(6))))
                elif k == 'insert_ch':
                    op = 'insert_ch %d %d %d %d' % (a, pos, cnt, rnd.choice(alpha))
                elif k == 'insert_str':
                    op = 'insert_str %d %d %s' % (a, pos, ' '.join(map(str, lit())))
                elif k == 'insert_str_n':
                    l = [rnd.choice(alpha) for _ in range(rnd.randrange(0, 4))]
                    op = 'insert_str_n %d %d %s' % (a, pos, ' '.join(map(str, l)))
                elif k == 'insert' and b is not None:
                    op = 'insert %d %d %d' % (a, pos, b)
                elif k == 'append' and b is not None:
                    op = 'append %d %d' % (a, b)
                elif k == 'append_ch':
                    op = 'append_ch %d %d %d' % (a, cnt, rnd.choice(alpha))
                elif k == 'append_str':
                    op = 'append_str %d %s' % (a, ' '.join(map(str, lit())))
                elif k == 'erase':
                    op = 'erase %d %d %d' % (a, posr, cnt)
                elif k == 'substr' and b is not None:
                    op = 'substr %d %d %d %d' % (a, posr, cnt, b)
                elif k == 'resize':
                    n = rnd.randrange(0, 8) if rnd.random() < 0.7 else rnd.choice(nums(a))
                    if 4096 < (n + 2) * w <= LIMIT:
                        continue
                    op = 'resize %d %d' % (a, n)
                elif k == 'reserve':
                    n = rnd.randrange(0, 12) if rnd.random() < 0.6 else rnd.choice(nums(a))
                    if 4096 < (n + 2) * w <= LIMIT:
                        continue
                    op = 'reserve %d %d' % (a, n)
                elif k == 'swap' and b is not None:
                    op = 'swap %d %d' % (a, b)
                elif k == 'clear':
                    if rnd.random() > 0.3:
                        continue
                    op = 'clear %d' % a
                elif k == 'at':
                    op = 'at %d %d' % (a, posr)
                elif k == 'at_const':
                    op = 'at_const %d %d' % (a, posr)
                elif k == 'data':
                    op = 'data %d' % a
                elif k == 'append_str_n':
                    l = [rnd.choice(alpha) for _ in range(rnd.randrange(0, 5))]
                    n = rnd.randrange(0, len(l) + 1)
                    if rnd.random() < 0.12:     # a count that can never be satisfied: aborts before the source is read
                        n = rnd.choice([x for x in nums(a) if x >= 2 ** 32])
                    op = 'append_str_n %d %d %s' % (a, n, ' '.join(map(str, l)))
                elif k == 'find_ch':
                    op = 'find_ch %d %d %d' % (a, rnd.choice(alpha), posr)
                elif k == 'find_str':
                    if size > 0 and rnd.random() < 0.5:     # a needle that occurs
                        i0 = rnd.randrange(size)
                        nd = [c for c in ref[a][i0:i0 + rnd.randrange(1, 3)] if c != 0]
                    else:
                        nd = lit(2)
                    op = 'find_str %d %d %s' % (a, posr, ' '.join(map(str, nd)))
                elif k == 'find' and b is not None:
                    op = 'find %d %d %d' % (a, posr, b)
                elif k == 'compare' and b is not None:
                    op = 'compare %d %d' % (a, b)
                elif k == 'compare_str':
                    nd = cstr(ref[a])[:rnd.randrange(0, 4)] if rnd.random() < 0.5 else lit(3)
                    op = 'compare_str %d %s' % (a, ' '.join(map(str, nd)))
                else:
                    continue
                ops.append(op)
                # advance the generator's own reference by asking the oracle what it expects
                dead = self._advance(op, w, ns, ref, vcap, alog)
            if ops:
                cases.append(Case('rnd%d' % ci, header, ops, 'random'))
        return cases

    def _advance(self, op, w, ns, ref, vcap, alog):
        """Generator-side prediction (assumes every satisfiable request succeeds). -> True if the case ends here."""
        t = op.split()
        name, a = t[0], int(t[1])
        s = ref[a]
        size = len(s)
        g = Grow(alog, w, vcap[a])

        def grown(gg, idx):
            alog.nreq += gg.ahead
            vcap[idx] = gg.vcap

        if name == 'set':
            l = [int(x) for x in t[2:]]
            if not g.need(1) or (l and not g.need(len(l) + 1)):
                return True
            grown(g, a)
            ref[a] = l
        elif name in ('insert_ch', 'append_ch', 'insert_str', 'insert_str_n', 'append_str', 'insert', 'append',
                      'append_str_n'):
            if name == 'append_str_n':
                l = [int(x) for x in t[3:]]
                if int(t[2]) > len(l):
                    return True             # aborts, or outside the domain
                pos, ins = size, l[:int(t[2])]
            elif name == 'insert_ch':
                pos, cnt, c = int(t[2]), int(t[3]), int(t[4])
                ins = None
            elif name == 'append_ch':
                pos, cnt, c = size, int(t[2]), int(t[3])
                ins = None
            elif name in ('insert_str', 'insert_str_n'):
                pos, ins = int(t[2]), [int(x) for x in t[3:]]
            elif name == 'append_str':
                pos, ins = size, [int(x) for x in t[2:]]
            elif name == 'insert':
                pos, ins = int(t[2]), list(ref[int(t[3])])
            else:
                pos, ins = size, list(ref[int(t[2])])
            if ins is not None:
                cnt = len(ins)
            if pos > size:
                return True
            if cnt > 0:
                if not g.need(size + cnt + 1):
                    return True
                grown(g, a)
                ref[a] = s[:pos] + (ins if ins is not None else [c] * cnt) + s[pos:]
        elif name == 'erase':
            pos, ln = int(t[2]), int(t[3])
            if pos >= size:
                return True
            l = min(ln, size - pos)
            ref[a] = s[:pos] + s[pos + l:]
        elif name == 'substr':
            pos, ln, o = int(t[2]), int(t[3]), int(t[4])
            if pos >= size:
                return True
            l = min(ln, size - pos)
            g = Grow(alog, w, vcap[o])
            if not g.need(l + 1):
                return True
            grown(g, o)
            ref[o] = s[pos:pos + l]
        elif name == 'resize':
            n = int(t[2])
            if not g.need(n + 1):
                return True
            grown(g, a)
            ref[a] = s[:n] + [0] * (n - size)
        elif name == 'reserve':
            n = int(t[2])
            d = (n + 1) % W64
            if d > vcap[a]:
                if d < SIZE_MAX and (d + 1) * w < W64:
                    ok = not alog.would_fail((d + 1) * w)
                    alog.nreq += 1
                    if ok:
                        vcap[a] = d
        elif name == 'swap':
            o = int(t[2])
            ref[a], ref[o] = ref[o], ref[a]
            vcap[a], vcap[o] = vcap[o], vcap[a]
        elif name == 'clear':
            ref[a] = []
            vcap[a] = 0
        elif name in ('at', 'at_const', 'find_ch', 'find_str', 'find'):
            pos = int(t[3]) if name == 'find_ch' else int(t[2])
            if pos >= size:
                return True
        return False


SPEC = C10()

# ---------------------------------------------------------------- C16 (allocation failure never corrupts a container)
def c16_base_cases(tier, seed):
    """Base scripts WITHOUT fail/failfrom headers for the C16 aggregator: allocating string operations (set,
    insert, append, resize growth, substr, reserve), continued use, then the implicit clear of every string and
    the final "fin <live blocks>" line that runner and driver print after the last operation."""
    base = []
    for w in (1, 4):
        base += [
            (['width %d' % w, 'nstr 2'], ['set 0 97 98 99', 'reserve 0 8', 'append_ch 0 2 120', 'set 1 98',
                                          'append 0 1', 'insert 0 1 1', 'erase 0 0 2', 'find_ch 0 120 0',
                                          'compare 0 1']),
            (['width %d' % w, 'nstr 2'], ['resize 0 3', 'insert_ch 0 1 2 97', 'substr 0 1 3 1', 'resize 1 6',
                                          'insert_str 1 2 98 98', 'swap 0 1', 'append_str 0 97', 'at 0 0',
                                          'clear 1', 'set 1 97', 'append_str_n 1 2 98 99 100', 'at_const 1 2',
                                          'data 1', 'data 0']),
            (['width %d' % w, 'nstr 1'], ['reserve 0 2', 'set 0 97', 'append_ch 0 1 98', 'append_ch 0 1 99',
                                          'append_ch 0 4 100', 'erase 0 1 18446744073709551615', 'resize 0 5',
                                          'find_str 0 0 97']),
            # zero-size requests on strings that own no buffer yet / no longer
            (['width %d' % w, 'nstr 2'], ['reserve 0 0', 'reserve 0 1', 'set 0 97', 'clear 0', 'reserve 0 0',
                                          'append_ch 0 1 98', 'reserve 1 0', 'resize 1 0', 'compare 0 1', 'data 1']),
            (['width %d' % w, 'nstr 2'], ['set 0 97 98', 'set 1 99 100 101', 'insert 1 3 0', 'substr 1 2 9 0',
                                          'reserve 1 18446744073709551615', 'reserve 1 12', 'append 1 0',
                                          'compare 0 1', 'find 1 0 0']),
        ]
    if tier != 'quick':
        rnd = random.Random(seed * 11 + 16)
        for _ in range(12):
            w = rnd.choice([1, 4])
            ops, size = [], 0
            for _ in range(rnd.randrange(6, 14)):
                k = rnd.choice(['set', 'append_ch', 'insert_ch', 'resize', 'reserve', 'erase'])
                if k == 'set':
                    size = rnd.randrange(0, 5)
                    ops.append('set 0 ' + ' '.join(str(rnd.choice([97, 98])) for _ in range(size)))
                elif k == 'append_ch':
                    n = rnd.randrange(0, 4)
                    ops.append('append_ch 0 %d 99' % n)
                    size += n
                elif k == 'insert_ch':
                    n = rnd.randrange(0, 4)
                    ops.append('insert_ch 0 %d %d 100' % (rnd.randrange(0, size + 1), n))
                    size += n
                elif k == 'resize':
                    size = rnd.randrange(0, 8)
                    ops.append('resize 0 %d' % size)
                elif k == 'reserve':
                    ops.append('reserve 0 %d' % rnd.randrange(0, 16))
                elif size > 0:
                    p0 = rnd.randrange(size)
                    n = rnd.randrange(0, 4)
                    ops.append('erase 0 %d %d' % (p0, n))
                    size -= min(n, size - p0)
            base.append((['width %d' % w, 'nstr 1'], ops))
    return [Case('c16s%d' % i, h, o, 'c16') for i, (h, o) in enumerate(base)]


def c16_spec():
    """The C10 oracle understands fail/failfrom: a refused reserve is a quiet no-op, a growth that cannot be
    satisfied in set/insert/append/resize/substr must abort (the expectation is computed from the allocator log
    of the implementation trace and the failure schedule of the header), everything else must match the Python
    reference string, and "fin 0" must close a case that runs to the end."""
    return SPEC


MANIFEST = dict(
    text='Coq theorems (Properties_C10.v) over an executable model of src/_string.c and include/cstl/_string.h (both '
         'character widths) on top of the vector model, with 64-bit wrap-around arithmetic and every allocator oracle: '
         'every edit refines a reference list of characters, str() is the characters followed by NUL inside the live '
         'block, positions beyond the end abort, counts reaching past the end (every value up to 2^64-1) are truncated, '
         'growth that is not representable or not allocatable aborts before any write, nothing faults; find_ch/find_str/'
         'compare meet list-level specifications of strchr/strstr/strcmp. The model is tied to the C code on every run by '
         'differential execution (breadth-first exploration + seeded random histories, allocation failures) under '
         'ASan/UBSan, with the library results compared against libc in the driver and against a Python reference.',
    note='trusted: Coq kernel; hand transcription of _string.c/_string.h into StrModel.v validated only by the correspondence '
         'run; memmove/memcpy/strchr/strstr/strcmp (wcs*) axiomatised as list functions and compared with libc on explored '
         'inputs; extraction + OCaml runner; C driver and malloc wrapper; the theorems follow the code repaired by fixes/F8, '
         'F9, F10, F12 (the code as found is refuted in FindingsVecStr.v)',
    technique='Coq proof (invariant + refinement to list char, all allocator oracles) + model/code differential correspondence',
    design='6 (C10)')
