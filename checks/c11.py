"""C11 - every sort returns a sorted permutation; search / find / reverse agree."""
import itertools
import json
import os
import random
import subprocess
import time

from lib import core, engine
from lib.engine import Spec
from lib.core import Case

ESIZES = [1, 2, 3, 4, 8, 16, 64, 12, 9, 20]   # incl. sizes above 8 that are not multiples of 8 (word-wise swap tails)
SELECTORS = [0, 1, 2, 3, 4, 17, -1]          # the four named algorithms + out-of-range values
RAWSWAP_SIZES = list(range(1, 25)) + [32, 64]  # cstl_swap by itself: every size up to 24 (typed cases 1/2/4/8, word tails), 32, 64


def rawswap_expect(w):
    """'rawswap sz i j b...' -> the array part (n*sz byte values) with elements i and j exchanged"""
    sz, i, j = int(w[1]), int(w[2]), int(w[3])
    mem = [int(x) for x in w[4:]]
    n = len(mem) // sz - 1
    ch = [mem[k * sz:(k + 1) * sz] for k in range(n)]
    ch[i], ch[j] = ch[j], ch[i]
    return [b for c in ch for b in c]


def rawswap_cases(rnd, reps, counts):
    """cstl_swap on raw memory: for every size, `reps` random memories of n elements + scratch (n from `counts`,
    3 first) and ALL ordered pairs i != j (plus i == j for the typed sizes 1, 2, 4, 8, where the model says the
    array is unchanged); one case per (size, repetition)"""
    cases = []
    for sz in RAWSWAP_SIZES:
        for r in range(reps):
            n = counts[r % len(counts)]
            ops = []
            for i in range(n):
                for j in range(n):
                    # a self-swap is defined for the typed sizes only (C11_swap_bytes_self): the memcpy path
                    # would copy a range onto itself
                    if i != j or sz in (1, 2, 4, 8):
                        mem = [rnd.randrange(256) for _ in range((n + 1) * sz)]
                        ops.append('rawswap %d %d %d %s' % (sz, i, j, ' '.join(map(str, mem))))
            cases.append(Case('rawswap_%d_%d' % (sz, r), [], ops, 'random'))
    return cases


def tagmod(es):
    return 1 if es <= 1 else 256 if es == 2 else 65536 if es == 3 else 16777216


def arr_lines(keys):
    if not keys:
        return ['arr']
    return ['arr ' + ' '.join(map(str, keys[i:i + 60])) for i in range(0, len(keys), 60)]


def parse_header(case):
    es, keys, vcap = 4, [], 0
    for h in case.header:
        w = h.split()
        if w[0] == 'esize':
            es = int(w[1])
        elif w[0] == 'arr':
            keys += [int(x) for x in w[1:]]
        elif w[0] == 'vcap':
            vcap = int(w[1])
    return es, keys, vcap


def parse_line(line):
    """'ok r | k:t ... | log' -> (ret, [(k, t)], [tokens])"""
    parts = line.split('|')
    ret = int(parts[0].split()[1])
    elems = []
    flags = []
    for tok in parts[1].split():
        if ':' in tok:
            k, t = tok.split(':')
            elems.append((int(k), t if t == 'BAD' else int(t)))
        else:
            flags.append(tok)
    return ret, elems, flags, parts[2].split() if len(parts) > 2 else []


def is_sorted(keys):
    return all(keys[i] <= keys[i + 1] for i in range(len(keys) - 1))


class C11(Spec):
    pid = 'C11'
    component = 'sort'
    driver = 'sort'
    lib_srcs = ['array.c', 'vector.c', 'memory.c']
    driver_extra = '-Wl,--wrap=rand'
    header_words = ('esize', 'arr', 'vcap', 'cmpmode', 'swapmode')

    def more_variants(self, cases, tier, seed):
        # every third case that sorts or reverses once more with a caller's swap function that works in place, ignores the
        # scratch and is only correct for two distinct elements (and with scratch == NULL for the raw-array calls)
        out, n = [], 0
        for c in cases:
            if any(h.split()[0] == 'swapmode' for h in c.header):
                continue
            if not any(o.split()[0].lstrip('v') in ('sort', 'sortlcg', 'reverse') for o in c.ops):
                continue
            n += 1
            if n % 3 == 0:
                out.append(Case(c.name + 'x', c.header + ['swapmode 1'], c.ops, c.origin))
        return out
    rule = ('a case = one array (keys, element size) + operations, each applied to a fresh copy: every selector of '
            'cstl_raw_array_sort (4 named + out-of-range), the vector entry points, reverse, find and (sorted arrays) '
            'search with every probe. closure = ALL arrays up to the tier length over keys {0,1,2} and, for the '
            'randomised quicksort, every distinguishable sequence of pivot draws (enumerated by the model, which reports '
            'how each draw is reduced); plus seeded adversarial large arrays. Compared: return value, final elements '
            '(key:tag, filler bytes verified; the C comparison callback returns -1/0/1, key differences or a varying magnitude per the cmpmode header - the model sees signs only), complete log of comparison/swap/rand callback calls as index pairs. '
            'cstl_swap by itself (rawswap): every element size 1..24, 32, 64 on random bytes, all ordered pairs of distinct '
            'elements, in an exact-size malloc block; array and scratch bytes compared with the byte-level model, array bytes '
            'judged by the oracle. For arrays of at most 512 bytes the model line of sort/reverse is decoded from the bytes '
            'obtained by replaying the swap log with the byte-level cstl_swap. '
            'non-trivial = at least two completed operations; distinct = distinct (header, operations) text')
    trusted = ['modelled, not verified: the C statements of src/array.c lines 15-361 are transcribed by hand into '
               'SortModel.v (lists with checked indices; size_t indices as nat, ssize_t/int indices as Z with explicit '
               'width); cstl_swap is transcribed a second time at byte level in SwapModel.v (memory = list of bytes, memcpy '
               'byte by byte with overlap = undefined, typed assignments as w-byte load/store) and PROVED to refine the '
               'exchange of two list positions used by SortModel.v (C11_swap_bytes, C11_replay_bytes, C11_sort_bytes); '
               'that transcription is tied to the header by the rawswap runs (sizes 1..24, 32, 64) and by decoding the '
               'sort/reverse results from the replayed bytes',
               'not modelled at byte level: alignment of the typed accesses of cstl_swap, the effective-type (strict '
               'aliasing) rule, wrap-around of at * size in size_t, the value representation of uintN_t (assumed to have no '
               'padding bits, as the standard requires of these types)',
               'arrays of more than 2^31 elements (F11) cannot be materialised in the model: for those the runner prints '
               'what theorems reverse_correct / search_correct state and the non-sanitized driver is compared with that']
    assumptions_text = ['the comparison callback is a total preorder (sign-antisymmetric, transitive), element size >= 1',
                        'count <= SSIZE_MAX for reverse/search (ssize_t indices; also the range of the return type)',
                        'search: the array is sorted (documented precondition); unsorted arrays are skipped',
                        'QUICK_R: the run returns for every rand() that does not draw "last index while it holds the '
                        'strict maximum" forever; termination is proved under that hypothesis only']

    # ---------------------------------------------------------------- oracle
    def oracle(self, case, impl):
        es, keys, vcap = parse_header(case)
        n = len(keys)
        tm = tagmod(es)
        inp = [(k, i % tm) for i, k in enumerate(keys)]
        for i, op in enumerate(case.ops):
            w = op.split()
            name = w[0]
            base = name[1:] if name[0] == 'v' else name
            if i >= len(impl):
                return ('%s:no-output' % base, 'no output for operation %d (%s)' % (i, op))
            line = impl[i]
            if line.startswith('skip'):
                return None
            if line == 'precond':
                return None
            if name == 'rawswap':
                # cstl_swap by itself: the array part must be the input with elements i and j exchanged,
                # byte for byte; the scratch (after '~') is unspecified by the header and ignored here
                if not line.startswith('ok'):
                    return ('rawswap:%s' % line.split()[0],
                            'operation %d (cstl_swap on %s-byte elements %s and %s) ended in "%s" (sanitizer report: access '
                            'outside array + scratch, or crash)' % (i, w[1], w[2], w[3], line))
                try:
                    got = [int(x) for x in line.split('|')[1].split()]
                except Exception:
                    return ('rawswap:garbled', 'unparsable line %r' % line)
                exp = rawswap_expect(w)
                if got != exp:
                    bad = [k for k in range(min(len(got), len(exp))) if got[k] != exp[k]]
                    return ('rawswap:bytes-wrong',
                            'operation %d: cstl_swap(x = element %s, y = element %s, t, sz = %s) on %d elements: array bytes '
                            'afterwards differ from the input with the two elements exchanged at byte offsets %s '
                            '(got %s, expected %s)' % (i, w[2], w[3], w[1], len(exp) // int(w[1]), bad[:8] or 'length', got, exp))
                continue
            if not line.startswith('ok') and base.startswith('big'):
                return ('%s:%s' % (base[3:], line.split()[0]),
                        '%s (one-byte elements) ended in "%s" (crash or time-out)' % (op, line))
            if not line.startswith('ok'):
                return ('%s:%s' % (base, line.split()[0]),
                        'operation %d (%s) on %d elements of %d bytes ended in "%s" (sanitizer report, crash or time-out)' % (
                            i, op, n, es, line))
            if base in ('bigreverse', 'bigsearch'):
                if 'BADPTR' in line:
                    return ('%s:stray-pointer' % base, '%s passed a pointer outside the array/scratch to a callback' % op)
                if base == 'bigreverse' and 'mirrored=1' not in line:
                    return ('reverse:big-not-mirrored',
                            '%s: array of %s one-byte elements is not the mirror image afterwards (%s)' % (op, w[1], line))
                if base == 'bigsearch' and 'found=1' not in line and int(w[1]) >= 256 and 0 <= int(w[2]) <= 255:
                    return ('search:big-missed', '%s: key %s is present in the sorted array of %s elements but was not found (%s)' % (
                        op, w[2], w[1], line))
                continue
            try:
                ret, elems, flags, log = parse_line(line)
            except Exception:
                return ('%s:garbled' % base, 'unparsable line %r' % line)
            if 'BADPTR' in log or any(t.startswith(('c-9', 's-9')) or ',-9' in t or ',-1' in t for t in log):
                return ('%s:stray-pointer' % base,
                        'operation %d (%s): a callback received a pointer that is neither an element of the array nor '
                        'the scratch element / probe' % (i, op))
            for t in log:
                if t[0] in 'csp' and '=' not in t:
                    for x in t[1:].split(','):
                        if not (0 <= int(x) < n):
                            return ('%s:stray-pointer' % base, 'operation %d (%s): index %s outside 0..%d' % (i, op, x, n - 1))
            if flags:
                return ('%s:vector-changed' % base, 'operation %d (%s): %s' % (i, op, ' '.join(flags)))
            if any(t == 'BAD' for _, t in elems):
                return ('%s:bytes-corrupted' % base,
                        'operation %d (%s): an element is no longer byte-identical to an input element: %s' % (i, op, elems))
            if base in ('sort', 'sortlcg', 'sortd'):
                if sorted(elems) != sorted(inp):
                    return ('sort:not-permutation', 'operation %d (%s) on %s gave %s' % (i, op, inp, elems))
                if not is_sorted([k for k, _ in elems]):
                    return ('sort:not-sorted', 'operation %d (%s) on %s gave %s' % (i, op, inp, elems))
            elif base == 'reverse':
                if elems != inp[::-1]:
                    return ('reverse:not-mirrored', 'operation %d (%s) on %s gave %s' % (i, op, inp, elems))
            elif base == 'find':
                p = int(w[1])
                exp = keys.index(p) if p in keys else -1
                if elems != inp:
                    return ('find:array-changed', 'operation %d (%s) changed the array' % (i, op))
                if ret != exp:
                    return ('find:wrong-index', 'operation %d (%s) on %s returned %d, first match is %d' % (i, op, keys, ret, exp))
            elif base == 'search':
                p = int(w[1])
                if not is_sorted(keys):
                    return None
                if elems != inp:
                    return ('search:array-changed', 'operation %d (%s) changed the array' % (i, op))
                if p in keys:
                    if not (0 <= ret < n and keys[ret] == p):
                        return ('search:missed', 'operation %d (%s) on sorted %s returned %d although the key is present' % (
                            i, op, keys, ret))
                elif ret != -1:
                    return ('search:phantom', 'operation %d (%s) on sorted %s returned %d although the key is absent' % (
                        i, op, keys, ret))
        return None

    # ---------------------------------------------------------------- exhaustive small scope
    def closure(self, tier):
        maxlen = 6 if tier == 'quick' else 8
        rlen = 5 if tier == 'quick' else 6
        cases = []
        nops = 0
        cnt = 0
        for n in range(maxlen + 1):
            for keys in itertools.product([0, 1, 2], repeat=n):
                keys = list(keys)
                es = ESIZES[cnt % len(ESIZES)]
                hdr = ['esize %d' % es] + arr_lines(keys) + ['vcap %d' % (cnt % 3)]
                ops = ['sort %d' % s for s in SELECTORS]
                ops.append('vsort %d' % SELECTORS[cnt % len(SELECTORS)])
                ops.append('vsortd')
                ops.append('reverse' if cnt % 2 else 'vreverse')
                if n <= 4:
                    ops.append('vreverse' if cnt % 2 else 'reverse')
                for p in range(4):
                    ops.append(('find %d' if (cnt + p) % 2 else 'vfind %d') % p)
                if is_sorted(keys):
                    for p in range(4):
                        ops.append(('search %d' if (cnt + p) % 2 else 'vsearch %d') % p)
                # the contract fixes only the sign of a comparison result: run everything with
                # -1/0/1 and with key differences (and the varying magnitude on every third array)
                for mode in (0, 1, 2) if cnt % 3 == 0 else (0, 1):
                    cases.append(Case('ex%d_m%d' % (cnt, mode), hdr + ['cmpmode %d' % mode], ops, 'closure'))
                    nops += len(ops)
                cnt += 1
        # every pivot-draw sequence of QUICK_R, enumerated by the model
        rc, st = self.bfs([rlen, 3] + ESIZES)
        for k, c in enumerate(rc):
            c.header.append('cmpmode %d' % (k % 3))
            nops += len(c.ops)
        cases += rc
        # two-key sorted arrays of every length up to 40: every binary-search path
        for n in range(0, 41 if tier == 'quick' else 130):
            for cut in sorted(set([0, 1, n // 2, n - 1, n])):
                if 0 <= cut <= n:
                    keys = [1] * cut + [3] * (n - cut)
                    ops = ['search %d' % p for p in (0, 1, 2, 3, 4)] + ['vsearch 1', 'vsearch 3', 'find 3', 'reverse']
                    for mode in (0, 1):
                        cases.append(Case('bs%d_%d_m%d' % (n, cut, mode),
                                          ['esize %d' % ESIZES[(n + cut) % len(ESIZES)]] + arr_lines(keys) + ['cmpmode %d' % mode], ops, 'closure'))
                        nops += len(ops)
        return cases, dict(states=cnt + st.get('states', 0), transitions=nops, closed=True,
                           max_len=maxlen, max_len_all_draws=rlen)

    # ---------------------------------------------------------------- adversarial large inputs
    def random_cases(self, tier, seed):
        rnd = random.Random(seed * 104729 + 11)
        cases = []
        # cstl_swap by itself on raw bytes (own generator stream: the cases below keep their draws)
        cases += rawswap_cases(random.Random(seed * 7919 + 1103), 1 if tier == 'quick' else 12, [3, 2, 4, 5])

        def patterns(n):
            yield 'sorted', sorted(rnd.randrange(256) for _ in range(n))
            yield 'reversed', sorted((rnd.randrange(256) for _ in range(n)), reverse=True)
            yield 'constant', [7] * n
            yield 'two', [rnd.choice([3, 9]) for _ in range(n)]
            yield 'organ', [min(i, n - 1 - i) % 256 for i in range(n)]
            yield 'random', [rnd.randrange(256) for _ in range(n)]
            yield 'fewkeys', [rnd.randrange(4) for _ in range(n)]
            yield 'maxlast', [rnd.randrange(200) for _ in range(n - 1)] + [255]
            yield 'sawtooth', [(i * 37) % 11 for i in range(n)]

        if tier == 'quick':
            small, large = [2, 3, 7, 16, 33, 100], [300, 1000]
        else:
            small, large = [2, 3, 5, 7, 16, 33, 64, 100, 257], [300, 1000, 3000]
        ci = 0
        for n in small + large:
            for pname, keys in patterns(n):
                es = ESIZES[ci % len(ESIZES)]
                hdr = ['esize %d' % es] + arr_lines(keys) + ['vcap %d' % (ci % 4), 'cmpmode %d' % rnd.randrange(3)]
                ops = []
                quad_ok = n <= 300
                for s in SELECTORS:
                    if s == 1:
                        ops.append('sortlcg 1 %d' % rnd.randrange(1, 2 ** 31))
                        ops.append('vsortlcg 1 %d' % rnd.randrange(1, 2 ** 31))
                        if n <= 60:
                            ops.append('sort 1 ' + ' '.join(str(rnd.randrange(2 ** 31)) for _ in range(n)))
                            ops.append('sort 1 ' + ' '.join(str(n - 1) for _ in range(3)))
                    elif s == 0 and not (quad_ok or pname in ('random', 'fewkeys', 'constant', 'two')):
                        continue
                    else:
                        ops.append(('sort %d' if (ci + s) % 2 else 'vsort %d') % s)
                ops += ['vsortd', 'reverse', 'vreverse']
                probes = sorted(set([keys[0], keys[-1], keys[n // 2], 255, 0, rnd.randrange(256)]))
                for p in probes:
                    ops.append('find %d' % p)
                    ops.append('vfind %d' % p)
                cases.append(Case('adv_%s_%d' % (pname, n), hdr, ops, 'random'))
                sk = sorted(keys)
                ops = []
                for p in sorted(set([sk[0], sk[-1], sk[n // 2], sk[0] - 1 if sk[0] > 0 else 0, 255, rnd.randrange(256), rnd.choice(sk)])):
                    ops.append('search %d' % p)
                    ops.append('vsearch %d' % p)
                cases.append(Case('advs_%s_%d' % (pname, n), ['esize %d' % es] + arr_lines(sk) + ['cmpmode %d' % rnd.randrange(3)], ops, 'random'))
                ci += 1
        # many random small/medium arrays
        for k in range(200 if tier == 'quick' else 3000):
            n = rnd.choice([0, 1, 2, 3, 4, 5, 8, 9, 12, 17, 31, 50])
            nk = rnd.choice([2, 3, 5, 256])
            keys = [rnd.randrange(nk) for _ in range(n)]
            es = rnd.choice(ESIZES)
            hdr = ['esize %d' % es] + arr_lines(keys) + ['vcap %d' % rnd.randrange(3), 'cmpmode %d' % rnd.randrange(3)]
            ops = ['sort %d' % s for s in (0, 2, 3, rnd.choice([5, 99, -7, 2 ** 31 - 1]))]
            ops.append('sort 1 ' + ' '.join(str(rnd.randrange(0, 2 ** 31)) for _ in range(min(n, 60))))
            ops.append('vsort 1 ' + ' '.join(str(rnd.randrange(0, n + 1)) for _ in range(min(n, 60))))
            ops += ['reverse', 'vsortd', 'find %d' % rnd.randrange(nk)]
            cases.append(Case('rnd%d' % k, hdr, ops, 'random'))
            sk = sorted(keys)
            cases.append(Case('rnds%d' % k, ['esize %d' % es] + arr_lines(sk) + ['cmpmode %d' % rnd.randrange(3)],
                              ['search %d' % rnd.randrange(nk), 'vsearch %d' % rnd.randrange(nk)], 'random'))
        # boundary values of rand(): 0, RAND_MAX and neighbours, alone and mixed with ordinary draws
        RM = 2 ** 31 - 1
        for k in range(40 if tier == 'quick' else 400):
            n = rnd.choice([2, 3, 4, 5, 7, 9, 16])
            keys = [rnd.randrange(rnd.choice([2, 4, 256])) for _ in range(n)]
            es = rnd.choice(ESIZES)
            hdr = ['esize %d' % es] + arr_lines(keys) + ['vcap %d' % (k % 3), 'cmpmode %d' % rnd.randrange(3)]
            mode = k % 4
            def draw():
                if mode == 0:
                    return RM
                if mode == 1:
                    return rnd.choice([RM, RM - 1, 0, 1])
                return rnd.choice([RM, RM, rnd.randrange(0, 2 ** 31), rnd.randrange(0, n + 1)])
            ops = ['sort 1 ' + ' '.join(str(draw()) for _ in range(3 * n + 4)),
                   'vsort 1 ' + ' '.join(str(draw()) for _ in range(3 * n + 4))]
            cases.append(Case('rndb%d' % k, hdr, ops, 'random'))
        return cases

    def corpus(self):
        return [c for c in Spec.corpus(self) if not is_big(c)]


def is_big(case):
    return any(o.startswith('big') for o in case.ops)


SPEC = C11()


# -------------------------------------------------------------------- arrays beyond 2^31 elements (F11)

def build_big_driver():
    d = os.path.join(core.BUILD, 'c')
    os.makedirs(d, exist_ok=True)
    exe = os.path.join(d, 'drv_sort_big')
    srcs = ' '.join(os.path.join(core.REPO, 'src', s) for s in SPEC.lib_srcs)
    cmd = ('gcc -std=gnu99 -O2 -DNDEBUG -D_POSIX_C_SOURCE=199309L -I%s/include -I%s/harness -Wl,--wrap=rand '
           '-o %s %s/harness/drv_sort.c %s -lm' % (core.REPO, core.ROOT, exe, core.ROOT, srcs))
    rc, out = core.sh(cmd, timeout=300)
    return (exe if rc == 0 else None), out


def big_stage(cases):
    """Run the cases with > 2^31-element arrays on the non-sanitized driver (one process each, in parallel),
    compare with the model's (theorem-derived) lines, apply the oracle.  -> (violations, stats)"""
    from concurrent.futures import ThreadPoolExecutor
    t0 = time.time()
    exe, log = build_big_driver()
    if exe is None:
        return [], dict(error='big driver build failed: ' + log[-500:])
    work = os.path.join(core.BUILD, 'work', 'C11')
    os.makedirs(work, exist_ok=True)
    runner = os.path.join(core.BUILD, 'ocaml', 'runner')

    def one(ic):
        i, c = ic
        p = os.path.join(work, 'big.%d.%d.script' % (os.getpid(), i))
        with open(p, 'w') as f:
            f.write(Case('x', c.header, c.ops).text())
        m = subprocess.run([runner, 'sort', p], stdout=subprocess.PIPE, stderr=subprocess.DEVNULL, text=True).stdout
        try:
            o = subprocess.run([exe, '--nofork', p], stdout=subprocess.PIPE, stderr=subprocess.DEVNULL, text=True,
                               timeout=900).stdout
        except subprocess.TimeoutExpired:
            o = 'case x\ntimeout\nend\n'
        os.unlink(p)
        im = core.parse_trace(o).get('x', [])
        if len(im) < len(c.ops):
            im.append('fault')
        return core.parse_trace(m).get('x', []), im

    with ThreadPoolExecutor(max_workers=4) as ex:
        results = list(ex.map(one, enumerate(cases)))
    viol = []
    for c, (mm, im) in zip(cases, results):
        r = SPEC.oracle(c, im)
        d = core.first_diff(mm, im)
        if any(l.startswith('skip') for l in im):
            continue
        if r is not None or d is not None:
            viol.append((c, mm, im, r, d))
    return viol, dict(big_cases=len(cases), big_wall_s=round(time.time() - t0, 1),
                      big_driver='drv_sort_big (gcc -O2, no sanitizer)')


def main(tier, seed, replay):
    import threading
    if replay:
        cs = core.parse_script(open(replay).read(), origin='replay')
        core.split_header(cs, SPEC.header_words)
        big = [c for c in cs if is_big(c)]
        if big:
            # the sanitized driver never sees the > 2^31-element cases
            os.makedirs(os.path.join(core.BUILD, 'work', 'C11'), exist_ok=True)
            replay = os.path.join(core.BUILD, 'work', 'C11', 'replay-small.%d.script' % os.getpid())
            with open(replay, 'w') as f:
                f.write(''.join(c.text() for c in cs if not is_big(c)))
    else:
        big = [c for c in Spec.corpus(SPEC) if is_big(c)]
        if tier == 'quick' and not os.environ.get('VERIF_BIG'):
            # 2^30 swap callbacks take 10-45 s depending on the load of the machine: the quick tier keeps the
            # (cheap) search cases and relies on FindingsSort.F11_reverse_int_index_refuted + the model for reverse
            big = [c for c in big if not any(o.startswith('bigreverse') for o in c.ops)]
    res = {}
    th = None
    if big:
        # needs the runner; make sure it exists before the two flows run side by side
        core.coq_build()
        core.build_runner()
        th = threading.Thread(target=lambda: res.update(r=big_stage(big)))
        th.start()
    rc = engine.check(SPEC, tier, seed, replay)
    if th is None:
        return rc
    th.join()
    viol, stats = res.get('r', ([], dict(error='big stage died')))
    known = dict(core.load_known('C11'))
    nv = 0
    for c, mm, im, r, d in viol:
        key = r[0] if r else 'correspondence'
        if key in known:
            print('KNOWN-FINDING: property=C11 %s (key=%s)' % (known[key], key))
            continue
        rp = core.replay_path('C11', 50 + nv)
        nv += 1
        with open(rp, 'w') as f:
            if r:
                f.write('# property C11 violated on the implementation (drv_sort_big, non-sanitized -O2 build)\n'
                        '# oracle: %s\n# key: %s\n' % (r[1], key))
            else:
                f.write('# correspondence between the Coq model (sort) and drv_sort_big no longer checks: %s\n' % (d,))
            f.write('# replay: ./check C11 --replay %s\n' % rp)
            f.write(Case('violation', c.header, c.ops).text())
            f.write('# implementation trace:\n' + ''.join('#   %s\n' % l for l in im))
            f.write('# model trace:\n' + ''.join('#   %s\n' % l for l in mm))
        print('# %s' % (r[1] if r else 'model/implementation correspondence broken (big arrays)'))
        print('VIOLATION property=C11 replay=%s%s' % (rp, '' if r else ' no-failing-input-found'))
    # fold into the evidence written by the generic flow
    p = os.path.join(core.ROOT, 'evidence', 'C11.json')
    try:
        ev = json.load(open(p))
        ev['coverage'].update(stats)
        ev['coverage']['evaluations'] = ev['coverage'].get('evaluations', 0) + len(big)
        ev['violations'] = ev.get('violations', 0) + nv
        core.write_evidence('C11', ev)
    except Exception:
        pass
    return 1 if (rc or nv) else 0


MANIFEST = dict(
    text='Coq theorems (Properties_C11.v) over an executable model of src/array.c lines 15-361: for every array, '
         'comparison preorder and selector (QUICK, QUICK_M, HEAP, any out-of-range value) the sort returns, the result is '
         'a sorted permutation, no access leaves the (sub)array; QUICK_R the same for every rand() whenever it returns, '
         'with termination under the stated no-endless-retry hypothesis; binary search / linear find / reverse meet their '
         'specifications for count <= SSIZE_MAX; byte level: cstl_swap (all sizes) exchanges exactly the two elements in the '
         'byte image of the array and touches nothing outside array + scratch, so the bytes after a sort are the '
         'concatenation of the element-level result. Tied to the C code on every run by differential execution '
         '(all small arrays, every pivot-draw sequence, adversarial large inputs; 10 element sizes) under ASan/UBSan, '
         'comparing the complete callback log.',
    note='trusted: Coq kernel; hand transcription of array.c into SortModel.v validated only by the correspondence run; '
         'size_t index arithmetic modelled in nat (no wrap below 2^63 elements); byte-level cstl_swap (SwapModel.v: memcpy / '
         'typed load-store over a byte list) proved to refine the element-level swap and compared with the header for sizes '
         '1..24, 32, 64 - alignment and effective-type rules not modelled; '
         'extraction (ExtrOcamlBasic) + OCaml runner; C driver; rand() intercepted with --wrap',
    technique='Coq proof (loop invariants, induction on fuel/length, Permutation/Sorted) + model/code differential correspondence',
    design='6 (C11)')
