"""Helpers shared by checks/c09.py and checks/c10.py: trace-line parsing and an
allocator log reconstructed from the events the driver's malloc wrapper
printed (independent of the Coq model)."""

LIMIT = 2 ** 32          # harness/halloc.h HA_LIMIT
SIZE_MAX = 2 ** 64 - 1
W64 = 2 ** 64


def parse_header(case):
    h = dict(vec=[], fails=set(), failfrom=None, width=1, nstr=1)
    for line in case.header:
        w = line.split()
        if w[0] == 'vec':
            h['vec'].append((int(w[1]), w[2] == '1', w[3] == '1'))
        elif w[0] == 'fail':
            h['fails'] = set(int(x) for x in w[1:])
        elif w[0] == 'failfrom':
            h['failfrom'] = int(w[1])
        elif w[0] == 'width':
            h['width'] = int(w[1])
        elif w[0] == 'nstr':
            h['nstr'] = int(w[1])
    return h


def split_line(line):
    """'ok <out> | X0: ... | X1: ... ;; ; ev ; ev' -> (out tokens, [object tokens], [event int lists])"""
    left, _, evs = line.partition(';;')
    parts = left.split('|')
    out = parts[0].split()[1:]
    objs = [p.split()[1:] for p in parts[1:]]
    events = []
    for e in evs.split(';'):
        t = e.split()
        if t:
            events.append([int(x) for x in t])
    return out, objs, events


class AllocLog:
    """Live blocks and request ordinals as the malloc wrapper reported them."""

    def __init__(self, fails, failfrom):
        self.fails = fails
        self.failfrom = failfrom
        self.blocks = {}        # live block id -> size
        self.nreq = 0           # requests that consumed an ordinal so far
        self.problem = None

    def feed(self, events):
        """-> summary dict for this line: allocated ids, failed request sizes, freed ids"""
        s = dict(new=[], failed=[], freed=[])
        for e in events:
            k = e[0]
            if k == 1:                       # malloc ok: id size
                self.blocks[e[1]] = e[2]
                self.nreq += 1
                s['new'].append(e[1])
            elif k == 2:                     # malloc failed
                self.nreq += 1
                s['failed'].append(e[1])
            elif k == 3:                     # realloc ok: old new size
                if e[1] >= 0:
                    if e[1] not in self.blocks:
                        self.problem = 'realloc of block %d which is not live' % e[1]
                    self.blocks.pop(e[1], None)
                    s['freed'].append(e[1])
                self.blocks[e[2]] = e[3]
                self.nreq += 1
                s['new'].append(e[2])
            elif k == 4:                     # realloc failed: old size
                self.nreq += 1
                s['failed'].append(e[2])
            elif k == 5:                     # realloc(p, 0): frees p
                self.blocks.pop(e[1], None)
                s['freed'].append(e[1])
                s.setdefault('realloc0', []).append(e[1])
            elif k == 6:                     # free
                if e[1] not in self.blocks:
                    self.problem = 'free of block %d which is not live' % e[1]
                self.blocks.pop(e[1], None)
                s['freed'].append(e[1])
            elif k == 7:
                self.problem = 'free/realloc of a pointer that is not a live block'
        return s

    def would_fail(self, nbytes, ahead=0):
        """Would the next (+ahead) allocation request, of nbytes, be refused?"""
        o = self.nreq + ahead
        if o in self.fails:
            return True
        if self.failfrom is not None and o >= self.failfrom:
            return True
        return nbytes > LIMIT


def storage_problem(name, count, cap, esize, blk, bsz, alog, used):
    """The C09 storage invariant for one reported vector state; -> text or None."""
    if count > cap:
        return '%s: size %d exceeds capacity %d' % (name, count, cap)
    if blk == -1:
        if cap != 0 or count != 0:
            return '%s: no buffer but size %d capacity %d' % (name, count, cap)
        return None
    if blk == -3:
        return '%s: buffer pointer is not a live allocation (size %d capacity %d)' % (name, count, cap)
    if blk not in alog.blocks:
        return '%s: buffer is block %d which the allocator log says is not live' % (name, blk)
    if alog.blocks[blk] != bsz:
        return '%s: block %d has %d bytes in the log but %d reported' % (name, blk, alog.blocks[blk], bsz)
    if (cap + 1) * esize > bsz:
        return '%s: capacity %d needs %d bytes (element size %d, one scratch cell) but the live block has %d' % (
            name, cap, (cap + 1) * esize, esize, bsz)
    if blk in used:
        return '%s: shares block %d with another object' % (name, blk)
    used.add(blk)
    return None
