"""C20 - bitwise-copied smart pointers and array objects are caught."""
import random
from lib.core import Case
from checks import memref
from checks.c05 import MemSpec, W_PTR
from checks.c14 import W_ARR

# pool: S 0-3, W 4-6, U 7-9, A 10-13, G 14-16.  Per kind: original O, stray copy X, partner P.
# G = a struct cstl_guarded_ptr used directly as an object (cstl_guarded_ptr_init / set / get / get_const / copy /
# swap); its "reset" is init (it owns nothing), its states are NULL and non-NULL.
POOL = ['S'] * 4 + ['W'] * 3 + ['U'] * 3 + ['A'] * 4 + ['G'] * 3
HDR = ['pool ' + ' '.join(POOL), 'ext 40 40']
SLOT = {'S': (0, 1, 2), 'W': (4, 5, 6), 'U': (7, 8, 9), 'A': (10, 11, 12), 'G': (14, 15, 16)}
RESET = {'S': 'sreset', 'W': 'wreset', 'U': 'ureset', 'A': 'areset', 'G': 'ginit'}
INIT = {'S': 'sinit', 'W': 'winit', 'U': 'uinit', 'A': 'ainit', 'G': 'ginit'}

# states of the original O (the copy X is taken afterwards)
STATES = {
    'S': {'empty': [], 'owning': ['salloc O 8 1'], 'shared': ['salloc O 8 1', 'sshare O 3'],
          'with-weak': ['salloc O 8 0', 'wfrom 6 O']},
    'W': {'empty': [], 'weak': ['salloc 0 8 1', 'wfrom O 0'], 'weak-only': ['salloc 0 8 1', 'wfrom O 0', 'sreset 0']},
    'U': {'empty': [], 'owning': ['ualloc O 8 4'], 'owning-nocb': ['ualloc O 8 -1']},
    'A': {'empty': [], 'owning': ['aalloc O 5 4'], 'sliced': ['aalloc 13 5 4', 'aslice 13 1 3 O'],
          'sliced-in-place': ['aalloc O 5 4', 'aslice O 2 4 O'], 'external': ['aset O 0 5 4']},
    'G': {'empty': [], 'non-null': ['gset O 2'], 'non-null-copied': ['gset P 3', 'gcopy O P']},
}
# roles of the partner P of a two-argument entry point: the original itself,
# another sharer of the same block, an unrelated owning object, an empty object
PARTNER = {
    'S': {'orig': None, 'sharer': ['sshare O P'], 'unrelated': ['salloc P 8 1'], 'empty': []},
    'W': {'orig': None, 'sharer': ['wfrom P 0'], 'unrelated': ['salloc 3 8 1', 'wfrom P 3'], 'empty': []},
    'U': {'orig': None, 'unrelated': ['ualloc P 8 9'], 'empty': []},
    'A': {'orig': None, 'sharer': ['aunslice O P'], 'unrelated': ['aalloc P 5 4'], 'empty': []},
    'G': {'orig': None, 'unrelated': ['gset P 3'], 'empty': ['ginit P']},
}
ONE = {
    'S': ['salloc X 8 1', 'salloc X 0 1', 'sget X', 'sunique X', 'sreset X', 'sshare X X', 'sswap X X'],
    'W': ['wreset X', 'wswap X X'],
    # (uswap X X: a self-swap of a proper object is outside the domain - cstl_swap would memcpy a member onto itself -
    # but on a stray copy the guarded read comes first and must abort)
    'U': ['ualloc X 8 1', 'ualloc X 0 -1', 'uget X', 'urelease X', 'ureset X', 'uswap X X'],
    # (the unrepresentable requests take cstl_array_alloc's early-return path)
    'A': ['aalloc X 3 4', 'aalloc X 0 0', 'aalloc X 9223372036854775807 4', 'aalloc X 18446744073709551615 1',
          'aalloc X 2305843009213693950 8', 'aset X 1 5 4', 'arelease X', 'adata X', 'aat X 0', 'aat X 7', 'areset X',
          'aslice X 0 0 X', 'aslice X 0 1 X', 'aslice X 1 2 X', 'aunslice X X'],
    # gcopy dst src: only the source is read (through the guard)
    'G': ['gget X', 'ggetc X', 'gswap X X', 'gcopy X X'],
}
TWO = {
    'S': ['sshare X P', 'sshare P X', 'sswap X P', 'sswap P X'],
    'W': ['wswap X P', 'wswap P X'],
    'U': ['uswap X P', 'uswap P X'],
    'A': ['aslice X 0 1 P', 'aslice P 0 1 X', 'aslice X 0 0 P', 'aunslice X P', 'aunslice P X'],
    'G': ['gswap X P', 'gswap P X', 'gcopy P X'],
}
# two-argument entry points across kinds: (stray kind, template, partner kind, partner set-ups by role)
CROSS = [
    ('S', 'wfrom Q X', {'weak-on-same': ['wfrom Q O'], 'unrelated': ['salloc 3 8 1', 'wfrom Q 3'], 'empty': []}),
    ('S', 'wlock Q X', {'weak-on-same': ['wfrom Q O'], 'unrelated': ['salloc 3 8 1', 'wfrom Q 3'], 'empty': []}),
    ('W', 'wfrom X Q', {'owner-of-same': None, 'unrelated': ['salloc Q 8 1'], 'empty': []}),
    ('W', 'wlock X Q', {'owner-of-same': None, 'unrelated': ['salloc Q 8 1'], 'empty': []}),
]
# for G: init, set and being the *destination* of copy overwrite the object and stamp it with its own address
# ("regardless of its current state"): no abort, and the object is usable again afterwards
UNGUARDED = {'S': ['sinit X'], 'W': ['winit X'], 'U': ['uinit X'], 'A': ['ainit X', 'asize X'],
             'G': ['ginit X', 'gset X 1', 'gset X 0', 'gcopy X O', 'gcopy X P']}
# ... which the next calls on the former stray copy show
REVIVED = {'G': ['gget X', 'ggetc X', 'gswap X O', 'gget X', 'gcopy P X', 'gget P']}
# what the original must still be able to do afterwards
ORIG = {
    'S': ['sget O', 'sunique O', 'sshare O P', 'sget P', 'wfrom 6 O', 'sreset O', 'wlock 6 O', 'sget O', 'sreset P', 'sreset O'],
    'W': ['wlock O 2', 'sget 2', 'wswap O P', 'wswap O P', 'wreset O', 'wfrom O 2'],
    'U': ['uget O', 'uswap O P', 'uget P', 'uswap P O', 'ureset O', 'ualloc O 8 2', 'urelease O'],
    'A': ['asize O', 'adata O', 'aunslice O P', 'asize P', 'arelease O', 'areset O', 'aalloc O 2 4', 'aat O 1', 'aslice O 0 1 P'],
    'G': ['gget O', 'ggetc O', 'gswap O P', 'gget P', 'gcopy P O', 'gget P', 'gset O 3', 'ggetc O', 'gswap O O', 'gget O',
          'ginit O', 'gget O'],
}


def matrix():
    cases = []

    def add(name, ops):
        cases.append(Case(name.replace(' ', '_'), HDR, ops, 'matrix'))
    for k in 'SWUAG':
        o, x, p = SLOT[k]

        def sub(t, q=None):
            t = t.replace('X', str(x)).replace('O', str(o)).replace('P', str(p))
            return t.replace('Q', str(q)) if q is not None else t
        tail = ['%s %d' % (RESET[k], x), '%s %d' % (RESET[k], o)]     # a missed guard then shows as a double free
        for sname, setup in sorted(STATES[k].items()):
            pre = [sub(e) for e in setup]
            copy = 'straycopy %d %d' % (o, x)
            for e in ONE[k]:
                add('stray %s %s %s' % (k, sname, e), pre + [copy, sub(e)] + tail)
                if sname != 'empty':
                    add('dangling %s %s %s' % (k, sname, e), pre + [copy, '%s %d' % (RESET[k], o), sub(e)] + tail)
            for role, psetup in sorted(PARTNER[k].items()):
                if role == 'sharer' and (sname in ('empty',) or (k == 'W' and sname != 'weak')):
                    continue
                for e in TWO[k]:
                    if psetup is None:
                        ops = pre + [copy, sub(e.replace('P', 'O'))]
                    else:
                        ops = pre + [sub(q) for q in psetup] + [copy, sub(e)]
                    add('stray2 %s %s %s %s' % (k, sname, role, e), ops + tail)
            for (ck, tmpl, roles) in CROSS:
                if ck != k:
                    continue
                for role, psetup in sorted(roles.items()):
                    q = 6 if k == 'S' else 2
                    if psetup is None:
                        if sname == 'empty':
                            continue
                        ops = pre + [copy, sub(tmpl, 0)]        # slot 0 owns the block the weak pointer refers to
                    else:
                        if role == 'weak-on-same' and sname == 'empty':
                            continue
                        ops = pre + [sub(t, q) for t in psetup] + [copy, sub(tmpl, q)]
                    add('cross %s %s %s %s' % (k, sname, role, tmpl), ops + tail)
            orig = [sub(q) for q in ORIG[k] if not (k == 'A' and sname == 'empty' and q.startswith(('aunslice', 'asize P')))]
            for e in UNGUARDED[k]:
                add('unguarded %s %s %s' % (k, sname, e), pre + [copy, sub(e)] + [sub(q) for q in REVIVED.get(k, [])] + orig)
            add('original %s %s' % (k, sname), pre + [copy] + orig + ['%s %d' % (INIT[k], x)] + orig)
            add('copy2 %s %s' % (k, sname), pre + [copy, sub(ORIG[k][0]), 'straycopy %d %d' % (x, p),
                                                   sub(ONE[k][0].replace('X', 'P'))] + tail)
    return cases


W_ALL = dict(W_PTR)
W_ALL.update(W_ARR)
W_ALL.update(straycopy=6, uinit=1, sinit=1, winit=1, ainit=1)
W_ALL.update(ginit=1, gset=3, gget=2, ggetc=2, gcopy=4, gswap=3)


class C20(MemSpec):
    pid = 'C20'
    rule = ('cases = matrix (every guarded entry point x argument position x object state {empty, owning, shared, with weak, '
            'weak-only, sliced, external; for guarded pointer objects NULL, non-NULL, non-NULL obtained by copy}, on a stray copy, '
            'also after the original let go; unguarded entry points (for guarded pointer objects init, set and the destination of '
            'copy, after which the object must be usable again); the original keeps working) + closure of the Coq model over 2 '
            'shared, 1 weak, 2 unique, 2 array objects with stray copies and over 3 guarded pointer objects with values {NULL, 1, 2} '
            '(state budgets) + seeded random histories with stray copies over 17 objects; every second case that calls an accessor '
            'with a *_const twin is replayed through the const variant (header constapi 1); the C05 and C14 runs (no stray copies) '
            'must not abort either; non-trivial = at least two completed operations')
    trusted = ['modelled, not verified: a bitwise copy is the copy of the model record of the slot, stored self-address included; '
               'the address of a pool slot is its index']
    assumptions_text = ['a stray copy overwrites only an empty object or another stray copy (or a guarded pointer object, which owns '
                        'nothing), and is not copied back onto the address '
                        'stored in it (both would be a leak / resurrection the guard cannot see)',
                        'objects are used at their C type']

    def more_variants(self, cases, tier, seed):
        # every second case with a stray copy once more with the objects a multiple of 4 GiB apart (header farslots 1)
        out, n = [], 0
        for c in cases:
            if any(h.split()[0] == 'farslots' for h in c.header) or not any(o.split()[0] == 'straycopy' for o in c.ops):
                continue
            n += 1
            if n % 2 == 0:
                out.append(Case(c.name + 'f', c.header + ['farslots 1'], c.ops, c.origin))
        return out

    def oracle_only(self, c):
        # a unique pointer swapped with itself is outside the model's domain (cstl_swap would copy a member onto itself);
        # through a stray copy the guarded read comes first and must abort: judged by the reference oracle alone
        return any(o.split()[0] == 'uswap' and len(o.split()) >= 3 and o.split()[1] == o.split()[2] for o in c.ops)

    def closure(self, tier):
        cases, st = self.closures([('stray', 250 if tier == 'quick' else 2500), ('guarded', 40 if tier == 'quick' else 1000)])
        cases = matrix() + cases
        kv = memref.const_variants(cases, every=2)
        st['constapi_replays'] = len(kv)
        return cases + kv, st

    def random_cases(self, tier, seed):
        rnd = random.Random(seed * 7919 + 20)
        n = 400 if tier == 'quick' else 6000
        cases = [memref.gen_case(rnd, 'rnd%d' % i, POOL, [40], rnd.choice([8, 16, 30]), W_ALL, p_keep_abort=0.6, benign=True)
                 for i in range(n)]
        # histories over guarded pointer objects only (every operation lands on one of three objects)
        wg = dict(straycopy=4, ginit=1, gset=3, gget=2, ggetc=2, gcopy=4, gswap=3)
        cases += [memref.gen_case(rnd, 'rndg%d' % i, ['G', 'G', 'G'], [], rnd.choice([6, 12, 20]), wg, p_header_fail=0.0,
                                  p_keep_abort=0.6) for i in range(n // 4)]
        return cases + memref.const_variants(cases, every=2)


SPEC = C20()

MANIFEST = dict(
    text='Coq theorems (Properties_C20.v) over the executable model of memory.c / array.c with the stored self-address explicit: '
         'every entry point except the *_init functions and cstl_array_size aborts when any of its object arguments does not carry '
         'its own address, before anything else happens to that object, in every state (the guarded pointer itself is an object '
         'kind: get, get_const, the source of copy and both sides of swap abort; init, set and the destination of copy re-stamp); histories that use only library functions '
         'keep every object well-formed and never hit the guard; a stray copy changes only the destination bytes, so the original '
         'behaves as before. The model is tied to the C code on every run by differential execution (entry point x position x '
         'state matrix, closure in a small scope, random histories) under ASan/UBSan with SIGABRT classification.',
    note='trusted: Coq kernel; hand transcription into MemModel.v/ArrayViewModel.v validated only by the correspondence run; '
         'extraction + OCaml runner; C driver (objects at fixed pool slots, memcpy as the stray copy)',
    technique='Coq proof (case analysis over all entry points; well-formedness invariant) + model/code differential correspondence',
    design='6 (C20)')
