"""C08 - the map keeps exactly one entry per key and never replaces or loses one silently."""
import random
import re
from lib.engine import Spec
from lib.core import Case


class RefMap:
    def __init__(self, fails, failfrom, cmpmod):
        self.d = {}          # canonical key -> (key id as inserted, val id)
        self.fails = set(fails)
        self.failfrom = failfrom
        self.ord = 0
        self.mod = cmpmod
        self.live = 0

    def ck(self, k):
        return k % self.mod if self.mod > 0 else k

    def alloc_ok(self):
        o = self.ord
        self.ord += 1
        return o not in self.fails and (self.failfrom is None or o < self.failfrom)

    def apply(self, op):
        w = op.split()
        a = [int(x) for x in w[1:]]
        o = w[0]
        if o in ('insert', 'insert_noiter'):
            c = self.ck(a[0])
            if c in self.d:
                k, v = self.d[c]
                return [1, k, v, 1] if o == 'insert' else [1]
            if not self.alloc_ok():
                return [-1, -1, -1, 0] if o == 'insert' else [-1]
            self.d[c] = (a[0], a[1])
            self.live += 1
            return [0, a[0], a[1], 1] if o == 'insert' else [0]
        if o == 'find':
            c = self.ck(a[0])
            if c in self.d:
                return [self.d[c][0], self.d[c][1], 1]
            return [-1, -1, 0]
        if o in ('erase', 'erase_noiter'):
            c = self.ck(a[0])
            if c in self.d:
                k, v = self.d.pop(c)
                self.live -= 1
                return [0, k, v, 0] if o == 'erase' else [0]
            return [-1, -1, -1, 0] if o == 'erase' else [-1]
        if o == 'erase_iter':
            c = self.ck(a[0])
            if c not in self.d:
                return None
            self.d.pop(c)
            self.live -= 1
            return []
        if o == 'size':
            return [len(self.d)]
        if o in ('clear', 'clear_nocb'):
            ents = sorted(self.d.values(), key=lambda kv: self.ck(kv[0]))
            self.d = {}
            self.live = 0
            return ('clear', ents if o == 'clear' else [])
        if o == 'live':
            return [self.live]
        return None


def parse_line(line):
    """ok <out...> | size | comparator calls | shape ;; events"""
    head, rest = line.split('|', 1)
    out = head.split()[1:]
    size_s, rest1 = rest.split('|', 1)
    _cmps, rest2 = rest1.split('|', 1)
    shape, _, ev = rest2.partition(';;')
    return out, int(size_s), shape.strip(), ev.strip()


class C08(Spec):
    pid = 'C08'
    component = 'map'
    driver = 'map'
    lib_srcs = ['rbtree.c', 'bintree.c']
    driver_extra = '-I%s/src -Wl,--wrap=malloc,--wrap=realloc,--wrap=free,--wrap=calloc'
    header_words = ('fail', 'failfrom', 'cmpmod', 'cmpmode', 'ptrrep', 'nestclear', 'cmpnest')

    def more_variants(self, cases, tier, seed):
        # every third case once more with a comparison function that looks things up in another map before it answers
        return [Case(c.name + 'q', c.header + ['cmpnest 1'], c.ops, c.origin) for c in cases[1::3]
                if not any(h.startswith('cmpnest') for h in c.header)]
    rule = ('cases = corpus + one case per edge of the breadth-first closure of the Coq model over a small key '
            'universe (incl. allocation failures) + seeded random histories; non-trivial = at least two completed '
            'operations; distinct = distinct (header, operations) text')
    trusted = ['modelled, not verified: src/map.c transcribed by hand into MapModel.v on top of the red-black tree model; '
               'key comparison modelled as an order on integer key ids (optionally modulo cmpmod, so distinct key '
               'pointers can compare equal)']
    assumptions_text = ['erase_iterator is only applied to an iterator obtained from find/insert on a live entry']

    def __init__(self):
        from lib import core
        self.driver_extra = self.driver_extra % core.REPO

    def hdr(self, case):
        fails, ff, mod = [], None, 0
        for h in case.header:
            w = h.split()
            if w[0] == 'fail':
                fails = [int(x) for x in w[1:]]
            elif w[0] == 'failfrom':
                ff = int(w[1])
            elif w[0] == 'cmpmod':
                mod = int(w[1])
        return fails, ff, mod

    def oracle(self, case, impl):
        fails, ff, mod = self.hdr(case)
        ref = RefMap(fails, ff, mod)
        for i, op in enumerate(case.ops):
            exp = ref.apply(op)
            if exp is None:
                return None
            name = op.split()[0]
            if i >= len(impl):
                return ('%s:no-output' % name, 'no output for operation %d (%s)' % (i, op))
            line = impl[i]
            if not line.startswith('ok'):
                return ('%s:%s' % (name, line.split()[0]), 'operation %d (%s) ended in %s' % (i, op, line))
            try:
                out, size, shape, ev = parse_line(line)
            except Exception:
                return ('%s:garbled' % name, 'unparsable line %r' % line)
            if 'MALFORMED' in shape or 'BADITER' in line:
                return ('%s:malformed' % name, 'after operation %d (%s): %s' % (i, op, line))
            if isinstance(exp, tuple):
                # per callback: key, val, number of live heap blocks at the time of the call
                got = [int(x) for x in out if re.match(r'-?\d+$', x)]
                if len(got) % 3:
                    return ('clear:garbled', 'callback log %s' % (out,))
                pairs = sorted(zip(got[0::3], got[1::3]))
                if pairs != sorted(exp[1]):
                    return ('clear:wrong-callbacks', 'clear called back with %s, held %s' % (pairs, sorted(exp[1])))
                # the node of an entry is released only after the user callback for it has returned:
                # at the i-th callback exactly i of the n nodes have been freed
                lives = got[2::3]
                if lives != [len(pairs) - j for j in range(len(pairs))]:
                    return ('clear:free-before-callback', 'live blocks seen by the callbacks of clear: %s, expected %s' % (
                        lives, [len(pairs) - j for j in range(len(pairs))]))
            else:
                got = [int(x) for x in out]
                if got != exp:
                    return ('%s:wrong-result' % name, 'operation %d (%s) returned %s, reference %s' % (i, op, got, exp))
            if size != len(ref.d):
                return ('%s:wrong-size' % name, 'size %d after operation %d (%s), reference %d' % (size, i, op, len(ref.d)))
            # entries held by the tree = reference entries (one per key)
            ents = sorted((int(a), int(b)) for a, b in re.findall(r'\((-?\d+):(-?\d+)[RB]', shape))
            if ents != sorted(ref.d.values()):
                return ('%s:wrong-entries' % name, 'entries %s after operation %d (%s), reference %s' % (ents, i, op, sorted(ref.d.values())))
            if '; 7 ' in ' ' + ev:
                return ('%s:bad-free' % name, 'free of a non-live block in operation %d (%s)' % (i, op))
            if name == 'live' and got != [ref.live]:
                return ('live:leak', 'live blocks %s, reference %d' % (got, ref.live))
        return None

    def closure(self, tier):
        if tier == 'quick':
            cases, st = self.bfs([4, 60000, 0])
            c2, st2 = self.bfs([3, 60000, 2])
        else:
            cases, st = self.bfs([6, 400000, 0])
            c2, st2 = self.bfs([4, 400000, 2])
        cases += c2
        return cases, dict(states=st.get('states', 0) + st2.get('states', 0),
                           transitions=st.get('transitions', 0) + st2.get('transitions', 0),
                           closed=st.get('closed', False) and st2.get('closed', False))

    def random_cases(self, tier, seed):
        rnd = random.Random(seed * 104729 + 8)
        n = 300 if tier == 'quick' else 4000
        cases = []
        for ci in range(n):
            nk = rnd.choice([4, 8, 16, 40])
            mod = rnd.choice([0, 0, 0, 3, 7])
            hdr = ['cmpmode %d' % rnd.randrange(3), 'ptrrep %d' % rnd.randrange(2), 'nestclear %d' % rnd.randrange(2)]
            if mod:
                hdr.append('cmpmod %d' % mod)
            if rnd.random() < 0.4:
                hdr.append('fail ' + ' '.join(str(rnd.randrange(0, 30)) for _ in range(rnd.randrange(1, 5))))
            if rnd.random() < 0.15:
                hdr.append('failfrom %d' % rnd.randrange(0, 30))
            ref = RefMap(*C08.hdr(self, Case('x', hdr, [])))
            ops = []
            nv = 0
            for _ in range(rnd.choice([5, 15, 40, 120])):
                k = rnd.randrange(nk)
                o = rnd.choice(['insert', 'insert', 'insert', 'insert_noiter', 'find', 'erase', 'erase', 'erase_noiter',
                                'erase_iter', 'size', 'clear', 'clear_nocb', 'live'])
                if o in ('clear', 'clear_nocb') and rnd.random() < 0.8:
                    continue
                if o == 'erase_iter' and ref.ck(k) not in ref.d:
                    continue
                if o.startswith('insert'):
                    op = '%s %d %d' % (o, k, nv % 250)
                    nv += 1
                elif o in ('size', 'clear', 'clear_nocb', 'live'):
                    op = o
                else:
                    op = '%s %d' % (o, k)
                ref.apply(op)
                ops.append(op)
            ops += ['clear', 'live']
            cases.append(Case('rnd%d' % ci, hdr, ops, 'random'))
        # fill-and-drain histories on 10-40 distinct keys: the erase fix-up cases that only occur above the
        # bottom level of the tree (double black moved up, black sibling with a red near and a black far child)
        # need about ten entries and particular erase orders
        for ci in range(300 if tier == 'quick' else 4000):
            nk = rnd.choice([10, 12, 16, 24, 40])
            keys = list(range(nk))
            rnd.shuffle(keys)
            hdr = ['cmpmode %d' % rnd.randrange(3), 'ptrrep %d' % rnd.randrange(2)]
            ops = ['insert %d %d' % (k, i % 250) for i, k in enumerate(keys)]
            order = list(range(nk))
            rnd.shuffle(order)
            for j, k in enumerate(order):
                ops.append(rnd.choice(['erase %d', 'erase %d', 'erase_iter %d', 'erase_noiter %d']) % k)
                if j % 5 == 4:
                    ops.append('find %d' % rnd.randrange(nk))
                if rnd.random() < 0.15:
                    back = order[rnd.randrange(j + 1)]
                    ops.append('insert %d %d' % (back, (j + 7) % 250))
                    order.append(back)
            ops += ['size', 'clear', 'live']
            cases.append(Case('drain%d' % ci, hdr, ops, 'random'))
        return cases


SPEC = C08()


# ---------------------------------------------------------------- C15: clear x every closure state + refill

def c15_part(clear_cases):
    class MapClear(C08):
        pid = 'C15'

        def corpus(self):
            return []

        def closure(self, tier):
            def refill(c):
                # reusable like a fresh map: nothing left allocated, new entries, lookups, existing key, second clear
                return ['live', 'size', 'find 1', 'insert 1 0', 'insert 0 1', 'find 1', 'insert 1 1', 'size',
                        'clear', 'live']
            cases, st = clear_cases(C08(), tier, refill)
            # every second case also with a clear callback that clears another (empty) map before returning
            cases += [Case(c.name + 'n', c.header + ['nestclear 1'], c.ops, c.origin) for c in cases[::2]]
            cases += [Case(c.name + 'q', c.header + ['cmpnest 1'], c.ops, c.origin) for c in cases[1::3]
                      if not any(h.startswith('cmpnest') for h in c.header)]
            return cases, st

        def random_cases(self, tier, seed):
            cs = C08.random_cases(self, tier, seed)
            out = []
            for c in cs[: (100 if tier == 'quick' else 1500)]:
                # the generated histories end in clear + live
                out.append(Case(c.name, c.header, c.ops + ['insert 2 7', 'insert 1 8', 'insert 2 9', 'size', 'find 2',
                                                           'clear', 'live'], 'random'))
            return out
    return MapClear()


# ---------------------------------------------------------------- C16: base scripts for exhaustive fault injection

def c16_spec():
    return C08()


def c16_base_cases(tier, seed):
    """scripts without fail headers: inserts of new and existing keys, finds, erases, continued use, final
    clear + leak audit.  checks/c16.py derives the failing variants (each single request, each suffix, pairs,
    triples for short scripts) from the number of allocation requests of the fault-free run."""
    tail = ['size', 'clear', 'live']
    bases = [
        # ascending (the hinted insert always goes right), re-insert, lookups, erases, continued use
        ([], ['insert 0 0', 'insert 1 1', 'insert 2 2', 'insert 3 3', 'insert 4 4', 'insert 5 5', 'insert 2 9',
              'find 0', 'find 5', 'find 6', 'erase 1', 'erase 4', 'erase 4', 'insert 4 6', 'insert 6 7', 'size',
              'find 4'] + tail),
        # descending
        ([], ['insert 5 0', 'insert 4 1', 'insert 3 2', 'insert 2 3', 'insert 1 4', 'insert 0 5', 'insert 3 9',
              'erase 5', 'erase 0', 'find 3', 'insert 5 6', 'erase 3', 'find 3', 'insert 3 7'] + tail),
        # zigzag, keys colliding modulo 4, existing-key inserts between the new ones
        (['cmpmod 4'], ['insert 3 0', 'insert 0 1', 'insert 7 2', 'insert 2 3', 'insert 4 4', 'insert 1 5',
                        'find 5', 'find 6', 'erase 6', 'insert 6 6', 'erase 3', 'insert 11 7', 'find 3'] + tail),
        # short (triples are enumerated): insert, erase, insert again
        ([], ['insert 1 0', 'insert 0 1', 'erase 1', 'insert 2 2', 'insert 1 3', 'find 1', 'erase 0', 'insert 0 4']
         + tail + ['insert 0 0', 'find 0', 'clear_nocb', 'live']),
        # keys and values as integer-valued pointers (key 0 / value 0 are NULL), iterator-less calls
        (['ptrrep 1'], ['insert_noiter 0 0', 'insert 2 0', 'insert_noiter 1 3', 'find 0', 'insert 0 5',
                        'erase_noiter 0', 'find 0', 'insert 0 1', 'erase 2', 'erase_noiter 2', 'insert_noiter 3 2']
         + tail),
        # fill, drain completely, fill again
        (['cmpmode 1'], ['insert 2 0', 'insert 0 1', 'insert 3 2', 'insert 1 3', 'erase 0', 'erase 1', 'erase 2',
                         'erase 3', 'size', 'live', 'insert 1 4', 'insert 0 5', 'find 0', 'find 2'] + tail),
        # clear in the middle, without callback, then reuse
        (['cmpmode 2'], ['insert 4 0', 'insert 2 1', 'insert 6 2', 'clear_nocb', 'live', 'insert 2 3', 'insert 4 4',
                         'insert 3 5', 'erase 4', 'find 3'] + tail),
    ]
    rnd = random.Random(seed * 7919 + 16)
    for ri in range(2 if tier == 'quick' else 5):
        nk = rnd.choice([5, 8])
        ops = []
        nv = 0
        for _ in range(rnd.choice([14, 20])):
            k = rnd.randrange(nk)
            o = rnd.choice(['insert', 'insert', 'insert', 'insert_noiter', 'find', 'erase', 'erase_noiter', 'size'])
            if o.startswith('insert'):
                ops.append('%s %d %d' % (o, k, nv % 250))
                nv += 1
            elif o == 'size':
                ops.append(o)
            else:
                ops.append('%s %d' % (o, k))
        bases.append((['cmpmod 7'] if ri % 2 else [], ops + tail))
    return [Case('b%d' % i, h, ops, 'base') for i, (h, ops) in enumerate(bases)]


MANIFEST = dict(
    text='Coq theorems (Properties_C08.v) over an executable transcription of src/map.c on top of the red-black tree model '
         'and the allocator model, for every comparison order on keys (distinct key pointers may compare equal) and every '
         'allocator oracle: the invariant map_inv (canonical keys strictly increasing in tree order = exactly one entry per '
         'key; red-black rules; node memory exactly for the linked nodes; size field = number of entries; live heap blocks '
         '= exactly the nodes, 48 bytes each; no block freed twice) is preserved by every operation, so it holds in every '
         'reachable state, and no operation can fault. Every operation refines an association list with unique keys: insert '
         'of an existing key returns 1, the iterator carries the stored pointers and the whole state (tree, node memory, '
         'heap) is untouched; a new key returns 0 and lands at its place in key order (the parent reported by find is a '
         'correct hint: the hinted red-black insert builds the tree of the unhinted one); failed allocation returns -1, end '
         'iterator, nothing but the heap\'s request counter/log changes; find returns the stored pointers or the end '
         'iterator; erase (by key or by iterator) returns 0 with the stored pointers, unlinks and frees exactly that node, -1 '
         'and end iterator if absent; size = number of entries; clear calls back with a permutation of the entries (each '
         'exactly once, node freed right after its callback), frees every node once and leaves the initial map with no live '
         'block. Lifted to every operation list (run). Tied to the code on every run by differential execution: closure of '
         'the model over a small key universe (with colliding keys, NULL-valued key/value pointers, and failing allocators) + '
         'seeded random histories, against the library under ASan/UBSan with intercepted malloc/free, comparing results, '
         'size, tree shape with colours, stored pointers and allocator events; an independent dict oracle checks the property '
         'text on the implementation trace.',
    note='trusted: Coq kernel; hand transcription of map.c into MapModel.v (and of rbtree.c/bintree.c into TreeModel.v) '
         'validated only by the correspondence run; the key comparison callback is modelled as an integer order on key ids '
         '(sign only); extraction (ExtrOcamlBasic) + OCaml runner; C driver (includes map.c to decode nodes), halloc.h '
         'interception with the policy of AllocModel.v; parent links are checked on the implementation at every explored '
         'state, not proved; closure states are explored up to renaming of heap block ids',
    technique='Coq proof (invariant + refinement to an association list, on top of the C01/C02 lemmas: find spec, in-order '
              'effect of hinted insert and erase, red-black preservation, clear log) + model/code differential correspondence',
    design='6 (C08)')
