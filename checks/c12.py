"""C12 - doubly-linked list equals a reference sequence in both directions."""
import random
from lib.engine import Spec
from lib.core import Case


class RefDList:
    """Reference semantics on Python lists (independent of the Coq model)."""

    def __init__(self, nlists, keys):
        self.L = [[] for _ in range(nlists)]
        self.keys = keys

    def key(self, e):
        return self.keys[e] if e < len(self.keys) else 0

    def linked(self, e):
        return any(e in l for l in self.L)

    def apply(self, op):
        """-> ('skip',) outside domain | ('out', [ints]) expected output |
        ('sort', l) result must be an ordered permutation"""
        w = op.split()
        o = w[0]
        L = self.L

        def lst(x):
            i = int(x)
            return i if 0 <= i < len(L) else None
        a0 = lst(w[1]) if len(w) > 1 else None
        if a0 is None:
            return ('skip',)
        l = L[a0]
        if o in ('push_front', 'push_back'):
            e = int(w[2])
            if self.linked(e):
                return ('skip',)
            if o == 'push_front':
                l.insert(0, e)
            else:
                l.append(e)
            return ('out', [])
        if o == 'pop_front':
            return ('out', [l.pop(0) if l else -1])
        if o == 'pop_back':
            return ('out', [l.pop() if l else -1])
        if o == 'insert':
            b, e = int(w[2]), int(w[3])
            if self.linked(e) or b not in l:
                return ('skip',)
            l.insert(l.index(b) + 1, e)
            return ('out', [])
        if o == 'erase':
            e = int(w[2])
            if e not in l:
                return ('skip',)
            l.remove(e)
            return ('out', [])
        if o == 'front':
            return ('out', [l[0] if l else -1])
        if o == 'back':
            return ('out', [l[-1] if l else -1])
        if o == 'size':
            return ('out', [len(l)])
        if o == 'foreach':
            order = list(l) if w[2] == 'fwd' else list(reversed(l))
            stop, er = int(w[3]), int(w[4])
            if 1 <= stop <= len(order):
                vis, r = order[:stop], stop
            else:
                vis, r = order, 0
            if er == 2:
                o = lst(w[5]) if len(w) > 5 else None
                if o is None or o == a0:
                    return ('skip',)
                L[o] = L[o] + vis
            if er:
                L[a0] = [x for x in l if x not in vis]
            return ('out', [r] + vis)
        if o == 'find':
            k = int(w[2])
            order = l if w[3] == 'fwd' else list(reversed(l))
            for x in order:
                if self.key(x) == k:
                    return ('out', [x])
            return ('out', [-1])
        if o == 'swap':
            b = lst(w[2])
            if b is None or b == a0:
                return ('skip',)
            L[a0], L[b] = L[b], L[a0]
            return ('out', [])
        if o == 'clear':
            out = list(l)
            L[a0] = []
            return ('out', out)
        if o == 'reverse':
            l.reverse()
            return ('out', [])
        if o == 'sort':
            return ('sort', a0)
        if o == 'concat':
            b = lst(w[2])
            if b is None:
                return ('skip',)
            if b != a0:
                L[a0] = l + L[b]
                L[b] = []
            return ('out', [])
        return ('skip',)


def parse_dump(line):
    """'ok <out> | L0: size front back F .. B .. f .. b ..' ->
    (out, [dict(size, front, back, F, B, f, b)])"""
    parts = line.split('|')
    out = [int(x) for x in parts[0].split()[1:]]
    lists = []
    for p in parts[1:]:
        w = p.split()[1:]
        d = dict(size=int(w[0]), front=int(w[1]), back=int(w[2]))
        cur = None
        for t in w[3:]:
            if t in ('F', 'B', 'f', 'b'):
                cur = t
                d[cur] = []
            else:
                d[cur].append(int(t))
        for t in ('F', 'B', 'f', 'b'):
            d.setdefault(t, None)
        lists.append(d)
    return out, lists


def state_error(ref, lists):
    """compare the dumped state of every list with the reference sequences"""
    if len(lists) != len(ref.L):
        return 'lists', '%d lists dumped, %d expected' % (len(lists), len(ref.L))
    for i, (l, d) in enumerate(zip(ref.L, lists)):
        mir = list(reversed(l))
        if d['F'] != l:
            return 'forward-links', 'list %d: forward walk %s, reference %s' % (i, d['F'], l)
        if d['B'] != mir:
            return 'backward-links', 'list %d: backward walk %s, reference mirror %s' % (i, d['B'], mir)
        if d['f'] != l:
            return 'foreach-fwd', 'list %d: foreach FWD %s, reference %s' % (i, d['f'], l)
        if d['b'] != mir:
            return 'foreach-rev', 'list %d: foreach REV %s, reference mirror %s' % (i, d['b'], mir)
        if d['size'] != len(l):
            return 'size', 'list %d: size %d, reference %d' % (i, d['size'], len(l))
        if d['front'] != (l[0] if l else -1):
            return 'front', 'list %d: front %d, reference %s' % (i, d['front'], l[:1])
        if d['back'] != (l[-1] if l else -1):
            return 'back', 'list %d: back %d, reference %s' % (i, d['back'], l[-1:])
    return None


def offs_variants(cases, every=1):
    """Lists threaded through different node members (different `off`): cstl_dlist_swap must exchange the
    offsets too, and concat between lists of different offsets is a documented no-op that the model does not
    represent, so cases containing such a concat (offsets tracked through swaps) are left out."""
    out = []
    n = 0
    for c in cases:
        nl = 1
        for h in c.header:
            w = h.split()
            if w[0] == 'nlists':
                nl = int(w[1])
            if w[0] == 'offs':
                nl = 0
        if nl < 2 or not any(o.split()[0] == 'swap' for o in c.ops):
            continue
        offs = [i % 2 for i in range(nl)]
        ok = True
        for o in c.ops:
            w = o.split()
            if w[0] == 'swap':
                a, b = int(w[1]), int(w[2])
                if a < nl and b < nl:
                    offs[a], offs[b] = offs[b], offs[a]
            elif w[0] == 'concat':
                a, b = int(w[1]), int(w[2])
                if a < nl and b < nl and offs[a] != offs[b]:
                    ok = False
                    break
            elif w[0] == 'foreach' and len(w) >= 6 and w[4] == '2':
                pass        # erase + push onto another list: uses each list's own member, fine
        if not ok:
            continue
        n += 1
        if n % every == 0:
            out.append(Case(c.name + 'o', c.header + ['offs ' + ' '.join(str(i % 2) for i in range(nl))], c.ops, c.origin))
    return out


class C12(Spec):
    pid = 'C12'
    component = 'dlist'
    driver = 'dlist'
    lib_srcs = ['dlist.c']
    header_words = ('keys', 'nlists', 'cmpmode', 'vsign', 'offs')
    vsign_every = 2
    rule = ('cases = corpus + one case per edge of the breadth-first closure of the Coq model over a small scope '
            '(shortest path to the state + the operation; states identified by sizes and both raw link walks of every '
            'list) + seeded random histories; a case is non-trivial when its model trace has at least two completed '
            'operations; distinct = distinct (header, operations) text')
    trusted = ['modelled, not verified: the C statements of src/dlist.c are transcribed by hand into DListModel.v '
               '(memory addr -> {nx, pv}, size field per list object, one update per C field write); comparison '
               'callbacks are modelled as key projections; the foreach visitor is the scripted one (log, stop at the '
               'j-th call, optionally cstl_dlist_erase of the visited element)']
    assumptions_text = ['elements are linked into at most one list at a time; positions passed to insert/erase are in '
                        'the list (documented preconditions)',
                        'swap of a list object with itself is outside the domain (memcpy of overlapping objects)',
                        'list sizes stay below 2^64']

    def header(self, case):
        keys, nl = [], 1
        for h in case.header:
            w = h.split()
            if w[0] == 'keys':
                keys = [int(x) for x in w[1:]]
            elif w[0] == 'nlists':
                nl = int(w[1])
        return keys, nl

    def oracle(self, case, impl):
        keys, nl = self.header(case)
        ref = RefDList(nl, keys)
        for i, op in enumerate(case.ops):
            before = [list(x) for x in ref.L]
            r = ref.apply(op)
            if r[0] == 'skip':
                return None
            w = op.split()
            name = w[0]
            tag = name
            if name == 'foreach':
                tag = 'foreach-%s%s' % (w[2], {'0': '', '1': '-free', '2': '-move'}.get(w[4], '-?'))
            elif name == 'find':
                tag = 'find-%s' % w[3]
            if i >= len(impl):
                return ('%s:no-output' % tag, 'no output for operation %d (%s)' % (i, op))
            line = impl[i]
            if not line.startswith('ok'):
                return ('%s:%s' % (tag, line.split()[0]),
                        'operation %d (%s) on lists %s ended in %s; expected normal return' % (i, op, before, line))
            try:
                out, lists = parse_dump(line)
            except Exception:
                return ('%s:garbled' % tag, 'unparsable line %r' % line)
            if r[0] == 'sort':
                l = r[1]
                got = lists[l]['F'] if l < len(lists) else []
                if sorted(got) != sorted(ref.L[l]):
                    return ('sort:not-permutation', 'sort of %s gave %s' % (ref.L[l], got))
                if any(ref.key(got[j]) > ref.key(got[j + 1]) for j in range(len(got) - 1)):
                    return ('sort:not-ordered', 'sort of %s gave %s, keys %s' % (
                        ref.L[l], got, [ref.key(x) for x in got]))
                ref.L[l] = list(got)
                exp_out = []
            else:
                exp_out = r[1]
            if out != exp_out:
                return ('%s:wrong-result' % tag, 'operation %d (%s) on lists %s returned %s, reference %s' % (
                    i, op, before, out, exp_out))
            e = state_error(ref, lists)
            if e is not None:
                return ('%s:%s' % (tag, e[0]), 'after operation %d (%s) on lists %s: %s' % (i, op, before, e[1]))
        return None

    def closure(self, tier):
        if tier == 'quick':
            cases, st = self.bfs([2, 100000, 0, 0, 0, 1, 1])
        else:
            cases, st = self.bfs([2, 1000000, 0, 1, 0, 1, 0])
            c2, st2 = self.bfs([3, 1000000, 1, 1, 0, 2, 0, 1])
            cases += c2
            st = dict(states=st['states'] + st2['states'], transitions=st['transitions'] + st2['transitions'],
                      closed=st['closed'] and st2['closed'])
        # the comparator's magnitude is not fixed by its contract: replay every closure case that compares
        # keys (sort, find) a second time with a key-difference comparator
        extra = []
        for c in cases:
            if any(o.split()[0] in ('sort', 'find') for o in c.ops):
                extra.append(Case(c.name + 'd', c.header + ['cmpmode 1'], c.ops, c.origin))
        st['cmpmode1_replays'] = len(extra)
        offv = offs_variants(cases, every=3)
        st['offs_replays'] = len(offv)
        return cases + extra + offv, st

    def random_cases(self, tier, seed):
        rnd = random.Random(seed * 7919 + 12)
        n = 1500 if tier == 'quick' else 12000
        cases = []
        kinds = ['push_front', 'push_back', 'push_back', 'push_back', 'pop_front', 'pop_back', 'insert', 'erase',
                 'front', 'back', 'size', 'foreach', 'foreach', 'find', 'swap', 'clear', 'reverse', 'reverse',
                 'sort', 'concat', 'fill']
        for ci in range(n):
            nl = rnd.choice([1, 2, 2, 3])
            ne = rnd.choice([3, 5, 6, 8, 12])
            keys = [rnd.randrange(0, rnd.choice([2, 3, 6])) for _ in range(ne)]
            ref = RefDList(nl, keys)
            ops = []
            length = rnd.choice([6, 12, 30, 80])

            def emit(op):
                r = ref.apply(op)
                if r[0] == 'skip':
                    return
                if r[0] == 'sort':
                    ref.L[r[1]] = sorted(ref.L[r[1]], key=ref.key)
                ops.append(op)
            while len(ops) < length:
                l = rnd.randrange(nl)
                free = [e for e in range(ne) if not ref.linked(e)]
                k = rnd.choice(kinds)
                if k in ('push_front', 'push_back'):
                    if free:
                        emit('%s %d %d' % (k, l, rnd.choice(free)))
                    else:
                        emit('pop_back %d' % l)
                elif k == 'fill':
                    # bring the list to a chosen length 0..5 right before a reverse / swap / sort
                    want = rnd.randrange(0, 6)
                    while len(ref.L[l]) > want:
                        emit('%s %d' % (rnd.choice(['pop_front', 'pop_back']), l))
                    while len(ref.L[l]) < want and free:
                        e = free.pop(rnd.randrange(len(free)))
                        emit('%s %d %d' % (rnd.choice(['push_front', 'push_back']), l, e))
                    nxt = rnd.choice(['reverse', 'sort', 'swap', 'concat', 'foreach'])
                    if nxt in ('reverse', 'sort'):
                        emit('%s %d' % (nxt, l))
                    elif nxt == 'foreach':
                        emit(rnd.choice(['foreach %d %s %d 1', 'foreach %d %s %d 2 ' + str(rnd.randrange(nl))]) % (
                            l, rnd.choice(['fwd', 'rev']), rnd.randrange(0, 7)))
                    else:
                        emit('%s %d %d' % (nxt, l, rnd.randrange(nl)))
                elif k == 'insert':
                    if free and ref.L[l]:
                        emit('insert %d %d %d' % (l, rnd.choice(ref.L[l] + [ref.L[l][-1]]), rnd.choice(free)))
                elif k == 'erase':
                    if ref.L[l]:
                        emit('erase %d %d' % (l, rnd.choice(ref.L[l] + [ref.L[l][0], ref.L[l][-1]])))
                elif k in ('pop_front', 'pop_back', 'front', 'back', 'size', 'reverse', 'sort'):
                    emit('%s %d' % (k, l))
                elif k == 'clear':
                    if rnd.random() < 0.4:
                        emit('clear %d' % l)
                elif k == 'foreach':
                    emit('foreach %d %s %d %s' % (l, rnd.choice(['fwd', 'rev']), rnd.randrange(0, 5),
                                                  rnd.choice(['0', '0', '1', '2 %d' % rnd.randrange(nl)])))
                elif k == 'find':
                    emit('find %d %d %s' % (l, rnd.randrange(0, 7), rnd.choice(['fwd', 'rev'])))
                elif k in ('swap', 'concat'):
                    emit('%s %d %d' % (k, l, rnd.randrange(nl)))
            cases.append(Case('rnd%d' % ci, ['keys ' + ' '.join(map(str, keys)), 'nlists %d' % nl,
                                             'cmpmode %d' % rnd.choice([0, 1, 2])], ops, 'random'))
        return cases + offs_variants(cases, every=1)


SPEC = C12()

MANIFEST = dict(
    text='Coq theorems (Properties_C12.v) over an executable pointer-level model of src/dlist.c (memory of {next, prev} '
         'nodes + size fields, one update per C field write, in program order): the representation predicate ring '
         '(next-chain spells the sequence and returns to the head, prev is the inverse of next, no node twice) is '
         'preserved by __cstl_dlist_insert/__cstl_dlist_erase with a frame; push/pop at both ends, insert, erase, '
         'front/back/size, foreach (both directions, visitor that stops at the j-th call and optionally erases+frees or '
         'erases+moves the visited element), find, swap, clear, concat, reverse (loop + adjacent-pair epilogue) and sort '
         '(split, recursion on stack-local list objects, merge) all refine the reference sequence semantics; in every '
         'reachable state of the scripted multi-list system every list is a well-formed ring, the forward walk is the '
         'sequence and the backward walk its mirror image, pops on empty return NULL, nothing faults. The model is tied to '
         'the C code on every run by differential execution (closure of the model state space in a small scope + seeded '
         'random histories) under ASan/UBSan, with raw link walks in both directions done by the driver.',
    note='trusted: Coq kernel; hand transcription of dlist.c into DListModel.v validated only by the correspondence run; '
         'extraction (ExtrOcamlBasic) + OCaml runner; C driver; comparison callbacks modelled as key projections '
         '(the driver varies the magnitude of comparator results); stability of sort is in the model, not in the theorems',
    technique='Coq proof (separation-style ring invariant over a pointer-level heap, refinement by induction over '
              'operations, loop invariants for reverse and merge sort) + model/code differential correspondence',
    design='6 (C12)')
