"""C13 - singly-linked list equals a reference sequence; tail is the true last."""
import random
from lib.engine import Spec
from lib.core import Case


class RefSList:
    """Reference semantics on Python lists (independent of the Coq model)."""

    def __init__(self, nlists, keys, offs=None):
        self.L = [[] for _ in range(nlists)]
        self.keys = keys
        # which node member each list object threads its elements through (header offs); it travels with the contents
        # on swap, and a concat between lists of different members leaves both lists as they are
        self.offs = list(offs) + [0] * (nlists - len(offs)) if offs else [0] * nlists

    def key(self, e):
        return self.keys[e] if e < len(self.keys) else 0

    def linked(self, e):
        return any(e in l for l in self.L)

    def apply(self, op):
        """-> ('skip',) outside domain | ('out', [ints]) expected output |
        ('sort', l) result must be a sorted permutation"""
        w = op.split()
        a = [int(x) for x in w[1:]]
        L = self.L
        o = w[0]
        if a and not (0 <= a[0] < len(L)):
            return ('skip',)
        if o in ('push_front', 'push_back'):
            if self.linked(a[1]):
                return ('skip',)
            if o == 'push_front':
                L[a[0]].insert(0, a[1])
            else:
                L[a[0]].append(a[1])
            return ('out', [])
        if o == 'insert_after':
            if self.linked(a[2]) or a[1] not in L[a[0]]:
                return ('skip',)
            L[a[0]].insert(L[a[0]].index(a[1]) + 1, a[2])
            return ('out', [])
        if o == 'erase_after':
            l = L[a[0]]
            if a[1] not in l or l.index(a[1]) + 1 >= len(l):
                return ('skip',)
            return ('out', [l.pop(l.index(a[1]) + 1)])
        if o == 'pop_front':
            return ('out', [L[a[0]].pop(0) if L[a[0]] else -1])
        if o == 'front':
            return ('out', [L[a[0]][0] if L[a[0]] else -1])
        if o == 'back':
            return ('out', [L[a[0]][-1] if L[a[0]] else -1])
        if o == 'size':
            return ('out', [len(L[a[0]])])
        if o == 'reverse':
            L[a[0]].reverse()
            return ('out', [])
        if o == 'sort':
            return ('sort', a[0])
        if o == 'concat':
            if a[0] == a[1] or not (0 <= a[1] < len(L)):
                return ('skip',)
            if self.offs[a[0]] != self.offs[a[1]]:
                return ('out', [])
            L[a[0]] += L[a[1]]
            L[a[1]] = []
            return ('out', [])
        if o == 'swap':
            if not (0 <= a[1] < len(L)):
                return ('skip',)
            L[a[0]], L[a[1]] = L[a[1]], L[a[0]]
            self.offs[a[0]], self.offs[a[1]] = self.offs[a[1]], self.offs[a[0]]
            return ('out', [])
        if o == 'foreach':
            l = L[a[0]]
            if a[1] >= 1 and a[1] <= len(l):
                return ('out', [a[1]] + l[:a[1]])
            return ('out', [0] + l)
        if o == 'fmove':
            # foreach over a[0] whose visitor pops the visited element off a[0] and pushes it onto the back of
            # a[1]; output: result, visits in which pop_front did not hand back the visited element, visit log
            if a[0] == a[1] or not (0 <= a[1] < len(L)):
                return ('skip',)
            l = L[a[0]]
            k = a[2] if 1 <= a[2] <= len(l) else len(l)
            moved = l[:k]
            L[a[0]] = l[k:]
            L[a[1]] = L[a[1]] + moved
            return ('out', [a[2] if 1 <= a[2] <= len(l) else 0, 0] + moved)
        if o == 'clear':
            out = list(L[a[0]])
            L[a[0]] = []
            return ('out', out)
        return ('skip',)

    def dump(self):
        parts = []
        for i, l in enumerate(self.L):
            parts.append('| L%d: %d %d %d %s' % (i, len(l), l[0] if l else -1, l[-1] if l else -1,
                                                 ' '.join(map(str, l))))
        return ' '.join(' '.join(parts).split())


def parse_dump(line):
    """'ok <out> | L0: ...' -> (out list, [lists as (size, front, back, items)])"""
    parts = line.split('|')
    out = [int(x) for x in parts[0].split()[1:]]
    lists = []
    for p in parts[1:]:
        w = p.split()[1:]
        v = [int(x) for x in w]
        lists.append((v[0], v[1], v[2], v[3:]))
    return out, lists


class C13(Spec):
    pid = 'C13'
    component = 'slist'
    extra_models = ('slistp',)
    driver = 'slist'
    lib_srcs = ['slist.c']
    header_words = ('keys', 'nlists', 'cmpmode', 'vsign', 'offs', 'mixedconcat')

    def oracle_only(self, c):
        # concat between lists threaded through different node members: the code leaves both lists alone, the model has
        # no notion of the member offset -> judged by the reference oracle alone
        return any(h.split()[0] == 'mixedconcat' for h in c.header)

    def more_variants(self, cases, tier, seed):
        out, n = [], 0
        for c in cases:
            nl = 1
            for h in c.header:
                w = h.split()
                if w[0] == 'nlists':
                    nl = int(w[1])
                if w[0] in ('offs', 'mixedconcat'):
                    nl = 0
            if nl < 2 or not any(o.split()[0] == 'concat' for o in c.ops) or any(o.split()[0] == 'fmove' for o in c.ops):
                continue
            n += 1
            if n % 3 == 0:
                out.append(Case(c.name + 'm', c.header + ['offs ' + ' '.join(str(i % 2) for i in range(nl)), 'mixedconcat 1'],
                                c.ops, c.origin))
        return out
    vsign_every = 2
    rule = ('cases = corpus + one case per edge of the breadth-first closure of the Coq model over a small scope '
            '(shortest path to the state + the operation) + seeded random histories; a case is non-trivial when '
            'its model trace has at least two completed operations; distinct = distinct (header, operations) text')
    trusted = ['modelled, not verified: the C statements of src/slist.c are transcribed by hand into SListModel.v '
               '(sequence + explicit tail/count fields); comparison callbacks are modelled as key projections']
    assumptions_text = ['elements are linked into at most one list at a time and positions passed to insert_after/'
                        'erase_after are in the list (documented preconditions)',
                        'concat of a list with itself is outside the domain']

    def header(self, case):
        keys, nl = [], 1
        for h in case.header:
            w = h.split()
            if w[0] == 'keys':
                keys = [int(x) for x in w[1:]]
            elif w[0] == 'nlists':
                nl = int(w[1])
        return keys, nl

    def oracle(self, case, impl):
        keys, nl = self.header(case)
        offs = []
        for h in case.header:
            if h.split()[0] == 'offs':
                offs = [int(x) for x in h.split()[1:]]
        ref = RefSList(nl, keys, offs)
        for i, op in enumerate(case.ops):
            r = ref.apply(op)
            if r[0] == 'skip':
                return None
            name = op.split()[0]
            if i >= len(impl):
                return ('%s:no-output' % name, 'no output for operation %d (%s)' % (i, op))
            line = impl[i]
            if not line.startswith('ok'):
                st = 'empty' if name == 'pop_front' and ref.L[int(op.split()[1])] == [] else 'state'
                return ('%s:%s:%s' % (name, st, line.split()[0]),
                        'operation %d (%s) ended in %s; expected normal return' % (i, op, line))
            try:
                out, lists = parse_dump(line)
            except Exception:
                return ('%s:garbled' % name, 'unparsable line %r' % line)
            if r[0] == 'sort':
                l = r[1]
                got = lists[l][3] if l < len(lists) else []
                if sorted(got) != sorted(ref.L[l]):
                    return ('sort:not-permutation', 'sort of %s gave %s' % (ref.L[l], got))
                if any(ref.key(got[j]) > ref.key(got[j + 1]) for j in range(len(got) - 1)):
                    return ('sort:not-sorted', 'sort result %s not ordered' % got)
                ref.L[l] = list(got)
                exp_out = []
            else:
                exp_out = r[1]
            if out != exp_out:
                return ('%s:wrong-result' % name, 'operation %d (%s) returned %s, reference %s' % (i, op, out, exp_out))
            exp = ref.dump()
            got = ' '.join(line.split('|', 1)[1].split()) if '|' in line else ''
            if '| ' + got != exp:
                return ('%s:wrong-state' % name, 'after operation %d (%s): lists %s, reference %s' % (i, op, got, exp))
        return None

    def closure(self, tier):
        if tier == 'quick':
            cases, st = self.bfs([2, 100000, 0, 0, 1, 1])
            cases += [Case(c.name + 'd', c.header + ['cmpmode 1'], c.ops, 'closure') for c in cases if any(o.startswith('sort') for o in c.ops)]
            from checks.c12 import offs_variants
            cases += offs_variants(cases, every=2)
        else:
            cases, st = self.bfs([3, 1000000, 1, 0, 1, 0])
            c2, st2 = self.bfs([2, 1000000, 2, 0, 1, 0, 1])
            cases += c2
            st = dict(states=st['states'] + st2['states'], transitions=st['transitions'] + st2['transitions'],
                      closed=st['closed'] and st2['closed'])
        return cases, st

    def random_cases(self, tier, seed):
        rnd = random.Random(seed * 7919 + 13)
        n = 300 if tier == 'quick' else 5000
        cases = []
        for ci in range(n):
            nl = rnd.choice([1, 2, 3])
            ne = rnd.choice([3, 5, 8, 12])
            keys = [rnd.randrange(0, rnd.choice([2, 3, 6])) for _ in range(ne)]
            ref = RefSList(nl, keys)
            ops = []
            length = rnd.choice([5, 10, 30, 80])
            for _ in range(length):
                for _try in range(20):
                    l = rnd.randrange(nl)
                    free = [e for e in range(ne) if not ref.linked(e)]
                    k = rnd.choice(['push_front', 'push_back', 'push_back', 'insert_after', 'erase_after',
                                    'pop_front', 'reverse', 'sort', 'concat', 'swap', 'foreach', 'clear',
                                    'front', 'back', 'size', 'erase_tail', 'insert_tail', 'fmove'])
                    if k in ('push_front', 'push_back') and free:
                        op = '%s %d %d' % (k, l, rnd.choice(free))
                    elif k == 'insert_after' and free and ref.L[l]:
                        op = 'insert_after %d %d %d' % (l, rnd.choice(ref.L[l]), rnd.choice(free))
                    elif k == 'insert_tail' and free and ref.L[l]:
                        op = 'insert_after %d %d %d' % (l, ref.L[l][-1], rnd.choice(free))
                    elif k == 'erase_after' and len(ref.L[l]) >= 2:
                        op = 'erase_after %d %d' % (l, rnd.choice(ref.L[l][:-1]))
                    elif k == 'erase_tail' and len(ref.L[l]) >= 2:
                        op = 'erase_after %d %d' % (l, ref.L[l][-2])
                    elif k in ('pop_front', 'reverse', 'sort', 'front', 'back', 'size'):
                        op = '%s %d' % (k, l)
                    elif k == 'clear' and rnd.random() < 0.3:
                        op = 'clear %d' % l
                    elif k == 'foreach':
                        op = 'foreach %d %d' % (l, rnd.randrange(0, 4))
                    elif k == 'fmove' and nl > 1:
                        m = rnd.choice([x for x in range(nl) if x != l])
                        op = 'fmove %d %d %d' % (l, m, rnd.choice([0, 0, 0, 1, 2, 3, 5]))
                    elif k in ('concat', 'swap') and nl > 1:
                        m = rnd.choice([x for x in range(nl) if x != l])
                        op = '%s %d %d' % (k, l, m)
                    else:
                        continue
                    r = ref.apply(op)
                    if r[0] == 'sort':
                        ref.L[r[1]] = sorted(ref.L[r[1]], key=ref.key)
                    ops.append(op)
                    break
            hdr = ['keys ' + ' '.join(map(str, keys)), 'nlists %d' % nl, 'cmpmode %d' % rnd.randrange(3)]
            if any(o.startswith('fmove') and int(o.split()[3]) > 0 for o in ops) and rnd.random() < 0.25:
                hdr.append('vsign -1')      # the moving visitor answers -stop (the engine's variants look at foreach only)
            cases.append(Case('rnd%d' % ci, hdr, ops, 'random'))
        from checks.c12 import offs_variants
        return cases + offs_variants(cases, every=1)


SPEC = C13()

MANIFEST = dict(
    text='Coq theorems (Properties_C13.v) over an executable model of src/slist.c: for every operation sequence the '
         'tail/count fields describe the chain, every call refines the reference sequence semantics, push_back appends '
         'at the true end, pop_front on empty returns NULL, nothing faults; foreach with a visitor that pops the visited element and appends it to another list (successor read before the visit) yields the reference split; a second, pointer-level model (heap of next links, one update '
         'per C assignment, recursive merge sort on stack-local heads) is proved to be simulated by the first for every history. Both models are tied to the C code on every run '
         'by differential execution (closure of the model state space in a small scope + seeded random histories) under ASan/UBSan.',
    note='trusted: Coq kernel; hand transcription of slist.c into SListModel.v validated only by the correspondence run; '
         'extraction (ExtrOcamlBasic) + OCaml runner; C driver; comparison callbacks modelled as key projections',
    technique='Coq proof (invariant + refinement by induction over operations) + model/code differential correspondence',
    design='6 (C13)')
